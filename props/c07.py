"""C07 — Decimal conversion is accurate in both directions."""
import os
import re
import shutil
import struct
import tempfile
from fractions import Fraction

from vlib import basic, mbf

LEVEL = 'proof'
RULE = ('printing: Integer/Single/Double byte patterns from vlib.mbf.gen_float, boundary exponent bytes, every power '
        'of ten (and d*10^k, (10^digits-1)*10^k) of the range with 0..3 ulps either side, the neighbourhood of the '
        'lim_top/lim_bot constants, exact integers up to 2^w; each (pattern, leading_space, type_sign) is one case; '
        'parsing: literals built from (sign, 1..20(40) digits with leading/trailing zeros, point position, exponent '
        'letter E/D/e/d with sign and value over the whole range, sigil !#%, blanks/tabs/line feeds inserted at '
        'random places, trailing junk), each (text, allow_nonnum) is one case; non-trivial = not the zero pattern / '
        'not the empty string; the same values go through a real Session: PRINT, STR$, WRITE, VAL, program '
        'literals + LIST (re-entered and listed again), READ/DATA, INPUT# from a file, STR$/VAL chains; the parsing '
        'and Session slices are repeated with the interpreter option double=True (Values.double_math), which the '
        'decimal conversions must not depend on; &H/&O literals with plain digit '
        'strings (octal ones with blanks between the digits)')
EXPLANATION = ('theorems (PcbV.Props.C07): literal type rule of str_to_decimal (sigil, exponent letter, significant '
               'digit count) and integer-first rule of from_repr, exact decimal text and parse-back of the Integer type, '
               'digit bound of to_decimal (mantissa < 10^digits through both loops and carries), notation choice and '
               'exponent field of to_str, zero mantissa; one-step error of _mul10_den (relative <= 17/(16 den_mask)) and '
               '_div10_den (<= 17/(8 den_mask)), lifted over |exp10| steps and the closing _normalise to '
               'parse_error_bound_weak ((1/2+|e|/116) ulp for e>=0, (1/2+|e|/58) ulp for e<0, |m|<2^w, |e|<=100) and '
               'parse_error_bound_partial (<1 ulp for -28<=e<=57), print_scaling_partial (error of the two scaling loops '
               'of to_decimal); the <1 ulp parse bound for e<=-29 and the <1 unit print bound (carries + final '
               'rounding) are stated and checked by the oracle only; correspondence: to_repr / to_decimal / '
               'str_to_decimal / from_decimal / from_repr / notation helpers of the real code against the compiled Lean '
               'model; oracle: exact Fraction comparison of shown vs stored and parsed vs written value, digit '
               'count, exact integers, type rule, & literals, also through Session.execute (PRINT, STR$, WRITE, VAL, '
               'program literals + LIST + re-entry, READ/DATA, STR$/VAL chains)')
TRUSTED_BASE = ['model PcbV.Model.Decimal (+ PcbV.Model.Mbf) is a hand transcription of numbers.py to_decimal/to_str/'
                'str_to_decimal/from_decimal, Integer.to_str/from_str and values.py from_repr/to_repr',
                'Mathlib modules for rational arithmetic (Linarith, Ring, NormNum, Positivity, ordered fields) in the '
                'lemma files Lemmas/C04Rat, DecimalErr, DecimalChain and in Props/C07']
ASSUMPTIONS = ['Python int(bytes, base) on plain digit strings and b"%d" formatting behave as documented',
               '& literals that are not plain hex/octal digit strings (Python int() extras such as "_", "+", "0x") '
               'are outside the model (they belong to C01)']

DIGITS = {'s': 7, 'd': 16}
SIGIL = {'i': b'%', 's': b'!', 'd': b'#'}
SIZE = {'i': 2, 's': 4, 'd': 8}
KNOWN_TRUNC = 'parse-ulp:mantissa-truncated:'   # + type
KNOWN_HUGE = 'parse-overflow:digit-string-exceeds-range:'   # + type
BLANK_IN_EXP = re.compile(br'[EDed][ \t]+[+-]')


def _fail(ctx, key, case, what):
    """ctx.fail, but at most 8 reports per failure class, so that a frequent (e.g. known) class cannot
    use up the framework's cap and hide a different one."""
    seen = ctx.notes.setdefault('_c07_classes', {})
    cls = ':'.join(key.split(':')[:2])
    seen[cls] = seen.get(cls, 0) + 1
    if seen[cls] <= 8:
        ctx.fail(key, case, what)
    else:
        ctx.count('more-of:' + cls)


# ---------------------------------------------------------------------------------------------
# exact helpers (independent of implementation and model)

def ilog2(q):
    k = q.numerator.bit_length() - q.denominator.bit_length()
    if Fraction(2) ** k > q:
        k -= 1
    elif Fraction(2) ** (k + 1) <= q:
        k += 1
    return k


def encode(fs, q, mode='near'):
    """MBF pattern of the exact value q rounded to nearest (or truncated); clamps to the range."""
    f = mbf.FMT[fs]
    w = f['w']
    if q == 0:
        return bytes(f['size'])
    neg = q < 0
    a = abs(q)
    k = ilog2(a)
    scaled = a / Fraction(2) ** (k - (w - 1))
    man = int(scaled)
    if mode == 'near' and scaled - man >= Fraction(1, 2):
        man += 1
    if man >= 1 << w:
        man >>= 1
        k += 1
    e = k + 129
    if e < 1:
        return mbf.make(fs, neg, 1 << (w - 1), 1)
    if e > 255:
        return mbf.make(fs, neg, (1 << w) - 1, 255)
    return mbf.make(fs, neg, man, e)


def step(fs, b, d):
    """d patterns further from zero (d<0 closer), same sign, staying inside the non-zero patterns."""
    w = mbf.FMT[fs]['w']
    e = b[-1]
    if e == 0:
        return b
    m = int.from_bytes(bytes(b[:-1]), 'little')
    neg = m >= 1 << (w - 1)
    idx = (e << (w - 1)) | (m & ((1 << (w - 1)) - 1))
    idx = max(1 << (w - 1), min((256 << (w - 1)) - 1, idx + d))
    return mbf.make(fs, neg, (idx & ((1 << (w - 1)) - 1)) | (1 << (w - 1)), idx >> (w - 1))


def value(t, b):
    if t == 'i':
        return Fraction(struct.unpack('<h', bytes(b))[0])
    return mbf.val(t, b)


MAXV = {fs: mbf.val(fs, b'\xff' * (mbf.FMT[fs]['size'] - 2) + b'\x7f\xff') for fs in 'sd'}
MINV = Fraction(1, 2 ** 128)


# ---------------------------------------------------------------------------------------------
# the real code

class FakeConsole(object):
    def __init__(self):
        self.msgs = []

    def write_line(self, m):
        self.msgs.append(m)


class Impl(mbf.Impl):
    """numbers.* decimal methods, values.to_repr / Values.from_repr of the real code."""

    def __init__(self, double_math=False):
        mbf.Impl.__init__(self)
        # the Values option behind Session(double=True); decimal conversion must not depend on it
        self.double_math = bool(double_math)
        self.vs = self.values.Values(None, self.double_math)
        self.vs.set_handler(self.values.FloatErrorHandler(None))
        self.con = FakeConsole()
        self.vsoft = self.values.Values(None, self.double_math)
        self.vsoft.set_handler(self.values.FloatErrorHandler(self.con))
        self.cls['i'] = self.numbers.Integer

    def tname(self, r):
        n = self.numbers
        return 'i' if isinstance(r, n.Integer) else 's' if isinstance(r, n.Single) else \
            'd' if isinstance(r, n.Double) else '?' + type(r).__name__

    def tostr(self, t, b, ls, ts):
        try:
            x = self.cls[t](None, self.vs).from_bytes(bytes(b))
            return 'ok ' + mbf.hx(self.values.to_repr(x, bool(ls), bool(ts)))
        except self.error.BASICError as e:
            return 'err %d' % e.err
        except Exception as e:
            return 'exc %s' % type(e).__name__

    def todec(self, fs, b, digits):
        try:
            m, e = self.num(fs, b).to_decimal(digits)
            return 'ok %d %d' % (m, e)
        except Exception as e:
            return 'exc %s' % type(e).__name__

    def scan(self, word, allow):
        try:
            d, m, e = self.numbers.str_to_decimal(word, bool(allow))
            return 'ok %d %d %d' % (int(bool(d)), m, e)
        except ValueError:
            return 'valueerror'
        except Exception as e:
            return 'exc %s' % type(e).__name__

    def fromdec(self, fs, m, e):
        return self._res(lambda: self.cls[fs](None, self.vs).from_decimal(m, e))

    def fromrepr(self, word, allow):
        self.con.msgs[:] = []
        try:
            r = self.vsoft.from_repr(word, bool(allow))
        except self.error.BASICError as e:
            return 'err %d' % e.err
        except Exception as e:
            return 'exc %s' % type(e).__name__
        t = self.tname(r)
        body = '%s %s' % (t, mbf.hx(r.to_bytes()))
        if self.con.msgs:
            codes = {v: k for k, v in self.error.BASICError.messages.items()} \
                if hasattr(self.error.BASICError, 'messages') else {}
            return 'soft %s %s' % (codes.get(self.con.msgs[0], 6 if b'verflow' in self.con.msgs[0] else '?'), body)
        return 'ok ' + body

    def notation(self, kind, fs, digitstr, exp10, *flags):
        x = self.cls[fs](None, self.vs)
        try:
            if kind == 'sci':
                return 'ok ' + mbf.hx(x._scientific_notation(digitstr, exp10, flags[0], bool(flags[1])))
            return 'ok ' + mbf.hx(x._decimal_notation(digitstr, exp10, bool(flags[0]), bool(flags[1]), bool(flags[2])))
        except Exception as e:
            return 'exc %s' % type(e).__name__


# ---------------------------------------------------------------------------------------------
# oracle for printing (from the statement)

TEXT_RX = re.compile(br'^( |-)?(\d*)(?:\.(\d*))?(?:([ED])([+-])(\d+))?([!#%])?$')


def parse_shown(text):
    """(shown value, unit of the last digit shown, significant digits, plain) of a printed number; None if the
    text is not a decimal number at all."""
    m = TEXT_RX.match(text)
    if not m or not (m.group(2) or m.group(3)):
        return None
    sign, ip, fp, el, es, ed, sig = m.groups()
    ip, fp = ip or b'', fp or b''
    e10 = (int(ed) if es == b'+' else -int(ed)) if el else 0
    digs = ip + fp
    shown = Fraction(int(digs)) * Fraction(10) ** (e10 - len(fp))
    if sign == b'-':
        shown = -shown
    unit = Fraction(10) ** (e10 - len(fp))
    nsig = len(digs.lstrip(b'0'))
    plain = (not el) and m.group(3) is None
    return shown, unit, nsig, plain, digs, sig


def check_shown(ctx, t, b, text, where, case):
    """The statement's demands on one shown number."""
    v = value(t, b)
    p = parse_shown(text)
    if p is None:
        _fail(ctx, 'print:not-a-number:%s:%s' % (t, where), case, 'shown text %r is not a decimal number' % (text,))
        return
    shown, unit, nsig, plain, digs, sig = p
    if t == 'i':
        if shown != v or not plain:
            _fail(ctx, 'print:int:%d' % v, case, 'Integer %d shown as %r' % (v, text))
        return
    nd = DIGITS[t]
    if nsig > nd:
        _fail(ctx, 'print:digits:%s:%s' % (t, mbf.hx(b)), case, '%r shows %d significant digits (> %d)' % (text, nsig, nd))
    err = abs(shown - v)
    if not err < unit:
        _fail(ctx, 'print:error:%s:%s' % (t, mbf.hx(b)), case,
                 '%r differs from the stored value by %s units of the last digit shown' % (text, float(err / unit)))
    if v.denominator == 1 and abs(v) < 10 ** nd:
        if shown != v or not plain:
            _fail(ctx, 'print:exact-int:%s:%d' % (t, v), case, 'integer value %d shown as %r' % (v, text))
        ctx.count('print:exact-integer')
    # statistics: error in units of the digits-th significant place
    if v != 0:
        lead = len(str(abs(int(digs)))) if int(digs) else 1
        u7 = unit * Fraction(10) ** (lead - nd) if lead >= nd else unit / Fraction(10) ** (nd - lead)
        r = float(err / u7)
        key = 'max_print_err_%s' % t
        if r > ctx.notes.get(key, 0.0):
            ctx.notes[key] = r
        if r > 0.5:
            ctx.count('print:err>0.5unit_of_digit_%d' % nd)


# ---------------------------------------------------------------------------------------------
# generators: patterns to print

def lim_patterns(fs):
    from pcbasic.basic.values import numbers
    cls = {'s': numbers.Single, 'd': numbers.Double}[fs]
    return [bytes(cls._lim_top), bytes(cls._lim_bot)]


def print_patterns(rng, fs, n_random):
    f = mbf.FMT[fs]
    w = f['w']
    nd = DIGITS[fs]
    out = []
    # powers of ten and friends over the whole range
    for k in range(-39, 39):
        bases = [Fraction(10) ** k]
        if rng.random() < 0.5:
            bases.append(rng.randrange(2, 10) * Fraction(10) ** k)
        if rng.random() < 0.5:
            bases.append((10 ** nd - 1) * Fraction(10) ** (k - nd + 1))
        if rng.random() < 0.3:
            bases.append((10 ** nd - rng.randrange(1, 20)) * Fraction(10) ** (k - nd + 1) + Fraction(10) ** (k - nd) * 5)
        for q in bases:
            if not (MINV <= q <= MAXV[fs]):
                continue
            b0 = encode(fs, q)
            for d in rng.sample([-3, -2, -1, 0, 1, 2, 3], 3):
                b1 = step(fs, b0, d)
                out.append(b1 if rng.random() < 0.7 else bytes(bytearray(b1[:-2]) + bytearray([b1[-2] ^ 0x80, b1[-1]])))
    # the limit constants and their neighbourhood, scaled by small powers of ten
    for lb in lim_patterns(fs):
        for d in (-2, -1, 0, 1, 2, 127, 128, 129, 255, 256, 257):
            out.append(step(fs, lb, d))
            out.append(step(fs, lb, -d))
    # integers
    ints = [1, 2, 3, 9, 10, 11, 99, 100, 101, 32767, 32768, 65535, 65536, 10 ** (nd - 1) - 1, 10 ** (nd - 1),
            10 ** nd - 1, 10 ** nd, 10 ** nd + 1, (1 << w) - 1, 1 << w, (1 << w) + 2, (1 << (w - 1)) - 1]
    for _ in range(40):
        ints.append(rng.randrange(1, 10 ** rng.randrange(1, nd + 2)))
        ints.append(rng.randrange(1, 10 ** rng.randrange(1, nd)) * 10 ** rng.randrange(0, 6))
    for n in ints:
        out.append(encode(fs, Fraction(n if rng.random() < 0.7 else -n)))
    # short decimals (what users type): d.dd, .0ddd
    for _ in range(60):
        q = Fraction(rng.randrange(1, 10 ** rng.randrange(1, 5)), 10 ** rng.randrange(0, 12))
        out.append(encode(fs, q))
    # boundary exponent bytes
    for e in (1, 2, 3, 127, 128, 129, 130, 254, 255, f['bias'] - 1, f['bias'], f['bias'] + 1):
        for man in ((1 << (w - 1)), (1 << w) - 1, (1 << (w - 1)) + 1, (1 << (w - 1)) | rng.randrange(1 << (w - 1))):
            out.append(mbf.make(fs, rng.random() < 0.3, man, e))
    # zeros
    out += [bytes(f['size']), bytes(f['size'] - 2) + b'\x80\x00', b'\xff' * (f['size'] - 1) + b'\x00']
    for _ in range(n_random):
        out.append(mbf.gen_float(rng, fs))
    return out


def int_patterns(rng, n):
    vals = set([0, 1, -1, 9, 10, -10, 99, 100, 255, 256, 999, 1000, 9999, 10000, 32767, -32767, -32768, 12345, -9])
    for k in range(16):
        vals.update([(1 << k) - 1, min(1 << k, 32767), -(1 << k)])
    while len(vals) < n:
        vals.add(rng.randrange(-32768, 32768))
    return [struct.pack('<h', v) for v in sorted(vals)]


# ---------------------------------------------------------------------------------------------
# generators: literals to parse

BLANK_CH = [b' ', b' ', b' ', b'\t', b'\n']


class Lit(object):
    """A literal built from its parts (the oracle works from the parts, not from the text)."""

    def __init__(self, rng, wild=False):
        r = rng.random
        self.sign = rng.choice([b'', b'', b'', b'-', b'+'])
        nd = rng.choice([1, 1, 2, 3, 5, 6, 7, 8, 9, 15, 16, 17, 18, 20]) if r() < 0.6 else rng.randrange(1, 21)
        if r() < 0.03:
            nd = rng.randrange(21, 42)
        k = r()
        if k < 0.15:
            core = rng.choice(b'123456789'.decode()) + '0' * (nd - 1)            # d000…
        elif k < 0.3:
            core = '9' * nd
        elif k < 0.4:
            core = '1' + '0' * max(0, nd - 2) + rng.choice('0123456789') if nd > 1 else rng.choice('0123456789')
        elif k < 0.45:
            core = '0' * nd
        else:
            core = ''.join(rng.choice('0123456789') for _ in range(nd))
        if r() < 0.3:
            core = '0' * rng.randrange(1, 6) + core                              # leading zeros
        if r() < 0.3:
            core = core + '0' * rng.randrange(1, 9)                              # trailing zeros
        self.digits = core
        pk = r()
        if pk < 0.35:
            self.point = None
        elif pk < 0.45:
            self.point = 0
        elif pk < 0.55:
            self.point = len(core)
        else:
            self.point = rng.randrange(0, len(core) + 1)
        ek = r()
        if ek < 0.4:
            self.expl, self.exps, self.expv = b'', b'', None
        else:
            self.expl = rng.choice([b'E', b'D', b'e', b'd', b'E', b'D'])
            self.exps = rng.choice([b'', b'+', b'-', b'-'])
            j = r()
            if j < 0.3:
                self.expv = rng.randrange(0, 10)
            elif j < 0.6:
                self.expv = rng.randrange(10, 60)
            elif j < 0.85:
                self.expv = rng.choice([36, 37, 38, 39, 40, 45, 46, 47, 54, 55, 56, 57, 58])
            elif j < 0.95:
                self.expv = rng.randrange(60, 130)
            else:
                self.expv = None                                                 # bare exponent letter
        sk = r()
        self.sigil = b'' if sk < 0.6 else b'!' if sk < 0.75 else b'#' if sk < 0.9 else b'%'
        if self.expl and self.sigil in (b'!', b'#') and r() < 0.8:
            self.sigil = b''
        self.junk = b''
        if wild and r() < 0.5:
            self.junk = rng.choice([b'A', b'.', b'..5', b'E5', b'-', b'+3', b'!', b'#', b'%', b'\x1c', b'\x1d1', b'\x1f',
                                    b'&H1', b',', b'"', b'\x00', b'\xff', b'D', b'e', b'L', b'_', b'1_0'])
        # assemble, then scatter blanks
        mant = core if self.point is None else core[:self.point] + '.' + core[self.point:]
        expo = b''
        if self.expl:
            expo = self.expl + self.exps + (str(self.expv).encode() if self.expv is not None else b'')
            if self.expv is not None and r() < 0.2:
                expo = self.expl + self.exps + b'0' * rng.randrange(1, 3) + str(self.expv).encode()
        text = self.sign + mant.encode() + expo + self.sigil + self.junk
        self.blanks = 0
        if r() < 0.4:
            chars = [text[i:i + 1] for i in range(len(text))]
            for _ in range(rng.randrange(1, 5)):
                pos = rng.randrange(0, len(chars) + 1)
                chars.insert(pos, rng.choice(BLANK_CH))
                self.blanks += 1
            text = b''.join(chars)
        self.text = text

    def clean(self):
        """No junk, no '%': the literal is well formed for allow_nonnum=False."""
        return not self.junk and self.sigil != b'%' and not (self.expl and self.sigil)

    def decimal(self):
        frac = 0 if self.point is None else len(self.digits) - self.point
        e = 0
        if self.expl and self.expv is not None:
            e = -self.expv if self.exps == b'-' else self.expv
        q = Fraction(int(self.digits)) * Fraction(10) ** (e - frac)
        return -q if self.sign == b'-' else q

    def sigdigits(self):
        d = self.digits.lstrip('0')
        if self.point is not None:
            frac = len(self.digits) - self.point
            tz = len(d) - len(d.rstrip('0'))
            d = d[:len(d) - min(tz, frac)] if d else d
        return len(d)

    def allowed_types(self):
        """Type rule of the statement: sigil, then exponent letter, then digit count; plain small integers are
        Integers."""
        if self.sigil == b'!':
            return 's'
        if self.sigil == b'#':
            return 'd'
        if self.expl.upper() == b'D':
            return 'd'
        many = self.sigdigits() > 7
        if self.expl:
            return 'sd' if many else 's'
        plain = (self.point is None and not self.sign and not self.sigil)
        if plain and int(self.digits) <= 32767:
            # blanks inside the digit string make the implementation read it as a Single of the same value
            return 'i' if b' ' not in self.text.strip(b' \t\n') and b'\t' not in self.text.strip(b' \t\n') \
                and b'\n' not in self.text.strip(b' \t\n') else 'is'
        return 'd' if many else 's'


def check_parsed(ctx, lit, out, where, case):
    """The statement's demands on one parsed literal; `out` is the adapter's reply."""
    parts = out.split()
    if parts[0] == 'err' or parts[0] == 'exc':
        _fail(ctx, 'parse:%s:%s' % (out.replace(' ', '-'), where), case, 'well-formed literal %r gives %s' % (lit.text, out))
        return
    if parts[0] == 'soft':
        t, b = parts[2], mbf.unhx(parts[3])
    else:
        t, b = parts[1], mbf.unhx(parts[2])
    dec = lit.decimal()
    allowed = lit.allowed_types()
    if t not in allowed:
        _fail(ctx, 'parse:type:%s-for-%s' % (t, allowed), case,
                 'literal %r stored as type %s, the rule says %s' % (lit.text, t, allowed))
        return
    ctx.count('parse:type:' + t)
    if t == 'i':
        if value('i', b) != dec:
            _fail(ctx, 'parse:int-value', case, 'literal %r stored as Integer %s' % (lit.text, value('i', b)))
        return
    if parts[0] == 'soft':
        ctx.count('parse:overflow')
        # Overflow: legitimate only when the decimal value is (all but) outside the range
        if not abs(dec) > MAXV[t] - mbf.ulp(t, b'\x00' * (SIZE[t] - 1) + b'\xff'):
            # the digit string taken as an integer is itself beyond the range: a specific, known cause
            k = KNOWN_HUGE + t if int(lit.digits) > MAXV[t] else 'parse:spurious-overflow:' + t
            _fail(ctx, k, case, 'literal %r (in range) reports Overflow' % (lit.text,))
        elif (value(t, b) < 0) != (dec < 0) or abs(value(t, b)) != MAXV[t]:
            _fail(ctx, 'parse:overflow-value:' + t, case, 'Overflow supplies %s' % mbf.hx(b))
        return
    v = value(t, b)
    if b[-1] == 0:
        ctx.count('parse:zero')
        if not abs(dec) < MINV * (1 + Fraction(1, 2 ** 20)):
            _fail(ctx, 'parse:zero-for-nonzero:' + t if dec != 0 else 'parse:zero', case,
                     'literal %r (value %s) stored as zero' % (lit.text, float(dec)))
        return
    u = mbf.ulp(t, b)
    err = abs(v - dec)
    rel = float(err / u)
    key = 'max_parse_err_ulp_%s' % t
    w = mbf.FMT[t]['w']
    truncated = int(lit.digits) >= (1 << w)
    if not truncated and rel > ctx.notes.get(key, 0.0):
        ctx.notes[key] = rel
    if truncated and rel > ctx.notes.get(key + '_truncated_mantissa', 0.0):
        ctx.notes[key + '_truncated_mantissa'] = rel
    if not err < u:
        if dec == 0:
            k = 'parse:nonzero-for-zero:' + t
        elif truncated:
            k = KNOWN_TRUNC + t
        else:
            k = 'parse:error:%s:%s' % (t, lit.text.decode('latin-1'))
        _fail(ctx, k, case, 'literal %r stored as %s, %.3f ulp from the decimal value' % (lit.text, mbf.hx(b), rel))


# ---------------------------------------------------------------------------------------------
# correspondence + oracle at the level of the anchored functions

def run_printing(ctx, impl, n_random):
    rng = ctx.rng
    cases, lines, outs = [], [], []
    todo = [('i', b) for b in int_patterns(rng, 150 if ctx.quick else 2000)]
    for fs in 'sd':
        todo += [(fs, b) for b in print_patterns(rng, fs, n_random)]
    for t, b in todo:
        combos = [(1, 0), (0, 1)] if rng.random() < 0.7 else [(0, 0), (1, 1)]
        for ls, ts in combos:
            out = impl.tostr(t, b, ls, ts)
            cases.append([t, mbf.hx(b), ls, ts])
            lines.append('tostr %s %s %d %d' % (t, mbf.hx(b), ls, ts))
            outs.append(out)
            ctx.case(('tostr', t, bytes(b), ls, ts))
            ctx.count('tostr:' + t)
            case = {'kind': 'tostr', 't': t, 'b': mbf.hx(b), 'ls': ls, 'ts': ts}
            if not out.startswith('ok '):
                _fail(ctx, 'print:%s' % out.replace(' ', '-'), case, 'to_repr gives %s' % out)
                continue
            text = mbf.unhx(out[3:])
            if b'E' in text or b'D' in text[1:]:
                ctx.count('notation:scientific')
            else:
                ctx.count('notation:fixed')
            if ls and not text[:1] in (b' ', b'-'):
                _fail(ctx, 'print:leading-space', case, 'no leading space/sign in %r' % (text,))
            if not ls and text[:1] == b' ':
                _fail(ctx, 'print:leading-space', case, 'unexpected leading space in %r' % (text,))
            check_shown(ctx, t, b, text, 'to_repr', case)
        if t != 'i' and b[-1] != 0 and rng.random() < 0.5:
            dg = rng.choice([DIGITS[t], DIGITS[t], DIGITS[t] + 1, 1, 2, 3, DIGITS[t] - 1, 0, -1, rng.randrange(0, 17)])
            cases.append([t, mbf.hx(b), dg])
            lines.append('todec %s %s %d' % (t, mbf.hx(b), dg))
            outs.append(impl.todec(t, b, dg))
            ctx.case(('todec', t, bytes(b), dg))
            ctx.count('todec')
    ctx.compare(cases, outs, lines, 'print')
    ctx.sample({'tostr': cases[len(cases) // 2], 'impl': outs[len(cases) // 2]})


def run_notation(ctx, impl, n):
    rng = ctx.rng
    cases, lines, outs = [], [], []
    for _ in range(n):
        fs = rng.choice('sd')
        ds = ''.join(rng.choice('0123456789') for _ in range(rng.randrange(0, 18))).encode()
        e = rng.randrange(-45, 45) if rng.random() < 0.7 else rng.randrange(-3, 20)
        if rng.random() < 0.5:
            dd, fd = rng.randrange(0, 5), rng.randrange(2)
            lines.append('sci %s %s %d %d %d' % (fs, mbf.hx(ds), e, dd, fd))
            outs.append(impl.notation('sci', fs, ds, e, dd, fd))
        else:
            ts, fd, gr = rng.randrange(2), rng.randrange(2), rng.randrange(2)
            lines.append('fix %s %s %d %d %d %d' % (fs, mbf.hx(ds), e, ts, fd, gr))
            outs.append(impl.notation('fix', fs, ds, e, ts, fd, gr))
        cases.append(lines[-1])
        ctx.case(lines[-1])
        ctx.count('notation-helper')
    ctx.compare(cases, outs, lines, 'notation')


def run_parsing(ctx, impl, n):
    rng = ctx.rng
    cases, lines, outs = [], [], []
    fixed = [b'', b' ', b'0', b'00', b'.', b'-', b'+', b'E', b'D', b'.E', b'0E1', b'0E5', b'0D3', b'-0', b'0.0', b'.0E2',
             b'1E', b'1E+', b'1D-', b'32767', b'32768', b'-32768', b'65535', b'9999999', b'10000000', b'1.0000000',
             b'1.50000000', b'00000000001', b'0.00000000001', b'16777216', b'16777217', b'1E38', b'1.7E38',
             b'1.70141E38', b'1.701412E38', b'1.8E38', b'2.9E-39', b'2.938735E-39', b'2.938736E-39', b'3E-39',
             b'1E-38', b'1D38', b'1.701411834604692D+38', b'1.701411834604693D+38', b'72057594037927935',
             b'72057594037927936', b'72057594037927937', b'&H', b'&HFFFF', b'&H10000', b'&H7FFF', b'&O', b'&O177777',
             b'&O200000', b'&777', b'&', b'&hff', b'&o17', b'  \n 12', b'\t12', b'12\t', b'1 2', b'- 5', b'1\x1c2']
    lits = [None] * len(fixed) + [Lit(rng, wild=(rng.random() < 0.25)) for _ in range(n)]
    for i, lit in enumerate(lits):
        text = fixed[i] if lit is None else lit.text
        for allow in (1, 0):
            if lit is not None and rng.random() < 0.5 and allow == 0:
                continue
            out = impl.fromrepr(text, allow)
            cases.append([mbf.hx(text), allow])
            lines.append('fromrepr %s %d' % (mbf.hx(text), allow))
            outs.append(out)
            ctx.case(('fromrepr', text, allow, impl.double_math))
            ctx.count('fromrepr:' + out.split()[0])
            case = {'kind': 'fromrepr', 'text': mbf.hx(text), 'allow': allow, 'double_math': impl.double_math}
            if out.startswith('exc'):
                _fail(ctx, 'parse:host-exception:%s' % out.split()[1], case,
                         'from_repr(%r) raised a host exception %s' % (text, out))
            if lit is not None and lit.clean():
                check_parsed(ctx, lit, out, 'from_repr' + (':double_math' if impl.double_math else ''),
                             dict(case, lit=lit_parts(lit)))
        if lit is None or rng.random() < 0.4:
            allow = rng.randrange(2)
            cases.append([mbf.hx(text), allow])
            lines.append('scan %s %d' % (mbf.hx(text), allow))
            outs.append(impl.scan(text, allow))
            ctx.case(('scan', text, allow))
            ctx.count('scan')
    # from_decimal directly (mantissa, exp10) incl. values no text reaches
    for _ in range(n // 2):
        fs = rng.choice('sd')
        m = rng.choice([0, 1, -1, 10, 9999999, 10 ** 7, (1 << 24) - 1, 1 << 24, (1 << 56) - 1, 1 << 56,
                        rng.randrange(10 ** rng.randrange(1, 25))])
        if rng.random() < 0.3:
            m = -m
        e = rng.choice([0, 1, -1, 38, -38, 39, -39, -45, rng.randrange(-70, 70)])
        cases.append([fs, m, e])
        lines.append('fromdec %s %d %d' % (fs, m, e))
        outs.append(impl.fromdec(fs, m, e))
        ctx.case(('fromdec', fs, m, e))
        ctx.count('fromdec')
    ctx.compare(cases, outs, lines, 'parse')
    ctx.sample({'fromrepr': cases[len(fixed) * 2 + 1], 'impl': outs[len(fixed) * 2 + 1]})


def run_radix(ctx, impl, n, session=None):
    """&H / &O / & literals: plain digit strings, octal ones possibly interrupted by blanks (the only & forms the
    model covers); oracle: the unsigned 16-bit value, Overflow beyond 65535."""
    rng = ctx.rng
    cases, lines, outs = [], [], []
    for i in range(n):
        k = rng.random()
        if k < 0.4:
            digs = ''.join(rng.choice('0123456789ABCDEFabcdef') for _ in range(rng.randrange(1, 6)))
            text, val = b'&' + rng.choice([b'H', b'h']) + digs.encode(), int(digs, 16)
        else:
            digs = ''.join(rng.choice('01234567') for _ in range(rng.randrange(1, 8)))
            body = digs
            if rng.random() < 0.5:
                chars = list(digs)
                for _ in range(rng.randrange(1, 4)):
                    chars.insert(rng.randrange(0, len(chars) + 1), rng.choice([' ', ' ', '\t']))
                body = ''.join(chars)
            text, val = b'&' + rng.choice([b'O', b'o', b'']) + body.encode(), int(digs, 8)
            if text[1:2] in (b' ', b'\t'):
                text = b'&O' + text[1:]
        for allow in ((1, 0) if rng.random() < 0.3 else (rng.randrange(2),)):
            out = impl.fromrepr(text, allow)
            cases.append([mbf.hx(text), allow])
            lines.append('fromrepr %s %d' % (mbf.hx(text), allow))
            outs.append(out)
            ctx.case(('radix', text, allow))
            ctx.count('radix:' + out.split()[0])
            case = {'kind': 'radix', 'text': mbf.hx(text), 'val': val}
            want = 'ok i ' + mbf.hx(struct.pack('<H', val)) if val <= 65535 else 'err 6'
            if out != want:
                _fail(ctx, 'radix:%s' % ('overflow' if val > 65535 else out.split()[0]), case,
                      'from_repr(%r) gives %s, expected %s' % (text, out, want))
        if session is not None and i < 60 and b'\t' not in text:
            out = basic.safe_exec(session, b'LOCATE 1,1:PRINT ' + text + b';VAL("' + text + b'")')
            ctx.case(('session-radix', text))
            ctx.count('session:radix')
            sv = val - 65536 if val >= 32768 else val
            want = (b' %d ' % sv).replace(b' -', b'-') * 2 + b'\r\n' if val <= 65535 else None
            if (want is not None and out != want) or (want is None and b'Overflow' not in out):
                _fail(ctx, 'session-radix:%s' % ('host-exception' if b'<<EXC' in out else 'value'),
                      dict(case, session=True), 'PRINT %r;VAL(...) printed %r, expected %r' % (text, out, want))
    ctx.compare(cases, outs, lines, 'radix')



def lit_parts(lit):
    return {'text': mbf.hx(lit.text), 'sign': lit.sign.decode(), 'digits': lit.digits, 'point': lit.point,
            'expl': lit.expl.decode(), 'exps': lit.exps.decode(), 'expv': lit.expv, 'sigil': lit.sigil.decode()}


def lit_from_parts(p):
    lit = Lit.__new__(Lit)
    lit.text = mbf.unhx(p['text'])
    lit.sign, lit.digits, lit.point = p['sign'].encode(), p['digits'], p['point']
    lit.expl, lit.exps, lit.expv, lit.sigil = p['expl'].encode(), p['exps'].encode(), p['expv'], p['sigil'].encode()
    lit.junk = b''
    return lit


# ---------------------------------------------------------------------------------------------
# the same through a real Session

def session_printing(ctx, impl, s, n):
    rng = ctx.rng
    pats = []
    for fs in 'sd':
        pp = print_patterns(rng, fs, 0)
        pats += [(fs, b) for b in rng.sample(pp, min(len(pp), n // 3))]
        pats += [(fs, mbf.gen_float(rng, fs)) for _ in range(n // 6)]
    pats += [('i', b) for b in rng.sample(int_patterns(rng, 100), 20)]
    for t, b in pats:
        conv = {'i': b'CVI', 's': b'CVS', 'd': b'CVD'}[t]
        var = b'A' + SIGIL[t]
        s.set_variable('S$', bytes(b))
        out = basic.safe_exec(s, b'LOCATE 1,1:%s=%s(S$):PRINT "[";%s;"]";STR$(%s);"|":WRITE %s' % (var, conv, var, var, var))
        ctx.case(('session-print', t, bytes(b)))
        ctx.count('session:print')
        case = {'kind': 'session-print', 't': t, 'b': mbf.hx(b)}
        m = re.match(br'^\[(.*) \](.*)\|\r\n(.*)\r\n$', out)
        if not m:
            _fail(ctx, 'session-print:output', case, 'unexpected output %r' % (out,))
            continue
        for text, where, ls in ((m.group(1), 'PRINT', 1), (m.group(2), 'STR$', 1), (m.group(3), 'WRITE', 0)):
            check_shown(ctx, t, b, text, where, case)
            want = impl.tostr(t, b, ls, 0)
            if want.startswith('ok ') and mbf.unhx(want[3:]) != text:
                _fail(ctx, 'session-print:differs-from-to_repr:' + where, case,
                         '%s shows %r, to_repr gives %r' % (where, text, mbf.unhx(want[3:])))


def session_parsing(ctx, impl, s, n, double=False, drive=None):
    """VAL, program literals (tokenised, run, listed, re-entered), READ/DATA and INPUT# from a file."""
    rng = ctx.rng
    for _ in range(n):
        lit = Lit(rng)
        if not lit.clean() or b'\n' in lit.text:
            continue
        text = lit.text
        case = {'kind': 'session-parse', 'lit': lit_parts(lit), 'double': bool(double)}
        if drive and not lit.blanks and rng.random() < 0.5:
            # INPUT# reads the item from a text file (from_repr with allow_nonnum=True)
            with open(os.path.join(drive, 'T.TXT'), 'wb') as f:
                f.write(text + b'\r\n')
            out = basic.safe_exec(s, b'LOCATE 1,1:OPEN "T.TXT" FOR INPUT AS 1:INPUT#1,X#:CLOSE:D$=MKD$(X#)')
            got = s.get_variable('D$')
            ctx.case(('session-input#', text, double))
            ctx.count('session:input#')
            check_session_value(ctx, lit, impl.fromrepr(text, 1), out, got, 'INPUT#', case)
        ref = impl.fromrepr(text, 1)
        # VAL
        s.set_variable('T$', text)
        out = basic.safe_exec(s, b'LOCATE 1,1:D$=MKD$(VAL(T$))')
        got = s.get_variable('D$')
        ctx.case(('session-val', text, double))
        ctx.count('session:val')
        check_session_value(ctx, lit, ref, out, got, 'VAL', case)
        if BLANK_IN_EXP.search(text):
            # a blank between the exponent letter and its sign ends a literal read by CodeStream.read_number
            # (program literals, DATA items): tokeniser rule, belongs to C17
            ctx.count('session:blank-in-exponent-VAL-only')
            continue
        if rng.random() < 0.6:
            # program literal: tokenised at entry, evaluated by RUN, shown by LIST
            basic.safe_exec(s, b'NEW')
            ent = basic.safe_exec(s, b'10 X#=' + text.replace(b'\t', b' '))
            out = basic.safe_exec(s, b'LOCATE 1,1:RUN')
            out2 = basic.safe_exec(s, b'LOCATE 1,1:D$=MKD$(X#)')
            got = s.get_variable('D$')
            ctx.case(('session-literal', text, double))
            ctx.count('session:literal')
            tlit = lit
            if b'\t' in text:
                tlit = lit_from_parts(dict(lit_parts(lit), text=mbf.hx(text.replace(b'\t', b' '))))
            ref2 = impl.fromrepr(text.replace(b'\t', b' '), 0)
            check_session_value(ctx, tlit, ref2, ent + out + out2, got, 'literal', case, signed_token=True)
            listed = basic.safe_exec(s, b'LOCATE 1,1:LIST')
            m = re.match(br'^10 X#=(.*)\r\n$', listed)
            if not m:
                _fail(ctx, 'session-list:output', case, 'LIST shows %r' % (listed,))
            else:
                shown = m.group(1)
                # the token holds the unsigned literal; a leading '-'/'+' is a separate operator token
                body = shown.strip(b' ').lstrip(b'+-').strip(b' ')
                ctx.count('session:list')
                if ref2.startswith('ok ') and not body.startswith(b'&'):
                    t, b = ref2.split()[1], mbf.unhx(ref2.split()[2])
                    if t != 'i':
                        b = bytes(bytearray(b[:-2]) + bytearray([b[-2] & 0x7f, b[-1]]))
                    else:
                        b = struct.pack('<h', abs(struct.unpack('<h', b)[0])) if b != b'\x00\x80' else b
                    check_shown(ctx, t, b, body, 'LIST', case)
                    # enter the listed text again: it must again be a literal obeying the parse rule of its own text
                    basic.safe_exec(s, b'20 Y#=' + shown)
                    relisted = basic.safe_exec(s, b'LOCATE 1,1:LIST 20')
                    m2 = re.match(br'^20 Y#=(.*)\r\n$', relisted)
                    if not m2:
                        _fail(ctx, 'session-list:relist', case, 'LIST 20 shows %r' % (relisted,))
                    elif m2.group(1) != shown:
                        ctx.count('session:list-not-idempotent')
                    else:
                        ctx.count('session:list-idempotent')
        elif b',' not in text and b':' not in text:
            basic.safe_exec(s, b'NEW')
            basic.safe_exec(s, b'10 DATA ' + text)
            basic.safe_exec(s, b'20 READ X#')
            out = basic.safe_exec(s, b'LOCATE 1,1:RUN')
            out2 = basic.safe_exec(s, b'LOCATE 1,1:D$=MKD$(X#)')
            got = s.get_variable('D$')
            ctx.case(('session-read', text, double))
            ctx.count('session:read')
            check_session_value(ctx, lit, impl.fromrepr(text.strip(b' \t'), 0), out + out2, got, 'READ', case)


def check_session_value(ctx, lit, ref, out, got, where, case, signed_token=False):
    """`got` = MKD$ of the value the interpreter computed from the literal; `ref` = from_repr adapter reply."""
    if b'<<EXC' in out:
        _fail(ctx, 'session-parse:host-exception:' + where, case, '%s of %r: %r' % (where, lit.text, out))
        return
    if got is None or len(got) != 8:
        _fail(ctx, 'session-parse:no-value:' + where, case, '%s of %r: output %r, D$=%r' % (where, lit.text, out, got))
        return
    dec = lit.decimal()
    v = mbf.val('d', got)
    over = b'Overflow' in out
    if ref.split()[0] not in ('ok', 'soft'):
        _fail(ctx, 'session-parse:ref:' + where, case, 'from_repr gives %s for %r' % (ref, lit.text))
        return
    parts = ref.split()
    t, b = (parts[2], mbf.unhx(parts[3])) if parts[0] == 'soft' else (parts[1], mbf.unhx(parts[2]))
    if over != (parts[0] == 'soft'):
        _fail(ctx, 'session-parse:overflow-differs:' + where, case,
                 '%s of %r: output %r, from_repr gives %s' % (where, lit.text, out, ref))
        return
    if over:
        return
    # the value must be the one from_repr produces (then check_parsed's verdict on from_repr carries over) ...
    if v != value(t, b):
        _fail(ctx, 'session-parse:differs-from-from_repr:' + where, case,
                 '%s of %r gives %s, from_repr gives %s' % (where, lit.text, mbf.hx(got), ref))
    # ... and independently be within one unit in the last place of that type
    if t == 'i':
        ok = v == dec
    elif v == 0:
        ok = abs(dec) < MINV * (1 + Fraction(1, 2 ** 20))
    else:
        ok = abs(v - dec) < mbf.ulp(t, b)
    if not ok:
        w = mbf.FMT[t]['w'] if t != 'i' else 16
        key = (KNOWN_TRUNC + t) if (t != 'i' and int(lit.digits) >= (1 << w) and dec != 0) else \
            'session-parse:error:%s:%s' % (where, 'zero' if dec == 0 else t)
        _fail(ctx, key, case, '%s of %r gives %s (%s), decimal value %s' % (where, lit.text, mbf.hx(got), float(v), float(dec)))


def run_session(ctx, impl, n_print, n_parse, double=False):
    """One Session; `double=True` is the interpreter option --double (double-precision transcendentals), which
    the decimal conversions must not depend on."""
    drive = tempfile.mkdtemp(prefix='pcbv_c07_')
    try:
        _run_session(ctx, impl, n_print, n_parse, double, drive)
    finally:
        shutil.rmtree(drive, ignore_errors=True)


def _run_session(ctx, impl, n_print, n_parse, double, drive):
    s = basic.new_session(double=True, devices={'C': drive}, current_device='C') if double else \
        basic.new_session(devices={'C': drive}, current_device='C')
    ctx.count('sessions:double=%s' % bool(double))
    with s:
        if not double:
            run_radix(ctx, impl, 400 if ctx.quick else 4000, session=s)
        session_printing(ctx, impl, s, n_print)
        session_parsing(ctx, impl, s, n_parse, double=double, drive=drive)
        # a multi-step history: a value printed, read back with VAL, printed again ... must stay within the bounds
        rng = ctx.rng
        for _ in range(n_print // 8):
            fs = rng.choice('sd')
            b = mbf.gen_float(rng, fs)
            if b[-1] == 0:
                continue
            conv = {'s': b'CVS', 'd': b'CVD'}[fs]
            mk = {'s': b'MKS$', 'd': b'MKD$'}[fs]
            var = b'A' + SIGIL[fs]
            s.set_variable('S$', bytes(b))
            basic.safe_exec(s, b'%s=%s(S$)' % (var, conv))
            cur = bytes(b)
            for hop in range(3):
                out = basic.safe_exec(s, b'LOCATE 1,1:T$=STR$(%s):%s=VAL(T$):D$=%s(%s)' % (var, var, mk, var))
                text = s.get_variable('T$')
                nxt = s.get_variable('D$')
                ctx.case(('chain', fs, cur, hop, double))
                ctx.count('session:str-val-chain')
                case = {'kind': 'chain', 't': fs, 'b': mbf.hx(b), 'hop': hop}
                if b'<<EXC' in out or nxt is None or len(nxt) != SIZE[fs]:
                    _fail(ctx, 'chain:broken', case, 'output %r' % (out,))
                    break
                check_shown(ctx, fs, cur, text, 'chain-STR$', case)
                p = parse_shown(text)
                if p is not None and nxt[-1] != 0 and not (b'Overflow' in out):
                    # VAL's result is stored in a variable of type fs: within one ulp of the text's value
                    if not abs(mbf.val(fs, nxt) - p[0]) < mbf.ulp(fs, nxt) * (1 if fs == 'd' else 1):
                        _fail(ctx, 'chain:val-error:' + fs, case, 'VAL(%r) stored as %s' % (text, mbf.hx(nxt)))
                if nxt == cur:
                    ctx.count('chain:fixpoint')
                    break
                cur = nxt


# ---------------------------------------------------------------------------------------------

def run(ctx):
    impl = Impl()
    try:
        _run(ctx, impl)
    finally:
        ctx.notes.pop('_c07_classes', None)


def _run(ctx, impl):
    # the same code with the Values option double_math / Session(double=True) switched on: the decimal
    # conversions are the same functions and must give the same bytes (the model has no such parameter)
    impl2 = Impl(double_math=True)
    if ctx.quick:
        run_printing(ctx, impl, 5000)
        run_notation(ctx, impl, 3000)
        run_parsing(ctx, impl, 12000)
        run_parsing(ctx, impl2, 2500)
        run_session(ctx, impl, 480, 300)
        run_session(ctx, impl2, 96, 130, double=True)
    else:
        for _ in range(8):
            run_printing(ctx, impl, 12000)
            run_parsing(ctx, impl, 25000)
        run_parsing(ctx, impl2, 50000)
        run_printing(ctx, impl2, 12000)
        run_notation(ctx, impl, 20000)
        run_session(ctx, impl, 2400, 1500)
        run_session(ctx, impl2, 1200, 1500, double=True)


def replay(ctx, payload):
    impl = Impl()
    case = payload.get('case', {})
    kind = case.get('kind')
    before = len(ctx.failures)
    if kind == 'tostr':
        t, b = case['t'], mbf.unhx(case['b'])
        out = impl.tostr(t, b, case['ls'], case['ts'])
        if not out.startswith('ok '):
            return out
        check_shown(ctx, t, b, mbf.unhx(out[3:]), 'to_repr', case)
    elif kind == 'fromrepr':
        if case.get('double_math'):
            impl = Impl(double_math=True)
        text = mbf.unhx(case['text'])
        out = impl.fromrepr(text, case['allow'])
        if out.startswith('exc'):
            return out
        if 'lit' in case:
            check_parsed(ctx, lit_from_parts(case['lit']), out, 'from_repr', case)
    elif kind == 'radix':
        text, val = mbf.unhx(case['text']), case['val']
        out = impl.fromrepr(text, 1)
        want = 'ok i ' + mbf.hx(struct.pack('<H', val)) if val <= 65535 else 'err 6'
        if out != want:
            return 'from_repr(%r) gives %s, expected %s' % (text, out, want)
        if case.get('session'):
            s = basic.new_session()
            with s:
                out = basic.safe_exec(s, b'PRINT ' + text)
            if b'<<EXC' in out:
                return 'PRINT %r: %r' % (text, out)
    elif kind in ('session-print', 'chain'):
        t, b = case['t'], mbf.unhx(case['b'])
        s = basic.new_session()
        with s:
            conv = {'i': b'CVI', 's': b'CVS', 'd': b'CVD'}[t]
            var = b'A' + SIGIL[t]
            s.set_variable('S$', bytes(b))
            out = basic.safe_exec(s, b'%s=%s(S$):PRINT %s' % (var, conv, var))
        check_shown(ctx, t, b, out.strip(b'\r\n')[:-1] if out.endswith(b' \r\n') else out.strip(), 'PRINT', case)
    elif kind == 'session-parse':
        lit = lit_from_parts(case['lit'])
        if case.get('double'):
            impl = Impl(double_math=True)
        s = basic.new_session(double=True) if case.get('double') else basic.new_session()
        with s:
            s.set_variable('T$', lit.text)
            out = basic.safe_exec(s, b'D$=MKD$(VAL(T$))')
            got = s.get_variable('D$')
        check_session_value(ctx, lit, impl.fromrepr(lit.text, 1), out, got, 'VAL', case)
        check_parsed(ctx, lit, impl.fromrepr(lit.text, 1), 'from_repr', case)
    else:
        return None
    if len(ctx.failures) > before:
        return ctx.failures[-1]['what']
    return None
