import PcbV.Model.Sprite
import Mathlib.Tactic.Ring
/-
  Lemmas for C31 about `PcbV.Model.Sprite`: `unpack_bytes ∘ pack_bytes`, the three sprite builders
  (`unpack (pack s) = s`), GET/PUT on a page.
-/
namespace PcbV.SpriteRT
open PcbV PcbV.Sprite

/-! ### chunks -/

theorem chunksN_flatten (m : Nat) (rows : List (List α)) (h : ∀ r ∈ rows, r.length = m) (tail : List α) :
    chunksN m rows.length (rows.flatten ++ tail) = rows := by
  induction rows with
  | nil => rfl
  | cons r rs ih =>
    have hr : r.length = m := h r List.mem_cons_self
    have hrs : ∀ r ∈ rs, r.length = m := fun x hx => h x (List.mem_cons_of_mem _ hx)
    simp only [List.length_cons, chunksN, List.flatten_cons, List.append_assoc]
    rw [List.take_left' hr, List.drop_left' hr, ih hrs]

theorem length_flatten_uniform (m : Nat) (rows : List (List α)) (h : ∀ r ∈ rows, r.length = m) :
    rows.flatten.length = rows.length * m := by
  induction rows with
  | nil => simp
  | cons r rs ih =>
    have hr : r.length = m := h r List.mem_cons_self
    have hrs : ∀ r ∈ rs, r.length = m := fun x hx => h x (List.mem_cons_of_mem _ hx)
    simp only [List.flatten_cons, List.length_append, List.length_cons, ih hrs, hr]
    ring

theorem length_chunksN (m k : Nat) : ∀ (l : List α), (chunksN m k l).length = k := by
  induction k with
  | zero => intro l; rfl
  | succ k ih => intro l; simp [chunksN, ih]

/-! ### one byte -/

theorem byte1 (c : List Nat) (h : c.length ≤ 8) :
    unpackByte 1 8 (packByte 1 8 c) = c.map (· % 2) ++ List.replicate (8 - c.length) 0 := by
  match c, h with
  | [], _ => simp [packByte, unpackByte]
  | [a], _ => simp [packByte, unpackByte]; omega
  | [a, b], _ => simp [packByte, unpackByte]; omega
  | [a, b, c], _ => simp [packByte, unpackByte]; omega
  | [a, b, c, d], _ => simp [packByte, unpackByte]; omega
  | [a, b, c, d, e], _ => simp [packByte, unpackByte]; omega
  | [a, b, c, d, e, f], _ => simp [packByte, unpackByte]; omega
  | [a, b, c, d, e, f, g], _ => simp [packByte, unpackByte]; omega
  | [a, b, c, d, e, f, g, i], _ => simp [packByte, unpackByte]; omega
  | _ :: _ :: _ :: _ :: _ :: _ :: _ :: _ :: _ :: _, h => simp at h

theorem byte2 (c : List Nat) (h : c.length ≤ 4) :
    unpackByte 2 4 (packByte 2 4 c) = c.map (· % 4) ++ List.replicate (4 - c.length) 0 := by
  match c, h with
  | [], _ => simp [packByte, unpackByte]
  | [a], _ => simp [packByte, unpackByte]; omega
  | [a, b], _ => simp [packByte, unpackByte]; omega
  | [a, b, c], _ => simp [packByte, unpackByte]; omega
  | [a, b, c, d], _ => simp [packByte, unpackByte]; omega
  | _ :: _ :: _ :: _ :: _ :: _, h => simp at h

theorem byte4 (c : List Nat) (h : c.length ≤ 2) :
    unpackByte 4 2 (packByte 4 2 c) = c.map (· % 16) ++ List.replicate (2 - c.length) 0 := by
  match c, h with
  | [], _ => simp [packByte, unpackByte]
  | [a], _ => simp [packByte, unpackByte]
  | [a, b], _ => simp [packByte, unpackByte]; omega
  | _ :: _ :: _ :: _, h => simp at h

/-- bits per pixel of the packed builders -/
def okBpp (bpp : Nat) : Prop := bpp = 1 ∨ bpp = 2 ∨ bpp = 4

theorem byte_rt (bpp : Nat) (hb : okBpp bpp) (c : List Nat) (h : c.length ≤ ipb bpp) :
    unpackByte bpp (ipb bpp) (packByte bpp (ipb bpp) c) =
      c.map (· % 2 ^ bpp) ++ List.replicate (ipb bpp - c.length) 0 := by
  rcases hb with rfl | rfl | rfl
  · exact byte1 c h
  · exact byte2 c h
  · exact byte4 c h

/-! ### one row -/

theorem row_rt_aux (bpp : Nat) (hb : okBpp bpp) (k : Nat) :
    ∀ (row : List Nat), row.length ≤ k * ipb bpp →
      (((chunksN (ipb bpp) k row).map (packByte bpp (ipb bpp))).flatMap (unpackByte bpp (ipb bpp))).take row.length =
        row.map (· % 2 ^ bpp) := by
  induction k with
  | zero =>
    intro row h
    have : row = [] := List.eq_nil_of_length_eq_zero (by omega)
    subst this; rfl
  | succ k ih =>
    intro row h
    simp only [chunksN, List.map_cons, List.flatMap_cons]
    rw [byte_rt bpp hb _ (by simp [List.length_take])]
    by_cases hl : ipb bpp ≤ row.length
    · have e1 : (row.take (ipb bpp)).length = ipb bpp := by simp [List.length_take]; omega
      rw [e1, Nat.sub_self, List.replicate_zero, List.append_nil]
      have e2 : ((row.take (ipb bpp)).map (· % 2 ^ bpp)).length = ipb bpp := by rw [List.length_map, e1]
      have e3 : row.length - ipb bpp = (row.drop (ipb bpp)).length := by simp [List.length_drop]
      rw [List.take_append, List.take_of_length_le (by rw [e2]; exact hl), e2, e3]
      rw [ih (row.drop (ipb bpp)) (by simp [List.length_drop]; rw [Nat.succ_mul] at h; omega)]
      rw [← List.map_append, List.take_append_drop]
    · have e1 : row.take (ipb bpp) = row := List.take_of_length_le (by omega)
      rw [e1, List.append_assoc]
      have e2 : (row.map (· % 2 ^ bpp)).length = row.length := List.length_map _
      rw [List.take_left' e2]

theorem ipb_cases (bpp : Nat) (hb : okBpp bpp) : (bpp = 1 ∧ ipb bpp = 8) ∨ (bpp = 2 ∧ ipb bpp = 4) ∨ (bpp = 4 ∧ ipb bpp = 2) := by
  rcases hb with rfl | rfl | rfl <;> simp [ipb]

/-- `unpack_bytes(pack_bytes(row))[:len(row)]` masks every item to `bpp` bits -/
theorem row_rt (bpp : Nat) (hb : okBpp bpp) (row : List Nat) :
    (unpackRow bpp (packRow bpp row)).take row.length = row.map (· % 2 ^ bpp) := by
  unfold unpackRow packRow
  apply row_rt_aux bpp hb
  rcases ipb_cases bpp hb with ⟨_, h⟩ | ⟨_, h⟩ | ⟨_, h⟩ <;> rw [h] <;> omega

theorem length_packRow (bpp : Nat) (row : List Nat) :
    (packRow bpp row).length = (row.length + ipb bpp - 1) / ipb bpp := by
  simp [packRow, length_chunksN]

theorem map_mod_id (m : Nat) (row : List Nat) (h : ∀ a ∈ row, a < m) : row.map (· % m) = row := by
  induction row with
  | nil => rfl
  | cons a r ih =>
    simp only [List.map_cons]
    rw [Nat.mod_eq_of_lt (h a List.mem_cons_self), ih (fun x hx => h x (List.mem_cons_of_mem _ hx))]


/-! ### size record -/

theorem rdU16_0 (a : Nat) (ha : a < 65536) (rest : Bytes) : rdU16 (u16 a ++ rest) 0 = a := by
  simp [rdU16, u16]; omega

theorem rdU16_2 (a b : Nat) (hb : b < 65536) (rest : Bytes) : rdU16 (u16 a ++ (u16 b ++ rest)) 2 = b := by
  simp [rdU16, u16]; omega

theorem drop4 (a b : Nat) (rest : Bytes) : (u16 a ++ (u16 b ++ rest)).drop 4 = rest := by
  simp [u16]

/-- rectangular sprite -/
structure Rect (s : Rows) (w : Nat) : Prop where
  wpos : 0 < w
  hpos : 0 < s.length
  rows : ∀ r ∈ s, r.length = w

theorem Rect.width {s : Rows} {w : Nat} (h : Rect s w) : Sprite.width s = w := by
  match s, h with
  | [], h => exact absurd h.hpos (by simp)
  | r :: _, h => simpa [Sprite.width] using h.rows r List.mem_cons_self

/-! ### PackedSpriteBuilder -/

theorem rowBytes_packed (bpp : Nat) (hb : okBpp bpp) (w : Nat) : (w + ipb bpp - 1) / ipb bpp = (w * bpp + 7) / 8 := by
  rcases ipb_cases bpp hb with ⟨rfl, h⟩ | ⟨rfl, h⟩ | ⟨rfl, h⟩ <;> rw [h] <;> omega

theorem packed_rt (bpp : Nat) (hb : okBpp bpp) (s : Rows) (w : Nat) (hr : Rect s w)
    (hw : w * bpp < 65536) (hh : s.length < 65536) (ha : ∀ r ∈ s, ∀ a ∈ r, a < 2 ^ bpp) (tail : Bytes) :
    unpackPacked bpp (packPacked bpp s ++ tail) = s := by
  have hbpos : 0 < bpp := by rcases hb with rfl | rfl | rfl <;> decide
  unfold unpackPacked packPacked
  rw [hr.width, Sprite.height]
  simp only [List.append_assoc]
  rw [rdU16_0 _ hw, rdU16_2 _ _ hh, drop4]
  rw [Nat.mul_div_cancel _ hbpos, List.flatMap_def]
  have hlen : ∀ r ∈ s.map (packRow bpp), r.length = (w * bpp + 7) / 8 := by
    intro r hr'
    obtain ⟨row, hrow, rfl⟩ := List.mem_map.mp hr'
    rw [length_packRow, hr.rows row hrow, rowBytes_packed bpp hb]
  have hfl := length_flatten_uniform _ _ hlen
  rw [List.length_map] at hfl
  rw [List.take_left' (by rw [hfl, Nat.mul_comm])]
  have := chunksN_flatten _ _ hlen []
  rw [List.append_nil, List.length_map] at this
  rw [this, List.map_map]
  conv => rhs; rw [← List.map_id s]
  apply List.map_congr_left
  intro row hrow
  simp only [Function.comp, id]
  rw [← hr.rows row hrow, row_rt bpp hb, map_mod_id _ _ (ha row hrow)]

/-! ### PlanedSpriteBuilder -/

theorem orRows_map (f g : Nat → Nat) (row : List Nat) :
    orRows (row.map f) (row.map g) = row.map (fun a => f a ||| g a) := by
  induction row with
  | nil => rfl
  | cons a r ih => simp only [List.map_cons, orRows, List.zipWith_cons_cons] at ih ⊢; rw [ih]

theorem shiftRow_map (p : Nat) (f : Nat → Nat) (row : List Nat) :
    shiftRow p (row.map f) = row.map (fun a => (f a <<< p) &&& 0xff) := by
  simp [shiftRow, List.map_map, Function.comp_def]

/-- the bit rows of one sprite row as `unpack` sees them: plane p holds bit p of each attribute -/
def planeBits (n : Nat) (row : List Nat) : List (List Nat) :=
  (List.range n).map (fun p => (planeRow p row).map (· % 2 ^ 1))

theorem planeBits_eq (n : Nat) (row : List Nat) :
    planeBits n row = (List.range n).map (fun p => row.map (fun a => (a >>> p) % 2)) := by
  simp [planeBits, planeRow, List.map_map, Function.comp_def]

theorem map_eq_self (f : Nat → Nat) (row : List Nat) (h : ∀ a ∈ row, f a = a) : row.map f = row := by
  induction row with
  | nil => rfl
  | cons a r ih =>
    rw [List.map_cons, h a List.mem_cons_self, ih (fun x hx => h x (List.mem_cons_of_mem _ hx))]

/-- number of colour planes of the planar builders -/
def okPlanes (n : Nat) : Prop := n = 1 ∨ n = 2 ∨ n = 3 ∨ n = 4

theorem combine_rt (n : Nat) (hn : okPlanes n) (row : List Nat) (h : ∀ a ∈ row, a < 2 ^ n) :
    combineGroup (planeBits n row) = row := by
  rw [planeBits_eq]
  rcases hn with rfl | rfl | rfl | rfl
  · have e : List.range 1 = [0] := rfl
    simp only [e, List.map_cons, List.map_nil, combineGroup, combineFrom, shiftRow_map]
    apply map_eq_self
    intro a ha
    have := h a ha
    have : a < 2 := by omega
    clear h ha
    revert a; decide
  · have e : List.range 2 = [0, 1] := rfl
    simp only [e, List.map_cons, List.map_nil, combineGroup, combineFrom, shiftRow_map, orRows_map]
    apply map_eq_self
    intro a ha
    have := h a ha
    have : a < 4 := by omega
    clear h ha
    revert a; decide
  · have e : List.range 3 = [0, 1, 2] := rfl
    simp only [e, List.map_cons, List.map_nil, combineGroup, combineFrom, shiftRow_map, orRows_map]
    apply map_eq_self
    intro a ha
    have := h a ha
    have : a < 8 := by omega
    clear h ha
    revert a; decide
  · have e : List.range 4 = [0, 1, 2, 3] := rfl
    simp only [e, List.map_cons, List.map_nil, combineGroup, combineFrom, shiftRow_map, orRows_map]
    apply map_eq_self
    intro a ha
    have := h a ha
    have : a < 16 := by omega
    clear h ha
    revert a; decide

theorem map_eq_self' {α : Type} (f : α → α) (l : List α) (h : ∀ a ∈ l, f a = a) : l.map f = l := by
  induction l with
  | nil => rfl
  | cons a r ih =>
    rw [List.map_cons, h a List.mem_cons_self, ih (fun x hx => h x (List.mem_cons_of_mem _ hx))]


theorem flatMap_congr' {α β : Type} (f g : α → List β) (l : List α) (h : ∀ a ∈ l, f a = g a) :
    l.flatMap f = l.flatMap g := by
  induction l with
  | nil => rfl
  | cons a r ih =>
    rw [List.flatMap_cons, List.flatMap_cons, h a List.mem_cons_self,
      ih (fun x hx => h x (List.mem_cons_of_mem _ hx))]

theorem okBpp_one : okBpp 1 := Or.inl rfl

theorem interlaced_len (n : Nat) (s : Rows) : (interlaced n s).length = s.length * n := by
  unfold interlaced
  rw [List.flatMap_def]
  rw [length_flatten_uniform n _ (by
    intro r hr
    obtain ⟨row, _, rfl⟩ := List.mem_map.mp hr
    simp)]
  simp

theorem interlaced_rows (n : Nat) (s : Rows) (w : Nat) (hr : ∀ r ∈ s, r.length = w) :
    ∀ r ∈ interlaced n s, r.length = (w + 7) / 8 := by
  intro r hmem
  unfold interlaced at hmem
  obtain ⟨row, hrow, h2⟩ := List.mem_flatMap.mp hmem
  obtain ⟨p, _, rfl⟩ := List.mem_map.mp h2
  rw [length_packRow]
  simp [planeRow, hr row hrow, ipb]

theorem interlaced_unpack (n : Nat) (s : Rows) (w : Nat) (hr : ∀ r ∈ s, r.length = w) :
    (interlaced n s).map (fun r => (unpackRow 1 r).take w) = s.flatMap (planeBits n) := by
  unfold interlaced
  rw [List.map_flatMap]
  apply flatMap_congr'
  intro row hrow
  rw [List.map_map]
  unfold planeBits
  apply List.map_congr_left
  intro p _
  simp only [Function.comp]
  have : (planeRow p row).length = w := by simp [planeRow, hr row hrow]
  rw [← this, row_rt 1 okBpp_one]

theorem planed_rt (n : Nat) (hn : okPlanes n) (s : Rows) (w : Nat) (hr : Rect s w)
    (hw : w < 65536) (hh : s.length < 65536) (ha : ∀ r ∈ s, ∀ a ∈ r, a < 2 ^ n) (tail : Bytes) :
    unpackPlaned n (packPlaned n s ++ tail) = s := by
  unfold unpackPlaned packPlaned
  rw [hr.width, Sprite.height]
  simp only [List.append_assoc]
  rw [rdU16_0 _ hw, rdU16_2 _ _ hh, drop4]
  have hlen := interlaced_rows n s w hr.rows
  have hfl := length_flatten_uniform _ _ hlen
  rw [interlaced_len] at hfl
  rw [List.take_left' (by rw [hfl])]
  have h1 := chunksN_flatten _ _ hlen []
  rw [List.append_nil, interlaced_len] at h1
  rw [h1, interlaced_unpack n s w hr.rows, List.flatMap_def]
  have h2 := chunksN_flatten n (s.map (planeBits n)) (by
    intro r hr'
    obtain ⟨row, _, rfl⟩ := List.mem_map.mp hr'
    simp [planeBits]) []
  rw [List.append_nil, List.length_map] at h2
  rw [h2, List.map_map]
  apply map_eq_self'
  intro row hrow
  exact combine_rt n hn row (ha row hrow)

open PcbV.Draw PcbV.Viewport

/-! ### Tandy6SpriteBuilder -/

theorem tandy6_rt (n : Nat) (hn : okPlanes n) (s : Rows) (w : Nat) (hr : Rect s w)
    (hw : w < 65536) (heven : w % 2 = 0) (hh : s.length < 65536) (ha : ∀ r ∈ s, ∀ a ∈ r, a < 2 ^ n) (tail : Bytes) :
    unpackTandy6 n (packTandy6 n s ++ tail) = s := by
  have key : u16 (rdU16 (packTandy6 n s ++ tail) 0 * 2) ++ (packTandy6 n s ++ tail).drop 2 =
      packPlaned n s ++ tail := by
    unfold packTandy6 packPlaned
    rw [hr.width, List.append_assoc, rdU16_0 _ (by omega)]
    have e : w / 2 * 2 = w := by omega
    rw [e]
    simp [u16]
  unfold unpackTandy6
  rw [key]
  exact planed_rt n hn s w hr hw hh ha tail

/-! ### GET / PUT on a page -/

theorem getRect_rect (pg : Page) (x0 y0 : Int) (w h : Nat) (hw : 0 < w) (hh : 0 < h) :
    Rect (getRect pg x0 y0 w h) w := by
  refine ⟨hw, by simp [getRect]; omega, ?_⟩
  intro r hr
  obtain ⟨j, _, rfl⟩ := List.mem_map.mp hr
  simp

theorem getRect_height (pg : Page) (x0 y0 : Int) (w h : Nat) : height (getRect pg x0 y0 w h) = h := by
  simp [height, getRect]

theorem getRect_bound (pg : Page) (x0 y0 : Int) (w h m : Nat) (hb : ∀ x y, pg x y < m) :
    ∀ r ∈ getRect pg x0 y0 w h, ∀ a ∈ r, a < m := by
  intro r hr a ha
  obtain ⟨j, _, rfl⟩ := List.mem_map.mp hr
  obtain ⟨i, _, rfl⟩ := List.mem_map.mp ha
  exact hb _ _

theorem cellAt_getRect (pg : Page) (x0 y0 : Int) (w h i j : Nat) (hi : i < w) (hj : j < h) :
    cellAt (getRect pg x0 y0 w h) i j = pg (x0 + i) (y0 + j) := by
  simp [cellAt, getRect, List.getD_eq_getElem?_getD, hi, hj]

/-- writing back what was read changes nothing -/
theorem put_get_same (bpp : Nat) (pg : Page) (x0 y0 : Int) (w h : Nat) (hw : 0 < w) (hh : 0 < h) :
    putRect .pset bpp pg x0 y0 (getRect pg x0 y0 w h) = pg := by
  funext x y
  unfold putRect
  rw [(getRect_rect pg x0 y0 w h hw hh).width, getRect_height]
  split
  · rename_i hc
    simp only [PutOp.cell]
    rw [cellAt_getRect pg x0 y0 w h _ _ (by omega) (by omega)]
    congr 1 <;> omega
  · rfl

theorem xor_xor (p s : Nat) : (p ^^^ s) ^^^ s = p := by
  rw [Nat.xor_assoc, Nat.xor_self, Nat.xor_zero]

theorem putRect_xor_twice (bpp : Nat) (pg : Page) (x0 y0 : Int) (s : Rows) :
    putRect .xor bpp (putRect .xor bpp pg x0 y0 s) x0 y0 s = pg := by
  funext x y
  unfold putRect
  split
  · rename_i hc
    simp only [PutOp.cell, xor_xor]
  · rfl

/-- the builders that exist: packed pixels of 1, 2, 4 bits; 1 to 4 colour planes -/
def supported : Builder → Prop
  | .packed bpp => okBpp bpp
  | .planed n => okPlanes n
  | .tandy6 n => okPlanes n

/-- `unpack` reads only the bytes its size record demands: whatever follows the record in the array is ignored -/
theorem builder_rt (b : Builder) (hb : supported b) (s : Rows) (w : Nat) (h : b.admits s w) (tail : Bytes) :
    b.unpack (b.pack s ++ tail) = s := by
  obtain ⟨hw, hh, hh', hrows, hattr, hsz⟩ := h
  have hr : Rect s w := ⟨hw, hh, hrows⟩
  match b, hb, hattr, hsz with
  | .packed bpp, hb, hattr, hsz => exact packed_rt bpp hb s w hr hsz hh' hattr tail
  | .planed n, hb, hattr, hsz => exact planed_rt n hb s w hr hsz hh' hattr tail
  | .tandy6 n, hb, hattr, hsz => exact tandy6_rt n hb s w hr hsz.1 hsz.2 hh' hattr tail

theorem supported_bpp (b : Builder) (hb : supported b) : 1 ≤ b.bpp ∧ b.bpp ≤ 4 := by
  match b, hb with
  | .packed bpp, hb => rcases hb with rfl | rfl | rfl <;> simp [Builder.bpp]
  | .planed n, hb => rcases hb with rfl | rfl | rfl | rfl <;> simp [Builder.bpp]
  | .tandy6 n, hb => rcases hb with rfl | rfl | rfl | rfl <;> simp [Builder.bpp]

end PcbV.SpriteRT
