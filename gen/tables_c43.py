"""Generate lean/PcbV/Gen/ApiConsts.lean: constants the session-API model (C43) reads from the code."""
from gen_tables import generator, HEADER, lean_list


@generator('ApiConsts')
def gen_apiconsts():
    import importlib
    cpmod = importlib.import_module('pcbasic.basic.codepage')
    out = [HEADER, 'namespace PcbV.Gen.ApiConsts\n']
    out.append('/-- `codepage.CONTROL`: bytes that `get_variable(..., as_type=str)` keeps as control characters -/')
    out.append('def control : List Nat := %s\n' % lean_list(bytearray(b''.join(cpmod.CONTROL))))
    out.append('end PcbV.Gen.ApiConsts\n')
    return '\n'.join(out)
