import PcbV.Model.IntOps
namespace PcbV.Drv.C02
open PcbV PcbV.IntOps

def showN (r : R Nat) : String := showR toString r

/-- FOR operand: `l<value>` or `v<slot>` -/
def parseOperand (w : String) : Option ForOperand :=
  match w.toList with
  | 'l' :: r => (String.ofList r).toNat?.bind (fun v => if v < 65536 then some (.lit v) else none)
  | 'v' :: r => (String.ofList r).toNat?.map .var
  | _ => none

def parseNats (w : String) : Option (List Nat) :=
  if w == "-" then some [] else (w.splitOn ",").mapM (fun x => x.toNat?.bind (fun v => if v < 65536 then some v else none))

/-- body assignments: `<slot>=<value>` (X = value) or `<slot>+<value>` (X = X + value), comma-separated -/
def parseAssign (w : String) : Option ForAssign :=
  match w.splitOn "=", w.splitOn "+" with
  | [a, b], _ => match a.toNat?, b.toNat? with
    | some a, some b => if b < 65536 then some ⟨a, false, b⟩ else none
    | _, _ => none
  | _, [a, b] => match a.toNat?, b.toNat? with
    | some a, some b => if b < 65536 then some ⟨a, true, b⟩ else none
    | _, _ => none
  | _, _ => none

def parseAssigns (w : String) : Option (List ForAssign) :=
  if w == "-" then some [] else (w.splitOn ",").mapM parseAssign

def handle : List String → String
  | ["forenv", fuel, frm, a, b, s, env, asg] =>
    match fuel.toNat?, frm.toNat?, parseOperand a, parseOperand b, parseOperand s, parseNats env, parseAssigns asg with
    | some fuel, some frm, some a, some b, some s, some env, some asg =>
      let (tr, st) := forLoopEnv asg frm fuel env a b s
      "ok " ++ showNats tr ++ " " ++ st
    | _, _, _, _, _, _, _ => "bad-op"
  | [op, a, b] =>
    match a.toNat?, b.toNat? with
    | some a, some b =>
      if a ≥ 65536 ∨ b ≥ 65536 then "bad-op" else
      match op with
      | "iadd" => showN (iadd a b)
      | "isub" => showN (isub a b)
      | "idiv" => showN (idivInt a b)
      | "imod" => showN (imod a b)
      | "and" => showN (and_ a b)
      | "or" => showN (or_ a b)
      | "xor" => showN (xor_ a b)
      | "eqv" => showN (eqv_ a b)
      | "imp" => showN (imp_ a b)
      | "gt" => "ok " ++ showBool (gt a b)
      | "eq" => "ok " ++ showBool (eq a b)
      | _ => "bad-op"
    | _, _ => "bad-op"
  | ["for", fuel, a, b, c] =>
    match fuel.toNat?, a.toNat?, b.toNat?, c.toNat? with
    | some fuel, some a, some b, some c =>
      if a ≥ 65536 ∨ b ≥ 65536 ∨ c ≥ 65536 then "bad-op" else
      let (tr, st) := forLoop fuel a b c
      "ok " ++ showNats tr ++ " " ++ st
    | _, _, _, _ => "bad-op"
  | [op, a] =>
    match a.toNat? with
    | some a =>
      if a ≥ 65536 then "bad-op" else
      match op with
      | "ineg" => showN (ineg a)
      | "iabs" => showN (iabs a)
      | "not" => showN (not_ a)
      | _ => "bad-op"
    | none => "bad-op"
  | _ => "bad-op"

end PcbV.Drv.C02
