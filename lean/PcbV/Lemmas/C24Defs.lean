/-
  Vocabulary of the C24 theorems (values, files made by whole sessions) and the glue lemmas that connect it to
  the core lemmas of PcbV.Lemmas.SeqFileWrite.
-/
import PcbV.Lemmas.SeqFileWrite
namespace PcbV.C24
open PcbV PcbV.SeqFile

/-- a value given to WRITE# -/
inductive Val (V : Type) where
  | str (s : Bytes)
  | num (v : V)

def Val.item {V : Type} (showNum : V → Bytes) : Val V → Item
  | .str s => .str s
  | .num v => .num (showNum v)

/-- what `values.from_repr(word, typechar)` makes of the word INPUT# returns -/
def decode {V : Type} (readNum : Bytes → V) (isStr : Bool) (word : Bytes) : Val V :=
  if isStr then .str word else .num (readNum word)

/-- the value each item must come back as -/
def Val.back {V : Type} (showNum : V → Bytes) (readNum : Bytes → V) : Val V → Val V
  | .str s => .str s
  | .num v => .num (readNum (showNum v))

/-- the hypotheses on one value -/
def valOk {V : Type} (showNum : V → Bytes) (soft : Bool) : Val V → Prop
  | .str s => strOk s ∧ (soft = false → 10 ∉ s)
  | .num v => numOk (showNum v)

/-- INPUT #f, v₁, v₂, … over the whole file, converted with the parser: values (or error numbers) -/
def readBack {V : Type} (readNum : Bytes → V) (kinds : List Bool) (r : Rd) : List (R (Val V)) :=
  List.zipWith (fun k (x : R Bytes × Bool) => x.1.map (decode readNum k)) kinds (readEntries kinds r).1

/-- OPEN FOR OUTPUT, the WRITE# statements, CLOSE: the host file -/
def writtenFile (ss : List (List Item)) : Bytes := (writeAll ss openOut).close

/-- OPEN FOR OUTPUT, PRINT #f, line$ for each line, CLOSE -/
def printedFile (ls : List Bytes) : Bytes := (printAll ls openOut).close

/-- one more OPEN FOR APPEND / WRITE#… / CLOSE session on an existing host file -/
def appendSession (file : Bytes) (ss : List (List Item)) : Bytes := (writeAll ss (openAppend file)).close

theorem writtenFile_eq (ss : List (List Item)) : writtenFile ss = stmtsBytes ss ++ [26] := by
  rw [writtenFile, close_writeAll ss openOut rfl]; simp [openOut]

theorem printedFile_eq (ls : List Bytes) : printedFile ls = linesBytes ls ++ [26] := by
  rw [printedFile, close_printAll ls openOut rfl]; simp [openOut]

theorem items_ok {V : Type} (showNum : V → Bytes) (soft : Bool) (vss : List (List (Val V)))
    (hok : ∀ vs ∈ vss, ∀ v ∈ vs, valOk showNum soft v) :
    (∀ st ∈ vss.map (List.map (Val.item showNum)), ∀ it ∈ st, itemOk it) ∧
    (soft = false → ∀ st ∈ vss.map (List.map (Val.item showNum)), ∀ it ∈ st, 10 ∉ it.bytes) := by
  constructor
  · intro st hst it hit
    simp at hst
    obtain ⟨vs, hvs, rfl⟩ := hst
    simp at hit
    obtain ⟨v, hv, rfl⟩ := hit
    have := hok vs hvs v hv
    cases v with
    | str s => exact this.1
    | num x => exact this
  · intro hs st hst it hit
    simp at hst
    obtain ⟨vs, hvs, rfl⟩ := hst
    simp at hit
    obtain ⟨v, hv, rfl⟩ := hit
    have := hok vs hvs v hv
    cases v with
    | str s =>
      have h10 := this.2 hs
      simp [Val.item, Item.bytes, h10]
    | num x =>
      intro hmem
      exact (this.2.1 10 (by simpa [Val.item, Item.bytes] using hmem)).2.2.1 rfl

theorem zip_decode {V : Type} (showNum : V → Bytes) (readNum : Bytes → V) : ∀ (vs : List (Val V)),
    List.zipWith (fun k (x : R Bytes × Bool) => x.1.map (decode readNum k))
      ((vs.map (Val.item showNum)).map Item.isStr) (expect (vs.map (Val.item showNum)))
    = vs.map (fun v => .ok (v.back showNum readNum)) := by
  intro vs
  induction vs with
  | nil => rfl
  | cons v rest ih =>
    simp only [List.map_cons, expect, List.zipWith_cons_cons, ih]
    cases v <;> simp [Val.item, Item.isStr, Item.payload, decode, Val.back, Except.map]

/-- Memory.deftype_ on a table of 26 entries: the letters of the range get the sigil, the others keep theirs -/
theorem defType_spec (tab : DefTab) (sg a b i : Nat) (hlen : tab.length = 26) (hb : b < 26) :
    (defType tab sg a b).length = 26 ∧
    (defType tab sg a b).getD i 33 = if a ≤ i ∧ i ≤ b then sg else tab.getD i 33 := by
  unfold defType
  by_cases h : b < a
  · simp [h, hlen]; intro h1 h2; omega
  · simp only [h, if_false]
    constructor
    · simp [hlen]; omega
    · simp only [List.getD_eq_getElem?_getD, List.getElem?_append, List.length_append, List.length_take,
        List.length_replicate, hlen]
      by_cases h1 : i < a
      · have : i < min a 26 + (b - a + 1) := by omega
        have h3 : i < min a 26 := by omega
        simp [this, h3, h1]
        intro h4; omega
      · by_cases h2 : i ≤ b
        · have : i < min a 26 + (b - a + 1) := by omega
          have h3 : ¬ i < min a 26 := by omega
          have h4 : i - min a 26 < b - a + 1 := by omega
          have h5 : a ≤ i := by omega
          simp [this, h3, h4, h5, h2]
        · have : ¬ i < min a 26 + (b - a + 1) := by omega
          have h5 : ¬ (a ≤ i ∧ i ≤ b) := by omega
          simp [this, h5, List.getElem?_drop]
          congr 2; omega

theorem completeName_snoc (t : DefTab) (c l : Nat) (mid : Bytes) :
    completeName t (c :: (mid ++ [l])) =
      if isSigil l = true then c :: (mid ++ [l]) else c :: (mid ++ [l]) ++ [t.getD (upperByte c - 65) 33] := by
  have hl : (c :: (mid ++ [l])).getLast? = some l := by
    have : c :: (mid ++ [l]) = (c :: mid) ++ [l] := rfl
    rw [this, List.getLast?_concat]
  unfold completeName
  split
  · next c' tl l' h1 h2 =>
    rw [hl] at h2
    injection h1 with hc ht
    injection h2 with h2
    subst hc; subst h2; rfl
  · next h => exact absurd hl (h c _ l rfl)

theorem varIsStr_snoc (t : DefTab) (c l : Nat) (mid : Bytes) :
    varIsStr t (c :: (mid ++ [l])) =
      if isSigil l = true then decide (l = 36) else decide (t.getD (upperByte c - 65) 33 = 36) := by
  have hl : (c :: (mid ++ [l])).getLast? = some l := by
    have : c :: (mid ++ [l]) = (c :: mid) ++ [l] := rfl
    rw [this, List.getLast?_concat]
  unfold varIsStr
  rw [completeName_snoc]
  split
  · rw [hl]; simp
  · rw [List.getLast?_concat]; simp
theorem itemOfVar_isStr (tab : DefTab) (name payload : Bytes) :
    (itemOfVar tab name payload).isStr = varIsStr tab name := by
  unfold itemOfVar
  cases varIsStr tab name <;> simp [Item.isStr]

theorem roundtrip_core_words (soft : Bool) (ss : List (List Item)) (hne : ∀ st ∈ ss, st ≠ [])
    (hok : ∀ st ∈ ss, ∀ it ∈ st, itemOk it) (hlf : soft = false → ∀ st ∈ ss, ∀ it ∈ st, 10 ∉ it.bytes) :
    (readEntries (ss.flatten.map Item.isStr) (openIn soft (writtenFile ss))).1 = expect ss.flatten := by
  rw [writtenFile_eq]; exact (roundtrip_core soft ss hne hok hlf).1

end PcbV.C24
