import PcbV.Basic
import PcbV.Gen.Errors
import PcbV.Model.Viewport
import PcbV.Model.Draw
/-
  Model of `pcbasic/basic/display/graphics.py: Graphics._flood_fill / _scanline_until / _check_scanline`
  (PAINT).  The pixel contents are a function `Grid` in *viewport coordinates* (what `graph_view[y, x]`
  reads); `Bounds` is `graph_view.get_bounds()`.  The main loop is transcribed as coded: a stack of
  intervals `(x_start, x_stop, y, ydir)` (`line_seed`, top = last appended = head of the list), each
  popped interval is extended left and right up to the border attribute, the neighbouring scanlines are
  checked (`_check_scanline`: every maximal run of non-border pixels inside the checked range is pushed,
  unless it already shows the pattern to be painted), then the extended interval is written.
  The `while` loops carry fuel; the result says whether the stack ran empty.

  What differs between a solid fill and a tiled fill is kept in `Fill`: the "same pattern" test and the
  attribute written at a pixel.  `solidFill` is the solid case (tile = 1x8 of the fill attribute);
  `tileFill` is the tiled case with the optional background pattern (covered by the correspondence check
  only).  `buildTilePacked` / `buildTilePlaned` model `framebuffer.py: PackedTileBuilder / PlanedTileBuilder`.

  Row reads `graph_view[y, a:b]` are clipped to the viewport columns as `_convert_slice` does; `y` is
  always inside the bounds at a read (guards of the loop), row clipping is therefore not modelled.
-/
namespace PcbV.Paint
open PcbV

/-- attribute at viewport coordinates (column x, row y) -/
abbrev Grid := Int → Int → Nat

/-- `graph_view.get_bounds()` (inclusive) -/
structure Bounds where
  x0 : Int
  y0 : Int
  x1 : Int
  y1 : Int
deriving Repr, DecidableEq

/-- stack entry `(x_start, x_stop, y, ydir)` -/
structure Iv where
  xs : Int
  xe : Int
  y : Int
  d : Int
deriving Repr, DecidableEq

/-! ### `_scanline_until` -/

/-- number of pixels before the first border pixel among `n` pixels starting at `x`, going right -/
def runRight (g : Grid) (b : Nat) (y : Int) : Nat → Int → Nat
  | 0, _ => 0
  | n + 1, x => if g x y = b then 0 else runRight g b y n (x + 1) + 1

/-- the same going left (the part of the row after the last border pixel) -/
def runLeft (g : Grid) (b : Nat) (y : Int) : Nat → Int → Nat
  | 0, _ => 0
  | n + 1, x => if g x y = b then 0 else runLeft g b y n (x - 1) + 1

/-- `_scanline_until(border, y, x0, x1).width`: the row `x0 .. x1-1` (if `x1 > x0`) up to the first border
    pixel, or the row `x1+1 .. x0` (if `x1 < x0`) after the last border pixel -/
def scanUntil (B : Bounds) (g : Grid) (b : Nat) (y x0 x1 : Int) : Nat :=
  if x0 = x1 then 0
  else if x1 > x0 then
    let lo := max x0 B.x0
    let hi := min x1 (B.x1 + 1)
    runRight g b y (hi - lo).toNat lo
  else
    let lo := max (x1 + 1) B.x0
    let hi := min (x0 + 1) (B.x1 + 1)
    runLeft g b y (hi - lo).toNat (hi - 1)

/-! ### what distinguishes solid and tiled fills -/

structure Fill where
  /-- `has_same_pattern` for the run of `w` pixels starting at `x` in row `y` -/
  same : Grid → Int → Int → Nat → Bool
  /-- attribute written at (x, y) -/
  val : Int → Int → Nat

/-- the `w` pixels from `x` on in row `y` all satisfy `p` -/
def allRun (p : Int → Bool) : Nat → Int → Bool
  | 0, _ => true
  | n + 1, x => p x && allRun p n (x + 1)

/-- solid fill: `pattern == repeated_tile[0, tile_x : tile_x+pattern.width]` with a constant tile -/
def solidFill (fill : Nat) : Fill :=
  ⟨fun g y x w => allRun (fun x' => g x' y == fill) w x, fun _ _ => fill⟩

/-! ### `_check_scanline` -/

/-- the `while x <= x_stop` loop (at most `x_stop - x_start + 1` iterations: `x` grows by at least 1) -/
def checkLoop (B : Bounds) (F : Fill) (g : Grid) (b : Nat) (y xstop d : Int) : Nat → Int → List Iv → List Iv
  | 0, _, st => st
  | n + 1, x, st =>
    if x ≤ xstop then
      let w := scanUntil B g b y x (xstop + 1)
      let st := if w > 0 ∧ ¬ F.same g y x w then ⟨x, x + w - 1, y, d⟩ :: st else st
      checkLoop B F g b y xstop d n (x + w + 1) st
    else st

def checkScanline (B : Bounds) (F : Fill) (g : Grid) (b : Nat) (st : List Iv) (xstart xstop y d : Int) :
    List Iv :=
  if xstop < xstart then st
  else checkLoop B F g b y xstop d (xstop - xstart + 1).toNat xstart st

/-! ### `_flood_fill` -/

/-- `graph_view[y, xl:xr+1] = …` for an interval inside the viewport -/
def setRow (g : Grid) (val : Int → Int → Nat) (y xl xr : Int) : Grid :=
  fun x y' => if y' = y ∧ xl ≤ x ∧ x ≤ xr then val x y else g x y'

/-- the intervals pushed while treating the popped interval `e`, given its extension `xl .. xr` -/
def pushes (B : Bounds) (F : Fill) (g : Grid) (b : Nat) (e : Iv) (xl xr : Int) (st : List Iv) : List Iv :=
  if e.d = 0 then
    let st := if e.y + 1 ≤ B.y1 then checkScanline B F g b st xl xr (e.y + 1) 1 else st
    if e.y - 1 ≥ B.y0 then checkScanline B F g b st xl xr (e.y - 1) (-1) else st
  else
    -- the same interval one scanline onward in the same direction
    let st := if e.y + e.d ≤ B.y1 ∧ e.y + e.d ≥ B.y0 then checkScanline B F g b st xl xr (e.y + e.d) e.d
              else st
    -- the bits of the interval that were extended, one scanline backward
    if e.y - e.d ≤ B.y1 ∧ e.y - e.d ≥ B.y0 then
      let st := checkScanline B F g b st xl (e.xs - 1) (e.y - e.d) (-e.d)
      checkScanline B F g b st (e.xe + 1) xr (e.y - e.d) (-e.d)
    else st

def leftOf (B : Bounds) (g : Grid) (b : Nat) (e : Iv) : Int :=
  e.xs - scanUntil B g b e.y (e.xs - 1) (B.x0 - 1)

def rightOf (B : Bounds) (g : Grid) (b : Nat) (e : Iv) : Int :=
  e.xe + scanUntil B g b e.y (e.xe + 1) (B.x1 + 1)

structure Result where
  grid : Grid
  /-- the stack ran empty (the `while len(line_seed) > 0` loop ended) within the fuel -/
  finished : Bool
  /-- the interval writes `(y, x_left, x_right)` in the order issued -/
  ops : List (Int × Int × Int)

/-- the `while len(line_seed) > 0` loop -/
def loop (B : Bounds) (F : Fill) (b : Nat) : Nat → Grid → List Iv → Result
  | 0, g, st => ⟨g, st.isEmpty, []⟩
  | _ + 1, g, [] => ⟨g, true, []⟩
  | n + 1, g, e :: st =>
    let xl := leftOf B g b e
    let xr := rightOf B g b e
    let st' := pushes B F g b e xl xr st
    let r := loop B F b n (setRow g F.val e.y xl xr) st'
    ⟨r.grid, r.finished, (e.y, xl, xr) :: r.ops⟩

/-- `_flood_fill` after the coordinates have been converted: nothing if the seed is out of bounds or on
    a border pixel -/
def floodFill (B : Bounds) (F : Fill) (b : Nat) (fuel : Nat) (g : Grid) (sx sy : Int) : Result :=
  if sx < B.x0 ∨ sx > B.x1 ∨ sy < B.y0 ∨ sy > B.y1 then ⟨g, true, []⟩
  else if g sx sy = b then ⟨g, true, []⟩
  else loop B F b fuel g [⟨sx, sx, sy, 0⟩]

/-- solid PAINT -/
def paint (B : Bounds) (fill b : Nat) (fuel : Nat) (g : Grid) (sx sy : Int) : Result :=
  floodFill B (solidFill fill) b fuel g sx sy

/-! ### through the viewport of C30 (solid fill): the page is in matrix coordinates -/

def viewBounds (v : Viewport.View) : Bounds := ⟨v.xmin, v.ymin, v.xmax, v.ymax⟩

/-- `graph_view[y, x]` (single pixel read: `_convert_coords`) -/
def viewGrid (v : Viewport.View) (pg : Draw.Page) : Grid := fun x y => pg (x + v.offX) (y + v.offY)

def opsToSetItems (ops : List (Int × Int × Int)) : Draw.Ops :=
  ops.flatMap (fun (y, xl, xr) => Draw.fillInterval y xl xr)

/-- solid PAINT on the page behind a viewport: the writes go through `GraphicsViewPort.__setitem__` -/
def paintPage (v : Viewport.View) (fill b : Nat) (fuel : Nat) (pg : Draw.Page) (sx sy : Int) : Draw.Page :=
  Draw.applyOps v fill pg (opsToSetItems (paint (viewBounds v) fill b fuel (viewGrid v pg) sx sy).ops)

/-! ### tiles (correspondence only) -/

/-- `unpack_bytes(byte, items_per_byte)` for one byte: pixels of `bpp` bits, most significant first -/
def unpackByte (bpp : Nat) (byte : Nat) : List Nat :=
  (List.range (8 / bpp)).map (fun i => (byte >>> (8 - bpp - i * bpp)) % (2 ^ bpp))

/-- `PackedTileBuilder`: one byte per tile row -/
def buildTilePacked (bpp : Nat) (pattern : Bytes) : List (List Nat) :=
  pattern.map (unpackByte bpp)

def groups (k : Nat) : Nat → List Nat → List (List Nat)
  | 0, _ => []
  | n + 1, l => if l.isEmpty then [] else l.take k :: groups k n (l.drop k)

/-- `PlanedTileBuilder`: pad with nulls to a multiple of the number of planes; row `r` combines the bytes
    `r*planes + p` as bit plane `p` -/
def buildTilePlaned (planes : Nat) (pattern : Bytes) : List (List Nat) :=
  let extra := pattern.length % planes
  let padded := if extra ≠ 0 then pattern ++ List.replicate (planes - extra) 0 else pattern
  (groups planes padded.length padded).map (fun grp =>
    (List.range 8).map (fun i =>
      (List.range grp.length).foldl (fun acc p => acc ||| ((((grp.getD p 0) >>> (7 - i)) % 2) <<< p)) 0))

structure Tile where
  rows : List (List Nat)
deriving Repr, DecidableEq

def Tile.h (t : Tile) : Nat := t.rows.length
def Tile.w (t : Tile) : Nat := (t.rows.headD []).length

/-- `tile[y % tile.height, :]` -/
def Tile.row (t : Tile) (y : Int) : List Nat := t.rows.getD (pyMod y t.h).toNat []

/-- tiled fill: `tile` built from the pattern string, `bg` the first row of the background tile.
    `same` transcribes `has_same_pattern` -/
def tileFill (t : Tile) (solid : Bool) (bg : Option (List Nat)) : Fill :=
  ⟨fun g y x w =>
      let rt := t.row y
      let tx := (pyMod x rt.length).toNat
      let s := (solid || rt.any (· != 0)) &&
        (List.range w).all (fun i => g (x + i) y == rt.getD ((tx + i) % rt.length) 0)
      match bg with
      | none => s
      | some br =>
        s && (decide (w < br.length) ||
          (List.range w).any (fun i => g (x + i) y != br.getD ((tx + i) % br.length) 0)),
   fun x y => let rt := t.row y; rt.getD (pyMod x rt.length).toNat 0⟩

/-- the "illegal tile/background combination" test of `_flood_fill` -/
def illegalCombo (t : Tile) (br : List Nat) : Bool :=
  (List.range (max 1 (t.h - 2))).any (fun r =>
    let comp := (t.rows.drop r).take 3
    comp.all (· == br))

/-- tiled PAINT -/
def paintTile (B : Bounds) (t : Tile) (solid : Bool) (bg : Option (List Nat)) (b : Nat) (fuel : Nat) (g : Grid)
    (sx sy : Int) : R Result :=
  match bg with
  | some br => if illegalCombo t br then .error PcbV.Gen.E.ifc else .ok (floodFill B (tileFill t solid bg) b fuel g sx sy)
  | none => .ok (floodFill B (tileFill t solid bg) b fuel g sx sy)

end PcbV.Paint
