import PcbV.Model.SaveLoad
namespace PcbV.Drv.C15
open PcbV PcbV.Protect PcbV.SaveLoad

def showImage (i : Image) : String :=
  toHex i.buf ++ " " ++ toString i.size ++ " " ++ showBool i.prot

def parseBool : String → Option Bool
  | "0" => some false
  | "1" => some true
  | _ => none

def handle : List String → String
  | ["prot", h] =>
    match ofHex h with
    | some b => "ok " ++ toHex (protect tableKeys b)
    | none => "bad-op"
  | ["unprot", h] =>
    match ofHex h with
    | some b => "ok " ++ toHex (unprotect tableKeys b)
    | none => "bad-op"
  | ["pb", i, b] =>
    match i.toNat?, b.toNat? with
    | some i, some b => "ok " ++ toString (protByte tableKeys i b)
    | _, _ => "bad-op"
  | ["ub", i, b] =>
    match i.toNat?, b.toNat? with
    | some i, some b => "ok " ++ toString (unprotByte tableKeys i b)
    | _, _ => "bad-op"
  | ["skip", h] =>
    match ofHex h with
    | some b => "ok " ++ toString (skipTo false false 0 b)
    | none => "bad-op"
  | ["save", fmt, p, sz, h] =>
    match ofHex h, parseBool p, sz.toNat? with
    | some b, some p, some sz =>
      match fmt with
      | "B" => showR toHex (saveFile tableKeys ⟨b, sz, p⟩ Fmt.B)
      | "P" => showR toHex (saveFile tableKeys ⟨b, sz, p⟩ Fmt.P)
      | _ => "bad-op"
    | _, _, _ => "bad-op"
  | ["load", cs, ap, h] =>
    match ofHex h, parseBool ap, cs.toNat? with
    | some f, some ap, some cs => showR showImage (loadFile tableKeys cs ap f)
    | _, _, _ => "bad-op"
  | ["store", cs, st, pos, len, rest] =>
    match cs.toNat?, st.toNat?, pos.toNat?, len.toNat?, rest.toNat? with
    | some cs, some st, some pos, some len, some rest => "ok " ++ showBool (storeOom cs st pos len rest)
    | _, _, _, _, _ => "bad-op"
  | _ => "bad-op"

end PcbV.Drv.C15
