import PcbV.Model.Play
/-
  PcbV.Lemmas.Play — auxiliary lemmas for the C42 theorems (PcbV.Props.C42).
-/
namespace PcbV.C42
open PcbV PcbV.Gen PcbV.Mml PcbV.Play

/-! ### the note table -/

theorem notes_semitone_le : ∀ x ∈ Notes.notes, x.2.2 ≤ 11 := by decide

theorem semitone_le {l a s : Nat} (h : semitone l a = some s) : s ≤ 11 := by
  unfold semitone at h
  rw [Option.map_eq_some_iff] at h
  obtain ⟨x, hx, rfl⟩ := h
  exact notes_semitone_le x (List.mem_of_find?_eq_some hx)

theorem rangeNat_nat (lo hi n : Nat) (h1 : lo ≤ n) (h2 : n ≤ hi) : rangeNat lo hi (n : Int) = .ok n := by
  unfold rangeNat
  rw [if_pos]
  · simp
  · constructor <;> omega

/-- one command keeps the octave in 0..6 and emits only table indices -/
theorem apply_octave (ps ps' : PlayState) (cmd : Cmd) (evs : List Ev) (ho : ps.octave ≤ 6)
    (h : apply ps cmd = .ok (ps', evs)) :
    ps'.octave ≤ 6 ∧ ∀ e ∈ evs, ∀ i, e.note = some i → i < Notes.noteCount := by
  cases cmd with
  | sub s => simp [apply] at h; obtain ⟨rfl, rfl⟩ := h; simp [ho]
  | n k d =>
    simp only [apply] at h
    cases hr : rangeNat 0 84 k with
    | error e => simp [hr, Except.map] at h
    | ok m =>
      have hm : m ≤ 84 := by
        unfold rangeNat at hr
        split at hr
        · injection hr with hr; omega
        · cases hr
      simp [hr, Except.map] at h
      by_cases h0 : m = 0
      · simp [h0] at h; obtain ⟨rfl, rfl⟩ := h; simp [ho, mkEv]
      · simp [h0] at h; obtain ⟨rfl, rfl⟩ := h
        refine ⟨ho, ?_⟩
        intro e he i hi
        simp at he; subst he
        simp [mkEv] at hi
        simp [Notes.noteCount]; omega
  | len k =>
    simp only [apply] at h
    cases hr : rangeNat 1 64 k <;> simp [hr, Except.map] at h
    obtain ⟨rfl, rfl⟩ := h; simp [ho]
  | tempo k =>
    simp only [apply] at h
    cases hr : rangeNat 32 255 k <;> simp [hr, Except.map] at h
    obtain ⟨rfl, rfl⟩ := h; simp [ho]
  | oct k =>
    simp only [apply] at h
    cases hr : rangeNat 0 6 k with
    | error e => simp [hr, Except.map] at h
    | ok m =>
      have hm : m ≤ 6 := by
        unfold rangeNat at hr
        split at hr
        · injection hr with hr; omega
        · cases hr
      simp [hr, Except.map] at h
      obtain ⟨rfl, rfl⟩ := h; simp [hm]
  | up =>
    simp [apply] at h; obtain ⟨rfl, rfl⟩ := h
    refine ⟨?_, by simp⟩
    simp only []
    split <;> omega
  | down =>
    simp [apply] at h; obtain ⟨rfl, rfl⟩ := h
    refine ⟨?_, by simp⟩
    simp only []
    omega
  | note letter acc l d =>
    simp only [apply] at h
    split at h
    · split at h
      · cases h
      · split at h
        · cases h
        · simp at h; obtain ⟨rfl, rfl⟩ := h; simp [ho]
      · simp at h; obtain ⟨rfl, rfl⟩ := h; simp [ho, mkEv]
    · cases hs : semitone letter acc with
      | none => simp [hs] at h
      | some s =>
        have := semitone_le hs
        simp [hs] at h; obtain ⟨rfl, rfl⟩ := h
        refine ⟨ho, ?_⟩
        intro e he i hi
        simp at he; subst he
        simp [mkEv] at hi
        simp [Notes.noteCount]; omega
  | fill f => simp [apply] at h; obtain ⟨rfl, rfl⟩ := h; simp [ho]
  | fg b => simp [apply] at h; obtain ⟨rfl, rfl⟩ := h; simp [ho]
  | vol k =>
    simp only [apply] at h
    split at h
    · simp at h; obtain ⟨rfl, rfl⟩ := h; simp [ho]
    · cases h

theorem step_octave (lim : Limits) (env : Env) (c c' : Cfg) (evs : List Ev) (ho : c.ps.octave ≤ 6)
    (h : step lim env c = .cont c' evs) :
    c'.ps.octave ≤ 6 ∧ ∀ e ∈ evs, ∀ i, e.note = some i → i < Notes.noteCount := by
  unfold step at h
  split at h
  · cases h
  · cases h
  · dsimp only at h
    split at h
    · cases h
    · injection h with h1 h2; subst h1; subst h2; simp [ho]
  · split at h
    · cases h
    · rename_i ps' evs' happ
      injection h with h1 h2; subst h1; subst h2
      exact apply_octave _ _ _ _ ho happ

/-- a variable store in which `A$ = "XA$;"` -/
def envSelf : Env :=
  { var := fun n idx => if n = [65, 36] ∧ idx = [] then .ok (.str [88, 65, 36, 59]) else .error E.ifc,
    ptr := fun _ => .error E.ifc }

theorem parse_self : parseCmd envSelf [88, 65, 36, 59] = .ok (some (.sub [88, 65, 36, 59], [])) := by
  decide


end PcbV.C42
