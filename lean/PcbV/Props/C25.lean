import PcbV.Lemmas.RandFile
import PcbV.Gen.Translated
/-
  C25 — Random-access files behave as arrays of fixed-length records.

  Property theorems about `PcbV.RandFile` (transcription of diskfiles.py:RandomFile / FieldFile,
  files.py:_check_pos and memory.py:Field).  `s : RF` is one open random file with its host file bytes,
  record pointer, host file position and FIELD buffer; `run true s ops` is the state after an arbitrary
  history `ops` of buffer writes (LSET/RSET through FIELD variables), PUT and GET with explicit (`some n`,
  any integer) or implicit (`none`) record numbers; `true` selects the repaired PUT (commit 86ee4641, D20).
  `Inv s` holds right after OPEN (`inv_opened`) and after every history (`inv_reachable`), so the theorems
  speak about every reachable state, including files reopened with existing contents.
  `recOf file r k` = bytes of record `k` (bytes behind the end read as zero), `getBuffer s` = the record
  part of the FIELD buffer, `recNo s pos` = the record a GET/PUT with argument `pos` addresses.

  The statement's "a record number outside 1..2^25 raises Bad record number" is not true of the code for
  2^25+1 and 2^25+2 (rounded to single precision first; known finding S4): `bad_record_number_partial`,
  `check_pos_exact`, `bad_record_number_counterexample`.
-/
namespace PcbV.C25
open PcbV PcbV.RandFile PcbV.Gen

/-- the invariant holds right after OPEN (record length within the buffer size, which `open_` checks) -/
theorem inv_opened (r : Nat) (file buf : Bytes) (h : r ≤ buf.length) : Inv (opened r file buf) :=
  ⟨h, fun _ => by simp [opened]⟩

/-- … and after every history; the record length never changes -/
theorem inv_reachable {s : RF} (h : Inv s) (ops : List Op) :
    Inv (run true s ops) ∧ (run true s ops).reclen = s.reclen := inv_run h ops

/-- **GET returns the bytes last PUT.**  PUT record `k` in any reachable state, then any history that does
not PUT record `k` again, then a GET that addresses `k` (explicitly or implicitly): the record part of the
FIELD buffer is exactly what it was at the time of the PUT. -/
theorem get_returns_last_put {s : RF} (hs : Inv s) (pos : Option Int) (k : Nat) (hput : recNo s pos = .ok k)
    (ops : List Op) (hno : NoPutTo k (step true s (.put pos)).1 ops) (pos' : Option Int)
    (hget : recNo (run true (step true s (.put pos)).1 ops) pos' = .ok k) :
    getBuffer (step true (run true (step true s (.put pos)).1 ops) (.get pos')).1 = getBuffer s := by
  obtain ⟨_, hi, hr, _, _, hw, _, _⟩ := step_put hs hput
  obtain ⟨hi2, hr2⟩ := inv_run hi ops
  obtain ⟨_, _, _, _, _, hg, _, _⟩ := step_get hi2 hget
  have h1 : 1 ≤ k := (recNo_ok_iff.mp hput).choose_spec.2.2
  rw [hg, hr2, recOf_run_noPut hi h1 ops hno, hr, hw]

/-- **A record that was not PUT reads as it was at OPEN** — for any history without a PUT to `k`, GET of
`k` yields the bytes the host file held there when the history started, zero-extended behind the end. -/
theorem get_unwritten {s : RF} (hs : Inv s) (k : Nat) (ops : List Op) (hno : NoPutTo k s ops)
    (pos' : Option Int) (hget : recNo (run true s ops) pos' = .ok k) :
    getBuffer (step true (run true s ops) (.get pos')).1 = recOf s.file s.reclen k := by
  obtain ⟨hi2, hr2⟩ := inv_run hs ops
  obtain ⟨_, _, _, _, _, hg, _, _⟩ := step_get hi2 hget
  have h1 : 1 ≤ k := (recNo_ok_iff.mp hget).choose_spec.2.2
  rw [hg, hr2, recOf_run_noPut hs h1 ops hno]

/-- **Unwritten records are zero**: on a file that was empty at OPEN, GET of any record never PUT —
below the end (a gap) or behind it — fills the record with zero bytes. -/
theorem unwritten_is_zero (r : Nat) (buf : Bytes) (h : r ≤ buf.length) (k : Nat) (ops : List Op)
    (hno : NoPutTo k (opened r [] buf) ops) (pos' : Option Int)
    (hget : recNo (run true (opened r [] buf) ops) pos' = .ok k) :
    getBuffer (step true (run true (opened r [] buf) ops) (.get pos')).1 = zeros r := by
  rw [get_unwritten (inv_opened r [] buf h) k ops hno pos' hget]
  exact recOf_nil r k

/-- **LOF**: the length after any history is the larger of the length before and record length × the
highest record PUT. -/
theorem lof_spec {s : RF} (hs : Inv s) (ops : List Op) :
    lof (run true s ops) = max (lof s) (s.reclen * hiPut s ops) := lof_run hs ops

/-- on a file that was empty at OPEN: LOF = record length × highest record written -/
theorem lof_new_file (r : Nat) (buf : Bytes) (h : r ≤ buf.length) (ops : List Op) :
    lof (run true (opened r [] buf) ops) = r * hiPut (opened r [] buf) ops := by
  rw [lof_spec (inv_opened r [] buf h)]
  simp [lof, opened]

/-- **LOC** is the number of the last record accessed by a successful GET or PUT (unchanged if none). -/
theorem loc_spec {s : RF} (hs : Inv s) (ops : List Op) :
    loc (run true s ops) = (lastAcc s ops).getD (loc s) := loc_run hs ops

/-- LOC is 0 right after OPEN -/
theorem loc_opened (r : Nat) (file buf : Bytes) : loc (opened r file buf) = 0 := rfl

/-- **The implicit record number is the previous one plus one.** -/
theorem implicit_record_is_next (s : RF) : recNo s none = .ok (loc s + 1) := rfl

/-- GET without a record number reads record LOC+1 and advances LOC by one; PUT likewise writes it -/
theorem implicit_get_put_next {s : RF} (hs : Inv s) :
    getBuffer (step true s (.get none)).1 = recOf s.file s.reclen (loc s + 1) ∧
    loc (step true s (.get none)).1 = loc s + 1 ∧
    recOf (step true s (.put none)).1.file s.reclen (loc s + 1) = getBuffer s ∧
    loc (step true s (.put none)).1 = loc s + 1 := by
  obtain ⟨_, _, _, _, hp, hg, _, _⟩ := step_get hs (implicit_record_is_next s)
  obtain ⟨_, _, _, _, hp', hw, _, _⟩ := step_put hs (implicit_record_is_next s)
  exact ⟨hg, hp, hw, hp'⟩

/-- **Bad record number** (the part of the statement the code satisfies): an explicit record number below 1
or above 2^25+2 makes GET and PUT fail with error 63 and change nothing. -/
theorem bad_record_number_partial (s : RF) (n : Int) (h : n < 1 ∨ n > 33554434) :
    step true s (.get (some n)) = (s, 63) ∧ step true s (.put (some n)) = (s, 63) := by
  have := (checkPos_error_iff n).mpr h
  simp [step, this, E.bad_record_number]

/-- exact domain of `_check_pos` on integers: accepted iff 1 ≤ n ≤ 2^25+2, and then the record accessed
is `n` rounded to single precision, which lies in 1..2^25 -/
theorem check_pos_exact (n : Int) :
    (1 ≤ n ∧ n ≤ 33554434 → checkPos (some n) = .ok (some (roundSingle n.toNat)) ∧
      1 ≤ roundSingle n.toNat ∧ roundSingle n.toNat ≤ 33554432) ∧
    (¬ (1 ≤ n ∧ n ≤ 33554434) → checkPos (some n) = .error 63) := by
  constructor
  · intro h
    have hne : ¬ checkPos (some n) = .error E.bad_record_number := by
      rw [checkPos_error_iff]; omega
    cases hc : checkPos (some n) with
    | error e => exact absurd (by rw [hc, checkPos_error_code hc]) hne
    | ok p =>
      obtain ⟨q, rfl, h1, h2, h3, _⟩ := checkPos_some_ok hc
      subst h3
      exact ⟨rfl, h1, h2⟩
  · intro h
    exact (checkPos_error_iff n).mpr (by omega)

/-- every refusal is error 63 and leaves file, record pointer and buffer untouched -/
theorem refused_changes_nothing {s : RF} {o : Op} (h : (step true s o).2 ≠ 0) :
    (step true s o).1 = s ∧ (step true s o).2 = 63 := by
  refine ⟨step_refused h, ?_⟩
  cases o with
  | write off d => simp only [step] at h; split at h <;> simp at h
  | put pos =>
    cases hc : checkPos pos with
    | ok p => simp [step, hc] at h
    | error e => simp [step, hc, checkPos_error_code hc, E.bad_record_number]
  | get pos =>
    cases hc : checkPos pos with
    | ok p => simp [step, hc] at h
    | error e => simp [step, hc, checkPos_error_code hc, E.bad_record_number]

/-- **S4**: the statement's range 1..2^25 is not the code's: 2^25+1 is accepted (and accesses record 2^25). -/
theorem bad_record_number_counterexample :
    ¬ (∀ (s : RF) (n : Int), (n < 1 ∨ n > 33554432) → (step true s (.get (some n))).2 = 63) := by
  intro h
  have := h (opened 1 [] [0]) 33554433 (by omega)
  revert this
  decide

/-- **FIELD variables see what GET read**: a variable at `off`, width `w` inside the record holds exactly
the corresponding bytes of the record; the buffer behind the record is untouched. -/
theorem field_sees_get {s : RF} (hs : Inv s) (pos : Option Int) (k : Nat) (hk : recNo s pos = .ok k)
    (off w : Nat) (hw : off + w ≤ s.reclen) :
    fieldVal (step true s (.get pos)).1.buf off w = ((recOf s.file s.reclen k).drop off).take w ∧
    (step true s (.get pos)).1.buf.drop s.reclen = s.buf.drop s.reclen := by
  obtain ⟨_, _, hr, _, _, hg, hd, _⟩ := step_get hs hk
  refine ⟨?_, hd⟩
  rw [← hg, getBuffer, hr]
  exact fieldVal_take hw

/-- **LSET → PUT → … → GET round trip through FIELD variables**: bytes written into the buffer through a
variable (`off`, width `d.length`) inside the record, PUT as record `k`, come back in the same variable
after any history that does not PUT `k` again and a GET of `k`. -/
theorem lset_put_get_roundtrip {s : RF} (hs : Inv s) (off : Nat) (d : Bytes) (hfit : off + d.length ≤ s.reclen)
    (pos : Option Int) (k : Nat) (hput : recNo (step true s (.write off d)).1 pos = .ok k)
    (ops : List Op)
    (hno : NoPutTo k (step true (step true s (.write off d)).1 (.put pos)).1 ops) (pos' : Option Int)
    (hget : recNo (run true (step true (step true s (.write off d)).1 (.put pos)).1 ops) pos' = .ok k) :
    fieldVal (step true (run true (step true (step true s (.write off d)).1 (.put pos)).1 ops)
      (.get pos')).1.buf off d.length = d := by
  have hs1 : Inv (step true s (.write off d)).1 := (step_spec hs (.write off d)).inv
  have hr1 : (step true s (.write off d)).1.reclen = s.reclen := (step_spec hs (.write off d)).reclen
  have hrt := get_returns_last_put hs1 pos k hput ops hno pos' hget
  obtain ⟨_, hi, hr, _, _, _, _, _⟩ := step_put hs1 hput
  obtain ⟨hi2, hr2⟩ := inv_run hi ops
  obtain ⟨_, _, hr3, _, _, _, _, _⟩ := step_get hi2 hget
  have hle : off + d.length ≤ s.buf.length := Nat.le_trans hfit hs.buf
  rw [fieldVal_take (r := s.reclen) hfit]
  have e1 : getBuffer (step true (run true (step true (step true s (.write off d)).1 (.put pos)).1 ops)
      (.get pos')).1 = List.take s.reclen (step true (run true (step true (step true s (.write off d)).1
      (.put pos)).1 ops) (.get pos')).1.buf := by
    rw [getBuffer, hr3, hr2, hr, hr1]
  rw [← e1, hrt, getBuffer, hr1, ← fieldVal_take hfit]
  simp only [step, hle, ↓reduceIte]
  exact fieldVal_bufWrite hle

/-- **Several files open at once**: PUT/GET through one file number is the single-file statement of the
theorems above applied to that file's view (host file bytes, record pointer, FIELD buffer of that number),
with the same error number; a refused statement changes nothing in the whole session. -/
theorem session_getput_is_step (s : Sess) (num : Nat) (pos : Option Int) (isPut : Bool) (f : OpenF)
    (hf : findRandom s num = .ok f) :
    let c := if isPut then Cmd.put num pos else Cmd.get num pos
    let o := if isPut then Op.put pos else Op.get pos
    (exec true s c).2 = (step true (s.rf num f) o).2 ∧
    ((step true (s.rf num f) o).2 = 0 →
      ∃ f', lookup num (exec true s c).1.files = some f' ∧ f'.fid = f.fid ∧
        (exec true s c).1.rf num f' = (step true (s.rf num f) o).1) ∧
    ((step true (s.rf num f) o).2 ≠ 0 → (exec true s c).1 = s) :=
  exec_getput_is_step true s num pos isPut f hf

/-- … and it touches nothing else: the other file numbers keep their record pointers and FIELD buffers,
the other host files their bytes, the FIELD variables their attachments. -/
theorem session_getput_frame (s : Sess) (num : Nat) (pos : Option Int) (isPut : Bool) :
    let c := if isPut then Cmd.put num pos else Cmd.get num pos
    let s' := (exec true s c).1
    (∀ m, m ≠ num → lookup m s'.files = lookup m s.files ∧ s'.buf m = s.buf m) ∧
    (∀ f, lookup num s.files = some f → ∀ g, g ≠ f.fid → s'.host g = s.host g) ∧
    s'.vars = s.vars :=
  exec_getput_frame true s num pos isPut

/-- **D20** (the code before commit 86ee4641): record length 2, PUT 1, PUT 5, GET 5 returned zeros and the
file was 8 bytes long, the record having been stored as record 4; the repaired rule returns the record and
LOF = 10. -/
theorem put_gap_counterexample :
    let ops := [Op.write 0 [97, 98], .put (some 1), .write 0 [99, 100], .put (some 5), .get (some 5)]
    getBuffer (run false (opened 2 [] [0, 0]) ops) = [0, 0] ∧
    lof (run false (opened 2 [] [0, 0]) ops) = 8 ∧
    recOf (run false (opened 2 [] [0, 0]) ops).file 2 4 = [99, 100] ∧
    getBuffer (run true (opened 2 [] [0, 0]) ops) = [99, 100] ∧
    lof (run true (opened 2 [] [0, 0]) ops) = 10 := by
  decide

/-! ### source tie: the record arithmetic of `RandomFile.eof`, `_set_record_pos` and `put` is translated
mechanically from the current Python AST (`PcbV.Gen.Translated.rf*`, gen/py2lean.py, regenerated on every run)
and proved equal to what the hand-written model computes; the translated definitions are also run against a
real `RandomFile` (vlib/translated.py: check_randfile). -/

theorem translated_rf_supported :
    Gen.Translated.rfEof_supported = true ∧ Gen.Translated.rfSeekOffset_supported = true ∧
    Gen.Translated.rfSeekRecpos_supported = true ∧ Gen.Translated.rfPutOffset_supported = true := by decide

/-- `RandomFile.eof` as written in the source is the model's `eof` -/
theorem translated_rfEof_eq (s : RF) :
    Gen.Translated.rfEof (s.recpos : Int) (s.reclen : Int) (lof s : Int) = eof s := by
  -- written so that an equivalent re-orientation of the comparison in the source (`lof < recpos * reclen`) still proves
  unfold Gen.Translated.rfEof eof
  have hm : ((s.recpos : Int) * (s.reclen : Int)) = ((s.recpos * s.reclen : Nat) : Int) := by simp
  simp only [hm, decide_eq_decide]
  omega

/-- `_set_record_pos(pos)` for an accepted record number (`1 ≤ p`, `check_pos_exact`): the host file offset it
seeks to and the record pointer it stores are the model's -/
theorem translated_rfSeek_eq (s : RF) (p : Nat) (hp : 1 ≤ p) :
    ((setRecordPos s (some p)).fpos : Int) = Gen.Translated.rfSeekOffset (p : Int) (s.reclen : Int) ∧
    ((setRecordPos s (some p)).recpos : Int) = Gen.Translated.rfSeekRecpos (p : Int) := by
  simp only [setRecordPos, Gen.Translated.rfSeekOffset, Gen.Translated.rfSeekRecpos]
  constructor
  · rw [Int.natCast_mul, Int.natCast_sub hp]; rfl
  · rw [Int.natCast_sub hp]; rfl

/-- `put` writes the FIELD buffer at exactly the offset the source seeks to (`self._recpos * self.reclen`),
the file being NUL-filled up to there -/
theorem translated_rfPutOffset_eq {s : RF} (h : Inv s) :
    ∃ o : Nat, (o : Int) = Gen.Translated.rfPutOffset (s.recpos : Int) (s.reclen : Int) ∧
      (put true s none).file = writeAt (ljust s.file o) o (getBuffer s) :=
  ⟨s.recpos * s.reclen, by simp [Gen.Translated.rfPutOffset], by rw [put_none_eq h]⟩

/-! ### non-vacuity: the hypotheses are satisfiable on histories with gaps, repeats and implicit numbers -/

example : Inv (opened 3 [1, 2, 3, 4] [0, 0, 0, 0]) := inv_opened 3 _ _ (by decide)

example : recNo (opened 2 [] [0, 0]) (some 7) = .ok 7 ∧ recNo (opened 2 [] [0, 0]) none = .ok 1 ∧
    recNo (opened 2 [] [0, 0]) (some 33554433) = .ok 33554432 ∧
    recNo (opened 2 [] [0, 0]) (some 16777217) = .ok 16777216 ∧
    recNo (opened 2 [] [0, 0]) (some 0) = .error 63 := by decide

/-- a history that PUTs records 5, 6 (implicit) and 2 but never record 3 -/
example : NoPutTo 3 (opened 2 [] [0, 0]) [.put (some 5), .put none, .get (some 3), .write 0 [7], .put (some 2)] := by
  refine ⟨by decide, by decide, by decide, by decide, by decide, trivial⟩

example : hiPut (opened 2 [] [0, 0]) [.put (some 5), .put none, .get (some 9), .put (some 2)] = 6 ∧
    lastAcc (opened 2 [] [0, 0]) [.put (some 5), .put none, .get (some 9), .put (some 0)] = some 9 := by decide

/-- the round trip on a concrete gapped history: LSET, PUT 5, PUT 1, GET 3 (zeros), GET 5 -/
example :
    let s := run true (opened 2 [] [0, 0]) [.write 0 [99, 100], .put (some 5), .write 0 [1, 2], .put (some 1), .get (some 3)]
    getBuffer s = [0, 0] ∧ lof s = 10 ∧ loc s = 3 ∧ getBuffer (step true s (.get (some 5))).1 = [99, 100] := by
  decide

end PcbV.C25
