"""C24 — Sequential files return what was written."""
import binascii
import os
import shutil
import tempfile

from vlib import basic

LEVEL = 'proof'
RULE = ('one case = one history on a file of a temp-dir mount (C:), run once with soft_linefeed off and once on: '
        '(a) WRITE# item lists (strings over all bytes but 22/00/1A with lengths 0,1,2,…,253,254,255, integers, singles, '
        'doubles incl. range limits) in 1..3 OPEN/CLOSE sessions (OUTPUT then APPEND, or APPEND on a host-made file '
        'with/without trailing 1A), read back by INPUT# statements with a different grouping, EOF after every statement, '
        'LOF/LOC in both modes; (a2) the same with the variables of WRITE#/PRINT#/INPUT#/LINE INPUT# typed by DEFSTR/DEFINT/'
        'DEFSNG/DEFDBL over letter ranges instead of a sigil (also explicit sigils against the DEFtype, array elements, '
        'mixed lists; expected type from the generator\'s own DEFtype table); (b) PRINT# lines (lengths 0..255) read back by LINE INPUT#/INPUT$; (c) fuzz: host-made '
        'files over a separator-dense alphabet read with random INPUT#/LINE INPUT#/INPUT$/EOF/LOF/LOC, and writer '
        'fuzz with WIDTH and partial PRINT#; non-trivial = history with at least one item/line/byte')
EXPLANATION = ('theorems (PcbV.Props.C24): write_input_roundtrip, print_lineinput_roundtrip, eof_exactly_after_last, '
               'lof_is_length, append_after_existing, var_type_from_completed_name, write_input_roundtrip_vars over all item '
               'lists/histories/DEFtype tables of the model; correspondence: every '
               'history is executed by a real Session (OPEN/WRITE#/PRINT#/WIDTH#/INPUT#/LINE INPUT#/INPUT$/EOF/LOF/LOC/'
               'CLOSE), the words returned by the real input_entry, the values, EOF/LOF/LOC and the host file bytes are '
               'compared with the Lean model; oracle: the list of items written (strings exact, numbers by printed form '
               'and by VAL of the written text), EOF exactly after the last item, LOF = host size, expected host bytes '
               'serialised independently')
TRUSTED_BASE = ['model PcbV.Model.SeqFile is a hand transcription of TextFileBase/TextFile/InputMixin/NewlineWrapper/'
                'Files.write_ (number printing and parsing are parameters: the text comes from the real printer)']
ASSUMPTIONS = ['host filesystem returns the bytes written (temp dir on local disk)',
               'number text: produced by values.to_repr, contains no blank/comma/CR/LF/NUL/1A (checked at run time)']

FNAME = 'T.DAT'


def hx(b):
    return binascii.hexlify(bytes(b)).decode() or '-'


def unhx(s):
    return b'' if s == '-' else binascii.unhexlify(s)


class Impl(object):
    """The real interpreter on a temp-dir mount; one Session per soft_linefeed setting."""

    def __init__(self, soft):
        self.soft = soft
        self.dir = tempfile.mkdtemp(prefix='pcbv_c24_')
        self.s = basic.new_session(devices={'C': self.dir}, current_device='C', soft_linefeed=soft)
        self.records = []
        self.numtext = {}

    def close(self):
        try:
            self.s.close()
        finally:
            shutil.rmtree(self.dir, ignore_errors=True)

    def path(self):
        return os.path.join(self.dir, FNAME)

    def host_bytes(self):
        try:
            with open(self.path(), 'rb') as f:
                return f.read()
        except EnvironmentError:
            return b''

    def ex(self, text):
        return basic.safe_exec(self.s, text)

    def number_text(self, typechar, value):
        """text of a number as WRITE produces it (the real number printer), via the public API"""
        key = (typechar, repr(value))
        if key not in self.numtext:
            self.s.set_variable('NT' + typechar, value)
            out = self.ex(b'WRITE NT' + typechar.encode())
            self.numtext[key] = out.replace(b'\r', b'').replace(b'\n', b'').replace(b'\xff', b'')
        return self.numtext[key]

    @staticmethod
    def var_parts(var):
        """var = [name as written in the statement, sigil the variable must have (explicit, or from the DEFtype
        table kept by the generator)] -> (full scalar/array name with sigil, '(i)' or '', base name as written)"""
        written, sig = var
        base, idx = (written[:written.index('(')], written[written.index('('):]) if '(' in written else (written, '')
        full = base if base[-1] in '$%!#' else base + sig
        return full, idx, base

    def set_var(self, var, value):
        """assign through explicitly typed names only (the setup must not depend on what is being tested)"""
        full, idx, _ = self.var_parts(var)
        if idx:
            self.s.set_variable('TQ' + full[-1], value)
            self.ex(('%s%s=TQ%s' % (full, idx, full[-1])).encode())
        else:
            self.s.set_variable(full, value)

    def get_var(self, var):
        full, idx, _ = self.var_parts(var)
        if idx:
            self.ex(('TQ%s=%s%s' % (full[-1], full, idx)).encode())
            return self.s.get_variable('TQ' + full[-1])
        return self.s.get_variable(full)

    def hook(self):
        """record (word, sep) of every real input_entry call on file #1"""
        try:
            f = self.s._impl.files.get(1)
        except Exception:
            return
        orig = f.input_entry
        rec = self.records

        def wrapped(*a, **k):
            try:
                word, sep = orig(*a, **k)
            except Exception as e:
                rec.append('E%s' % getattr(e, 'err', type(e).__name__))
                raise
            rec.append('w%s/%s' % (hx(word), hx(sep or b'')))
            return word, sep
        f.input_entry = wrapped

    def run(self, hist):
        """Execute a history; returns (protocol ops, results, final host bytes, observations for the oracle)."""
        s = self.s
        self.ex(b'CLOSE')
        self.ex(b'DEFSNG A-Z')
        try:
            os.remove(self.path())
        except EnvironmentError:
            pass
        ops, res, obs = [], [], []
        for op in hist:
            k = op[0]
            if k == 'T':
                # DEFSTR/DEFINT/DEFSNG/DEFDBL a-b
                kw = {'s': b'DEFSTR', 'i': b'DEFINT', 'f': b'DEFSNG', 'd': b'DEFDBL'}[op[1]]
                out = self.ex(kw + b' ' + op[2].encode() + b'-' + op[3].encode())
                if out.strip():
                    res.append('DEFERR')
                ops.append('T%s%s%s' % (op[1], op[2], op[3]))
            elif k == 'h':
                with open(self.path(), 'wb') as f:
                    f.write(unhx(op[1]))
                ops.append('h' + op[1])
            elif k in ('oO', 'oA', 'oI'):
                mode = {'oO': b'OUTPUT', 'oA': b'APPEND', 'oI': b'INPUT'}[k]
                out = self.ex(b'OPEN "%s" FOR %s AS 1' % (FNAME.encode(), mode))
                if out.strip():
                    obs.append(('open-error', out))
                    res.append('OPENERR')
                if k == 'oI':
                    self.hook()
                ops.append(k)
            elif k == 'c':
                self.ex(b'CLOSE 1')
                ops.append('c')
            elif k == 'W':
                names, its, texts = [], [], []
                for j, it in enumerate(op[1]):
                    var = it[2] if it[0] == 's' and len(it) > 2 else it[3] if it[0] == 'n' and len(it) > 3 else None
                    if it[0] == 's':
                        nm = 'S%d$' % j
                        payload = unhx(it[1])
                        texts.append(None)
                    else:
                        nm = 'N%d%s' % (j, it[1])
                        payload = it[2]
                        texts.append(self.number_text(it[1], it[2]))
                    if var is None:
                        s.set_variable(nm, payload)
                        its.append('s' + it[1] if it[0] == 's' else 'n' + hx(texts[-1]))
                    else:
                        # the statement names the variable as written (maybe without sigil: DEFtype decides);
                        # the model derives str/num from the completed name
                        self.set_var(var, payload)
                        nm = var[0]
                        its.append('v%s/%s' % (hx(self.var_parts(var)[2].encode()),
                                               it[1] if it[0] == 's' else hx(texts[-1])))
                    names.append(nm)
                stmt = b'WRITE #1' + b''.join(b', ' + n.encode() for n in names)
                out = self.ex(stmt)
                if out.strip():
                    res.append('WERR')
                    obs.append(('write-error', out))
                obs.append(('W', texts))
                ops.append('W' + ','.join(its))
            elif k in ('P', 'Q'):
                if len(op) > 2:
                    self.set_var(op[2], unhx(op[1]))
                    nm = op[2][0].encode()
                else:
                    s.set_variable('S0$', unhx(op[1]))
                    nm = b'S0$'
                out = self.ex(b'PRINT #1, ' + nm + (b';' if k == 'Q' else b''))
                if out.strip():
                    res.append('WERR')
                ops.append(k + op[1])
            elif k == 'N':
                # PRINT #1, number: the formatter sends ' text ' then the line end
                nm = 'N0' + op[1]
                s.set_variable(nm, op[2])
                t = self.number_text(op[1], op[2])
                lead = b'' if t[:1] == b'-' else b' '
                self.ex(b'PRINT #1, ' + nm.encode())
                obs.append(('N', t))
                ops.append('Q' + hx(lead + t + b' '))
                ops.append('L')
            elif k == 'd':
                self.ex(b'WIDTH #1, %d' % op[1])
                ops.append('d%d' % op[1])
            elif k == 'i':
                del self.records[:]
                if len(op) > 2:
                    tvars = op[2]
                else:
                    tvars = [['R%d%s' % (j, '$' if t == 's' else t), '$' if t == 's' else t] for j, t in enumerate(op[1])]
                for var in tvars:
                    # a target that is not assigned must not look like a value read
                    self.set_var(var, b'<unset>' if var[1] == '$' else 12345)
                out = self.ex(b'INPUT #1' + b''.join(b', ' + var[0].encode() for var in tvars))
                recs = list(self.records)
                # one model op per input_entry call actually made (a statement stops at the first error)
                for j, rec in enumerate(recs[:len(op[1])]):
                    if len(op) > 2:
                        ops.append('iv' + hx(self.var_parts(tvars[j])[2].encode()))
                    else:
                        ops.append('is' if op[1][j] == 's' else 'in')
                    res.append(rec)
                vals = [self.get_var(var) for var in tvars]
                obs.append(('i', op[1], vals, out, recs))
            elif k == 'l':
                var = op[1] if len(op) > 1 else ['R$', '$']
                self.set_var(var, b'<unset>' if var[1] == '$' else 12345)
                out = self.ex(b'LINE INPUT #1, ' + var[0].encode())
                if b'Type mismatch' in out:
                    # the target is not a string variable: nothing is read (not an observation of the oracle)
                    res.append('E13')
                elif b'Input past end' in out:
                    res.append('E62')
                    obs.append(('l', None))
                else:
                    v = self.get_var(var)
                    res.append('l' + hx(v))
                    obs.append(('l', v))
                ops.append('lv' + hx(self.var_parts(var)[2].encode()) if len(op) > 1 else 'l')
            elif k == 'r':
                s.set_variable('R$', b'<unset>')
                out = self.ex(b'R$=INPUT$(%d,#1)' % op[1])
                if b'Input past end' in out:
                    res.append('E62')
                    obs.append(('r', None))
                else:
                    v = s.get_variable('R$')
                    res.append('r' + hx(v))
                    obs.append(('r', v))
                ops.append('r%d' % op[1])
            elif k in ('e', 'f', 'k'):
                fn = {'e': b'EOF', 'f': b'LOF', 'k': b'LOC'}[k]
                out = self.ex(b'PRINT %s(1)' % fn)
                txt = out.replace(b'\xff', b'').strip()
                try:
                    v = int(txt)
                    res.append(k + ('%d' % (1 if v else 0) if k == 'e' else '%d' % v))
                except ValueError:
                    v = None
                    res.append('E54' if b'Bad file mode' in out else 'E?' + hx(txt[:20]))
                host = None
                if k == 'f':
                    try:
                        host = os.path.getsize(self.path())
                    except EnvironmentError:
                        host = None
                obs.append((k, v, host))
                ops.append(k)
            else:
                raise ValueError(op)
        self.ex(b'CLOSE')
        return ops, res, self.host_bytes(), obs


def canon(res, data):
    return 'ok %s %s' % (';'.join(res) or '-', hx(data))


# ---------------------------------------------------------------------------------------------------------
# generators

def gen_string(rng, soft, kind=None):
    """string for WRITE#: all bytes but 22, 00, 1A; boundary-dense lengths and separator-dense bytes"""
    r = rng.random()
    if kind == 'len255':
        n = 255
    elif r < 0.25:
        n = rng.choice([0, 1, 2, 3, 253, 254, 254, 128, 127, 129])
    else:
        n = rng.randrange(0, 40)
    special = [32, 44, 9, 255, 39, 59, 58, 13, 1, 27, 127, 128, 48, 45, 46, 69, 35, 33, 38]
    if kind == 'lf':
        special = special + [10, 10, 10, 13]
    flavour = rng.random()
    out = bytearray()
    for _ in range(n):
        if flavour < 0.4:
            b = rng.choice(special)
        elif flavour < 0.7:
            b = rng.choice(special) if rng.random() < 0.3 else rng.randrange(256)
        else:
            b = rng.randrange(256)
        if b in (34, 0, 26) or (b == 10 and kind != 'lf'):
            b = 65 + b % 26
        out.append(b)
    if kind == 'lf' and 10 not in out:
        if len(out) == 0:
            out.append(10)
        else:
            out[rng.randrange(len(out))] = 10
    if kind == 'crlf-lead':
        out[0:0] = b'\r\n'
        del out[254:]
    return bytes(out)


def gen_number(rng):
    t = rng.choice('%%!!##')
    r = rng.random()
    if t == '%':
        v = rng.choice([0, 1, -1, 32767, -32768, -32767, 255, 256, 10, 100]) if r < 0.5 else rng.randrange(-32768, 32768)
    elif t == '!':
        if r < 0.3:
            v = rng.choice([0.0, 1.0, -1.0, 0.5, 1.5, 0.1, 1e7, 9999999.0, 1e-7, 1.70141e38, -1.70141e38, 2.93874e-39,
                            16777216.0, 32768.0, -32769.0, 65536.0, 1234567.0, 0.01, 1e10, 123456.7])
        else:
            v = float('%.7g' % (rng.uniform(-1, 1) * 10.0 ** rng.randrange(-38, 38)))
    else:
        if r < 0.3:
            v = rng.choice([0.0, 1.0, -1.0, 0.5, 0.1, 1e16, 1e15, 1e-16, 1.7e38, -1.7e38, 2.94e-39, 4294967296.0,
                            123456789012345.0, 1e7, 3.141592653589793, 1e-3, 1e20])
        else:
            v = float('%.16g' % (rng.uniform(-1, 1) * 10.0 ** rng.randrange(-38, 38)))
    return ['n', t, v]


def gen_line(rng, kind=None):
    """line for PRINT#: all bytes but CR, LF, 1A (LF only for the kinds that ask for it)"""
    r = rng.random()
    if kind == 'len255':
        n = 255
    elif r < 0.3:
        n = rng.choice([0, 0, 1, 2, 253, 254, 254, 128])
    else:
        n = rng.randrange(0, 60)
    out = bytearray()
    for _ in range(n):
        b = rng.choice([32, 44, 34, 0, 9, 65, 66, 255]) if rng.random() < 0.5 else rng.randrange(256)
        if b in (13, 10, 26):
            b = 97 + b % 26
        out.append(b)
    if kind == 'lf-inner' and len(out) >= 2:
        out[rng.randrange(len(out) - 1)] = 10
    if kind == 'lf-end':
        out = out[:200] + b'\n'
    return bytes(out)


def gen_roundtrip(rng, soft, kind=None):
    """(a): WRITE# in one or several sessions, INPUT# with another grouping."""
    hist, items = [], []
    nsess = rng.choice([1, 1, 2, 2, 3])
    host_prefix = None
    if rng.random() < 0.25:
        # a host-made file (with or without the EOF byte) that the first session appends to
        pre_items = [['s', hx(gen_string(rng, soft))], ['n', '%', rng.randrange(-9, 99)]]
        host_prefix = pre_items
    special_at = rng.randrange(nsess)
    for si in range(nsess):
        first = si == 0
        hist.append(['oA'] if (not first or host_prefix is not None or rng.random() < 0.15) else ['oO'])
        if rng.random() < 0.3:
            hist.append(['f'])
        for wi in range(rng.randrange(1, 4)):
            its = []
            for j in range(rng.randrange(1, 6)):
                if rng.random() < 0.55:
                    k = kind if (kind and si == special_at and wi == 0 and j == 0) else None
                    its.append(['s', hx(gen_string(rng, soft, k))])
                else:
                    its.append(gen_number(rng))
            if kind and si == special_at and wi == 0 and its[0][0] != 's':
                its[0] = ['s', hx(gen_string(rng, soft, kind))]
            hist.append(['W', its])
            items += its
            if rng.random() < 0.3:
                hist.append(['f'])
            if rng.random() < 0.1:
                hist.append(['k'])
        hist.append(['c'])
    return hist, items, host_prefix


def read_plan(rng, items):
    """INPUT# statements with a grouping unrelated to the WRITE# grouping; EOF after each; LOF sometimes."""
    plan = [['oI'], ['e'], ['f']]
    i = 0
    while i < len(items):
        n = min(len(items) - i, rng.choice([1, 1, 2, 3, 4]))
        plan.append(['i', ['s' if it[0] == 's' else it[1] for it in items[i:i + n]]])
        plan.append(['e'])
        if rng.random() < 0.15:
            plan.append(['f'])
        if rng.random() < 0.1:
            plan.append(['k'])
        i += n
    plan.append(['c'])
    return plan


ALPHA = [34, 34, 44, 44, 13, 13, 10, 10, 32, 32, 0, 26, 9, 48, 49, 50, 45, 46, 69, 65, 66, 97, 255, 38, 72]


SIGIL_OF = {'s': '$', 'i': '%', 'f': '!', 'd': '#'}


def gen_deftab(rng, fixed):
    """DEFtype statements and the resulting table letter -> sigil, kept by the generator itself
    (the oracle's expected type of an unsigiled variable comes from this table, not from the interpreter)"""
    tab = ['!'] * 26
    if fixed:
        stmts = [('s', 'R', 'S'), ('i', 'I', 'N'), ('d', 'D', 'D')]
    else:
        stmts = []
        for _ in range(rng.randrange(1, 5)):
            a = rng.randrange(26)
            b = rng.choice([a, a, min(25, a + rng.randrange(0, 6)), rng.randrange(26)])
            stmts.append((rng.choice('ssssiidf'), chr(65 + a), chr(65 + b)))
        if rng.random() < 0.8 and not any(k == 's' and a <= b for k, a, b in stmts):
            a = rng.randrange(26)
            stmts.append(('s', chr(65 + a), chr(65 + min(25, a + rng.randrange(0, 4)))))
    ops = []
    for k, a, b in stmts:
        # a reversed range is accepted and changes nothing
        for i in range(ord(a) - 65, ord(b) - 65 + 1):
            tab[i] = SIGIL_OF[k]
        if rng.random() < 0.3:
            a, b = a.lower(), b.lower()
        ops.append(['T', k, a, b])
    return ops, tab


def pick_var(rng, tab, sigil, tag, num, idx):
    """a target/source variable of type `sigil`, written with or without sigil, scalar or array element"""
    cands = [chr(65 + i) for i in range(26) if tab[i] == sigil]
    r = rng.random()
    if cands and r < 0.7:
        letter, explicit = rng.choice(cands), ''
    else:
        # explicit sigil, also on a letter whose DEFtype says otherwise
        letter, explicit = chr(65 + rng.randrange(26)), sigil
    if rng.random() < 0.3:
        letter = letter.lower()
    if rng.random() < 0.3:
        return ['%s%s%s(%d)' % (letter, tag[1], explicit, idx), sigil]
    return ['%s%s%d%s' % (letter, tag[0], num, explicit), sigil]


def gen_deftype_roundtrip(rng, soft, fixed):
    """WRITE#/INPUT# where the variables of both statements get their type from DEFSTR/DEFINT/DEFSNG/DEFDBL
    (no sigil), from an explicit sigil, or are array elements; mixed in one statement"""
    tops, tab = gen_deftab(rng, fixed)
    hist, items = list(tops), []
    nsess = 1 if fixed else rng.choice([1, 1, 2])
    gi = 0
    for si in range(nsess):
        hist.append(['oO'] if si == 0 else ['oA'])
        for wi in range(rng.randrange(1, 3) if not fixed else 2):
            its = []
            for j in range(rng.randrange(1, 5) if not fixed else 3):
                if fixed:
                    it = [['s', hx(b'hello, "x'.replace(b'"', b"'") + bytes(bytearray([48 + gi])))], gen_number(rng),
                          ['s', hx(b'')]][j]
                elif rng.random() < 0.55:
                    it = ['s', hx(gen_string(rng, soft))]
                else:
                    it = gen_number(rng)
                sig = '$' if it[0] == 's' else it[1]
                if fixed:
                    cands = [chr(65 + i) for i in range(26) if tab[i] == sig]
                    var = ['%sX%d' % (cands[gi % len(cands)], gi), sig] if cands else ['AX%d%s' % (gi, sig), sig]
                else:
                    var = pick_var(rng, tab, sig, 'XZ', gi, j)
                its.append(it + [var])
                gi += 1
            hist.append(['W', its])
            items += its
        hist.append(['c'])
    plan = [['oI'], ['e'], ['f']]
    i = 0
    while i < len(items):
        n = min(len(items) - i, rng.choice([1, 2, 3, 4]))
        tvars = []
        for j, it in enumerate(items[i:i + n]):
            sig = '$' if it[0] == 's' else it[1]
            if fixed:
                cands = [chr(65 + q) for q in range(26) if tab[q] == sig]
                tvars.append(['%sY%d' % (cands[(i + j) % len(cands)], i + j), sig] if cands
                             else ['AY%d%s' % (i + j, sig), sig])
            else:
                tvars.append(pick_var(rng, tab, sig, 'YV', i + j, j))
        plan.append(['i', ['s' if it[0] == 's' else it[1] for it in items[i:i + n]], tvars])
        plan.append(['e'])
        i += n
    plan.append(['c'])
    return hist + plan, items, tab


def gen_deftype_lines(rng, fixed):
    """PRINT#/LINE INPUT# with string variables named without sigil under DEFSTR, or with it, or array elements"""
    tops, tab = gen_deftab(rng, fixed)
    hist, lines = list(tops) + [['oO']], []
    for li in range(3 if fixed else rng.randrange(1, 5)):
        l = gen_line(rng)
        var = ['%sX%d' % ('RS'[li % 2], li), '$'] if fixed else pick_var(rng, tab, '$', 'XZ', li, li)
        hist.append(['P', hx(l), var])
        lines.append(l)
    hist += [['c'], ['oI'], ['e']]
    for li, l in enumerate(lines):
        if not fixed and rng.random() < 0.2:
            # a numeric target: Type mismatch, nothing is consumed
            nums = [chr(65 + i) for i in range(26) if tab[i] != '$']
            hist.append(['l', ['%sY%d' % (rng.choice(nums), li), '!']] if nums and rng.random() < 0.5
                        else ['l', ['QY%d%%' % li, '%']])
        var = ['%sY%d' % ('SR'[li % 2], li), '$'] if fixed else pick_var(rng, tab, '$', 'YV', li, li)
        hist += [['l', var], ['e']]
    hist.append(['c'])
    return hist, lines


def gen_fuzz_read(rng):
    n = rng.choice([0, 1, 2, 5, 10, 20, 40, 80, 300, 600])
    data = bytearray()
    for _ in range(n):
        r = rng.random()
        if r < 0.15:
            data += b'\r\n'
        elif r < 0.8:
            data.append(rng.choice(ALPHA))
        else:
            data.append(rng.randrange(256))
    if rng.random() < 0.5:
        data = bytes(data).replace(b'\x1a', b'x') + (b'\x1a' if rng.random() < 0.7 else b'')
    if n >= 300 and rng.random() < 0.5:
        # long fields: exercise the 255 limits
        data = bytes(data).replace(b'\r', b'a').replace(b',', b'b')
    hist = [['h', hx(data)], ['oI']]
    errs = 0
    for _ in range(rng.randrange(1, 30)):
        r = rng.random()
        if r < 0.35:
            hist.append(['i', [rng.choice(['s', 's', '#'])] ])
        elif r < 0.55:
            hist.append(['l'])
        elif r < 0.7:
            hist.append(['r', rng.choice([1, 1, 2, 3, 5, 10, 255])])
        elif r < 0.85:
            hist.append(['e'])
        elif r < 0.93:
            hist.append(['f'])
        else:
            hist.append(['k'])
    hist.append(['c'])
    return hist


def gen_fuzz_write(rng):
    hist = [['oO']]
    for _ in range(rng.randrange(1, 25)):
        r = rng.random()
        if r < 0.15:
            hist.append(['d', rng.choice([255, 1, 2, 10, 20, 40, 80, 254, 0, 14, 15])])
        elif r < 0.45:
            n = rng.choice([0, 1, 3, 10, 30, 100, 255])
            b = bytes(bytearray(rng.choice([13, 10, 9, 7, 31, 32, 65, 66, 255, 44, 34]) if rng.random() < 0.3
                                else rng.randrange(32, 127) for _ in range(n)))
            hist.append(['Q', hx(b)])
        elif r < 0.65:
            hist.append(['P', hx(gen_line(rng))])
        elif r < 0.8:
            hist.append(['W', [['s', hx(gen_string(rng, True))] if rng.random() < 0.6 else gen_number(rng)
                               for _ in range(rng.randrange(1, 4))]])
        elif r < 0.85:
            hist.append(['N'] + gen_number(rng)[1:])
        elif r < 0.92:
            hist.append(['f'])
        elif r < 0.96:
            hist.append(['k'])
        elif r < 0.98:
            hist.append(['e'])
        else:
            hist += [['c'], ['oA']]
    hist.append(['c'])
    if rng.random() < 0.5:
        hist += [['oI'], ['f'], ['l'], ['e'], ['i', ['s']], ['e'], ['r', 3], ['e'], ['k'], ['c']]
    return hist


# ---------------------------------------------------------------------------------------------------------
# oracle (from the property statement; independent of the Lean model)

S5 = 'S5:write-input:item-after-255-byte-string-shifted'
S6 = 'S6:print-lineinput:empty-line-after-255-byte-line'
S7 = 'S7:default-newline-mode:LF-read-back-as-CR'
S8 = 'S8:soft-linefeed:line-ending-in-LF-joins-next'


def serialise(items, texts):
    out = []
    for it, t in zip(items, texts):
        out.append(b'"' + unhx(it[1]) + b'"' if it[0] == 's' else t)
    return b','.join(out) + b'\r\n'


def nl_normalise(b):
    return b.replace(b'\r\n', b'\r').replace(b'\n', b'\r')


def oracle_roundtrip(ctx, impl, soft, hist, obs, data, label, prefix=None):
    """strings exact, numbers by printed form and VAL of the written text, EOF exactly after the last item,
    LOF = host size = expected bytes, host bytes = independent serialisation.
    `prefix`: items of a host-made file (as an earlier WRITE# would have left them) that the history appends to."""
    case = {'soft': soft, 'hist': hist, 'kind': label, 'prefix': prefix}
    mode = 'soft' if soft else 'wrap'
    items = list(prefix or []) + [it for op in hist if op[0] == 'W' for it in op[1]]
    # expected host bytes
    exp = bytearray()
    texts_all = []
    if prefix:
        ptexts = [None if it[0] == 's' else impl.number_text(it[1], it[2]) for it in prefix]
        exp += serialise(prefix, ptexts)
        texts_all += ptexts
    wi = [o for o in obs if o[0] == 'W']
    stmts = [op for op in hist if op[0] == 'W']
    for op, o in zip(stmts, wi):
        exp += serialise(op[1], o[1])
        texts_all += o[1]
    exp += b'\x1a'
    if bytes(exp) != data:
        ctx.fail('%s:%s:file-bytes' % (label, mode), case,
                 'host file is %r, the items written serialise to %r' % (data[:300], bytes(exp)[:300]))
        return
    for t in texts_all:
        if t is not None and (not t or len(t) >= 255 or any(x in b' ,\r\n\x00\x1a' for x in bytearray(t))):
            ctx.fail('%s:number-text-contract' % label, case, 'number printed as %r' % t)
    # LOF while writing / reading
    for o in obs:
        if o[0] == 'f' and (o[1] is None or o[1] != o[2]):
            ctx.fail('%s:%s:lof' % (label, mode), case, 'LOF(1)=%r, host file has %r bytes' % (o[1], o[2]))
            return
    # values read back
    read_vals, read_types = [], []
    eofs = [o[1] for o in obs if o[0] == 'e']
    for o in obs:
        if o[0] == 'i':
            read_vals += o[2]
            read_types += o[1]
    has255 = [i for i, it in enumerate(items) if it[0] == 's' and len(unhx(it[1])) == 255]
    for i, it in enumerate(items):
        if i >= len(read_vals):
            ctx.fail('%s:%s:missing' % (label, mode), case, 'item %d not read' % i)
            return
        got = read_vals[i]
        if it[0] == 's':
            want = unhx(it[1])
            ok = got == want
            if not ok and not soft and b'\n' in want and got == nl_normalise(want):
                ctx.count('known:S7')
                ctx.fail(S7, case, 'string %r read back as %r (default newline normalisation)' % (want, got))
                continue
        else:
            impl.s.set_variable('CK' + it[1], got)
            shown = impl.ex(b'WRITE CK' + it[1].encode()).replace(b'\r', b'').replace(b'\n', b'').replace(b'\xff', b'')
            impl.ex(b'CV%s=VAL("%s")' % (it[1].encode(), texts_all[i]))
            byval = impl.s.get_variable('CV' + it[1])
            want = texts_all[i]
            ok = byval == got and (it[1] != '%' or shown == texts_all[i])
        if not ok:
            if has255 and has255[0] < i:
                ctx.count('known:S5')
                ctx.fail(S5, case, 'items after a 255-byte string are shifted: item %d is %r, expected %r'
                         % (i, got if it[0] == 's' else shown, want))
                return
            ctx.fail('%s:%s:item:%s' % (label, mode, 'str-len%d' % len(want) if it[0] == 's' else 'num' + it[1]), case,
                     'item %d read back as %r (%r), written %r' % (i, got, None if it[0] == 's' else shown, want))
            return
    # EOF: one value after OPEN, one after each INPUT# statement
    stm_sizes = [len(o[1]) for o in obs if o[0] == 'i']
    exp_eofs, done = [0 if items else -1], 0
    for n in stm_sizes:
        done += n
        exp_eofs.append(-1 if done >= len(items) else 0)
    if eofs != exp_eofs:
        ctx.fail('%s:%s:eof' % (label, mode), case, 'EOF sequence %r, expected %r' % (eofs, exp_eofs))


def oracle_lines(ctx, impl, soft, hist, lines, obs, data, label):
    case = {'soft': soft, 'hist': hist, 'kind': label}
    mode = 'soft' if soft else 'wrap'
    exp = b''.join(l + b'\r\n' for l in lines) + b'\x1a'
    if exp != data:
        ctx.fail('%s:%s:file-bytes' % (label, mode), case, 'host file %r, expected %r' % (data[:300], exp[:300]))
        return
    for o in obs:
        if o[0] == 'f' and (o[1] is None or o[1] != o[2]):
            ctx.fail('%s:%s:lof' % (label, mode), case, 'LOF(1)=%r, host file has %r bytes' % (o[1], o[2]))
            return
    got, i = [], 0
    seq = [o for o in obs if o[0] in ('l', 'r', 'e')]
    # reassemble: an INPUT$ prefix followed by LINE INPUT is one line
    cur = None
    eofs = []
    for o in seq:
        if o[0] == 'r':
            cur = (cur or b'') + (o[1] if o[1] is not None else b'<E62>')
        elif o[0] == 'l':
            got.append((cur or b'') + (o[1] if o[1] is not None else b'<E62>'))
            cur = None
        else:
            eofs.append(o[1])
    if got != lines:
        if any(len(l) == 255 for l in lines):
            want = []
            for l in lines:
                want.append(l)
                if len(l) == 255:
                    want.append(b'')
            if got == want[:len(got)]:
                ctx.count('known:S6')
                ctx.fail(S6, case, 'after a 255-byte line LINE INPUT# returns an extra empty line')
                return
        if not soft and any(b'\n' in l for l in lines):
            want = b'\r'.join(lines).replace(b'\n', b'\r').split(b'\r')
            if got == want[:len(got)]:
                ctx.count('known:S7')
                ctx.fail(S7, case, 'LF inside a line is read as a line break (default newline normalisation)')
                return
        if soft and any(l.endswith(b'\n') for l in lines):
            ctx.count('known:S8')
            ctx.fail(S8, case, 'a line ending in LF is joined with the next one: %r' % (got[:3],))
            return
        ctx.fail('%s:%s:lines' % (label, mode), case, 'lines read %r, written %r' % (got[:5], lines[:5]))
        return
    # EOF after open and after each LINE INPUT
    exp_eofs = [0 if lines else -1] + [0] * (len(lines) - 1) + ([-1] if lines else [])
    if eofs != exp_eofs:
        if any(len(l) == 255 for l in lines):
            ctx.count('known:S6')
            ctx.fail(S6, case, 'after a 255-byte line the CR is left unread: EOF sequence %r, expected %r' % (eofs, exp_eofs))
            return
        ctx.fail('%s:%s:eof' % (label, mode), case, 'EOF sequence %r, expected %r' % (eofs, exp_eofs))


# ---------------------------------------------------------------------------------------------------------

def run_history(ctx, impl, soft, hist, label, pending):
    ops, res, data, obs = impl.run(hist)
    pending.append(({'soft': soft, 'hist': hist, 'kind': label}, canon(res, data),
                    '%s %s' % ('soft' if soft else 'wrap', ';'.join(ops))))
    for op in hist:
        ctx.count('op:' + op[0])
    for r in res:
        if r[:1] == 'E':
            ctx.count('err:' + r[1:3])
    return obs, data


def do_roundtrip(ctx, impl, soft, pending, kind=None):
    rng = ctx.rng
    hist, items, host_prefix = gen_roundtrip(rng, soft, kind)
    if host_prefix is not None:
        # the host file is what an earlier WRITE# session would have produced, with or without the EOF byte
        t = impl.number_text('%', host_prefix[1][2])
        body = b'"' + unhx(host_prefix[0][1]) + b'",' + t + b'\r\n'
        with_eof = rng.random() < 0.6
        hist.insert(0, ['h', hx(body + (b'\x1a' if with_eof else b''))])
        items = host_prefix + items
        ctx.count('append-on-host-file:' + ('with-1A' if with_eof else 'no-1A'))
    full = hist + read_plan(rng, items)
    label = 'write-input' + ('-' + kind if kind else '')
    obs, data = run_history(ctx, impl, soft, full, label, pending)
    ctx.case(('rt', soft, repr(full)))
    ctx.count('roundtrip:items', len(items))
    for it in items:
        ctx.count('item:' + ('str' if it[0] == 's' else it[1]))
        if it[0] == 's':
            n = len(unhx(it[1]))
            ctx.count('strlen:' + ('0' if n == 0 else '1-2' if n < 3 else '3-252' if n < 253 else str(n)))
    ctx.count('sessions:%d' % sum(1 for o in hist if o[0] in ('oO', 'oA')))
    oracle_roundtrip(ctx, impl, soft, full, obs, data, label, host_prefix)
    return full


def do_lines(ctx, impl, soft, pending, kind=None):
    rng = ctx.rng
    nsess = rng.choice([1, 1, 2])
    hist, lines = [], []
    for si in range(nsess):
        hist.append(['oO'] if si == 0 and rng.random() < 0.85 else ['oA'])
        for li in range(rng.randrange(0 if kind is None and si else 1, 5)):
            l = gen_line(rng, kind if (si == 0 and li == 0) else None)
            hist.append(['P', hx(l)])
            lines.append(l)
            if rng.random() < 0.25:
                hist.append(['f'])
        hist.append(['c'])
    hist += [['oI'], ['e'], ['f']]
    for l in lines:
        if len(l) and kind is None and rng.random() < 0.25:
            k = rng.randrange(1, min(len(l), 255) + 1)
            hist.append(['r', k])
        hist += [['l'], ['e']]
        if rng.random() < 0.1:
            hist.append(['k'])
    hist.append(['c'])
    label = 'print-lineinput' + ('-' + kind if kind else '')
    obs, data = run_history(ctx, impl, soft, hist, label, pending)
    ctx.case(('ln', soft, repr(hist)))
    ctx.count('lines', len(lines))
    for l in lines:
        n = len(l)
        ctx.count('linelen:' + ('0' if n == 0 else '1-252' if n < 253 else str(n)))
    oracle_lines(ctx, impl, soft, hist, lines, obs, data, label)
    return hist


def do_deftype(ctx, impl, soft, pending, fixed=False):
    """the variables of the file statements are typed by DEFtype statements (or explicit sigils, or are array elements)"""
    rng = ctx.rng
    full, items, tab = gen_deftype_roundtrip(rng, soft, fixed)
    label = 'write-input-deftype'
    obs, data = run_history(ctx, impl, soft, full, label, pending)
    ctx.case(('dt', soft, repr(full)))
    ctx.count('deftype:items', len(items))
    for op in full:
        if op[0] in ('W', 'i'):
            for var in ([it[-1] for it in op[1]] if op[0] == 'W' else op[2]):
                bare = var[0].split('(')[0][-1] not in '$%!#'
                ctx.count('deftype:%s%s:%s' % ('bare' if bare else 'sigil', '-array' if '(' in var[0] else '', var[1]))
    oracle_roundtrip(ctx, impl, soft, full, obs, data, label, None)
    hist, lines = gen_deftype_lines(rng, fixed)
    label = 'print-lineinput-deftype'
    obs, data = run_history(ctx, impl, soft, hist, label, pending)
    ctx.case(('dl', soft, repr(hist)))
    ctx.count('deftype:lines', len(lines))
    oracle_lines(ctx, impl, soft, hist, lines, obs, data, label)
    return full


def do_fuzz(ctx, impl, soft, pending):
    rng = ctx.rng
    hist = gen_fuzz_read(rng) if rng.random() < 0.6 else gen_fuzz_write(rng)
    obs, data = run_history(ctx, impl, soft, hist, 'fuzz', pending)
    ctx.case(('fz', soft, repr(hist)))
    case = {'soft': soft, 'hist': hist, 'kind': 'fuzz'}
    for o in obs:
        # LOF equals the number of bytes in the file, in every mode and at every point of every history
        if o[0] == 'f' and o[1] is not None and o[1] != o[2]:
            ctx.fail('fuzz:%s:lof' % ('soft' if soft else 'wrap'), case, 'LOF(1)=%r, host file has %r bytes' % (o[1], o[2]))
    return hist


def flush(ctx, pending):
    if pending:
        cases, outs, lines = zip(*pending)
        ctx.compare(list(cases), list(outs), list(lines))
        del pending[:]


def run(ctx):
    n_rt, n_ln, n_fz = (110, 70, 160) if ctx.quick else (1200, 600, 2000)
    n_dt = 10 if ctx.quick else 250
    impls = {}
    try:
        for soft in (False, True):
            impls[soft] = Impl(soft)
        pending = []
        for soft in (False, True):
            impl = impls[soft]
            # fixed cases first: the known deviations and the repaired defect, one each, deterministic
            do_roundtrip(ctx, impl, soft, pending, 'len255')
            do_lines(ctx, impl, soft, pending, 'len255')
            if soft:
                do_roundtrip(ctx, impl, soft, pending, 'crlf-lead')
                do_lines(ctx, impl, soft, pending, 'lf-end')
                do_lines(ctx, impl, soft, pending, 'lf-inner')
            else:
                do_roundtrip(ctx, impl, soft, pending, 'lf')
                do_lines(ctx, impl, soft, pending, 'lf-inner')
            # variables typed by DEFSTR/DEFINT/DEFSNG/DEFDBL instead of a sigil: one fixed history, then random ones
            do_deftype(ctx, impl, soft, pending, fixed=True)
            for i in range(n_dt):
                h = do_deftype(ctx, impl, soft, pending)
                if i < 1:
                    ctx.sample({'soft': soft, 'history': h})
            for i in range(n_rt):
                kind = None
                if soft and i % 10 == 3:
                    kind = 'lf'       # CR/LF inside quoted strings survive with soft_linefeed
                h = do_roundtrip(ctx, impl, soft, pending, kind)
                if i < 2:
                    ctx.sample({'soft': soft, 'history': h})
            for i in range(n_ln):
                h = do_lines(ctx, impl, soft, pending)
                if i < 1:
                    ctx.sample({'soft': soft, 'history': h})
            for i in range(n_fz):
                h = do_fuzz(ctx, impl, soft, pending)
                if i < 1:
                    ctx.sample({'soft': soft, 'history': h})
                if len(pending) >= 500:
                    flush(ctx, pending)
            flush(ctx, pending)
            ctx.log('%s: done' % ('soft_linefeed' if soft else 'default newline mode'))
    finally:
        for impl in impls.values():
            impl.close()


def replay(ctx, payload):
    case = payload.get('case', {})
    if 'hist' not in case:
        return None
    soft = bool(case.get('soft'))
    hist = case['hist']
    kind = case.get('kind', 'fuzz')
    impl = Impl(soft)
    sub = Ctx2(ctx)
    try:
        ops, res, data, obs = impl.run(hist)
        if kind.startswith('write-input'):
            oracle_roundtrip(sub, impl, soft, hist, obs, data, kind, case.get('prefix'))
        elif kind.startswith('print-lineinput'):
            lines = [unhx(op[1]) for op in hist if op[0] == 'P']
            oracle_lines(sub, impl, soft, hist, lines, obs, data, kind)
        else:
            for o in obs:
                if o[0] == 'f' and o[1] is not None and o[1] != o[2]:
                    sub.fail('fuzz:%s:lof' % ('soft' if soft else 'wrap'), case, 'LOF(1)=%r, host %r' % (o[1], o[2]))
    finally:
        impl.close()
    hits = [f for f in sub.failures if f['key'] == payload.get('key')] or sub.failures
    return hits[0]['what'] if hits else None


class Ctx2(object):
    """thin proxy so replay can reuse the oracles without touching the outer evidence"""
    def __init__(self, ctx):
        self.__dict__.update(ctx.__dict__)
        self._ctx = ctx
        self.failures = []
        self.disagreements = []

    def __getattr__(self, name):
        return getattr(self._ctx.__class__, name).__get__(self)
