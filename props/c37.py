"""C37 — The keyboard buffer is a 15-key FIFO mirrored in BIOS memory."""
import collections
import contextlib
import signal

from vlib import basic, translated

LEVEL = 'proof'
RULE = ('a case is one history: a list of key-down events sent through the input queue (so the buffer-full check '
        'applies), Session.press_keys injections, INKEY$ / INPUT$(1) reads, PEEKs of 1050..1085, the clearing idiom '
        'POKE 1050,PEEK(1052), pointer POKEs (1050..1053, valid and out-of-range values) and slot POKEs (1054..1085), '
        'each history on a fresh Session and ending with a full PEEK dump and a drain; profiles: bursts to and beyond '
        'the limit, steady typing with wrap-around, clear-heavy, poke-heavy, injection; plus LINE INPUT scenarios; '
        'plus double-byte codepages (932, 936, 949, 950; thorough also 934, 938, big5-2003, big5-hkscs): key streams '
        'mixing ASCII (trail-range and not), lone lead bytes and lone high trail bytes entered with Alt+keypad, complete '
        'characters typed as one key or as two Alt codes, with the Enter typed ahead and more keys behind it, consumed '
        'through INKEY$, INPUT$, INPUT, LINE INPUT and direct Keyboard.get_fullchar / read_byte calls - a deterministic '
        'family (each codepage x each kind of key behind a lone lead byte x reading paths) plus random streams; '
        'non-trivial = the history contains at least one key press and one read or PEEK')
EXPLANATION = ('theorems (PcbV.Props.C37): fifo_refinement (all histories of presses, injections, reads, PEEKs and '
               'clearing POKEs deliver exactly what a queue bounded at 15 delivers), waiting_le_15, ring_mirror '
               '(every reachable state: slots head..tail hold the waiting keys, pointer bytes as PEEKed), '
               'pointer_poke_keeps_slots, clear_poke_empties, counterexamples for the unrepaired ring_set_boundaries; '
               'correspondence: every history is run on the real interpreter and on the compiled Lean model and all '
               'INKEY$/PEEK results are compared; oracle: an independent 16-slot BIOS ring / deque reference'
               '; DBCS: getFullchar/readAll model Keyboard.get_fullchar/read_byte, theorems fullchar_preserves_bytes, '
               'fullchar_progress, reads_preserve_bytes, dbcs_fifo (for ANY lead/trail sets, any mixture of byte-wise and '
               'full-character reads delivers every waiting byte exactly once, in order); direct get_fullchar/read_byte '
               'results are compared with the model under the codepage\'s real lead/trail sets; oracle: the typed byte '
               'stream (first 15 keystrokes) must come out unchanged through every reading path'
               '; source tie: KeyboardBuffer._ring_index, length, start, stop and the ring-full test of append are '
               'translated mechanically from the current Python AST (PcbV.Gen.Translated.kb*, gen/py2lean.py), '
               'proved equal to the model at ring length 16 (translated_kbRingIndex_eq, translated_kbLength_eq, '
               'translated_kbStart_eq, translated_kbStop_eq, translated_kbFull_eq) and compared with a real '
               'KeyboardBuffer (vlib/translated.py)')
TRUSTED_BASE = ['model PcbV.Model.KeyBuf is a hand transcription of keyboard.py:KeyboardBuffer, the append/getc path of '
                'Keyboard and machine.py:Memory._get/_set_low_memory for 1050..1085',
                'translator gen/py2lean.py + PcbV.PyInt (Python int semantics in Lean), validated by '
                'vlib/translated.py against the real functions; it covers the listed functions only']
ASSUMPTIONS = ['no function-key (F1..F12) keystrokes: their macro expansion in Keyboard._read_kybd_byte is outside the model',
               'no input stream attached (input_streams=None), no KEY/ON KEY traps enabled; codepage 437 for the ring histories, '
               'the listed double-byte codepages for the DBCS scenarios',
               'EventQueues.tick is set to 0 on the session object so that INKEY$ does not sleep 6 ms per call']

HEAD, TAIL, SLOTS = 1050, 1052, 1054
SAFE_SCANS = [s for s in list(range(1, 0x45)) + [0x47, 0x48, 0x49, 0x4b, 0x4d, 0x4f, 0x50, 0x51, 0x52]
              if s not in (0x45, 0x46, 0x58)]
EXTENDED = [u'\0H', u'\0P', u'\0K', u'\0M', u'\0G', u'\0O', u'\0I', u'\0Q', u'\0R', u'\0S', u'\0\x0f', u'\0\0']
PLAIN = [chr(c) for c in range(32, 127)] + [u'\r', u'\x08', u'\x1b', u'\t', u'\x01', u'\x1a', u'\xe9', u'\xe0', u'░']


class Hang(BaseException):
    pass


@contextlib.contextmanager
def deadline(seconds):
    """Raise Hang in the main thread if the block runs longer (keeps the outer alarm of vlib.main)."""
    def on_alarm(signum, frame):
        raise Hang()
    remaining = signal.alarm(0)
    old = signal.signal(signal.SIGALRM, on_alarm)
    signal.setitimer(signal.ITIMER_REAL, seconds)
    try:
        yield
    finally:
        signal.setitimer(signal.ITIMER_REAL, 0)
        signal.signal(signal.SIGALRM, old)
        if remaining:
            signal.alarm(remaining)


_CODEPAGES = {}


def codepage_table(name):
    """The codepage dictionary as the command line would load it (cached: parsing takes 0.3 s)."""
    if name not in _CODEPAGES:
        from pcbasic.data import read_codepage
        _CODEPAGES[name] = read_codepage(name)
    return _CODEPAGES[name]


def hexs(b):
    return ''.join('%02x' % x for x in bytearray(b)) or '-'


# ---------------------------------------------------------------------------------------------------------------
# the real implementation

class Impl(object):
    """One fresh interpreter session; keys travel through the interface input queue and the event cycle."""

    def __init__(self, codepage=None):
        from pcbasic.basic.base import signals
        self.signals = signals
        kw = {}
        if codepage:
            kw['codepage'] = codepage_table(codepage)
        self.session = basic.new_session(**kw)
        self.session.execute(b'DEF SEG=0')
        self.impl = self.session._impl
        self.impl.queues.tick = 0
        self.cp = self.impl.codepage

    def close(self):
        try:
            self.session.close()
        except Exception:
            pass

    def to_bytes(self, uc):
        return bytes(self.cp.unicode_to_bytes(uc))

    def alt_code(self, code):
        """Enter one byte as Alt + decimal code on the numeric keypad (down/up events through the input queue)."""
        from pcbasic.basic.base import scancode
        kp = [scancode.KP0, scancode.KP1, scancode.KP2, scancode.KP3, scancode.KP4,
              scancode.KP5, scancode.KP6, scancode.KP7, scancode.KP8, scancode.KP9]
        ev, sg, q = self.signals.Event, self.signals, self.impl.queues.inputs
        q.put(ev(sg.KEYB_DOWN, (u'', scancode.ALT, [scancode.ALT])))
        for d in '%d' % code:
            q.put(ev(sg.KEYB_DOWN, (u'', kp[int(d)], [scancode.ALT])))
            q.put(ev(sg.KEYB_UP, (kp[int(d)],)))
        q.put(ev(sg.KEYB_UP, (scancode.ALT,)))
        self.impl.queues.check_events()

    def do(self, op):
        """Execute one op; returns the output token or None."""
        kind = op[0]
        s = self.session
        if kind == 'k':
            self.impl.queues.inputs.put(self.signals.Event(self.signals.KEYB_DOWN, (op[1], op[2], [])))
            self.impl.queues.check_events()
            return None
        if kind == 'j':
            s.press_keys(op[1])
            return None
        if kind == 'r':
            return 'r' + hexs(s.evaluate(b'INKEY$'))
        if kind == 'i':
            # INPUT$(1): blocking read; only issued when a key is waiting
            return 'r' + hexs(s.evaluate(b'INPUT$(1)'))
        if kind == 'p':
            return 'p%d' % s.evaluate(b'PEEK(%d)' % op[1])
        if kind == 'w':
            out = s.execute(b'POKE %d,%d' % (op[1], op[2]))
            if out.strip():
                raise RuntimeError('POKE printed %r' % out)
            return None
        if kind == 'c':
            out = s.execute(b'POKE 1050, PEEK(1052)')
            if out.strip():
                raise RuntimeError('POKE printed %r' % out)
            return None
        raise ValueError(op)


# ---------------------------------------------------------------------------------------------------------------
# the independent reference: a BIOS keyboard ring as the statement describes it

UNKNOWN = None


class Ref(object):
    """16 two-byte slots at 0:041E, head pointer at 0:041A, tail at 0:041C; at most 15 keys wait.
    A slot is [c, scan] with c the bytes INKEY$ must deliver, or UNKNOWN where the statement says nothing
    (never-written slots, the free slot after a dropped key, slots edited into a shape the statement does not cover)."""

    def __init__(self):
        self.slots = [UNKNOWN] * 16
        self.head = 0
        self.tail = 0
        # keys injected beyond the ring (Session.press_keys ignores the limit): plain unbounded FIFO
        self.over = None

    def count(self):
        return (self.tail - self.head) % 16 if self.over is None else len(self.over)

    def press(self, c, scan):
        if not c:
            return 'ignored'
        if self.over is not None:
            if len(self.over) >= 15:
                return 'dropped'
            self.over.append([c, scan])
            return 'stored'
        if (self.tail + 1) % 16 == self.head:
            self.slots[self.tail] = UNKNOWN
            return 'dropped'
        self.slots[self.tail] = [c, scan]
        self.tail = (self.tail + 1) % 16
        return 'stored'

    def inject(self, c):
        if not c:
            return
        if self.over is None and (self.tail + 1) % 16 != self.head:
            self.slots[self.tail] = [c, 0]
            self.tail = (self.tail + 1) % 16
            return
        if self.over is None:
            # leave the ring picture: from now on only order and completeness are specified
            self.over = collections.deque(self.window())
            self.slots = [UNKNOWN] * 16
        self.over.append([c, 0])

    def window(self):
        return [self.slots[(self.head + k) % 16] for k in range((self.tail - self.head) % 16)]

    def read(self):
        """-> (expected bytes | UNKNOWN for unspecified content, consumed?)"""
        if self.over is not None:
            if not self.over:
                return b'', False
            k = self.over.popleft()
            return (k[0] if k is not UNKNOWN else UNKNOWN), True
        if self.head == self.tail:
            return b'', False
        k = self.slots[self.head]
        self.head = (self.head + 1) % 16
        return (k[0] if k is not UNKNOWN else UNKNOWN), True

    def clear(self):
        if self.over is not None:
            self.over = None
            self.head = self.tail = UNKNOWN
            return
        self.head = self.tail

    def expect_peek(self, addr):
        """Expected PEEK value or UNKNOWN."""
        if self.over is not None or self.head is UNKNOWN:
            return 0 if addr in (1051, 1053) else UNKNOWN
        if addr == 1050:
            return 30 + 2 * self.head
        if addr == 1052:
            return 30 + 2 * self.tail
        if addr in (1051, 1053):
            return 0
        i, odd = divmod(addr - SLOTS, 2)
        if (i - self.head) % 16 >= (self.tail - self.head) % 16:
            return UNKNOWN
        k = self.slots[i]
        if k is UNKNOWN or k[0] is UNKNOWN:
            return UNKNOWN
        if odd:
            return k[1]
        return bytearray(k[0])[0] if k[0] else 0

    def poke_slot(self, addr, val):
        i, odd = divmod(addr - SLOTS, 2)
        k = self.slots[i]
        if self.over is not None:
            return
        if odd:
            if k is UNKNOWN:
                return
            # the scancode byte changes; what an extended key then delivers is not covered by the statement
            self.slots[i] = [k[0] if k[0] is not UNKNOWN and len(k[0]) == 1 else UNKNOWN, val]
        else:
            scan = k[1] if k is not UNKNOWN else UNKNOWN
            if val in (0, 0xe0):
                self.slots[i] = UNKNOWN if scan is UNKNOWN else [UNKNOWN, scan]
            elif scan is UNKNOWN:
                self.slots[i] = UNKNOWN
            else:
                self.slots[i] = [bytes(bytearray([val])), scan]


class HistoryFailure(Exception):
    def __init__(self, key, index, what):
        Exception.__init__(self, what)
        self.key, self.index, self.what = key, index, what


def run_history(ops, stats=None):
    """Run one history on a fresh session.  Returns (tokens, failure or None): the oracle's first complaint."""
    im = Impl()
    ref = Ref()
    tokens = []
    failure = None

    def fail(key, i, what):
        return HistoryFailure(key, i, 'op %d %r: %s' % (i, ops[i], what))

    def resync(i):
        """after an operation the statement does not specify: take the pointers as PEEKed (they must be well-formed)"""
        h, t = im.session.evaluate(b'PEEK(1050)'), im.session.evaluate(b'PEEK(1052)')
        for name, v in (('head', h), ('tail', t)):
            if not (30 <= v <= 60 and v % 2 == 0):
                raise fail('pointer:ill-formed', i, 'after the POKE the %s pointer reads %d (must be 30..60, even)' % (name, v))
        ref.head, ref.tail = (h - 30) // 2, (t - 30) // 2

    try:
        for i, op in enumerate(ops):
            kind = op[0]
            try:
                with deadline(2):
                    tok = im.do(op)
            except Hang:
                raise fail('hang:%s' % ('pointer-poke' if kind in 'wc' else kind), i,
                           'the operation did not return within 2 s (infinite loop)')
            except Exception as e:  # a host exception escaping the interpreter
                raise fail('exception:%s:%s' % (kind, type(e).__name__), i, 'raised %s: %s' % (type(e).__name__, e))
            if tok is not None:
                tokens.append(tok)
            try:
                if kind == 'k':
                    c = im.to_bytes(op[1])
                    r = ref.press(c, op[2])
                    if stats is not None:
                        stats('press:' + r)
                elif kind == 'j':
                    n = 0
                    buf = u''
                    for ch in op[1]:
                        # e-ASCII: NUL + one char is one keystroke
                        if buf or ch != u'\0':
                            ref.inject(im.to_bytes(buf + ch))
                            buf = u''
                        else:
                            buf = ch
                elif kind in 'ri':
                    before = ref.count()
                    exp, consumed = ref.read()
                    got = tok[1:]
                    if stats is not None:
                        stats('read:%s' % ('empty' if not consumed else 'key' if exp is not UNKNOWN else 'unspecified-content'))
                        stats('read-at-depth:%d' % min(before, 16))
                    if exp is not UNKNOWN and got != hexs(exp):
                        why = ('a key was delivered from an empty buffer' if not consumed else
                               'nothing delivered although %d keys wait' % before if got == '-' else
                               'wrong key (lost, repeated or out of order)')
                        raise fail('fifo:%s' % ('phantom' if not consumed else 'lost' if got == '-' else 'order'), i,
                                   'INKEY$ returned %s, expected %s: %s' % (got, hexs(exp), why))
                elif kind == 'p':
                    exp = ref.expect_peek(op[1])
                    if stats is not None:
                        stats('peek:%s' % ('unspecified' if exp is UNKNOWN else
                                           'pointer' if op[1] < SLOTS else 'waiting-slot'))
                    if exp is not UNKNOWN and tok != 'p%d' % exp:
                        raise fail('mirror:%s' % ('head' if op[1] in (1050, 1051) else 'tail' if op[1] in (1052, 1053)
                                                  else 'slot'), i,
                                   'PEEK(%d) = %s, expected %d (head=%s tail=%s, %d keys waiting)'
                                   % (op[1], tok[1:], exp, ref.head, ref.tail, ref.count()))
                elif kind == 'c':
                    ref.clear()
                    if ref.head is UNKNOWN:
                        resync(i)
                        if ref.head != ref.tail:
                            raise fail('clear:not-empty', i, 'head and tail differ after POKE 1050,PEEK(1052)')
                    if stats is not None:
                        stats('clear')
                elif kind == 'w':
                    a, v = op[1], op[2]
                    if a in (1051, 1053):
                        pass
                    elif a in (1050, 1052):
                        if ref.over is not None:
                            raise ValueError('generator: no pointer pokes in injection histories')
                        if 30 <= v <= 60 and v % 2 == 0:
                            if a == 1050:
                                ref.head = (v - 30) // 2
                            else:
                                ref.tail = (v - 30) // 2
                            if stats is not None:
                                stats('poke:pointer-valid')
                        else:
                            # pointer outside the ring: unspecified, but it must return and leave well-formed pointers
                            resync(i)
                            if stats is not None:
                                stats('poke:pointer-out-of-range')
                    else:
                        ref.poke_slot(a, v)
                        if stats is not None:
                            stats('poke:slot')
            except HistoryFailure as f:
                failure = f
                break
    except HistoryFailure as f:
        failure = f
    finally:
        im.close()
    return tokens, failure


# ---------------------------------------------------------------------------------------------------------------
# generator

def gen_key(rng):
    x = rng.random()
    if x < 0.70:
        c = rng.choice(PLAIN)
    elif x < 0.92:
        c = rng.choice(EXTENDED)
    else:
        c = u''      # a modifier key on its own: no character
    return ('k', c, rng.choice(SAFE_SCANS))


def dump():
    return [('p', a) for a in range(1050, 1086)]


def drain(n=18):
    return [('r',)] * n


def gen_history(rng, profile, length):
    ops = []
    # start from a varied ring position: type and read a few keys first
    if rng.random() < 0.7:
        n = rng.choice([0, 1, 2, 5, 13, 14, 15, 16, 17, 31, 33, 40])
        for _ in range(n):
            ops.append(gen_key(rng))
            ops.append(('r',))
    inj = profile == 'inject'
    while len(ops) < length:
        x = rng.random()
        if profile == 'burst':
            n = rng.choice([13, 14, 15, 16, 17, 20, 33])
            ops += [gen_key(rng) for _ in range(n)]
            ops += rng.choice([[], dump(), [('p', 1050), ('p', 1052)]])
            ops += [('r',)] * rng.choice([1, 2, 14, 15, 16, 17])
            if rng.random() < 0.3:
                ops.append(('c',))
        elif profile == 'steady':
            if x < 0.45:
                ops.append(gen_key(rng))
            elif x < 0.80:
                ops.append(('r',) if rng.random() < 0.8 else ('i',))
            elif x < 0.97:
                ops.append(('p', rng.randrange(1050, 1086)))
            else:
                ops.append(('c',))
        elif profile == 'clear':
            ops += [gen_key(rng) for _ in range(rng.choice([0, 1, 3, 7, 14, 15, 16, 20]))]
            ops += [('r',)] * rng.choice([0, 0, 1, 2, 5])
            if rng.random() < 0.5:
                ops += [('p', 1050), ('p', 1052)]
            ops.append(('c',))
            ops += rng.choice([[], dump(), [('p', 1050), ('p', 1052)]])
            ops += [('r',)] * rng.choice([0, 1, 2, 17])
        elif profile == 'poke':
            if x < 0.35:
                ops.append(gen_key(rng))
            elif x < 0.55:
                ops.append(('r',))
            elif x < 0.70:
                ops.append(('p', rng.randrange(1050, 1086)))
            elif x < 0.80:
                ops.append(('w', rng.randrange(1054, 1086), rng.choice([0, 1, 13, 32, 65, 97, 0xe0, 255, rng.randrange(256)])))
            elif x < 0.92:
                ops.append(('w', rng.choice([1050, 1052]), rng.randrange(30, 62)))
            elif x < 0.95:
                ops.append(('w', rng.choice([1050, 1052]), rng.choice([0, 1, 28, 29, 62, 63, 64, 128, 254, 255, rng.randrange(256)])))
            elif x < 0.97:
                ops.append(('w', rng.choice([1051, 1053]), rng.randrange(256)))
            else:
                ops.append(('c',))
        elif inj:
            if x < 0.25:
                n = rng.choice([1, 2, 3, 10, 15, 16, 17, 20, 40])
                s = u''.join(rng.choice(PLAIN + EXTENDED) for _ in range(n))
                ops.append(('j', s))
            elif x < 0.45:
                ops.append(gen_key(rng))
            elif x < 0.85:
                ops.append(('r',))
            elif x < 0.95:
                ops.append(('p', rng.randrange(1050, 1086)))
            else:
                ops.append(('c',))
    return ops + dump() + drain(48 if inj else 18)


def guard_blocking(ops):
    """INPUT$(1) blocks on an empty buffer: keep it only where a queue bounded at 15 has a key (else use INKEY$)."""
    n = 0
    out = []
    for op in ops:
        k = op[0]
        if k == 'k':
            if op[1] != u'' and n < 15:
                n += 1
        elif k in ('w', 'j'):
            n = -10 ** 6      # after raw pokes / injections do not use the blocking read any more
        elif k == 'c':
            n = 0 if n >= 0 else n
        elif k == 'r':
            n = max(n - 1, 0) if n >= 0 else n
        elif k == 'i':
            if n >= 1:
                n -= 1
            else:
                op = ('r',)
        out.append(op)
    return out


def model_line(ops, to_bytes):
    words = []
    for op in ops:
        k = op[0]
        if k == 'k':
            words.append('k:%s:%d' % (hexs(to_bytes(op[1])), op[2]))
        elif k == 'j':
            buf = u''
            for ch in op[1]:
                if buf or ch != u'\0':
                    words.append('j:%s' % hexs(to_bytes(buf + ch)))
                    buf = u''
                else:
                    buf = ch
        elif k in 'ri':
            words.append('r')
        elif k == 'p':
            words.append('p:%d' % op[1])
        elif k == 'w':
            words.append('w:%d:%d' % (op[1], op[2]))
        elif k == 'c':
            words.append('c')
    return 'run ' + (';'.join(words) or '-')


def ops_json(ops):
    return [list(op) for op in ops]


def ops_from_json(l):
    return [tuple(op) for op in l]


def shrink(ops, key, budget=120):
    """Greedy removal of ops while the same oracle complaint persists."""
    best = list(ops)
    i = 0
    chunk = max(1, len(best) // 4)
    while budget > 0 and chunk >= 1:
        changed = False
        i = 0
        while i < len(best) and budget > 0:
            cand = best[:i] + best[i + chunk:]
            budget -= 1
            _, f = run_history(guard_blocking(cand))
            if f is not None and f.key == key:
                best = cand[:f.index + 1]
                changed = True
            else:
                i += chunk
        if not changed:
            chunk //= 2
    return best


_SHRUNK = set()


def check_history(ctx, ops, label, cases, outs, lines, cp):
    ops = guard_blocking(ops)
    tokens, f = run_history(ops, ctx.count)
    ctx.case((label, tuple(ops)))
    ctx.count('profile:' + label)
    ctx.count('ops', len(ops))
    if f is not None:
        small = ops[:f.index + 1]
        if not ctx.replay_mode and f.key not in _SHRUNK:
            _SHRUNK.add(f.key)
            small = shrink(small, f.key, budget=12 if f.key.startswith('hang') else 80)
        ctx.fail(f.key, {'ops': ops_json(small)}, f.what + ' [history of %d ops, minimised to %d]' % (len(ops), len(small)))
        return f
    cases.append({'ops': ops_json(ops) if len(ops) < 80 else '%d ops' % len(ops), 'profile': label})
    outs.append('ok ' + (','.join(tokens) or '-'))
    lines.append(model_line(ops, cp))
    return None


# ---------------------------------------------------------------------------------------------------------------
# fixed boundary histories

def K(s, scan=30):
    return [('k', ch, scan) for ch in s]


def boundary_histories():
    hs = []
    # D13: the documented clearing idiom
    hs.append(K(u'abc') + [('c',)] + dump() + drain(20))
    for n in (0, 1, 14, 15, 16, 17, 31, 32):
        hs.append(K(u'x' * n) + dump() + [('c',)] + dump() + K(u'yz') + dump() + drain(20))
        hs.append(K(u'abcdefghijklmnopqrstuvwxyz'[:n % 26 + 1]) + [('r',)] * (n // 2) + [('c',)] + K(u'12') + dump() + drain(5))
    # exactly 15 / 16 keys, wrap-around at every start position
    for pre in range(0, 18):
        h = []
        for _ in range(pre):
            h += K(u'p') + [('r',)]
        hs.append(h + K(u'ABCDEFGHIJKLMNOPQ') + dump() + drain(18) + dump())
    # clearing after long use of the session
    for pre in (16, 17, 32, 33, 48, 100):
        h = []
        for j in range(pre):
            h += K(chr(65 + j % 26)) + [('r',)]
        hs.append(h + K(u'abc') + [('c',)] + dump() + drain(5) + K(u'de') + dump() + drain(4))
        hs.append(h + K(u'abcde') + [('w', 1050, 30 + 2 * ((pre + 2) % 16))] + dump() + drain(5))
        hs.append(h + K(u'abcde') + [('w', 1052, 30 + 2 * ((pre + 3) % 16))] + dump() + drain(5))
    # the other idiom: tail := head
    hs.append(K(u'abc') + [('w', 1052, 30)] + dump() + drain(5))
    # pointer pokes with every value
    for v in range(0, 256, 1):
        if v % 16 in (0, 1, 14, 15) or 28 <= v <= 64:
            hs.append(K(u'abcde') + [('r',), ('w', 1050, v)] + dump() + drain(18))
            hs.append(K(u'abcde') + [('r',), ('w', 1052, v)] + dump() + drain(18))
    # extended keys, empty keys, slot pokes into waiting keys
    hs.append([('k', u'\0H', 72), ('k', u'', 42), ('k', u'a', 30), ('k', u'\0\0', 3)] + dump() + drain(5))
    hs.append(K(u'abc') + [('w', 1054, 65), ('w', 1057, 99), ('w', 1058, 0), ('w', 1062, 66)] + dump() + drain(5))
    # injection beyond the ring
    hs.append([('j', u'The quick brown fox jumps\r')] + dump() + [('r',)] * 10 + K(u'zz') + drain(30))
    hs.append([('j', u'0123456789abcdefghij')] + [('c',)] + dump() + K(u'ok') + dump() + drain(5))
    hs.append([('j', u'ab\0Hcd')] + dump() + drain(6))
    return hs


def line_input_scenarios(ctx, n):
    """INPUT / LINE INPUT consume typed keys in order up to CR; the rest stays in the buffer."""
    rng = ctx.rng
    letters = u'abcdefghijklmnopqrstuvwxyzABCDEFGHIJKLMNOPQRSTUVWXYZ0123456789 .;:!?'
    for j in range(n):
        im = Impl()
        try:
            pre = rng.choice([0, 0, 1, 3, 15, 17, 30])
            for _ in range(pre):
                im.do(('k', u'q', 16))
                im.do(('r',))
            text = u''.join(rng.choice(letters) for _ in range(rng.choice([0, 1, 2, 5, 10, 13, 14])))
            rest = u''.join(rng.choice(letters) for _ in range(rng.choice([0, 1, 3, 8])))
            typed = (text + u'\r' + rest)
            stored = typed[:15]
            for ch in typed:
                im.do(('k', ch, rng.choice(SAFE_SCANS)))
            stmt = rng.choice([b'LINE INPUT A$', b'INPUT A$', b'A$=INPUT$(%d)' % (len(text) + 1)])
            if u'\r' not in stored:
                stmt = b'A$=INPUT$(15)'
            case = {'typed': typed, 'pre': pre, 'stmt': stmt.decode()}
            try:
                with deadline(5):
                    im.session.execute(stmt)
                    got = im.session.get_variable('A$')
            except Hang:
                ctx.fail('input:blocked', case, '%s blocked although the typed line was in the buffer' % stmt.decode())
                continue
            if stmt.startswith(b'A$=INPUT$'):
                n_read = 15 if u'\r' not in stored else len(text) + 1
                want = stored[:n_read].encode('ascii')
                left = stored[n_read:]
            else:
                # the line editor drops trailing blanks of the entered line
                want = text.encode('ascii').rstrip(b' ')
                if stmt == b'INPUT A$':
                    # INPUT strips leading/trailing blanks of an unquoted field
                    want = want.strip(b' ')
                    got = got.strip(b' ')
                left = stored[len(text) + 1:]
            ctx.case(('input', typed, pre, stmt))
            ctx.count('input:' + stmt.decode().split('(')[0].split()[0])
            if got != want:
                ctx.fail('input:wrong-text', case, '%s delivered %r, expected %r' % (stmt.decode(), got, want))
                continue
            rem = b''
            for _ in range(17):
                rem += im.session.evaluate(b'INKEY$')
            if rem != left.encode('ascii'):
                ctx.fail('input:wrong-rest', case, 'after %s the buffer delivered %r, expected %r' % (stmt.decode(), rem, left.encode('ascii')))
        except Exception as e:
            ctx.fail('input:exception:%s' % type(e).__name__, {'scenario': j}, 'raised %s: %s' % (type(e).__name__, e))
        finally:
            im.close()


# ---------------------------------------------------------------------------------------------------------------
# double-byte codepages: every byte typed is delivered exactly once, in order, through every reading path

DBCS_QUICK = ['936', '932', '949', '950']
DBCS_ALL = DBCS_QUICK + ['934', '938', 'big5-2003', 'big5-hkscs']
NONTRAIL = u'0123456789!#$%&()*+-./;<=>?'      # below 0x40: never a trail byte
TRAIL_ASCII = u'ABCXYZabcxyz'                      # trail bytes in every DBCS codepage shipped
EDITOR_KEYS = [u'\0H', u'\0K', u'\0M', u'\0P', u'\0G', u'\0O']   # cursor keys: only for the byte-wise paths


def byte_ranges(byteset):
    v = sorted(bytearray(b''.join(byteset)))
    out = []
    for x in v:
        if out and out[-1][1] == x - 1:
            out[-1][1] = x
        else:
            out.append([x, x])
    return out


def ranges_word(r):
    return ','.join('%d-%d' % (a, b) for a, b in r) or '-'


def dbcs_info(name):
    """(lead byte values, trail-only-or-not high byte values, a few complete characters typed as ONE key)."""
    im = Impl(name)
    try:
        lead = sorted(bytearray(b''.join(im.cp.lead)))
        trail = sorted(bytearray(b''.join(im.cp.trail)))
        pairs = []
        for l in lead[::7]:
            for t in trail[::5]:
                b = bytes(bytearray([l, t]))
                try:
                    u = im.cp.bytes_to_unicode(b)
                except Exception:
                    continue
                if len(u) == 1 and im.to_bytes(u) == b:
                    pairs.append(u)
                    break
        return lead, trail, pairs
    finally:
        im.close()


_DBCS_INFO = {}


def dbcs_case_gen(rng, name, path, force=None):
    """One case of the class: a key stream mixing ASCII (trail-range and not), lone lead bytes, lone high trail
    bytes and complete pairs (typed as one key or as two Alt codes), the Enter typed ahead, more keys behind it."""
    if name not in _DBCS_INFO:
        _DBCS_INFO[name] = dbcs_info(name)
    lead, trail, pairs = _DBCS_INFO[name]
    hi_trail = [t for t in trail if t >= 128]
    editor = path in ('line', 'input')

    def key():
        x = rng.random()
        if x < 0.22:
            return ['c', rng.choice(NONTRAIL), rng.choice(SAFE_SCANS)]
        if x < 0.37:
            return ['c', rng.choice(TRAIL_ASCII), rng.choice(SAFE_SCANS)]
        if x < 0.42:
            return ['c', u' ', 57]
        if x < 0.70:
            return ['a', rng.choice(lead)]
        if x < 0.82:
            return ['a', rng.choice(hi_trail)]
        if x < 0.92 and pairs:
            return ['c', rng.choice(pairs), rng.choice(SAFE_SCANS)]
        if not editor:
            return ['c', rng.choice(EDITOR_KEYS), 72]
        return ['c', rng.choice(NONTRAIL), rng.choice(SAFE_SCANS)]

    keys = list(force) if force is not None else [key() for _ in range(rng.choice([1, 2, 3, 5, 8, 12]))]
    keys.append(['c', u'\r', 28])
    keys += [key() for _ in range(rng.choice([0, 1, 2, 3]))]
    pre = rng.choice([0, 0, 1, 7, 15, 17])
    if path == 'line':
        plan = [['inkey', rng.choice([0, 0, 1, 2])], ['line']]
    elif path == 'input':
        plan = [['inkey', rng.choice([0, 0, 1])], ['input']]
    elif path == 'bytes':
        plan = [[rng.choice(['inkey', 'input$']), rng.choice([1, 2, 3])] for _ in range(4)]
    else:
        plan = [[rng.choice(['full', 'full', 'byte']), 1] for _ in range(len(keys) + 2)]
    return {'dbcs': name, 'pre': pre, 'keys': keys, 'plan': plan, 'path': path}


def run_dbcs_case(case, stats=None):
    """-> (failure (key, what) or None, model line or None, implementation reply or None)"""
    name = case['dbcs']
    im = Impl(name)
    direct = case['path'] == 'direct'
    mops, rds, tokens = [], [], []

    def count(tag):
        if stats is not None:
            stats('dbcs:' + tag)

    try:
        lead, trail = set(im.cp.lead), set(im.cp.trail)
        for _ in range(case['pre']):
            im.do(('k', u'q', 16))
            im.do(('r',))
            mops += ['k:71:16', 'r']
        stream = []
        for k in case['keys']:
            if k[0] == 'a':
                im.alt_code(k[1])
                b = bytes(bytearray([k[1] % 256]))
                scan = 0
            else:
                im.do(('k', k[1], k[2]))
                b = im.to_bytes(k[1])
                scan = k[2]
            if b:
                mops.append('k:%s:%d' % (hexs(b), scan))
                # the statement: further keystrokes are dropped while 15 wait
                if len(stream) < 15:
                    stream.append(b)
        rem = list(stream)
        for a, b in zip(rem, rem[1:]):
            if a in lead:
                count('lead-then-' + ('trail' if b in trail else 'CR' if b == b'\r' else 'nontrail'))
        if rem and rem[-1] in lead:
            count('lead-last')
        # the BIOS pointers show every keystroke
        n = ((im.session.evaluate(b'PEEK(1052)') - im.session.evaluate(b'PEEK(1050)')) // 2) % 16
        if n != len(rem):
            return ('dbcs:mirror:count', '%d keystrokes typed (first 15 kept) but the BIOS pointers show %d waiting'
                    % (len(rem), n)), None, None
        for step in list(case['plan']) + [['drain', 17]]:
            kind = step[0]
            if kind in ('inkey', 'input$', 'drain', 'byte', 'full'):
                for _ in range(step[1]):
                    if kind == 'input$' and not rem:
                        break     # would block
                    with deadline(3):
                        if kind == 'full':
                            got = bytes(im.impl.keyboard.get_fullchar())
                        elif kind == 'byte' or (kind == 'drain' and direct):
                            got = bytes(im.impl.keyboard.read_byte())
                        elif kind == 'input$':
                            got = bytes(im.session.evaluate(b'INPUT$(1)'))
                        else:
                            got = bytes(im.session.evaluate(b'INKEY$'))
                    if direct:
                        rds.append('f' if kind == 'full' else 'b')
                        tokens.append(hexs(got))
                    count('read:' + kind)
                    before = list(rem)
                    if not rem:
                        ok = got == b''
                    elif kind == 'full' and len(rem) >= 2 and got == rem[0] + rem[1]:
                        ok = True
                        rem = rem[2:]
                        count('pair-combined')
                    else:
                        ok = got == rem[0]
                        rem = rem[1:]
                    if not ok:
                        return ('dbcs:lost-or-reordered:' + kind,
                                '%s delivered %r while the keystrokes waiting were %r (every byte typed must be '
                                'delivered exactly once, in order)' % (kind, got, before)), None, None
            else:
                if b'\r' not in rem:
                    continue
                i = rem.index(b'\r')
                want = b''.join(rem[:i])
                stmt = b'LINE INPUT A$' if kind == 'line' else b'INPUT A$'
                try:
                    with deadline(3):
                        im.session.execute(stmt)
                        got = im.session.get_variable('A$')
                except Hang:
                    return ('dbcs:input-blocked', '%s still waits although Enter was typed ahead (waiting keystrokes %r)'
                            % (stmt.decode(), rem)), None, None
                count('read:' + kind)
                # the line editor drops trailing blanks; INPUT also strips leading blanks of an unquoted field
                want = want.rstrip(b' ')
                if kind == 'input':
                    want, got = want.strip(b' '), got.strip(b' ')
                if got != want:
                    return ('dbcs:lost-or-reordered:' + kind,
                            '%s delivered %r, expected %r (waiting keystrokes %r)' % (stmt.decode(), got, want, rem)), None, None
                rem = rem[i + 1:]
        if direct:
            line = 'full %s %s %s %s' % (ranges_word(byte_ranges(lead)), ranges_word(byte_ranges(trail)),
                                         ';'.join(mops) or '-', ''.join(rds) or '-')
            return None, line, 'ok ' + (','.join(tokens) or '-')
        return None, None, None
    except Hang:
        return ('dbcs:hang', 'a read did not return within 3 s'), None, None
    finally:
        im.close()


def dbcs_scenarios(ctx, n_random, names):
    """Deterministic family (each codepage x each reading path x each kind of key behind a lone lead byte)
    plus random streams."""
    rng = ctx.rng
    cases = []
    for name in names:
        if name not in _DBCS_INFO:
            _DBCS_INFO[name] = dbcs_info(name)
        lead, trail, pairs = _DBCS_INFO[name]
        hi_trail = [t for t in trail if t >= 128]
        l1, l2, l3 = rng.choice(lead), rng.choice(lead), rng.choice(lead)
        behind = [
            [['c', u'1', 2], ['c', u'2', 3]],                     # not a trail byte: must stay in the buffer
            [],                                                   # Enter directly behind the lead byte
            [['c', u' ', 57], ['c', u'x', 45]],
            [['c', u'A', 30], ['c', u'5', 6]],                    # trail byte: combines
            [['a', rng.choice(hi_trail)], ['c', u';', 39]],
            [['a', l2], ['a', l3], ['c', u'7', 8]],               # lead lead lead
            ([['c', pairs[0], 30]] if pairs else []) + [['a', l2], ['c', u'=', 13]],
        ]
        paths = ['line', 'input', 'bytes', 'direct']
        for j, b in enumerate(behind):
            # quick tier: every kind of follower on two reading paths per codepage, rotating; thorough: all
            for path in (paths if not ctx.quick else [paths[j % 2], paths[2 + j % 2]]):
                front = rng.choice([[], [['c', u'1', 2]], [['c', u'a', 30], ['c', u'9', 10]]])
                cases.append(dbcs_case_gen(rng, name, path, force=front + [['a', l1]] + b))
    for j in range(n_random):
        cases.append(dbcs_case_gen(rng, rng.choice(names), ['line', 'input', 'bytes', 'direct'][j % 4]))
    mcases, mouts, mlines = [], [], []
    nfail = 0
    for case in cases:
        if nfail >= 4:
            break
        try:
            f, line, out = run_dbcs_case(case, ctx.count)
        except Exception as e:
            f, line, out = ('dbcs:exception:%s' % type(e).__name__, 'raised %s: %s' % (type(e).__name__, e)), None, None
        ctx.case(('dbcs', repr(case)))
        ctx.count('dbcs:codepage:' + case['dbcs'])
        ctx.count('dbcs:path:' + case['path'])
        if f is not None:
            nfail += 1
            ctx.fail(f[0], case, '%s [codepage %s, keys %r, plan %r]' % (f[1], case['dbcs'], case['keys'], case['plan']))
        elif line is not None:
            mcases.append(case)
            mouts.append(out)
            mlines.append(line)
    ctx.compare(mcases, mouts, mlines, label='dbcs-readers')
    if mcases:
        ctx.sample({'dbcs': mcases[0]['dbcs'], 'keys': mcases[0]['keys'], 'impl': mouts[0]})


def run(ctx):
    translated.check_keybuf(ctx)
    rng = ctx.rng
    probe = Impl()
    cp = probe.to_bytes
    cases, outs, lines = [], [], []
    failed_keys = set()

    def one(ops, label):
        f = check_history(ctx, ops, label, cases, outs, lines, cp)
        if f is not None:
            failed_keys.add(f.key)

    for h in boundary_histories():
        if len(ctx.failures) >= 8:
            break
        one(h, 'boundary')
    ctx.log('%d boundary histories done' % len(cases))
    n = 260 if ctx.quick else 6000
    profiles = ['burst', 'steady', 'clear', 'poke', 'inject']
    for j in range(n):
        if len(ctx.failures) >= 8:
            break
        p = profiles[j % len(profiles)]
        length = rng.choice([10, 30, 60, 120] if ctx.quick else [10, 30, 60, 120, 400])
        one(gen_history(rng, p, length), p)
    ctx.log('%d histories run on the implementation' % (len(cases)))
    ctx.compare(cases, outs, lines, label='history')
    if cases:
        ctx.sample({'ops': boundary_histories()[0][:4] + ['...'], 'impl': outs[0][:120]})
    line_input_scenarios(ctx, 60 if ctx.quick else 600)
    dbcs_scenarios(ctx, 24 if ctx.quick else 1500, DBCS_QUICK if ctx.quick else DBCS_ALL)
    ctx.log('double-byte codepage scenarios done')
    probe.close()


def replay(ctx, payload):
    case = payload.get('case', {})
    key = payload.get('key')
    if 'ops' in case:
        ops = guard_blocking(ops_from_json(case['ops']))
        tokens, f = run_history(ops)
        if f is not None:
            return f.what
        # also compare with the model if it is available
        im = Impl()
        try:
            line = model_line(ops, im.to_bytes)
        finally:
            im.close()
        m = ctx.model([line])
        if m is not None and m[0] != 'ok ' + (','.join(tokens) or '-'):
            return 'model and implementation disagree: impl %s model %s' % (','.join(tokens), m[0])
        return None
    if 'dbcs' in case:
        f, line, out = run_dbcs_case(case)
        if f is not None:
            return f[1]
        if line is not None:
            m = ctx.model([line])
            if m is not None and m[0] != out:
                return 'model and implementation disagree: impl %s model %s' % (out, m[0])
        return None
    import random
    sub = _Sub(ctx, random.Random(payload.get('seed', 0)))
    line_input_scenarios(sub, 60)
    hits = [f for f in sub.failures if f['key'] == key]
    return hits[0]['what'] if hits else None


class _Sub(object):
    def __init__(self, ctx, rng):
        self.rng = rng
        self.failures = []
        self.quick = True
        self.replay_mode = True

    def fail(self, key, case, what):
        self.failures.append({'key': key, 'case': case, 'what': what})

    def case(self, key):
        pass

    def count(self, key, n=1):
        pass

    def log(self, msg):
        pass
