import PcbV.Lemmas.MiniBasic
import PcbV.Lemmas.MiniBasicX
import PcbV.Props.C02
/-
  C19 — Structured control flow follows its reference semantics.
  Property theorems about `PcbV.MiniBasic` (the transcription of the control-flow core of
  interpreter.py).  `step` / `run` / `trace true` are the repaired code (pending fix
  C19-empty-for-comma-next), `stepOld` / `trace false` the code before it.
  Supporting lemmas are in `PcbV.Lemmas.MiniBasic`.
-/
namespace PcbV.C19
open PcbV PcbV.MiniBasic PcbV.Gen

/-! ### ON n GOTO / GOSUB -/

/-- ON n selects the n-th target, falls through for 0 and for n beyond the list, raises Illegal function
    call for a negative n or n > 255 (Overflow if n is not a 16-bit integer at all). -/
theorem on_select (fixed : Bool) (code : List Instr) (s : St) (e : Expr) (sub : Bool) (tgts : List Nat)
    (h : stmtAt code s.pc = some (.on_ e sub tgts)) :
    let n := e.eval s.env
    (¬ InRange n → ∃ s', stepWith fixed code s = .error E.overflow s') ∧
    (InRange n → (n < 0 ∨ n > 255) → ∃ s', stepWith fixed code s = .error E.illegal_function_call s') ∧
    ((n = 0 ∨ ((tgts.length : Int) < n ∧ n ≤ 255)) → stepWith fixed code s = .running { s with pc := s.pc + 1 }) ∧
    (∀ (k : Nat) (t : Nat), n = (k : Int) + 1 → n ≤ 255 → tgts[k]? = some t →
        stepWith fixed code s = (if sub then jumpSub code s t else jumpTo code s t)) := by
  intro n
  refine ⟨?_, ?_, ?_, ?_⟩
  · intro hr
    exact ⟨s, by simp only [stepWith, h]; simp [n] at hr; simp [hr]⟩
  · intro hr hneg
    refine ⟨s, ?_⟩
    simp only [stepWith, h]
    have : InRange (e.eval s.env) := hr
    simp [this]
    intro h1
    rcases hneg with h2 | h2 <;> simp only [n] at h2 <;> omega
  · intro h0
    simp only [stepWith, h]
    rcases h0 with h0 | ⟨h1, h2⟩
    · have h0' : e.eval s.env = 0 := h0
      have hr0 : InRange (0 : Int) := by decide
      simp [h0', hr0]
    · have h1' : (tgts.length : Int) < e.eval s.env := h1
      have h2' : e.eval s.env ≤ 255 := h2
      have hpos : 0 < e.eval s.env := by omega
      have hr : InRange (e.eval s.env) := by unfold InRange; omega
      have hn0 : e.eval s.env ≠ 0 := by omega
      have hnot : ¬ (e.eval s.env < 0 ∨ e.eval s.env > 255) := by omega
      have hidx : tgts[(e.eval s.env).toNat - 1]? = none := by
        apply List.getElem?_eq_none; omega
      simp [hr, hn0, hnot, hidx]
  · intro k t hk h255 ht
    simp only [stepWith, h]
    have hk' : e.eval s.env = (k : Int) + 1 := hk
    have h255' : e.eval s.env ≤ 255 := h255
    have hr : InRange (e.eval s.env) := by unfold InRange; omega
    have hn0 : e.eval s.env ≠ 0 := by omega
    have hnot : ¬ (e.eval s.env < 0 ∨ e.eval s.env > 255) := by omega
    have hidx : (e.eval s.env).toNat - 1 = k := by omega
    simp [hr, hn0, hnot, hidx, ht]

/-! ### IF … THEN n / IF … GOTO n / … ELSE n -/

/-- A line number after THEN (or GOTO) or after ELSE is a jump to that line, for every line number — 0
    included: only an absent number (`none`) means "execute the clause as statements".  With a true
    condition the THEN target is taken; with a false one the target of the ELSE that the search finds. -/
theorem if_line_target (fixed : Bool) (code : List Instr) (s : St) (c : Expr) (t : Option Nat) (n : Nat)
    (h : stmtAt code s.pc = some (.ifThen c t)) :
    (c.eval s.env ≠ 0 → t = some n → stepWith fixed code s = jumpTo code s n) ∧
    (c.eval s.env = 0 → ∀ j, scanElse (code.drop (s.pc + 1)) (s.pc + 1) 0 = .found j (some n) →
      stepWith fixed code s = jumpTo code s n) := by
  constructor
  · intro hc ht; subst ht; simp [stepWith, h, hc]
  · intro hc j hj; simp [stepWith, h, hc, hj]

-- a loop closed by IF … THEN 0, IF … ELSE 0 on a program whose first line is line 0
example : trace true [⟨0, [.let_ 0 (.bin .add (.var 0) (.lit 1))]⟩, ⟨10, [.print (.var 0)]⟩,
                      ⟨20, [.ifThen (.bin .lt (.var 0) (.lit 3)) (some 0)]⟩, ⟨30, [.print (.lit 77)]⟩] 100 =
      ([1, 2, 3, 77], .ended) ∧
    trace true [⟨0, [.let_ 0 (.bin .add (.var 0) (.lit 1))]⟩, ⟨10, [.print (.var 0)]⟩,
                ⟨20, [.ifThen (.bin .ge (.var 0) (.lit 3)) (some 30), .else_ (some 0)]⟩,
                ⟨30, [.print (.lit 77)]⟩] 100 = ([1, 2, 3, 77], .ended) := by decide

/-! ### mismatched NEXT / WEND / RETURN / FOR / WHILE / jump targets -/

/-- The specific errors of mismatched control statements, for every program and every state:
    * NEXT when no FOR record belongs to this NEXT position (in particular: empty FOR stack) — NEXT without FOR;
    * WEND when no WHILE record belongs to this WEND — WEND without WHILE;
    * RETURN with an empty GOSUB stack — RETURN without GOSUB;
    * FOR (bounds in range) when no NEXT follows in the program text — FOR without NEXT;
    * WHILE when no WEND follows — WHILE without WEND;
    * GOTO / GOSUB to a line that does not exist — Undefined line number. -/
theorem mismatch_errors (fixed : Bool) (code : List Instr) (s : St) :
    (∀ vs, stmtAt code s.pc = some (.next vs) → (∀ r ∈ s.fors, r.nextpos ≠ (s.pc, 0)) →
        ∃ s', stepWith fixed code s = .error E.next_without_for s') ∧
    (stmtAt code s.pc = some .wend → (∀ r ∈ s.whiles, r.2 ≠ s.pc) →
        ∃ s', stepWith fixed code s = .error E.wend_without_while s') ∧
    (stmtAt code s.pc = some .ret → s.gosubs = [] →
        ∃ s', stepWith fixed code s = .error E.return_without_gosub s') ∧
    (∀ v a b c, stmtAt code s.pc = some (.for_ v a b c) →
        InRange (a.eval s.env) → InRange (b.eval s.env) →
        InRange (stepValue s.env c) →
        (∀ st ∈ stmtsAfter code s.pc, ∀ vs, st ≠ .next vs) →
        ∃ s', stepWith fixed code s = .error E.for_without_next s') ∧
    (∀ c, stmtAt code s.pc = some (.while_ c) → (∀ st ∈ stmtsAfter code s.pc, st ≠ .wend) →
        ∃ s', stepWith fixed code s = .error E.while_without_wend s') ∧
    (∀ n, (stmtAt code s.pc = some (.goto n) ∨ stmtAt code s.pc = some (.gosub n)) → lineIndex code n = none →
        ∃ s', stepWith fixed code s = .error E.undefined_line_number s') := by
  refine ⟨?_, ?_, ?_, ?_, ?_, ?_⟩
  · intro vs h hno
    have hf := findRec_none_of_no_match (s.pc, 0) s.fors hno
    cases vs with
    | nil => exact ⟨s, by simp [stepWith, h, iterate, hf]⟩
    | cons v vs => exact ⟨s, by simp [stepWith, h, nextVars, iterate, hf]⟩
  · intro h hno
    exact ⟨_, by simp [stepWith, h, popWhile_none_of_no_match s.pc s.whiles hno]; rfl⟩
  · intro h hg
    exact ⟨s, by simp [stepWith, h, hg]⟩
  · intro v a b c h ha hb hc hno
    refine ⟨s, ?_⟩
    simp [stepWith, h, execFor, forEnter, findNext, scanNext_none_of_no_next _ _ _ hno, ha, hb, hc]
  · intro c h hno
    exact ⟨s, by simp [stepWith, h, scanWend_none_of_no_wend _ _ _ hno]⟩
  · intro n h hl
    rcases h with h | h
    · exact ⟨s, by simp [stepWith, h, jumpTo, hl]⟩
    · exact ⟨s, by simp [stepWith, h, jumpSub, hl]⟩


/-! ### GOSUB / RETURN: stack discipline -/

/-- GOSUB and ON … GOSUB push the position of the statement after the calling one -/
theorem gosub_call (fixed : Bool) (code : List Instr) (s : St) (n j : Nat) (hj : lineIndex code n = some j) :
    (stmtAt code s.pc = some (.gosub n) →
      stepWith fixed code s = .running { s with pc := j, gosubs := (s.pc + 1) :: s.gosubs }) ∧
    (∀ e tgts (k : Nat), stmtAt code s.pc = some (.on_ e true tgts) → e.eval s.env = (k : Int) + 1 →
      e.eval s.env ≤ 255 → tgts[k]? = some n →
      stepWith fixed code s = .running { s with pc := j, gosubs := (s.pc + 1) :: s.gosubs }) := by
  constructor
  · intro h; simp [stepWith, h, jumpSub, hj]
  · intro e tgts k h hk h255 ht
    have := (on_select fixed code s e true tgts h).2.2.2 k n hk h255 ht
    rw [this]; simp [jumpSub, hj]

/-- RETURN resumes after the calling statement at any nesting depth.  `s0` is the state at a calling
    statement (GOSUB or ON … GOSUB, see `gosub_call`) whose execution gives `s1`.  Whatever is executed
    afterwards (k statements: loops, jumps, further calls and returns to any depth), as long as the
    subroutine has not returned (the GOSUB stack stays higher than it was at the call), a RETURN executed
    at the level of the call continues at the statement after the calling one with the caller's stack. -/
theorem return_resumes_after_call (code : List Instr) (s0 s1 : St)
    (hpush : s1.gosubs = (s0.pc + 1) :: s0.gosubs)
    (k : Nat) (sk : St) (hrun : runN code k s1 = some sk)
    (hdeep : ∀ i si, i ≤ k → runN code i s1 = some si → s0.gosubs.length < si.gosubs.length)
    (hret : stmtAt code sk.pc = some .ret) (hlen : sk.gosubs.length = s0.gosubs.length + 1) :
    step code sk = .running { sk with pc := s0.pc + 1, gosubs := s0.gosubs } := by
  obtain ⟨top, htop⟩ := gosubs_above code s0.gosubs (s0.pc + 1) k s1 sk ⟨[], by rw [hpush]; rfl⟩ hrun hdeep
  have : top = [] := by
    cases top with
    | nil => rfl
    | cons x t => rw [htop] at hlen; simp at hlen; omega
  subst this
  simp only [List.nil_append] at htop
  simp [step, stepWith, hret, htop]


/-! ### FOR: values taken by the counter and number of passes -/

/-- **FOR trip count.**  `FOR v = a TO b STEP c : PRINT v : NEXT` with 16-bit a, b, c.
    * start not past the end: the body runs for a and then for each value of `passValues` — k+1 passes when
      `Passes` holds for k — and the counter is left at `finalValue`;
    * start already past the end (c ≠ 0): zero passes; the counter is left at a + c (the code performs the
      NEXT increment once); Overflow if a + c is not a 16-bit integer. -/
theorem for_trip_count (v : Nat) (a b c : Int) (named : Bool) (s : SSt)
    (ha : InRange a) (hb : InRange b) (hc : InRange c) :
    let loop := Task.stmt (.for_ v (.lit a) (.lit b) (some (.lit c)) named (.print (.var v)))
    let past := (if sign c ≥ 0 then decide (a > b) else decide (b > a))
    (past = false → ∀ k, Passes (sign c) b c a k →
      exec (k + 2) loop s = .ok ⟨s.env.set v (finalValue c a k), (a :: passValues c a k).reverse ++ s.out⟩) ∧
    (past = true → c ≠ 0 → InRange (a + c) → exec 2 loop s = .ok ⟨s.env.set v (a + c), s.out⟩) ∧
    (past = true → ¬ InRange (a + c) → ∃ σ', exec 2 loop s = .err E.overflow σ') := by
  intro loop past
  refine ⟨?_, ?_, ?_⟩
  · intro hp k hk
    have hp' : (if sign c ≥ 0 then decide (a > b) else decide (b > a)) = false := hp
    have h1 := forNext_passes v (sign c) b c k a ⟨s.env.set v a, a :: s.out⟩ (by simp [Env.set]) hk
    have hv : (s.env.set v a) v = a := by simp [Env.set]
    simp only [loop]
    rw [exec_for_lit]
    simp only [Expr.eval, stepValue, ha, hb, hc, not_true_eq_false, if_false]
    rw [hp']
    simp only [Bool.false_eq_true, if_false, SRes.bind, exec_print_succ, Expr.eval, hv]
    rw [h1]
    simp [Env.set_set]
  · intro hp hc0 hr
    have hp' : (if sign c ≥ 0 then decide (a > b) else decide (b > a)) = true := hp
    have hv : (s.env.set v a) v = a := by simp [Env.set]
    have hends : loopEnds (sign c) (a + c) b = true := by
      unfold loopEnds sign at *
      unfold InRange at *
      split at hp' <;> simp at hp' <;> split <;> simp <;> omega
    simp only [loop]
    rw [exec_for_lit, exec_forNext_succ]
    simp only [Expr.eval, stepValue, ha, hb, hc, not_true_eq_false, if_false, if_true, hv, hr,
      hends, Env.set_set]
    rw [hp']
    simp only [if_true]
  · intro hp hr
    have hp' : (if sign c ≥ 0 then decide (a > b) else decide (b > a)) = true := hp
    have hv : (s.env.set v a) v = a := by simp [Env.set]
    refine ⟨⟨s.env.set v a, s.out⟩, ?_⟩
    simp only [loop]
    rw [exec_for_lit, exec_forNext_succ]
    simp only [Expr.eval, stepValue, ha, hb, hc, not_true_eq_false, if_false,
      if_true, hv, hr, not_false_eq_true]
    rw [hp']
    simp only [if_true]

theorem finalValue_eq (c : Int) : ∀ (k : Nat) (x : Int), finalValue c x k = x + ((k : Int) + 1) * c
  | 0, x => by simp [finalValue]
  | k + 1, x => by
    rw [finalValue, finalValue_eq c k (x + c)]
    simp only [Int.natCast_add, Int.add_mul, Int.one_mul, Int.natCast_one]; omega

theorem passValues_eq (c : Int) : ∀ (k : Nat) (x : Int),
    passValues c x k = (List.range k).map (fun (i : Nat) => x + ((i : Int) + 1) * c)
  | 0, x => by simp [passValues]
  | k + 1, x => by
    rw [passValues, passValues_eq c k (x + c), List.range_succ_eq_map]
    simp only [List.map_cons, List.map_map]
    congr 1
    · simp
    · apply List.map_congr_left; intro i _
      simp only [Function.comp, Nat.succ_eq_add_one, Int.natCast_add, Int.add_mul, Int.one_mul, Int.natCast_one]; omega

/-- upward loop: k more passes exactly when x + k·c ≤ stop < x + (k+1)·c -/
theorem passes_up (b c : Int) (hc : 0 < c) : ∀ (k : Nat) (x : Int),
    InRange (x + ((k : Int) + 1) * c) → -32768 ≤ x → x + (k : Int) * c ≤ b → b < x + ((k : Int) + 1) * c →
    Passes 1 b c x k
  | 0, x, hr, hx, h1, h2 => by
    simp only [Int.natCast_zero, Int.zero_add, Int.one_mul, Int.zero_mul, Int.add_zero] at hr h1 h2
    exact ⟨hr, by simp [loopEnds]; omega⟩
  | k + 1, x, hr, hx, h1, h2 => by
    have hk : 0 ≤ (k : Int) * c := Int.mul_nonneg (by omega) (by omega)
    simp only [Int.natCast_add, Int.add_mul, Int.one_mul, Int.natCast_one] at hr h1 h2
    unfold InRange at hr
    refine ⟨by unfold InRange; omega, by simp [loopEnds]; omega, ?_⟩
    apply passes_up b c hc k (x + c)
    · unfold InRange; simp only [Int.add_mul, Int.one_mul]; omega
    · omega
    · omega
    · simp only [Int.add_mul, Int.one_mul]; omega

/-- downward loop -/
theorem passes_down (b c : Int) (hc : c < 0) : ∀ (k : Nat) (x : Int),
    InRange (x + ((k : Int) + 1) * c) → x ≤ 32767 → b ≤ x + (k : Int) * c → x + ((k : Int) + 1) * c < b →
    Passes (-1) b c x k
  | 0, x, hr, hx, h1, h2 => by
    simp only [Int.natCast_zero, Int.zero_add, Int.one_mul, Int.zero_mul, Int.add_zero] at hr h1 h2
    exact ⟨hr, by simp [loopEnds]; omega⟩
  | k + 1, x, hr, hx, h1, h2 => by
    have hk : (k : Int) * c ≤ 0 := Int.mul_nonpos_of_nonneg_of_nonpos (by omega) (by omega)
    simp only [Int.natCast_add, Int.add_mul, Int.one_mul, Int.natCast_one] at hr h1 h2
    unfold InRange at hr
    refine ⟨by unfold InRange; omega, by simp [loopEnds]; omega, ?_⟩
    apply passes_down b c hc k (x + c)
    · unfold InRange; simp only [Int.add_mul, Int.one_mul]; omega
    · omega
    · omega
    · simp only [Int.add_mul, Int.one_mul]; omega

/-! ### FOR bounds are converted to the counter's type before the direction is taken -/

/-- CINT: the converted value of a/d (a, d naturals) is the nearest integer, a half goes up -/
theorem cintLit_nearest (a d : Nat) (hd : 0 < d) :
    ∃ q : Nat, cintLit a d = q ∧ q * (2 * d) ≤ 2 * a + d ∧ 2 * a + d < q * (2 * d) + 2 * d := by
  refine ⟨(2 * a + d) / (2 * d), ?_, Nat.div_mul_le_self _ _, Nat.lt_div_mul_add (by omega)⟩
  have h : ¬ ((a : Int) < 0) := by omega
  simp only [cintLit, Int.natAbs_natCast, h, if_false]

/-- … and symmetrically for negative values (a half goes away from zero) -/
theorem cintLit_neg (n : Int) (d : Nat) : cintLit (-n) d = - cintLit n d := by
  unfold cintLit
  simp only [Int.natAbs_neg]
  by_cases h0 : n = 0
  · subst h0
    have : (2 * (0 : Int).natAbs + d) / (2 * d) = 0 := by
      simp only [Int.natAbs_zero, Nat.mul_zero, Nat.zero_add]
      rcases Nat.eq_zero_or_pos d with h | h
      · subst h; rfl
      · exact Nat.div_eq_of_lt (by omega)
    rw [this]; decide
  · by_cases h : n < 0
    · have h' : ¬ (-n < 0) := by omega
      simp only [h, h', if_true, if_false, Int.neg_neg]
    · have h' : -n < 0 := by omega
      simp only [h, h', if_true, if_false]

/-- `for_` converts start, stop and step to the counter's type first; the direction (`sgn`), the
    empty-loop test and NEXT's end test only ever see the converted values: a FOR with fractional bounds
    is the FOR with their CINT values (so `STEP -.4` on an integer counter is `STEP 0`, not a downward loop). -/
theorem for_bounds_converted_first (fixed : Bool) (code : List Instr) (s : St) (v : Nat)
    (na nb nc : Int) (da db dc : Nat) :
    execFor fixed code s v (.frac na da) (.frac nb db) (some (.frac nc dc)) =
      execFor fixed code s v (.lit (cintLit na da)) (.lit (cintLit nb db)) (some (.lit (cintLit nc dc))) := by
  rfl

example : cintLit (-2) 5 = 0 ∧ cintLit 2 5 = 0 ∧ cintLit 1 2 = 1 ∧ cintLit (-1) 2 = -1 ∧ cintLit 5 2 = 3 ∧
    cintLit (-3) 2 = -2 ∧ cintLit 1 3 = 0 ∧ cintLit 327674 10 = 32767 ∧ ¬ InRange (cintLit 327675 10) ∧
    sign (stepValue (fun _ => 0) (some (.frac (-2) 5))) = 0 := by decide

/-! ### Mech refines Spec -/

/-- **Mech refines Spec** on programs compiled from structured FOR / WHILE nests (with PRINT and LET),
    whatever the distribution of the statements over program lines.  If the reference semantics
    terminates (normally or with an error) the mechanism, started on the compiled program, prints the same
    values and stops the same way.
    `_partial`: this first fragment has no IF/ELSE and no GOSUB/RETURN; `mech_refines_spec_if_gosub_partial`
    below adds both.  GOTO, ON and early exits from loops stay outside the structured fragment; they are
    covered on the Mech layer by `on_select`, `return_resumes_after_call`, `mismatch_errors`,
    `next_drops_stale_records`, `wend_drops_stale_records` and by the correspondence run. -/
theorem mech_refines_spec_partial (code : List Instr) (p : SStmt) (hc : stmts code = compile p)
    (f : Nat) (env0 : Env) :
    (∀ σ', exec f (.stmt p) ⟨env0, []⟩ = .ok σ' →
      ∃ n sf, run code n ⟨0, env0, [], [], [], []⟩ = (sf, .ended) ∧ sf.out = σ'.out ∧ sf.env = σ'.env ∧
        sf.fors = [] ∧ sf.whiles = [] ∧ sf.gosubs = []) ∧
    (∀ e σ', exec f (.stmt p) ⟨env0, []⟩ = .err e σ' →
      ∃ n sf, run code n ⟨0, env0, [], [], [], []⟩ = (sf, .err e) ∧ sf.out = σ'.out) := by
  have h := (sim code f).stmt p ⟨env0, []⟩ [] [] [] [] [] (by simp [hc])
  constructor
  · intro σ' hex
    rw [hex] at h
    obtain ⟨n, hn⟩ := run_of_steps (show Steps code _ _ from h)
    refine ⟨n + 1, after (0 + (compile p).length) [] [] [] σ', ?_, rfl, rfl, rfl, rfl, rfl⟩
    have hend : stmtAt code (compile p).length = none := by
      rw [stmtAt_eq, hc]; simp
    have := hn 1
    simp only [List.length_nil] at this
    rw [show after 0 [] [] [] ⟨env0, []⟩ = ⟨0, env0, [], [], [], []⟩ from rfl] at this
    rw [this]
    simp [run, runWith, stepWith, after, hend, Nat.zero_add]
  · intro e σ' hex
    rw [hex] at h
    obtain ⟨m, m', hs, hstep, hout⟩ := h
    obtain ⟨n, hn⟩ := run_of_steps hs
    refine ⟨n + 1, m', ?_, hout⟩
    have := hn 1
    simp only [List.length_nil] at this
    rw [show after 0 [] [] [] ⟨env0, []⟩ = ⟨0, env0, [], [], [], []⟩ from rfl] at this
    rw [this]
    simp only [step] at hstep
    simp [run, runWith, hstep]

/-- the trip count carried over to the mechanism: any program whose statements are those of
    `FOR v = a TO b STEP c : PRINT v : NEXT [v]` (on one line or on several) prints a and the `passValues`
    and ends with empty stacks -/
theorem for_trip_count_mech (code : List Instr) (v : Nat) (a b c : Int) (named : Bool) (env0 : Env)
    (ha : InRange a) (hb : InRange b) (hc : InRange c)
    (hcode : stmts code = compile (.for_ v (.lit a) (.lit b) (some (.lit c)) named (.print (.var v))))
    (hp : (if sign c ≥ 0 then decide (a > b) else decide (b > a)) = false)
    (k : Nat) (hk : Passes (sign c) b c a k) :
    ∃ n sf, run code n ⟨0, env0, [], [], [], []⟩ = (sf, .ended) ∧
      sf.out.reverse = a :: passValues c a k ∧ sf.env v = finalValue c a k ∧ sf.fors = [] := by
  have h1 := (for_trip_count v a b c named ⟨env0, []⟩ ha hb hc).1 hp k hk
  obtain ⟨n, sf, hrun, hout, henv, hf, _, _⟩ :=
    (mech_refines_spec_partial code _ hcode (k + 2) env0).1 _ h1
  refine ⟨n, sf, hrun, ?_, ?_, hf⟩
  · rw [hout]; simp
  · rw [henv]; simp [Env.set]

/-! ### non-vacuity: the hypotheses of the theorems are satisfiable -/

-- FOR I = 1 TO 5 STEP 2: after the first pass two more (3, 5), left at 7
example : Passes 1 5 2 1 2 ∧ passValues 2 1 2 = [3, 5] ∧ finalValue 2 1 2 = 7 := by
  refine ⟨passes_up 5 2 (by decide) 2 1 (by decide) (by decide) (by decide) (by decide), by decide, by decide⟩

-- FOR I = 3 TO 1 STEP -1
example : Passes (-1) 1 (-1) 3 2 := passes_down 1 (-1) (by decide) 2 3 (by decide) (by decide) (by decide) (by decide)

-- a compiled nest, spread over lines, is an instance of `mech_refines_spec_partial`
example : stmts (flatten [⟨10, [.for_ 0 (.lit 1) (.lit 2) none, .while_ (.bin .lt (.var 1) (.lit 2))]⟩,
                          ⟨20, [.print (.var 0), .let_ 1 (.bin .add (.var 1) (.lit 1)), .wend, .next [0]]⟩]) =
    compile (.for_ 0 (.lit 1) (.lit 2) none true
      (.while_ (.bin .lt (.var 1) (.lit 2)) (.seq (.print (.var 0)) (.let_ 1 (.bin .add (.var 1) (.lit 1)))))) := by
  decide

-- RETURN at depth 2 resumes after each call; ON 2 GOSUB picks the second target
example : trace true [⟨10, [.gosub 100, .print (.lit 1), .on_ (.lit 2) true [100, 200], .print (.lit 4), .end_]⟩,
                      ⟨100, [.gosub 200, .print (.lit 2), .ret]⟩,
                      ⟨200, [.print (.lit 3), .ret]⟩] 100 = ([3, 2, 1, 3, 4], .ended) := by decide

-- the mismatch errors are reachable
example : (trace true [⟨10, [.next []]⟩] 9).2 = .err E.next_without_for ∧
    (trace true [⟨10, [.wend]⟩] 9).2 = .err E.wend_without_while ∧
    (trace true [⟨10, [.ret]⟩] 9).2 = .err E.return_without_gosub ∧
    (trace true [⟨10, [.for_ 0 (.lit 1) (.lit 2) none]⟩] 9).2 = .err E.for_without_next ∧
    (trace true [⟨10, [.while_ (.lit 1)]⟩] 9).2 = .err E.while_without_wend ∧
    (trace true [⟨10, [.goto 5]⟩] 9).2 = .err E.undefined_line_number := by decide

/-! ### Mech refines Spec: IF … THEN … ELSE and GOSUB / RETURN -/

/-- **Mech refines Spec, with IF/THEN/ELSE and GOSUB/RETURN.**  `main` and the subroutine bodies `subs` are
    structured programs built from PRINT, LET, FOR/NEXT, WHILE/WEND, IF … THEN … [ELSE …] in statement form
    (`Layout`: an IF and its branches, which contain no further IF, stand on one line that ends with them;
    everything else may be spread over the lines in any way) and GOSUB to the compiled subroutines
    (`SubsOk`: subroutine k stands somewhere in the program on its own line number, followed by RETURN;
    subroutines may call each other and themselves).  The program is `main`, then END or the end of the
    program.  If the reference semantics terminates (normally or with an error) the mechanism prints the same
    values and stops the same way, with all three stacks empty after a normal end.
    `_partial`: still outside the structured fragment are early exits from loops / subroutines by GOTO, ON,
    and an IF inside the branch of an IF (see `EarlyExitRefinement` for the invariant of the first). -/
theorem mech_refines_spec_if_gosub_partial (entry : Nat → Nat) (code : List Instr) (subs : List XStmt)
    (start : Nat → Nat) (hsubs : SubsOk entry code subs start) (main : XStmt) (post : List Stmt)
    (hc : stmts code = xcompile entry main ++ post)
    (hend : stmtAt code (xcompile entry main).length = none ∨
            stmtAt code (xcompile entry main).length = some .end_)
    (hL : Layout entry code 0 main) (f : Nat) (env0 : Env) :
    (∀ σ', xexec subs f (.stmt main) ⟨env0, []⟩ = .ok σ' →
      ∃ n sf, run code n ⟨0, env0, [], [], [], []⟩ = (sf, .ended) ∧ sf.out = σ'.out ∧ sf.env = σ'.env ∧
        sf.fors = [] ∧ sf.whiles = [] ∧ sf.gosubs = []) ∧
    (∀ e σ', xexec subs f (.stmt main) ⟨env0, []⟩ = .err e σ' →
      ∃ n sf, run code n ⟨0, env0, [], [], [], []⟩ = (sf, .err e) ∧ sf.out = σ'.out) := by
  have h := (xsim entry code subs start hsubs f).stmt main ⟨env0, []⟩ [] post [] [] [] (by simp [hc]) hL
  constructor
  · intro σ' hex
    rw [hex] at h
    obtain ⟨n, hn⟩ := run_of_steps (show Steps code _ _ from h)
    refine ⟨n + 1, after (0 + (xcompile entry main).length) [] [] [] σ', ?_, rfl, rfl, rfl, rfl, rfl⟩
    have := hn 1
    simp only [List.length_nil] at this
    rw [show after 0 [] [] [] ⟨env0, []⟩ = ⟨0, env0, [], [], [], []⟩ from rfl] at this
    rw [this]
    rcases hend with hend | hend <;> simp [run, runWith, stepWith, after, hend, Nat.zero_add]
  · intro e σ' hex
    rw [hex] at h
    obtain ⟨m, m', hs, hstep, hout⟩ := h
    obtain ⟨n, hn⟩ := run_of_steps hs
    refine ⟨n + 1, m', ?_, hout⟩
    have := hn 1
    simp only [List.length_nil] at this
    rw [show after 0 [] [] [] ⟨env0, []⟩ = ⟨0, env0, [], [], [], []⟩ from rfl] at this
    rw [this]
    simp only [step] at hstep
    simp [run, runWith, hstep]

/-! non-vacuity: a program with a subroutine call, an IF … ELSE line inside a loop, and a recursive subroutine -/

def xDemoCode : List Instr :=
  flatten [⟨10, [.for_ 0 (.lit 1) (.lit 3) none, .gosub 100]⟩,
           ⟨20, [.ifThen (.bin .gt (.var 1) (.lit 2)) none, .print (.var 1), .else_ none, .print (.lit 0),
                 .gosub 100]⟩,
           ⟨30, [.next [0], .end_]⟩,
           ⟨100, [.let_ 1 (.bin .add (.var 1) (.var 0)), .ifThen (.bin .lt (.var 1) (.lit 2)) none, .gosub 100]⟩,
           ⟨110, [.ret]⟩]

def xDemoMain : XStmt :=
  .for_ 0 (.lit 1) (.lit 3) none true
    (.seq (.call 0) (.ife (.bin .gt (.var 1) (.lit 2)) (.print (.var 1)) (.seq (.print (.lit 0)) (.call 0))))

def xDemoSubs : List XStmt :=
  [.seq (.let_ 1 (.bin .add (.var 1) (.var 0))) (.ift (.bin .lt (.var 1) (.lit 2)) (.call 0))]

example : SubsOk (fun k => 100 + 1000 * k) xDemoCode xDemoSubs (fun _ => 9) ∧
    stmts xDemoCode = xcompile (fun k => 100 + 1000 * k) xDemoMain ++ (.end_ :: ((stmts xDemoCode).drop 9)) ∧
    Layout (fun k => 100 + 1000 * k) xDemoCode 0 xDemoMain := by
  refine ⟨⟨?_, ?_⟩, by decide, ?_⟩
  · intro k body hk
    match k with
    | 0 =>
      simp only [xDemoSubs, List.getElem?_cons_zero, Option.some.injEq] at hk
      subst hk
      refine ⟨(stmts xDemoCode).take 9, [], by decide, by decide, by decide, ?_⟩
      refine ⟨trivial, by simp [NoIf], ?_, ?_⟩
      · intro i h1 h2 ins hi
        simp [xcompile] at h1 h2
        have : i = 11 := by omega
        subst this
        simp [xDemoCode, flatten, flattenLine] at hi
        subst hi; rfl
      · intro ins hi
        simp [xcompile, xDemoCode, flatten, flattenLine] at hi
        subst hi; rfl
    | k + 1 => simp [xDemoSubs] at hk
  · intro k hk
    match k with
    | 0 => simp [xDemoSubs] at hk
    | k + 1 =>
      simp [lineIndex, lineIndexFrom, xDemoCode, flatten, flattenLine]
      repeat' split
      all_goals first | rfl | omega
  · refine ⟨trivial, by simp [NoIf], by simp [NoIf], ?_, ?_⟩
    · intro i h1 h2 ins hi
      simp [xcompile] at h1 h2
      have : i = 3 ∨ i = 4 ∨ i = 5 ∨ i = 6 := by omega
      rcases this with rfl | rfl | rfl | rfl <;>
        (simp [xDemoCode, flatten, flattenLine] at hi; subst hi; rfl)
    · intro ins hi
      simp [xcompile, xDemoCode, flatten, flattenLine] at hi
      subst hi; rfl

example : trace true [⟨10, [.for_ 0 (.lit 1) (.lit 3) none, .gosub 100]⟩,
           ⟨20, [.ifThen (.bin .gt (.var 1) (.lit 2)) none, .print (.var 1), .else_ none, .print (.lit 0),
                 .gosub 100]⟩,
           ⟨30, [.next [0], .end_]⟩,
           ⟨100, [.let_ 1 (.bin .add (.var 1) (.var 0)), .ifThen (.bin .lt (.var 1) (.lit 2)) none, .gosub 100]⟩,
           ⟨110, [.ret]⟩] 200 = ([0, 5, 8], .ended) := by decide


/-! ### early exits from loops: stale stack records are dropped (Mech layer, every program) -/

/-- NEXT of the innermost active loop after early exits from loops inside its body: the stale records
    above the loop's own record (`WithStale`) are skipped and dropped, the statement behaves as if they
    were not there, and the invariant holds again for the enclosing loops. -/
theorem next_drops_stale_records (fixed : Bool) (code : List Instr) (s : St) (r : ForRec)
    (act : List ForRec) (vs : List Nat)
    (hat : stmtAt code s.pc = some (.next vs)) (hr : r.nextpos = (s.pc, 0)) (hvs : vs = [] ∨ vs = [r.var])
    (h : WithStale (r :: act) s.fors) :
    ∃ ms', WithStale act ms' ∧ stepWith fixed code s = stepWith fixed code { s with fors := r :: ms' } := by
  rcases hvs with hv | hv
  · obtain ⟨ms', h1, h2⟩ := iterate_withStale s r act none h (.inl rfl)
    refine ⟨ms', h1, ?_⟩
    rw [hr] at h2
    subst hv
    simp only [stepWith, hat, h2]
  · obtain ⟨ms', h1, h2⟩ := iterate_withStale s r act (some r.var) h (.inr rfl)
    refine ⟨ms', h1, ?_⟩
    rw [hr] at h2
    subst hv
    simp only [stepWith, hat, nextVars, h2]

/-- WEND after early exits from WHILE loops inside its body: their records are popped first -/
theorem wend_drops_stale_records (fixed : Bool) (code : List Instr) (s : St) (wh : Nat)
    (K ws : List (Nat × Nat)) (c : Expr) (hat : stmtAt code s.pc = some .wend)
    (hw : stmtAt code wh = some (.while_ c))
    (hs : s.whiles = K ++ (wh, s.pc) :: ws) (hK : ∀ x ∈ K, x.2 ≠ s.pc) :
    stepWith fixed code s = stepWith fixed code { s with whiles := (wh, s.pc) :: ws } := by
  have h1 := popWhile_skips_stale s.pc wh K ws hK
  simp only [stepWith, hat, hs, h1, popWhile, if_true, hw]


/-! ### link with the byte-level integer model of C02, counterexamples for the unrepaired code -/

def emptyInnerProg : List Line :=
  [⟨10, [.for_ 0 (.lit 1) (.lit 2) none, .for_ 1 (.lit 5) (.lit 1) none, .print (.var 1), .next [1, 0]]⟩,
   ⟨20, [.print (.var 0), .print (.var 1)]⟩]

theorem empty_for_comma_next_counterexample :
    trace false emptyInnerProg 100 = ([], .err E.stx) ∧ trace true emptyInnerProg 100 = ([3, 6], .ended) := by
  decide

def zeroStepProg : List Line :=
  [⟨10, [.for_ 0 (.lit 1) (.lit 5) (some (.lit 0)), .print (.var 0), .next []]⟩, ⟨20, [.print (.lit 99)]⟩]

theorem zero_step_runs_once_counterexample :
    trace true zeroStepProg 100 = ([1, 99], .ended) ∧ ¬ (loopEnds (sign 0) (1 + 0) 5 = false) := by
  decide

theorem counter_step_agrees_with_IntOps (c stop stp : Int) (hc : InRange c) (hs : InRange stop) (ht : InRange stp) :
    IntOps.nextStep (IntOps.pack c) (IntOps.pack stop) (IntOps.pack stp) =
      (if InRange (c + stp) then .ok (IntOps.pack (c + stp), loopEnds (sign stp) (c + stp) stop)
       else .error E.overflow) := by
  have hc' : C02.InRange c := hc
  have hs' : C02.InRange stop := hs
  have ht' : C02.InRange stp := ht
  obtain ⟨e1, b1⟩ := C02.toInt_pack c hc'
  obtain ⟨e2, b2⟩ := C02.toInt_pack stop hs'
  obtain ⟨e3, b3⟩ := C02.toInt_pack stp ht'
  have hadd := C02.iadd_spec (IntOps.pack c) (IntOps.pack stp) b1 b3
  rw [e1, e3] at hadd
  unfold IntOps.nextStep
  by_cases hr : InRange (c + stp)
  · obtain ⟨r, h1, h2, h3⟩ := hadd.1 hr
    have hrp : r = IntOps.pack (c + stp) := by
      have := (C02.toInt_pack (c + stp) hr).1
      unfold IntOps.toInt IntOps.pack at *
      unfold InRange at hr
      split at h3 <;> split <;> omega
    subst hrp
    have hg1 := C02.gt_iff (IntOps.pack (c + stp)) (IntOps.pack stop) h2 b2
    have hg2 := C02.gt_iff (IntOps.pack stop) (IntOps.pack (c + stp)) b2 h2
    rw [h3, e2] at hg1 hg2
    have hsg : IntOps.sgn (IntOps.pack stp) = sign stp := by
      unfold IntOps.sgn IntOps.pack sign
      unfold InRange at ht
      (repeat' split) <;> omega
    simp only [h1, hr, if_true, hsg, loopEnds, bind, Except.bind, pure, Except.pure]
    congr 2
    split
    · cases hb : IntOps.gt (IntOps.pack (c + stp)) (IntOps.pack stop) <;> simp [hb] at hg1 ⊢ <;> omega
    · cases hb : IntOps.gt (IntOps.pack stop) (IntOps.pack (c + stp)) <;> simp [hb] at hg2 ⊢ <;> omega
  · have := hadd.2 hr
    simp [this, hr, bind, Except.bind, IntOps.overflow]

end PcbV.C19
