import PcbV.Model.SeqFile
namespace PcbV.Drv.C24
open PcbV PcbV.SeqFile

/-
  Request: `<soft|wrap> <op>;<op>;…` — a history on ONE file (file #1).  Ops:
    oO oA oI c          OPEN FOR OUTPUT / APPEND / INPUT, CLOSE
    h<hex>              (file closed) the host replaces the file content
    L                   the line end of PRINT #1, x  (write_line())
    W<it>,<it>…         WRITE #1, items; item = s<hex> (string) | n<hex> (number text from the number printer)
    W                   WRITE #1 with no items
    P<hex> Q<hex>       PRINT #1, a$   /  PRINT #1, a$;
    d<n>                WIDTH #1, n
    is in               INPUT #1, a$ / INPUT #1, x   → w<word hex>/<sep hex>  |  E62
    l                   LINE INPUT #1, a$             → l<hex> | E62
    r<n>                INPUT$(n, #1)                 → r<hex> | E62
    e f k               EOF(1), LOF(1), LOC(1)        → e0|e1|E54, f<n>, k<n>
  Reply: `ok <results joined by ;, or -> <hex of the host file>`; `X` marks an op that is invalid in the state.
-/

def parseItem (s : String) : Option Item :=
  match s.toList with
  | 's' :: rest => (ofHex (String.ofList rest)).map Item.str
  | 'n' :: rest => (ofHex (String.ofList rest)).map Item.num
  | _ => none

def parseItems (s : String) : Option (List Item) :=
  if s = "" then some [] else (s.splitOn ",").mapM parseItem

def showRB (tag : String) : R Bytes → String
  | .ok b => tag ++ toHex b
  | .error e => "E" ++ toString e

def step (s : Fs) (op : String) : Fs × Option String :=
  match op.toList, s.h with
  | ['o', 'O'], .closed => ({ s with h := .out openOut }, none)
  | ['o', 'A'], .closed => ({ s with h := .out (openAppend s.disk) }, none)
  | ['o', 'I'], .closed => ({ s with h := .inp (openIn s.soft s.disk) }, none)
  | ['c'], _ => (s.closeH, none)
  | 'h' :: rest, .closed =>
    match ofHex (String.ofList rest) with
    | some b => ({ s with disk := b }, none)
    | none => (s, some "X")
  | ['L'], .out w => ({ s with h := .out w.writeLine }, none)
  | 'W' :: rest, .out w =>
    match parseItems (String.ofList rest) with
    | some items => ({ s with h := .out (w.writeStmt items) }, none)
    | none => (s, some "X")
  | 'P' :: rest, .out w =>
    match ofHex (String.ofList rest) with
    | some b => ({ s with h := .out (w.printLine b) }, none)
    | none => (s, some "X")
  | 'Q' :: rest, .out w =>
    match ofHex (String.ofList rest) with
    | some b => ({ s with h := .out (w.write b) }, none)
    | none => (s, some "X")
  | 'd' :: rest, .out w =>
    match (String.ofList rest).toNat? with
    | some n => ({ s with h := .out { w with width := n } }, none)
    | none => (s, some "X")
  | ['i', 's'], .inp r =>
    let x := r.inputEntry true
    ({ s with h := .inp x.2 }, some (match x.1 with
      | .ok (w, c) => "w" ++ toHex w ++ "/" ++ toHex c
      | .error e => "E" ++ toString e))
  | ['i', 'n'], .inp r =>
    let x := r.inputEntry false
    ({ s with h := .inp x.2 }, some (match x.1 with
      | .ok (w, c) => "w" ++ toHex w ++ "/" ++ toHex c
      | .error e => "E" ++ toString e))
  | ['l'], .inp r =>
    let x := r.lineInput
    ({ s with h := .inp x.2 }, some (showRB "l" x.1))
  | 'r' :: rest, .inp r =>
    match (String.ofList rest).toNat? with
    | some n =>
      let x := r.inputChars n
      ({ s with h := .inp x.2 }, some (showRB "r" x.1))
    | none => (s, some "X")
  | ['e'], .inp r =>
    let x := r.eof
    ({ s with h := .inp x.2 }, some (if x.1 then "e1" else "e0"))
  | ['e'], .out _ => (s, some ("E" ++ toString Gen.E.bad_file_mode))
  | ['f'], .inp r => (s, some ("f" ++ toString r.lof))
  | ['f'], .out w => (s, some ("f" ++ toString w.lof))
  | ['k'], .inp r => (s, some ("k" ++ toString r.loc))
  | ['k'], .out w => (s, some ("k" ++ toString w.loc))
  | _, _ => (s, some "X")

def runOps : List String → Fs → List String → Fs × List String
  | [], s, acc => (s, acc.reverse)
  | op :: ops, s, acc =>
    let x := step s op
    runOps ops x.1 (match x.2 with | some r => r :: acc | none => acc)

def handle : List String → String
  | [mode, hist] =>
    if mode ≠ "soft" ∧ mode ≠ "wrap" then "bad-op" else
    let x := runOps (hist.splitOn ";") { disk := [], h := .closed, soft := mode = "soft" } []
    "ok " ++ (if x.2.isEmpty then "-" else ";".intercalate x.2) ++ " " ++ toHex x.1.bytes
  | _ => "bad-op"

end PcbV.Drv.C24
