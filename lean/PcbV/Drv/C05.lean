import PcbV.Drv.MbfCommon
import PcbV.Drv.C05x
/-
  C05 driver: `v …` = values.py level with type promotion (Drv/C05x); `mul` / `mulold` at
  the Float level use the repaired / the original `imul`; everything else is the shared
  MBF protocol (Drv/MbfCommon).
-/
namespace PcbV.Drv.C05
open PcbV PcbV.Mbf PcbV.Drv.MbfCommon

def mulWith (op : Fmt → F → F → FR) (fs a b : String) : String :=
  match fmtOf fs with
  | none => "bad-op"
  | some f =>
    match parse f a, parse f b with
    | some x, some y => showFR f (op f x y)
    | _, _ => "bad-op"

def handle : List String → String
  | "v" :: rest => PcbV.Drv.C05x.handle rest
  | ["mul", fs, a, b] => mulWith imulFixed fs a b
  | ["mulold", fs, a, b] => mulWith imul fs a b
  | req => PcbV.Drv.MbfCommon.handle req
end PcbV.Drv.C05
