"""C37: constants of the keyboard ring buffer, read from the live objects of /repo."""
from gen_tables import generator, HEADER


@generator('KeyBuf')
def gen_keybuf():
    from pcbasic.basic.inputs import keyboard
    from pcbasic.basic import machine
    from pcbasic.basic.base import scancode
    kb = keyboard.Keyboard(None, None, None, True)
    zero_c, zero_scan = kb.buf._buffer[0]
    out = [HEADER, 'namespace PcbV.Gen.KeyBuf\n']
    out.append('/-- ring length passed by Keyboard.__init__ to KeyboardBuffer -/')
    out.append('def ringLength : Nat := %d' % kb.buf._ring_length)
    out.append('/-- initial value of KeyboardBuffer._start -/')
    out.append('def initStart : Nat := %d' % kb.buf._start)
    out.append('/-- initial number of entries of KeyboardBuffer._buffer -/')
    out.append('def initLen : Nat := %d' % len(kb.buf._buffer))
    out.append('/-- the filler entry (bytes, scancode) -/')
    out.append('def zeroKey : List Nat × Nat := ([%s], %d)' % (', '.join(str(x) for x in bytearray(zero_c)), zero_scan or 0))
    out.append('/-- Memory.key_buffer_offset: the ring starts at 1024 + this -/')
    out.append('def keyBufferOffset : Nat := %d' % machine.Memory.key_buffer_offset)
    out.append('/-- scancode.RETURN (stored with the CR that marks a full buffer) -/')
    out.append('def scanReturn : Nat := %d' % scancode.RETURN)
    out.append('\nend PcbV.Gen.KeyBuf\n')
    return '\n'.join(out)
