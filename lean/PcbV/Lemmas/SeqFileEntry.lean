/-
  Lemmas about INPUT# / LINE INPUT# of PcbV.Model.SeqFile on well-formed streams.
-/
import PcbV.Lemmas.SeqFileRead
namespace PcbV.SeqFile
open PcbV

theorem eof_spec (r : Rd) :
    r.eof.1 = decide (r.view.head? = none ∨ r.view.head? = some 26) ∧ r.eof.2.view = r.view ∧ r.eof.2.cur = r.cur ∧
    r.eof.2.prev = r.prev ∧ r.eof.2.size = r.size := by
  obtain ⟨p1, p2, p3, p4, p5, _⟩ := peek1_spec r
  refine ⟨?_, p2, p4, p3, p5⟩
  simp only [Rd.eof, p1]
  cases h : r.view with
  | nil => simp
  | cons x t => simp

/-- nothing to skip -/
theorem skipWs_none {f : Nat} {ws : Bytes} {r : Rd} {c : Bytes} (h : ∀ x t, r.view = x :: t → x ∉ ws) :
    skipWsLoop (f+1) ws r c = (c, (r.peek 1).2) := by
  obtain ⟨p1, _⟩ := peek1_spec r
  simp only [skipWsLoop, p1]
  cases hv : r.view with
  | nil => simp
  | cons x t =>
    have := h x t hv
    simp [this]

/-- the body of a quoted field is copied up to the closing quote -/
theorem ieLoop_quoted : ∀ (s : Bytes) (x : Nat) (word : Bytes) (f : Nat) (r : Rd) (tail : Bytes),
    r.view = s ++ 34 :: tail →
    (∀ b ∈ x :: s, b ≠ 34 ∧ b ≠ 0 ∧ b ≠ 26) →
    word.length + 1 + s.length < 255 →
    s.length + 2 ≤ f →
    ∃ r', ieLoop f true true r [x] word [] = ((word ++ x :: s, [34]), r') ∧ r'.view = tail ∧ r'.cur = [34] ∧
      r'.size = r.size := by
  intro s
  induction s with
  | nil =>
    intro x word f r tail hv hok hlen hf
    obtain ⟨f1, rfl⟩ : ∃ f1, f = f1 + 1 + 1 := ⟨f - 2, by simp at hf; omega⟩
    have hx := hok x (by simp)
    have h := read1_cons (r := r) (by simpa using hv) (by decide : (34:Nat) ≠ 26)
    refine ⟨(r.read 1).2, ?_, h.2.1, h.2.2.1, h.2.2.2.2⟩
    simp at hlen
    have hl : ¬ (255 ≤ word.length + 1) := by omega
    simp [ieLoop, hx.1, hx.2.1, hl, h.1]
  | cons y s ih =>
    intro x word f r tail hv hok hlen hf
    obtain ⟨f1, rfl⟩ : ∃ f1, f = f1 + 1 := ⟨f - 1, by simp at hf; omega⟩
    have hx := hok x (by simp)
    have hy := hok y (by simp)
    have h := read1_cons (r := r) (x := y) (t := s ++ 34 :: tail) (by simpa using hv) hy.2.2
    have hok' : ∀ b ∈ y :: s, b ≠ 34 ∧ b ≠ 0 ∧ b ≠ 26 := by
      intro b hb; exact hok b (by simp at hb ⊢; right; exact hb)
    simp at hlen hf
    obtain ⟨r', h1, h2, h3, h4⟩ := ih y (word ++ [x]) f1 (r.read 1).2 tail h.2.1 hok' (by simp; omega) (by omega)
    refine ⟨r', ?_, h2, h3, by rw [h4, h.2.2.2.2]⟩
    have hl : ¬ (255 ≤ word.length + 1) := by omega
    simp [ieLoop, hx.1, hx.2.1, hl, h.1]
    simpa using h1

/-- a field separator as the reader sees it: comma, CR LF, or a CR that is not followed by LF -/
def SepOk (sep rest : Bytes) : Prop :=
  sep = [44] ∨ sep = [13, 10] ∨ (sep = [13] ∧ rest.head? ≠ some 10)

theorem readOne_sep {r : Rd} {sep rest : Bytes} (hs : SepOk sep rest) (hv : r.view = sep ++ rest)
    (hc : r.cur ≠ [10]) :
    r.readOne.1 = sep.take 1 ∧ r.readOne.2.view = rest ∧ r.readOne.2.size = r.size ∧
    r.readOne.2.cur = sep.take 1 ∧ (sep.take 1 = [44] ∨ sep.take 1 = [13]) := by
  rcases hs with rfl | rfl | ⟨rfl, hr⟩
  · have h := readOne_plain (r := r) (x := 44) (t := rest) (by simpa using hv) (by decide) (by decide)
    exact ⟨h.1, h.2.1, h.2.2.2.2, h.2.2.1, Or.inl rfl⟩
  · have h := readOne_cr (r := r) (t := 10 :: rest) (by simpa using hv) hc
    exact ⟨h.1, h.2.1, h.2.2.2.2, h.2.2.1, Or.inr rfl⟩
  · have h := readOne_cr (r := r) (t := rest) (by simpa using hv) hc
    refine ⟨h.1, ?_, h.2.2.2.2, h.2.2.1, Or.inr rfl⟩
    rw [h.2.1]
    cases rest with
    | nil => rfl
    | cons y t' =>
      have : y ≠ 10 := by simpa using hr
      simp [this]

/-- bytes that may occur in the text of a number (what the code needs, nothing more) -/
def numByteOk (b : Nat) : Prop := b ≠ 32 ∧ b ≠ 0 ∧ b ≠ 10 ∧ b ≠ 13 ∧ b ≠ 44 ∧ b ≠ 26

/-- an unquoted numeric field is copied up to the separator -/
theorem ieLoop_num : ∀ (t : Bytes) (x : Nat) (word : Bytes) (f : Nat) (r : Rd) (sep rest : Bytes),
    r.view = t ++ sep ++ rest →
    r.cur = [x] →
    (∀ b ∈ x :: t, numByteOk b) →
    word.length + 1 + t.length < 255 →
    t.length + 2 ≤ f →
    SepOk sep rest →
    ∃ r', ieLoop f false false r [x] word [] = ((word ++ x :: t, sep.take 1), r') ∧ r'.view = rest ∧
      r'.size = r.size ∧ r'.cur = sep.take 1 := by
  intro t
  induction t with
  | nil =>
    intro x word f r sep rest hv hc hok hlen hf hs
    obtain ⟨f1, rfl⟩ : ∃ f1, f = f1 + 1 + 1 := ⟨f - 2, by simp at hf; omega⟩
    have hx := hok x (by simp)
    obtain ⟨h32, h0, h10, h13, h44, h26⟩ := hx
    have h := readOne_sep (r := r) hs (by simpa using hv) (by rw [hc]; simpa using h10)
    refine ⟨r.readOne.2, ?_, h.2.1, h.2.2.1, h.2.2.2.1⟩
    simp at hlen
    have hl : ¬ (255 ≤ word.length + 1) := by omega
    rcases h.2.2.2.2 with h5 | h5
    · simp [ieLoop, h32, h0, h10, h13, h44, hl, h.1, h5]
    · simp [ieLoop, h32, h0, h10, h13, h44, hl, h.1, h5]
  | cons y t ih =>
    intro x word f r sep rest hv hc hok hlen hf hs
    obtain ⟨f1, rfl⟩ : ∃ f1, f = f1 + 1 := ⟨f - 1, by simp at hf; omega⟩
    have hx := hok x (by simp)
    have hy := hok y (by simp)
    obtain ⟨h32, h0, h10, h13, h44, h26⟩ := hx
    have h := readOne_plain (r := r) (x := y) (t := t ++ sep ++ rest) (by simpa using hv) hy.2.2.2.2.2 hy.2.2.2.1
    have hok' : ∀ b ∈ y :: t, numByteOk b := by
      intro b hb; exact hok b (by simp at hb ⊢; right; exact hb)
    simp at hlen hf
    obtain ⟨r', h1, h2, h3, h4⟩ := ih y (word ++ [x]) f1 r.readOne.2 sep rest h.2.1 h.2.2.1 hok'
      (by simp; omega) (by omega) hs
    refine ⟨r', ?_, h2, by rw [h3, h.2.2.2.2], h4⟩
    have hl : ¬ (255 ≤ word.length + 1) := by omega
    simp [ieLoop, h32, h0, h10, h13, h44, hl, h.1]
    simpa using h1

/-- the exclusions the code needs for a WRITE# string: no quote, no NUL, no EOF byte, fewer than 255 bytes -/
def strOk (s : Bytes) : Prop := (∀ b ∈ s, b ≠ 34 ∧ b ≠ 0 ∧ b ≠ 26) ∧ s.length < 255

/-- what the code needs of the text of a number: not empty, fewer than 255 bytes, no blank, NUL, LF, CR, comma, EOF byte -/
def numOk (t : Bytes) : Prop := t ≠ [] ∧ (∀ b ∈ t, numByteOk b) ∧ t.length < 255

theorem sep_head_not_blank {sep rest : Bytes} (hs : SepOk sep rest) :
    ∀ x t, sep ++ rest = x :: t → x ∉ [32] := by
  intro x t h
  rcases hs with rfl | rfl | ⟨rfl, _⟩ <;> simp at h <;> simp [← h.1]

/-- INPUT# of a quoted string field (repaired code) -/
theorem entry_str {r : Rd} {s sep rest : Bytes} (hv : r.view = 34 :: s ++ 34 :: sep ++ rest)
    (hs : strOk s) (hsep : SepOk sep rest) :
    ∃ r', r.inputEntry true = (.ok (s, sep.take 1), r') ∧ r'.view = rest ∧ r'.size = r.size ∧
      r'.cur = sep.take 1 := by
  have hfuel := view_length_le r
  rw [hv] at hfuel
  simp at hfuel
  obtain ⟨f, hf⟩ : ∃ f, r.fuel = f + 1 := ⟨r.fuel - 1, by omega⟩
  -- leading whitespace: none
  have hsk : skipWsLoop r.fuel [32, 0, 10] r [] = ([], (r.peek 1).2) := by
    rw [hf]; apply skipWs_none
    intro x t h; rw [hv] at h; simp at h; simp [← h.1]
  obtain ⟨_, p2, _, _, p5, _⟩ := peek1_spec r
  rw [hv] at p2
  -- opening quote
  have hq := readOne_plain (r := (r.peek 1).2) (x := 34) (t := s ++ 34 :: sep ++ rest) (by simpa using p2)
    (by decide) (by decide)
  obtain ⟨q1, q2, q3, _, q5⟩ := hq
  -- body
  have hbody : ∃ r2, ieLoop r.fuel true true ((r.peek 1).2.readOne.2.read 1).2 ((r.peek 1).2.readOne.2.read 1).1 [] []
      = ((s, [34]), r2) ∧ r2.view = sep ++ rest ∧ r2.cur = [34] ∧ r2.size = r.size ∧
      ((r.peek 1).2.readOne.2.read 1).1 ≠ [] := by
    cases s with
    | nil =>
      have h := read1_cons (r := (r.peek 1).2.readOne.2) (x := 34) (t := sep ++ rest) (by simpa using q2) (by decide)
      refine ⟨((r.peek 1).2.readOne.2.read 1).2, ?_, h.2.1, h.2.2.1, by rw [h.2.2.2.2, q5, p5], by simp [h.1]⟩
      rw [hf, h.1]; simp [ieLoop]
    | cons x s' =>
      have hx := hs.1 x (by simp)
      have h := read1_cons (r := (r.peek 1).2.readOne.2) (x := x) (t := s' ++ 34 :: (sep ++ rest))
        (by simpa using q2) hx.2.2
      have hl := hs.2
      simp at hl
      obtain ⟨r2, h1, h2, h3, h4⟩ := ieLoop_quoted s' x [] r.fuel ((r.peek 1).2.readOne.2.read 1).2 (sep ++ rest)
        h.2.1 hs.1 (by simp; omega) (by simp at hfuel ⊢; omega)
      refine ⟨r2, ?_, h2, h3, by rw [h4, h.2.2.2.2, q5, p5], by simp [h.1]⟩
      rw [h.1]; simpa using h1
  obtain ⟨r2, b1, b2, b3, b4, b5⟩ := hbody
  -- after the closing quote
  have hsk2 : skipWsLoop r.fuel [32] r2 [] = ([], (r2.peek 1).2) := by
    rw [hf]; apply skipWs_none
    intro x t h; rw [b2] at h; exact sep_head_not_blank hsep x t h
  obtain ⟨_, s2, _, s4, s5, _⟩ := peek1_spec r2
  obtain ⟨t1, t2, _, t4, t5, _⟩ := peek1_spec (r2.peek 1).2
  rw [s2, b2] at t2 t1
  have hfin := readOne_sep (r := ((r2.peek 1).2.peek 1).2) hsep t2 (by rw [t4, s4, b3]; decide)
  obtain ⟨e1, e2, e3, e4, e5⟩ := hfin
  refine ⟨((r2.peek 1).2.peek 1).2.readOne.2, ?_, e2, by rw [e3, t5, s5, b4], e4⟩
  have hp1 : (((r2.peek 1).2.peek 1).1 = [] ∨ ((r2.peek 1).2.peek 1).1 = [44] ∨ ((r2.peek 1).2.peek 1).1 = [13]) := by
    rw [t1]
    rcases hsep with rfl | rfl | ⟨rfl, _⟩ <;> simp
  simp only [Rd.inputEntry, Rd.inputEntryWith, hsk, q1]
  simp [b1, b5, hsk2, hp1, e1]

/-- INPUT# of a numeric field as WRITE# writes it -/
theorem entry_num {r : Rd} {t sep rest : Bytes} (hv : r.view = t ++ sep ++ rest)
    (ht : numOk t) (hsep : SepOk sep rest) :
    ∃ r', r.inputEntry false = (.ok (t, sep.take 1), r') ∧ r'.view = rest ∧ r'.size = r.size ∧
      r'.cur = sep.take 1 := by
  obtain ⟨hne, hok, hlen⟩ := ht
  cases t with
  | nil => exact absurd rfl hne
  | cons x t' =>
    have hfuel := view_length_le r
    rw [hv] at hfuel
    simp at hfuel
    obtain ⟨f, hf⟩ : ∃ f, r.fuel = f + 1 := ⟨r.fuel - 1, by omega⟩
    have hx := hok x (by simp)
    obtain ⟨h32, h0, h10, h13, h44, h26⟩ := hx
    have hsk : skipWsLoop r.fuel [32, 0, 10] r [] = ([], (r.peek 1).2) := by
      rw [hf]; apply skipWs_none
      intro y t h; rw [hv] at h; simp at h; simp [← h.1, h32, h0, h10]
    obtain ⟨_, p2, _, _, p5, _⟩ := peek1_spec r
    rw [hv] at p2
    have hq := readOne_plain (r := (r.peek 1).2) (x := x) (t := t' ++ sep ++ rest) (by simpa using p2) h26 h13
    obtain ⟨q1, q2, q3, _, q5⟩ := hq
    simp at hlen
    obtain ⟨r2, b1, b2, b3, b4⟩ := ieLoop_num t' x [] r.fuel (r.peek 1).2.readOne.2 sep rest q2 q3 hok
      (by simp; omega) (by omega) hsep
    refine ⟨r2, ?_, b2, by rw [b3, q5, p5], b4⟩
    have hc : sep.take 1 = [44] ∨ sep.take 1 = [13] := by
      rcases hsep with rfl | rfl | ⟨rfl, _⟩ <;> simp
    simp only [Rd.inputEntry, Rd.inputEntryWith, hsk]
    simp at b1
    rcases hc with hc | hc <;> simp [q1, b1, hc]

/-- a line end as the reader sees it: CR LF, or a CR that is not followed by LF -/
def LineSep (sep rest : Bytes) : Prop := sep = [13, 10] ∨ (sep = [13] ∧ rest.head? ≠ some 10)

theorem readLineLoop_line : ∀ (l acc : Bytes) (f : Nat) (r : Rd) (sep rest : Bytes),
    r.view = l ++ sep ++ rest →
    (∀ b ∈ l, b ≠ 13 ∧ b ≠ 26) →
    (acc ++ l).length ≤ 254 →
    l.length + 1 ≤ f →
    l.getLast? ≠ some 10 →
    (l = [] → r.cur ≠ [10]) →
    LineSep sep rest →
    ∃ r', readLineLoop f r acc = ((acc ++ l, some [13]), r') ∧ r'.view = rest ∧ r'.cur = [13] ∧
      r'.size = r.size := by
  intro l
  induction l with
  | nil =>
    intro acc f r sep rest hv hok hlen hf hlast hcur hs
    obtain ⟨f1, rfl⟩ : ∃ f1, f = f1 + 1 := ⟨f - 1, by simp at hf; omega⟩
    have hc := hcur rfl
    have h : r.readOne.1 = [13] ∧ r.readOne.2.view = rest ∧ r.readOne.2.cur = [13] ∧
        r.readOne.2.prev = r.cur ∧ r.readOne.2.size = r.size := by
      rcases hs with rfl | ⟨rfl, hr⟩
      · exact readOne_cr (r := r) (t := 10 :: rest) (by simpa using hv) hc
      · have h := readOne_cr (r := r) (t := rest) (by simpa using hv) hc
        refine ⟨h.1, ?_, h.2.2⟩
        rw [h.2.1]
        cases rest with
        | nil => rfl
        | cons y t' =>
          have : y ≠ 10 := by simpa using hr
          simp [this]
    refine ⟨r.readOne.2, ?_, h.2.1, h.2.2.1, h.2.2.2.2⟩
    simp [readLineLoop, h.1, h.2.2.2.1, hc]
  | cons y l ih =>
    intro acc f r sep rest hv hok hlen hf hlast hcur hs
    obtain ⟨f1, rfl⟩ : ∃ f1, f = f1 + 1 := ⟨f - 1, by simp at hf; omega⟩
    have hy := hok y (by simp)
    have h := readOne_plain (r := r) (x := y) (t := l ++ sep ++ rest) (by simpa using hv) hy.2 hy.1
    have hok' : ∀ b ∈ l, b ≠ 13 ∧ b ≠ 26 := by
      intro b hb; exact hok b (by simp; right; exact hb)
    simp at hlen hf
    have hlast' : l.getLast? ≠ some 10 := by
      cases l with
      | nil => simp
      | cons z l' => simpa [List.getLast?_cons_cons] using hlast
    have hcur' : l = [] → r.readOne.2.cur ≠ [10] := by
      intro hl; subst hl
      rw [h.2.2.1]
      simp at hlast ⊢
      exact hlast
    obtain ⟨r', h1, h2, h3, h4⟩ := ih (acc ++ [y]) f1 r.readOne.2 sep rest h.2.1 hok' (by simp; omega) (by omega)
      hlast' hcur' hs
    refine ⟨r', ?_, h2, h3, by rw [h4, h.2.2.2.2]⟩
    have hl : ¬ (acc.length + 1 = 255) := by omega
    simp [readLineLoop, h.1, hy.1, hl]
    simpa using h1

/-- the exclusions the code needs for a PRINT# line that LINE INPUT# returns unchanged
(a trailing LF would join it with the next line: LF CR is not a line end) -/
def lineOk (l : Bytes) : Prop := (∀ b ∈ l, b ≠ 13 ∧ b ≠ 26) ∧ l.length ≤ 254 ∧ l.getLast? ≠ some 10

theorem lineInput_line {r : Rd} {l sep rest : Bytes} (hv : r.view = l ++ sep ++ rest) (hl : lineOk l)
    (hc : r.cur ≠ [10]) (hs : LineSep sep rest) :
    ∃ r', r.lineInput = (.ok l, r') ∧ r'.view = rest ∧ r'.cur = [13] ∧ r'.size = r.size := by
  obtain ⟨r', h1, h2, h3, h4⟩ := readLineLoop_line l [] 256 r sep rest hv hl.1 (by simpa using hl.2.1)
    (by have := hl.2.1; omega) hl.2.2 (fun _ => hc) hs
  refine ⟨r', ?_, h2, h3, h4⟩
  simp at h1
  simp [Rd.lineInput, Rd.readLine, h1]
