import PcbV.Basic
import PcbV.Gen.Errors
import PcbV.Gen.MbfConsts
/-
  Model of `pcbasic/basic/values/numbers.py: Float / Single / Double` (Microsoft Binary Format).
  A value is `F = (m, e)`: `m` the little-endian integer of the mantissa bytes (sign bit = top bit
  of `m`), `e` the exponent byte.  The code's integer algorithms are transcribed literally; bit
  operations with the format's masks are written arithmetically (`% 2^k`, `/ 2^k`), which is what
  they are when the masks have the shapes recorded in `Fmt.WF` (checked for the regenerated
  constants of the current source by `single_wf`, `double_wf` in Props).
-/
namespace PcbV.Mbf

structure F where
  m : Nat
  e : Nat
deriving DecidableEq, Repr

/-- class attributes of `Single` / `Double` (regenerated from the source into `Gen.MbfConsts`) -/
structure Fmt where
  w : Nat                 -- mantissa bits = 8*(size-1)
  bias : Nat
  denMask : Nat
  denUpper : Nat
  carryMask : Nat
  signMask : Nat
  mask : Nat
  posMask : Nat
  digits : Nat
  one : F
  ten : F
  limTop : F
  limBot : F
  posMax : F
  negMax : F
deriving Repr

def ofGen (c : PcbV.Gen.MbfConsts.Consts) : Fmt :=
  let split (b : List Nat) : F :=
    { m := (b.dropLast).foldr (fun x acc => x + 256 * acc) 0, e := b.getLastD 0 }
  { w := 8 * (c.size - 1), bias := c.bias, denMask := c.denMask, denUpper := c.denUpper,
    carryMask := c.carryMask, signMask := c.signMask, mask := c.mask, posMask := c.posMask,
    digits := c.digits, one := split c.one, ten := split c.ten, limTop := split c.limTop,
    limBot := split c.limBot, posMax := split c.posMax, negMax := split c.negMax }

def single : Fmt := ofGen PcbV.Gen.MbfConsts.single
def double : Fmt := ofGen PcbV.Gen.MbfConsts.double

/-- the shapes of the masks that the arithmetic transcription relies on -/
def Fmt.WF (f : Fmt) : Prop :=
  8 ≤ f.w ∧ f.bias = 128 + f.w ∧ f.denMask = 2 ^ (f.w + 7) ∧ f.denUpper = 2 ^ (f.w + 8) ∧
  f.carryMask = 2 ^ (f.w + 8) - 256 ∧ f.signMask = 2 ^ (f.w - 1) ∧ f.mask = 2 ^ f.w - 1 ∧
  f.posMask = 2 ^ (f.w - 1) - 1

instance (f : Fmt) : Decidable f.WF := by unfold Fmt.WF; exact inferInstance

def overflow : Nat := PcbV.Gen.E.overflow
def divZero : Nat := PcbV.Gen.E.division_by_zero

/-- result of an operation: a value, or a soft error (number, value supplied instead) -/
abbrev FR := Except (Nat × F) F

def zero : F := ⟨0, 0⟩
def F.isZero (x : F) : Bool := x.e == 0
/-- `is_negative()`: byte[-2] >= 0x80, i.e. the top bit of the mantissa integer -/
def isNeg (f : Fmt) (x : F) : Bool := decide (x.m % (2 * f.signMask) ≥ f.signMask)

/-- `Float.sign()` -/
def sign (f : Fmt) (x : F) : Int := if x.e = 0 then 0 else if isNeg f x then -1 else 1

structure Den where
  exp : Int
  man : Nat
  neg : Bool
deriving DecidableEq, Repr

/-- `_denormalise`: mantissa shifted one byte up with the implied bit set -/
def denorm (f : Fmt) (x : F) : Den :=
  { exp := x.e, man := (if isNeg f x then x.m * 256 else x.m * 256 + f.denMask),
    neg := isNeg f x }

/-- `_check_limits` + final store of `_normalise`/`from_int`: `m` is already packed -/
def checkLimits (f : Fmt) (m : Nat) (exp : Int) (neg : Bool) : FR :=
  if exp > 255 then .error (overflow, if neg then f.negMax else f.posMax)
  else if exp ≤ 0 then .ok ⟨m, 0⟩
  else .ok ⟨m, exp.toNat⟩

/-- pack a mantissa with the sign: `man & (mask if neg else posmask)` -/
def packMan (f : Fmt) (man : Nat) (neg : Bool) : Nat :=
  if neg then man % (f.mask + 1) else man % (f.posMask + 1)

def shiftUp : Nat → Nat → Int → Nat → Int × Nat
  | 0, _, exp, man => (exp, man)
  | fuel + 1, lim, exp, man => if man < lim then shiftUp fuel lim (exp - 1) (man * 2) else (exp, man)

/-- `_normalise(exp, man, neg)` -/
def normalise (f : Fmt) (exp : Int) (man : Nat) (neg : Bool) : FR :=
  if man = 0 ∨ exp ≤ 0 then .ok zero else
  let (exp, man) := shiftUp (f.w + 8) (f.denMask - 1) exp man
  let roundUp := man % 256 > 128 ∨ (man % 256 = 128 ∧ man / 256 % 2 = 1)
  let man := (man % f.denUpper) / 256 * 256 + (if roundUp then 256 else 0)
  let exp := if man ≥ f.denUpper then exp + 1 else exp
  let man := if man ≥ f.denUpper then man / 2 else man
  checkLimits f (packMan f (man / 256) neg) exp neg

def normD (f : Fmt) (d : Den) : FR := normalise f d.exp d.man d.neg

def shiftDown : Nat → Nat → Int → Nat → Int × Nat
  | 0, _, exp, man => (exp, man)
  | fuel + 1, upper, exp, man => if man > upper then shiftDown fuel upper (exp + 1) (man / 2) else (exp, man)

/-- `_bring_to_range(man, exp, lower, upper)` for man > 0 (fuel: bit lengths) -/
def bringToRange (man : Nat) (exp : Int) (lower upper : Nat) : Nat × Int :=
  let (e1, m1) := shiftUp (Nat.log2 (lower + 1) + 2) (lower + 1) exp man
  let (e2, m2) := shiftDown (Nat.log2 m1 + 2) upper e1 m1
  (m2, e2)

/-- `from_int(in_int)` -/
def fromInt (f : Fmt) (n : Int) : FR :=
  if n = 0 then .ok zero else
  let neg := decide (n < 0)
  let (man, exp) := bringToRange n.natAbs f.bias f.posMask f.mask
  checkLimits f (packMan f man neg) exp neg

/-- `_to_int_den` -/
def toIntDen (f : Fmt) (x : F) : Nat × Bool :=
  let d := denorm f x
  let exp := d.exp - f.bias
  (if exp > 0 then d.man * 2 ^ exp.toNat else d.man / 2 ^ (-exp).toNat, d.neg)

/-- `to_int()` : round to nearest, halves away from zero -/
def toInt (f : Fmt) (x : F) : Int :=
  let (man, neg) := toIntDen f x
  let man := if man / 128 % 2 = 1 then man + 128 else man
  if neg then -((man / 256 : Nat) : Int) else ((man / 256 : Nat) : Int)

/-- `to_int_truncate()` -/
def toIntTrunc (f : Fmt) (x : F) : Int :=
  let (man, neg) := toIntDen f x
  if neg then -((man / 256 : Nat) : Int) else ((man / 256 : Nat) : Int)

def ineg (f : Fmt) (x : F) : F :=
  ⟨if isNeg f x then x.m - f.signMask else x.m + f.signMask, x.e⟩
def iabs (f : Fmt) (x : F) : F :=
  ⟨if isNeg f x then x.m - f.signMask else x.m, x.e⟩

/-- `_abs_gt(rhs)`: byte-wise comparison from the exponent byte down, rhs sign bit masked by ours -/
def absGt (f : Fmt) (x y : F) : Bool :=
  let ym := if isNeg f x then y.m else (if isNeg f y then y.m - f.signMask else y.m)
  if x.e ≠ y.e then decide (x.e > y.e) else decide (x.m > ym)

/-- `Float.gt(rhs)` for two floats of the same format -/
def gt (f : Fmt) (x y : F) : Bool :=
  let rhsneg := isNeg f y
  if x.isZero then rhsneg && !y.isZero
  else
    let isneg := isNeg f x
    if isneg != rhsneg then !isneg
    else if isneg then absGt f y x else absGt f x y

/-- `Float.eq(rhs)` -/
def eq (x y : F) : Bool := if x.isZero then y.isZero else x == y

/-- `_add_den(lden, rden)` -/
def addDen (f : Fmt) (l r : Den) : Den :=
  if r.exp = 0 then l else if l.exp = 0 then r else
  -- ensure right is larger
  let swap := l.exp > r.exp ∨ (l.exp = r.exp ∧ l.man > r.man)
  let (l, r) := if swap then (r, l) else (l, r)
  let sh := (r.exp - l.exp).toNat
  let zeroFlag := l.man % 2 ^ sh = 0
  let subFlag := l.neg != r.neg
  let lman := l.man / 2 ^ sh
  let lexp := r.exp
  if (lman < 128 ∨ (lman = 128 ∧ zeroFlag)) ∧ subFlag then r else
  let (lexp, man, neg) :=
    if !subFlag then
      let man := lman + r.man
      if man ≥ f.denUpper then (lexp + 1, man / 2, l.neg) else (lexp, man, l.neg)
    else (lexp, r.man - lman, r.neg)
  let man := if ¬ zeroFlag ∧ !subFlag then (if man % 2 = 0 then man + 1 else man) else man
  -- (man & 0x1c0 == 0x80) and (man & 0x1df != 0x80)  =>  man &= carrymask + 0x7f
  let man := if subFlag ∧ (man / 64 % 8 = 2) ∧ ¬ (man / 64 % 8 = 2 ∧ man % 32 = 0)
             then (man % f.denUpper) / 256 * 256 + man % 128 else man
  { exp := lexp, man := man, neg := neg }

def iadd (f : Fmt) (x y : F) : FR := normD f (addDen f (denorm f x) (denorm f y))
def isub (f : Fmt) (x y : F) : FR :=
  let r := denorm f y
  normD f (addDen f (denorm f x) { r with neg := !r.neg })

/-- `imul(right)` as it was BEFORE the repair of defect D5 (early exit `lexp < -31` for every format);
    the repaired code is `imulFixed` in Model/MbfMulFixed.lean, which the driver uses. -/
def imul (f : Fmt) (x y : F) : FR :=
  if x.isZero || y.isZero then .ok zero else
  let l := denorm f x
  let r := denorm f y
  let lexp := l.exp + r.exp - f.bias - 8
  let lneg := l.neg != r.neg
  let lman := l.man * r.man
  if lexp < -31 then .ok zero else
  let (lman, lexp) := bringToRange lman lexp (f.denMask / 16) (f.denUpper / 16)
  let lman := if lman % 16 = 9 then (lman % f.denUpper) / 256 * 256 + lman % 256 / 2 * 2 else lman
  normalise f lexp lman lneg

def divLoop : Nat → Nat → Nat → Nat → Int → Nat × Int
  | 0, _, _, lman, lexp => (lman, lexp)
  | fuel + 1, work, rman, lman, lexp =>
    if rman > 0 then
      let lman := lman * 2
      let lexp := lexp - 1
      if work > rman then divLoop fuel (work - rman) (rman / 2) (lman + 1) lexp
      else divLoop fuel work (rman / 2) lman lexp
    else (lman, lexp)

/-- `_div_den(lden, rden)` -/
def divDen (f : Fmt) (l r : Den) : Den :=
  let lneg := l.neg != r.neg
  let lexp := l.exp - (r.exp - f.bias - 8)
  let (lman, lexp) := divLoop (Nat.log2 r.man + 2) l.man r.man 0 (lexp + 1)
  { exp := lexp, man := lman, neg := lneg }

/-- `idiv(right)`; ZeroDivisionError carries the signed maximum -/
def idiv (f : Fmt) (x y : F) : FR :=
  if y.isZero then .error (divZero, if isNeg f x then f.negMax else f.posMax)
  else if x.isZero then .ok x
  else normD f (divDen f (denorm f x) (denorm f y))

/-- `itrunc()` -/
def itrunc (f : Fmt) (x : F) : FR := fromInt f (toIntTrunc f x)

/-- `ifloor()` -/
def ifloor (f : Fmt) (x : F) : FR := do
  let wasNeg := isNeg f x
  let t ← itrunc f x
  if !(eq t x) && wasNeg then isub f t f.one else pure t

/-- `Double.from_single`, on (m,e): four zero bytes below the single's mantissa bytes -/
def fromSingle (x : F) : F := ⟨x.m * 2 ^ 32, x.e⟩

/-- `Double.to_single` -/
def toSingle (x : F) : FR :=
  let s : F := ⟨x.m / 2 ^ 32, x.e⟩
  let d := denorm single s
  normalise single d.exp (d.man + x.m / 2 ^ 24 % 256) d.neg

end PcbV.Mbf
