/-
  Lemmas for C27: the byte-level path functions (split, join, ntpath.normpath, the blank-stripping pre-pass)
  never introduce a forward slash.
-/
import PcbV.Lemmas.PathsNames
namespace PcbV.PathLemmas
open PcbV PcbV.DosNames PcbV.Paths PcbV.Gen.DosTables

/-! ### byte-level: no '/' survives -/

theorem splitOn_no (c x : Nat) (s : Bytes) (h : x ∉ s) : ∀ e ∈ splitOn c s, x ∉ e := by
  induction s with
  | nil => simp [splitOn]
  | cons b s ih =>
    have hb : x ≠ b := fun hb => h (hb ▸ List.mem_cons_self)
    have hs : x ∉ s := fun hm => h (List.mem_cons_of_mem _ hm)
    have ih := ih hs
    unfold splitOn
    split
    · intro e he
      rcases List.mem_cons.mp he with he | he
      · simp [he]
      · exact ih e he
    · split
      · rename_i h' t hh
        intro e he
        rw [hh] at ih
        rcases List.mem_cons.mp he with he | he
        · rw [he]; intro hm
          rcases List.mem_cons.mp hm with hm | hm
          · exact hb hm
          · exact ih h' List.mem_cons_self hm
        · exact ih e (List.mem_cons_of_mem _ he)
      · intro e he
        simp at he; rw [he]; simp [hb]

theorem joinSep_no (c x : Nat) (hc : x ≠ c) : ∀ (l : List Bytes), (∀ e ∈ l, x ∉ e) → x ∉ joinSep c l
  | [], _ => by simp [joinSep]
  | [a], h => by simpa [joinSep] using h
  | a :: b :: rest, h => by
    have ih := joinSep_no c x hc (b :: rest) (fun e he => h e (List.mem_cons_of_mem _ he))
    simp only [joinSep, List.mem_append, List.mem_cons, not_or]
    exact ⟨h a List.mem_cons_self, hc, ih⟩

theorem slashToBsl_no (p : Bytes) : 47 ∉ slashToBsl p := by
  simp only [slashToBsl, List.mem_map, not_exists, not_and]
  intro b _
  split <;> simp_all [SL, BSL]

theorem take_no {x : Nat} {s : Bytes} (k : Nat) (h : x ∉ s) : x ∉ s.take k :=
  fun hm => h (List.mem_of_mem_take hm)
theorem drop_no {x : Nat} {s : Bytes} (k : Nat) (h : x ∉ s) : x ∉ s.drop k :=
  fun hm => h (List.mem_of_mem_drop hm)

theorem splitroot_no {x : Nat} {p : Bytes} (h : x ∉ p) :
    x ∉ (splitroot p).1 ∧ x ∉ (splitroot p).2.1 ∧ x ∉ (splitroot p).2.2 := by
  unfold splitroot
  simp only []
  split
  · split
    · split
      · exact ⟨h, by simp, by simp⟩
      · split
        · exact ⟨h, by simp, by simp⟩
        · exact ⟨take_no _ h, take_no _ (drop_no _ h), drop_no _ h⟩
    · exact ⟨by simp, take_no _ h, drop_no _ h⟩
  · split
    · split
      · exact ⟨take_no _ h, take_no _ (drop_no _ h), drop_no _ h⟩
      · exact ⟨take_no _ h, by simp, drop_no _ h⟩
    · exact ⟨by simp, by simp, h⟩

theorem normLoop_no (x : Nat) (root : Bool) : ∀ (l acc : List Bytes), (∀ e ∈ l, x ∉ e) → (∀ e ∈ acc, x ∉ e) →
    ∀ e ∈ normLoop root l acc, x ∉ e
  | [], acc, _, ha => by simpa [normLoop] using ha
  | c :: rest, acc, hl, ha => by
    have hr : ∀ e ∈ rest, x ∉ e := fun e he => hl e (List.mem_cons_of_mem _ he)
    have hc : x ∉ c := hl c List.mem_cons_self
    unfold normLoop
    split
    · exact normLoop_no x root rest acc hr ha
    · split
      · split
        · rename_i top acc'
          have ha' : ∀ e ∈ acc', x ∉ e := fun e he => ha e (List.mem_cons_of_mem _ he)
          split
          · exact normLoop_no x root rest acc' hr ha'
          · exact normLoop_no x root rest _ hr (fun e he => by
              rcases List.mem_cons.mp he with he | he
              · rw [he]; exact hc
              · exact ha e he)
        · split
          · exact normLoop_no x root rest [] hr (by simp)
          · exact normLoop_no x root rest [c] hr (by simpa using hc)
      · exact normLoop_no x root rest _ hr (fun e he => by
          rcases List.mem_cons.mp he with he | he
          · rw [he]; exact hc
          · exact ha e he)

/-- `ntpath.normpath` never returns a forward slash -/
theorem normpath_no_slash (p : Bytes) : 47 ∉ normpath p := by
  unfold normpath
  simp only []
  have h0 := slashToBsl_no p
  obtain ⟨h1, h2, h3⟩ := splitroot_no h0
  have hl := normLoop_no 47 (!(splitroot (slashToBsl p)).2.1.isEmpty) _ [] (splitOn_no BSL 47 _ h3) (by simp)
  simp only [List.mem_append, not_or]
  refine ⟨⟨h1, h2⟩, ?_⟩
  apply joinSep_no BSL 47 (by decide)
  split
  · simp [DOT]
  · exact hl

theorem stripElems_no_slash {p : Bytes} (h : 47 ∉ p) : 47 ∉ stripElems p := by
  unfold stripElems
  apply joinSep_no BSL 47 (by decide)
  intro e he
  simp only [List.mem_map] at he
  obtain ⟨e0, he0, rfl⟩ := he
  have := splitOn_no BSL 47 p h e0 he0
  split
  · exact this
  · exact fun hm => this (rstrip_sub e0 47 hm)

end PcbV.PathLemmas
