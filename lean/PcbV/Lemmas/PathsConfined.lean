/-
  Lemmas for C27: safety of host paths is preserved by join, the leading-dot loop, the element loop of
  _get_native_reldir and os.path.abspath (lexNorm).
-/
import PcbV.Lemmas.PathsBytes
namespace PcbV.PathLemmas
open PcbV PcbV.DosNames PcbV.Paths PcbV.Gen.DosTables

/-! ### host paths -/

theorem safePath_nil : SafePath [] := by intro c hc; simp at hc
theorem safeName_empty : SafeName [] := by simp [SafeName]
theorem safePath_root : SafePath [[]] := by
  intro c hc; simp at hc; rw [hc]; exact safeName_empty

theorem safePath_dropLast {p : HostPath} (h : SafePath p) : SafePath p.dropLast :=
  fun c hc => h c (List.dropLast_subset p hc)

theorem joinC_safe {p : HostPath} {c : HostName} (hp : SafePath p) (hc : SafeName c) : SafePath (joinC p c) := by
  unfold joinC
  split
  · intro x hx
    rcases List.mem_append.mp hx with hx | hx
    · exact safePath_dropLast hp x hx
    · simp at hx; rw [hx]; exact hc
  · intro x hx
    rcases List.mem_append.mp hx with hx | hx
    · exact hp x hx
    · simp at hx; rw [hx]; exact hc

theorem foldl_joinC_safe : ∀ (l : HostPath) (p : HostPath), SafePath l → SafePath p → SafePath (l.foldl joinC p)
  | [], p, _, hp => by simpa using hp
  | c :: l, p, hl, hp => by
    simp only [List.foldl_cons]
    exact foldl_joinC_safe l _ (fun x hx => hl x (List.mem_cons_of_mem _ hx)) (joinC_safe hp (hl c List.mem_cons_self))

theorem dropLead_spec (x : Nat) : ∀ (els : List Bytes) (cwd : HostPath), (∀ e ∈ els, x ∉ e) → SafePath cwd →
    (∀ e ∈ (dropLead els cwd).1, x ∉ e) ∧ SafePath (dropLead els cwd).2
  | [], cwd, _, hc => by simpa [dropLead] using hc
  | e :: rest, cwd, he, hc => by
    have hr : ∀ e ∈ rest, x ∉ e := fun e h => he e (List.mem_cons_of_mem _ h)
    unfold dropLead
    split
    · exact dropLead_spec x rest cwd hr hc
    · split
      · exact dropLead_spec x rest _ hr (safePath_dropLast hc)
      · exact ⟨he, hc⟩

/-- the element loop of `_get_native_reldir` keeps the path safe if the element resolver returns safe names -/
theorem walk_safe {nn : HostPath → Bytes → R HostName}
    (hnn : ∀ path e c, 47 ∉ e → nn path e = .ok c → SafeName c) :
    ∀ (els : List Bytes) (path p : HostPath), (∀ e ∈ els, 47 ∉ e) → SafePath path → walk nn els path = .ok p → SafePath p
  | [], path, p, _, hp, h => by simp [walk] at h; rw [← h]; exact hp
  | e :: rest, path, p, he, hp, h => by
    unfold walk at h
    split at h
    · cases h
    · rename_i c hc
      exact walk_safe hnn rest _ p (fun e h => he e (List.mem_cons_of_mem _ h))
        (joinC_safe hp (hnn path e c (he e List.mem_cons_self) hc)) h

/-- generic form: whatever `normpath` and the pre-pass do with dots, as long as they do not invent a '/' -/
theorem reldirWith_confined {nn : HostPath → Bytes → R HostName} {pre np : Bytes → Bytes}
    (hnn : ∀ path e c, 47 ∉ e → nn path e = .ok c → SafeName c)
    (hnp : ∀ x, 47 ∉ x → 47 ∉ np (pre x))
    {mounted : Bool} {cwd : HostPath} {dospath : Bytes} {p : HostPath}
    (hc : SafePath cwd) (h : reldirWith nn pre np mounted cwd dospath = .ok p) : SafePath p ∧ mounted = true := by
  unfold reldirWith at h
  simp only [] at h
  split at h
  · cases h
  · rename_i hsl
    split at h
    · cases h
    · rename_i hm
      have hsl' : 47 ∉ dospath := by simpa [SL] using hsl
      have hels := splitOn_no BSL 47 _ (hnp dospath hsl')
      have hc0 : SafePath (if dospath.take 1 = [BSL] then ([] : HostPath) else cwd) := by
        split
        · exact safePath_nil
        · exact hc
      obtain ⟨h1, h2⟩ := dropLead_spec 47 _ _ hels hc0
      refine ⟨walk_safe hnn _ _ p h1 (foldl_joinC_safe _ _ h2 safePath_root) h, by simpa using hm⟩

theorem lexNorm_safe : ∀ (p : HostPath) (u : Nat) (acc : HostPath), SafePath p →
    (lexNorm p (u, acc)).1 = u ∧ ∀ c ∈ (lexNorm p (u, acc)).2, c ∈ acc ∨ c ∈ p
  | [], u, acc, _ => by simp [lexNorm]
  | c :: rest, u, acc, hp => by
    have hr : SafePath rest := fun x hx => hp x (List.mem_cons_of_mem _ hx)
    have hc := hp c List.mem_cons_self
    unfold lexNorm
    split
    · obtain ⟨h1, h2⟩ := lexNorm_safe rest u acc hr
      exact ⟨h1, fun x hx => (h2 x hx).imp id (List.mem_cons_of_mem _)⟩
    · split
      · rename_i hdd; exact absurd hdd hc.2.1
      · obtain ⟨h1, h2⟩ := lexNorm_safe rest u (c :: acc) hr
        refine ⟨h1, fun x hx => ?_⟩
        rcases h2 x hx with h | h
        · rcases List.mem_cons.mp h with h | h
          · right; rw [h]; exact List.mem_cons_self
          · left; exact h
        · right; exact List.mem_cons_of_mem _ h

theorem mem_takeWhile_sat {α} {q : α → Bool} {x : α} : ∀ {l : List α}, x ∈ l.takeWhile q → q x = true
  | [], h => by simp at h
  | a :: l, h => by
    by_cases ha : q a = true
    · rw [List.takeWhile_cons_of_pos ha] at h
      rcases List.mem_cons.mp h with h | h
      · rw [h]; exact ha
      · exact mem_takeWhile_sat h
    · rw [List.takeWhile_cons_of_neg ha] at h; simp at h

theorem ntsplit_tail_no_slash (p : Bytes) : 47 ∉ (ntsplit p).2 := by
  unfold ntsplit
  simp only [List.mem_reverse]
  intro hm
  have := mem_takeWhile_sat hm
  simp [isSep, SL] at this

end PcbV.PathLemmas
