"""C10 — String variables keep their values through any memory history."""
import re

from vlib import basic

LEVEL = 'proof'
RULE = ('one case = one BASIC statement of a random history executed in a real Session (histories of up to 300 '
        'statements quick / 3000 thorough, chained in sessions whose memory is shrunk by CLEAR ,n from the default '
        'down to a few bytes of free space); non-trivial = the statement touches string memory (assignment, '
        'concatenation with temporaries, MID$/LSET/RSET, SWAP, ERASE/DIM, FRE, CLEAR, DEF FN / string function '
        'calls, READ, CHAIN with COMMON lists and ALL to a program on a temporary drive, after several variables were '
        'given one descriptor from the same program literal / DATA item, followed by in-place MID$/LSET/RSET and '
        'collections); low-memory episodes fill memory by FRE(0) feedback so that a statement which dimensions an '
        'array implicitly (SWAP / LET / LSET / RSET / MID$ / READ with an element of a not yet existing array) has to '
        'collect garbage between looking up its operand and storing the value; after every statement all observed '
        'variables are read back and compared')
EXPLANATION = ('theorems (PcbV.Props.C10 on PcbV.Model.Heap): on every well-formed heap the compacting collector '
               'never crashes, preserves well-formedness and every readable value (scalars, array elements, stack '
               'temporaries, several views of one cell), never loses space, fills string space exactly (FRE '
               'accounting); check_free fails only when the space after a collection is insufficient and changes '
               'no value; storing a string; the temporaries boundary survives collections (monotone relocation) and '
               'the history invariant (well-formed, variable strings above _temp) is preserved by LET/SWAP/ERASE/'
               'DIM/FRE/CLEAR statements along arbitrary histories, which makes reset_temporaries safe '
               '(partial: MID$/LSET/RSET/program literals and the per-statement value refinement are covered '
               'by correspondence only); correspondence: per-step outcome (error number / FRE value) and a digest of all variable '
               'values of the model against the real Session; oracle: a plain dict reference semantics, exact FRE '
               'accounting after forced collections, justification of Out of memory / Out of string space')
TRUSTED_BASE = ['model PcbV.Model.Heap is a hand transcription of strings.py StringSpace/String.lset/midset, '
                'memory.py DataSegment (check_free, let_, lset_, rset_, mid_, swap_, fre_, clear), scalars.py, '
                'arrays.py and of the evaluation-stack discipline of expressions.py',
                'needs pending fixes C10-collector, C10-stack-unwind, C10-midset-source-root '
                '(and C10-deffn-saved-roots for the DEF FN histories)']
ASSUMPTIONS = ['string arrays are one-dimensional, OPTION BASE 0; memory sizes leave FRE non-negative',
               'FIELD strings are not exercised (C25); INPUT / LINE INPUT into string variables is not driven '
               '(no input stream in the harness), READ is']

MSG = {b'Out of memory': 7, b'Out of string space': 14, b'String too long': 15, b'Subscript out of range': 9,
       b'Illegal function call': 5, b'Duplicate Definition': 10, b'Type mismatch': 13, b'Syntax error': 2,
       b'Undefined user function': 18, b'Overflow': 6, b'String formula too complex': 16,
       b'Internal error': 51, b'Illegal direct': 12, b'Missing operand': 22, b'Out of DATA': 4}

SCALARS = [b'A$', b'B$', b'C$', b'D$', b'E$', b'LONGNAME$']
ARRAYS = [(b'R$', 3), (b'S$', 2)]
ARR_OBS = [(b'R$', 11), (b'S$', 11)]      # observed elements (auto-dimensioned arrays have 11)
LIT_CHARS = bytes(c for c in range(32, 127) if c != 34)


def hx(b):
    return b.hex() if b else '-'


HMOD = 2305843009213693951


def hstep(h, x):
    return (h * 1000003 + x + 1) % HMOD


def hbytes(h, b):
    h = hstep(h, len(b))
    for x in b:
        h = hstep(h, x)
    return h


def scalar_size(name):
    return max(3, len(name)) + 1 + 3


def array_size(name, n_elems):
    return 1 + max(3, len(name)) + 3 + 2 + n_elems * 3


# --------------------------------------------------------------------------------------------------
# expressions: ('lit', bytes) ('var', dst) ('rep', n, c) ('fre',) ('cat', a, b)
# extended only: ('left', e, n) ('right', e, n) ('midf', e, i, n|None) ('fna', e) ('fnb', e1, e2) ('bad', e)
# dst: ('s', name) | ('e', name, i)

def dst_text(d):
    return d[1] if d[0] == 's' else b'%s(%d)' % (d[1], d[2])


def dst_proto(d):
    return 's' + hx(d[1]) if d[0] == 's' else 'e%s.%d' % (hx(d[1]), d[2])


def expr_text(e, top=True):
    k = e[0]
    if k == 'lit':
        return b'"' + e[1] + b'"'
    if k == 'var':
        return dst_text(e[1])
    if k == 'rep':
        return b'STRING$(%d,%d)' % (e[1], e[2])
    if k == 'fre':
        return b'STR$(FRE(""))'
    if k == 'cat':
        right = expr_text(e[2], False)
        if e[2][0] == 'cat':
            right = b'(' + right + b')'
        return expr_text(e[1], False) + b'+' + right
    if k == 'left':
        return b'LEFT$(%s,%d)' % (expr_text(e[1]), e[2])
    if k == 'right':
        return b'RIGHT$(%s,%d)' % (expr_text(e[1]), e[2])
    if k == 'midf':
        if e[3] is None:
            return b'MID$(%s,%d)' % (expr_text(e[1]), e[2])
        return b'MID$(%s,%d,%d)' % (expr_text(e[1]), e[2], e[3])
    if k == 'fna':
        return b'FNA$(%s)' % expr_text(e[1])
    if k == 'fnb':
        return b'FNB$(%s,%s)' % (expr_text(e[1]), expr_text(e[2]))
    if k == 'bad':
        return expr_text(e[1], False) + b'+(1+"q")'
    raise ValueError(k)


def expr_proto(e):
    k = e[0]
    if k == 'lit':
        return ['L' + hx(e[1])]
    if k == 'var':
        return ['V' + dst_proto(e[1])]
    if k == 'rep':
        return ['R%d.%d' % (e[1], e[2])]
    if k == 'fre':
        return ['F']
    if k == 'cat':
        return ['C'] + expr_proto(e[1]) + expr_proto(e[2])
    raise ValueError(k)


def op_text(op):
    k = op[0]
    if k == 'let':
        return dst_text(op[1]) + b'=' + expr_text(op[2])
    if k == 'mid':
        if op[3] is None:
            return b'MID$(%s,%d)=%s' % (dst_text(op[1]), op[2], expr_text(op[4]))
        return b'MID$(%s,%d,%d)=%s' % (dst_text(op[1]), op[2], op[3], expr_text(op[4]))
    if k == 'lset':
        return (b'RSET ' if op[2] else b'LSET ') + dst_text(op[1]) + b'=' + expr_text(op[3])
    if k == 'swap':
        return b'SWAP %s,%s' % (dst_text(op[1]), dst_text(op[2]))
    if k == 'erase':
        return b'ERASE ' + op[1]
    if k == 'dim':
        return b'DIM %s(%d)' % (op[1], op[2])
    if k == 'frs':
        return b'PRINT FRE("")'
    if k == 'fr0':
        return b'PRINT FRE(0)'
    if k == 'clear':
        return b'CLEAR ,%d' % op[1]
    if k == 'goto':
        return b'GOTO %d' % op[1]
    if k == 'instr':
        return b'PRINT INSTR(%s,%s)' % (expr_text(op[1]), expr_text(op[2]))
    if k == 'rerun':
        return b'RUN'
    if k == 'chain':
        return b'CHAIN "P",,ALL' if op[1] == 'all' else b'CHAIN "P"'
    if k == 'gosubs':
        return b'GOTO %d' % op[1]
    if k == 'read':
        return b'READ ' + dst_text(op[1])
    if k == 'restore':
        return b'RESTORE'
    raise ValueError(k)


def op_proto(op):
    k = op[0]
    if k == 'let':
        return 'let:%s:%s' % (dst_proto(op[1]), ','.join(expr_proto(op[2])))
    if k == 'mid':
        return 'mid:%s:%d:%s:%s' % (dst_proto(op[1]), op[2], '-' if op[3] is None else op[3],
                                    ','.join(expr_proto(op[4])))
    if k == 'lset':
        return 'lset:%s:%d:%s' % (dst_proto(op[1]), int(op[2]), ','.join(expr_proto(op[3])))
    if k == 'swap':
        return 'swap:%s:%s' % (dst_proto(op[1]), dst_proto(op[2]))
    if k == 'erase':
        return 'erase:' + hx(op[1])
    if k == 'dim':
        return 'dim:%s:%d' % (hx(op[1]), op[2])
    if k in ('frs', 'fr0'):
        return k
    if k == 'clear':
        return 'clear:%d' % op[1]
    raise ValueError(k)


# --------------------------------------------------------------------------------------------------
# the reference semantics (independent oracle): plain dicts, no memory

class Deterministic(Exception):
    """an error the reference semantics predicts (number in .args[0])"""


class Uncertain(Exception):
    """String too long or not, depending on the digits of an FRE value inside the expression"""


class Ref(object):
    def __init__(self):
        self.sc = {}        # name -> bytes (missing = empty)
        self.ar = {}        # name -> list of bytes
        self.functions = False

    def clear(self):
        self.sc = {}
        self.ar = {}

    def copy(self):
        r = Ref()
        r.sc = dict(self.sc)
        r.ar = {k: list(v) for k, v in self.ar.items()}
        r.functions = self.functions
        return r

    def touch(self, d, created):
        """array auto-dimensioning and the bounds check"""
        if d[0] == 'e':
            if d[1] not in self.ar:
                self.ar[d[1]] = [b''] * 11
                created.append(d[1])
            if d[2] >= len(self.ar[d[1]]):
                raise Deterministic(9)

    def read(self, d):
        return self.sc.get(d[1], b'') if d[0] == 's' else self.ar[d[1]][d[2]]

    def write(self, d, v):
        if d[0] == 's':
            self.sc[d[1]] = v
        else:
            self.ar[d[1]][d[2]] = v

    def eval(self, e, created, demand):
        """value as a list of parts (bytes or None for an FRE number); demand collects allocation sizes"""
        k = e[0]
        if k == 'lit':
            demand.append(len(e[1]))
            return [e[1]]
        if k == 'var':
            self.touch(e[1], created)
            v = self.read(e[1])
            demand.append(len(v))       # a view may be stored twice by a collection / copied by LET
            return [v]
        if k == 'rep':
            demand.append(e[1])
            return [bytes([e[2]]) * e[1]]
        if k == 'fre':
            demand.append(8)
            return [None]
        if k == 'cat':
            a = self.eval(e[1], created, demand)
            b = self.eval(e[2], created, demand)
            n = plen(a) + plen(b)
            nmin = plen(a, 2) + plen(b, 2)
            if nmin > 255:
                raise Deterministic(15)
            if n > 255:
                raise Uncertain()       # depends on the number of digits of an FRE value
            demand.append(n)
            return a + b
        if k in ('left', 'right'):
            a = known(self.eval(e[1], created, demand))
            n = e[2]
            if n > 255:
                raise Deterministic(5)
            demand.append(min(n, len(a)))
            if n == 0:
                return [b'']
            return [a[:n] if k == 'left' else a[-n:]]
        if k == 'midf':
            a = known(self.eval(e[1], created, demand))
            i, n = e[2], e[3]
            if i < 1 or i > 255 or (n is not None and n > 255):
                raise Deterministic(5)
            if n is None:
                n = len(a)
            r = b'' if (n == 0 or i > len(a)) else a[i - 1:i - 1 + n]
            demand.append(len(r))
            return [r]
        if k == 'fna':
            a = known(self.eval(e[1], created, demand))
            if not self.functions:
                raise Deterministic(18)
            demand.extend([len(a), len(a) + 1, 2 * len(a) + 1, 16])
            if 2 * len(a) + 1 > 255:
                raise Deterministic(15)
            return [a + b'!' + a]
        if k == 'fnb':
            a = known(self.eval(e[1], created, demand))
            b = known(self.eval(e[2], created, demand))
            if not self.functions:
                raise Deterministic(18)
            demand.extend([len(a), len(b), len(a) + len(b), 40, 5, 45, 32])
            if len(a) + len(b) > 255:
                raise Deterministic(15)
            return [(b + a)[:40] + a[1:6]]
        if k == 'bad':
            self.eval(e[1], created, demand)
            demand.append(1)
            raise Deterministic(13)
        raise ValueError(k)


def plen(parts, fre_len=8):
    return sum(fre_len if p is None else len(p) for p in parts)


def known(parts):
    if any(p is None for p in parts):
        raise ValueError('FRE inside a function argument is not generated')
    return b''.join(parts)


def parts_regex(parts):
    return re.compile(b'^' + b''.join(b' ([0-9]+)' if p is None else re.escape(p) for p in parts) + b'$', re.S)


def propagate(t, off, n):
    t = bytearray(t)
    for i in range(n):
        t[i + off] = t[i]
    return bytes(t)


# --------------------------------------------------------------------------------------------------
# generators

def rand_bytes(rng, n):
    return bytes(rng.choice(LIT_CHARS) for _ in range(n))


def rand_len(rng, small):
    r = rng.random()
    if small:
        return rng.choice([0, 0, 1, 1, 2, 3, 5, 8, 13, 20, 40])
    if r < 0.12:
        return 0
    if r < 0.3:
        return rng.randrange(1, 4)
    if r < 0.55:
        return rng.randrange(4, 40)
    if r < 0.8:
        return rng.randrange(40, 130)
    if r < 0.93:
        return rng.randrange(130, 250)
    return rng.choice([250, 254, 255, 127, 128])


def rand_dst(rng, wide=False):
    r = rng.random()
    if r < 0.6:
        return ('s', rng.choice(SCALARS))
    name, n = rng.choice(ARRAYS)
    hi = n + (2 if rng.random() < 0.08 else 0)
    return ('e', name, rng.randrange(0, hi + 1))


def rand_atom(rng, small, extended):
    r = rng.random()
    if r < 0.4:
        return ('var', rand_dst(rng))
    if r < 0.7:
        n = min(rand_len(rng, small), 240)
        return ('lit', rand_bytes(rng, n))
    if r < 0.93:
        return ('rep', rand_len(rng, small), rng.choice([65, 120, 32, 48, 255, 1]))
    return ('fre',)


def rand_expr(rng, small, depth=0, extended=False, nofre=False):
    r = rng.random()
    if extended and depth < 3 and r < 0.3:
        sub = rand_expr(rng, small, depth + 1, True, True)
        k = rng.random()
        if k < 0.2:
            return ('left', sub, rng.choice([0, 0, 1, 3, 10, 100, 255]))
        if k < 0.4:
            return ('right', sub, rng.choice([0, 0, 1, 3, 10, 100, 255]))
        if k < 0.6:
            return ('midf', sub, rng.choice([1, 1, 2, 5, 50, 255]), rng.choice([None, 0, 0, 1, 4, 255]))
        if k < 0.8:
            return ('fna', sub)
        if k < 0.97:
            return ('fnb', sub, rand_expr(rng, small, depth + 1, True, True))
        return ('bad', sub)
    if depth < 3 and r < 0.45:
        a = rand_expr(rng, small, depth + 1, extended, nofre)
        if rng.random() < 0.25:
            b = rand_expr(rng, small, depth + 1, extended, nofre)      # parenthesised when it is a sum
        else:
            b = rand_atom(rng, small, extended)
        e = ('cat', a, b)
    else:
        e = rand_atom(rng, small, extended)
    if nofre:
        e = strip_fre(e)
    return e


def strip_fre(e):
    if e[0] == 'fre':
        return ('lit', b'f')
    if e[0] == 'cat':
        return ('cat', strip_fre(e[1]), strip_fre(e[2]))
    return e


def rand_op(rng, small, extended=False, lines=()):
    r = rng.random()
    if r < 0.52:
        return ('let', rand_dst(rng), rand_expr(rng, small, 0, extended))
    if r < 0.62:
        num = rng.choice([None, None, 0, 1, 2, 5, 30, 255, 256])
        return ('mid', rand_dst(rng), rng.choice([0, 1, 1, 1, 1, 2, 3, 7, 30, 200, 256]), num,
                rand_expr(rng, small, 1, extended, True))
    if r < 0.72:
        return ('lset', rand_dst(rng), rng.random() < 0.5, rand_expr(rng, small, 1, extended, True))
    if r < 0.80:
        return ('swap', rand_dst(rng), rand_dst(rng))
    if r < 0.83:
        return ('erase', rng.choice(ARRAYS)[0])
    if r < 0.87:
        name, n = rng.choice(ARRAYS)
        return ('dim', name, n)
    if r < 0.93:
        return ('frs',)
    if r < 0.97 or not lines:
        return ('fr0',)
    return ('goto', rng.choice(lines))


def accounted(m, names_s, names_a):
    """bytes of variable records, array records and live strings located in string space"""
    import struct
    var_bytes = sum(max(3, len(n)) + 1 + {b'$': 3, b'%': 2, b'!': 4, b'#': 8}[n[-1:]] for n in names_s)
    arr_bytes = 0
    live = 0
    ptrs = []
    for n in names_a:
        buf = bytes(m.arrays.view_full_buffer(n))
        size = {b'$': 3, b'%': 2, b'!': 4, b'#': 8}[n[-1:]]
        arr_bytes += 1 + max(3, len(n)) + 3 + 2 * len(m.arrays.dimensions(n)) + len(buf)
        if size == 3:
            ptrs += [struct.unpack('<BH', buf[i:i + 3]) for i in range(0, len(buf), 3)]
    for n in names_s:
        if n[-1:] == b'$':
            ptrs.append(struct.unpack('<BH', bytes(m.scalars.view_buffer(n))))
    # a string whose pointer is into the program text does not occupy string space
    live = sum(length for length, addr in ptrs if length and addr >= m.var_start())
    return var_bytes + arr_bytes + live


def enc(x):
    if isinstance(x, bytes):
        return {'b': x.decode('latin-1')}
    if isinstance(x, (tuple, list)):
        return [enc(y) for y in x]
    return x


def dec(x):
    if isinstance(x, dict):
        return x['b'].encode('latin-1')
    if isinstance(x, list):
        return tuple(dec(y) for y in x)
    return x


# --------------------------------------------------------------------------------------------------
# running a session

class Runner(object):
    """one real Session + the reference semantics; optionally the model protocol of the same history"""

    def __init__(self, ctx, program=None):
        self.ctx = ctx
        self.workdir = None
        if program:
            # a temporary drive holding a copy of the program, the target of CHAIN
            import tempfile
            self.workdir = tempfile.mkdtemp(prefix='pcbv_c10_')
            self.s = basic.new_session(devices={'C': self.workdir}, current_device='C')
        else:
            self.s = basic.new_session()
        self.mem = self.s._impl.memory
        self.ref = Ref()
        self.total = self.mem.total_memory
        self.total0 = self.total
        self.history = []
        self.ops = []
        self.last_val = self.last_err = None
        self.data_idx = 0
        self.data_unsure = False
        self.impl_tokens = []
        self.code_lits = {}
        self.failed = False
        if program:
            for line in program:
                self.s.execute(line)
            self.s.execute(b'SAVE "P",A')

    def close(self):
        self.s.close()
        if self.workdir:
            import shutil
            shutil.rmtree(self.workdir, ignore_errors=True)

    def _fail(self, key, what):
        # the replayable case (whole history so far) is only built when something fails
        case = {'label': self.label, 'total0': self.total0, 'history': list(self.history), 'ops': enc(self.ops)}
        self.ctx.fail(key, case, what)

    # -- observation ---------------------------------------------------------------------------

    def observe(self):
        sc = {n: self.s.get_variable(n) for n in SCALARS}
        ar = {}
        for n, _ in ARRAYS:
            v = self.s.get_variable(n + b'()')
            if v:
                ar[n] = list(v)
        return sc, ar

    def digest(self, sc, ar):
        h = 7
        for n in SCALARS:
            h = hbytes(h, sc[n])
        for n, k in ARR_OBS:
            for i in range(k):
                if n in ar:
                    h = hbytes(h, ar[n][i] if i < len(ar[n]) else b'')
                else:
                    h = hstep(h, 999)
        return h

    def ideal_free(self):
        """the accounting formula of the statement: memory size minus program, variables, arrays, live strings"""
        m = self.mem
        top = self.total - m.stack_size - 2
        names_s = [n for n in m.scalars]
        names_a = [n for n in m.arrays]
        return top - m.var_start() - accounted(m, names_s, names_a)

    # -- one statement --------------------------------------------------------------------------

    def run_op(self, op, label):
        ctx = self.ctx
        text = op_text(op)
        before = self.ref.copy()
        free_before = self.ideal_free()
        try:
            out = self.s.execute(text)
            exc = None
        except Exception as e:      # a host exception escaping the interpreter
            out, exc = b'', '%s: %s' % (type(e).__name__, e)
        self.history.append(text.decode('latin-1'))
        self.ops.append(op)
        ctx.case((label, len(self.history), text))
        ctx.count('op:' + op[0])
        self.label = label
        case = None
        if exc is not None:
            self._fail('exception:%s:%s' % (op[0], exc.split(':')[0]), 'statement %r raised %s' % (text, exc))
            self.impl_tokens.append('x')
            self.failed = True
            return
        err = None
        val = None
        stripped = out.replace(b'\xff', b'').strip()
        if stripped:
            msg = stripped.split(b'\r')[0].strip()
            msg0 = re.sub(br' in \d+$', b'', msg)
            if msg0 in MSG:
                err = MSG[msg0]
            elif re.match(br'^-?\d+$', msg):
                val = int(msg)
            else:
                err = -1
        if err is not None:
            ctx.count('err:%d' % err)
        self.last_val, self.last_err = val, err
        try:
            sc, ar = self.observe()
        except Exception as e:
            self._fail('exception:read-back:%s:%s' % (op[0], type(e).__name__), 'after %r, reading the variables raised %s: %s' % (text, type(e).__name__, e))
            self.impl_tokens.append('x')
            self.failed = True
            return
        token = ('e%d' % err if err is not None else ('v%d' % val if val is not None else 'k'))
        self.impl_tokens.append('%s/%d' % (token, self.digest(sc, ar)))
        self.oracle(op, text, err, val, sc, ar, before, free_before, case)

    def oracle(self, op, text, err, val, sc, ar, before, free_before, case):
        ctx = self.ctx
        ref = self.ref
        k = op[0]
        created = []
        demand = []
        expect_err = None
        pattern = None
        target = None
        try:
            if k == 'let':
                ref.touch(op[1], created)
                if op[1][0] == 's':
                    demand.append(scalar_size(op[1][1]))
                parts = ref.eval(op[2], created, demand)
                demand.append(plen(parts))
                pattern, target = parts, op[1]
            elif k == 'mid':
                ref.touch(op[1], created)
                if op[1][0] == 's':
                    demand.append(scalar_size(op[1][1]))
                cur = ref.read(op[1])
                n = 255 if op[3] is None else op[3]
                if n > 255:
                    raise Deterministic(5)
                if not 1 <= op[2] <= 255:
                    raise Deterministic(5)
                if n > 0 and not 1 <= op[2] <= len(cur):
                    raise Deterministic(5)
                src = known(ref.eval(op[4], created, demand))
                demand.append(len(cur))
                off = op[2] - 1
                n = min(n, len(src))
                if off + n > len(cur):
                    n = len(cur) - off
                if n > 0:
                    same = op[4] == ('var', op[1])
                    new = propagate(cur, off, n) if same else cur[:off] + src[:n] + cur[off + n:]
                    ref.write(op[1], new)
            elif k == 'lset':
                ref.touch(op[1], created)
                cur = ref.read(op[1])
                src = known(ref.eval(op[3], created, demand))
                demand.append(len(cur))
                if op[1][0] == 's':
                    demand.append(scalar_size(op[1][1]))
                new = src[:len(cur)].rjust(len(cur)) if op[2] else src[:len(cur)].ljust(len(cur))
                ref.write(op[1], new)
            elif k == 'swap':
                ref.touch(op[1], created)
                demand.append(2 * scalar_size(b'LONGNAME$'))
                ref.touch(op[2], created)
                if op[2][0] == 's' and op[2][1] not in self.exists_before and op[2] != op[1]:
                    raise Deterministic(5)
                a, b = ref.read(op[1]), ref.read(op[2])
                ref.write(op[1], b)
                ref.write(op[2], a)
            elif k == 'erase':
                if op[1] not in ref.ar:
                    raise Deterministic(5)
                del ref.ar[op[1]]
            elif k == 'dim':
                if op[1] in ref.ar:
                    raise Deterministic(10)
                demand.append(array_size(op[1], op[2] + 1))
                ref.ar[op[1]] = [b''] * (op[2] + 1)
            elif k == 'clear':
                if op[1] > self.total:
                    raise Deterministic(7)
                ref.clear()
                ref.functions = False
                self.total = op[1]
            elif k == 'goto':
                name, lit = self.code_lits[op[1]]
                ref.write(('s', name), lit)
                demand.append(scalar_size(name))
            elif k == 'gosubs':
                # a program line that assigns ONE literal (one descriptor) to several variables
                for d, lit in SHARE_LINES[op[1]]:
                    ref.touch(d, created)
                    if d[0] == 's':
                        demand.append(scalar_size(d[1]))
                    ref.write(d, lit)
            elif k == 'chain':
                # CHAIN to a copy of the same program: COMMON variables (or all) keep their values, everything else
                # is cleared, the program runs from its first line (DEF FNs again, DATA pointer reset)
                if op[1] != 'all':
                    ref.sc = {n: v for n, v in ref.sc.items() if n in COMMON_SCALARS}
                    ref.ar = {n: v for n, v in ref.ar.items() if n in COMMON_ARRAYS}
                ref.functions = True
                self.data_idx = 0
            elif k == 'instr':
                a = known(ref.eval(op[1], created, demand))
                b = known(ref.eval(op[2], created, demand))
                want = 0 if a == b'' else a.find(b) + 1
                if err is None and val != want:
                    self._fail('instr-value', '%r printed %r, reference %d' % (text, val, want))
            elif k == 'rerun':
                ref.clear()
                ref.functions = True
                self.data_idx = 0
                self.data_unsure = False
            elif k == 'restore':
                self.data_idx = 0
                self.data_unsure = False
            elif k == 'read':
                # interpreter.read_: Out of DATA is raised before the variable is looked up (nothing is
                # created then); the value is a pointer into the DATA line (no string space is used); the
                # DATA pointer advances only when the assignment (implicit DIM, subscript check) succeeded
                if self.data_idx >= len(DATA_ITEMS):
                    raise Deterministic(4)
                item = DATA_ITEMS[self.data_idx]
                ref.touch(op[1], created)
                if op[1][0] == 's':
                    demand.append(scalar_size(op[1][1]))
                if err is None:
                    self.data_idx += 1
                ref.write(op[1], item)
            elif k in ('frs', 'fr0'):
                pass
        except Deterministic as d:
            expect_err = d.args[0]
        except Uncertain:
            # adopt what the implementation did, provided it is one of the two possible outcomes
            if err not in (None, 15, 7, 14):
                self._fail('wrong-outcome:%s:fre-length' % k, '%r gave error %r' % (text, err))
            expect_err = err if err == 15 else None
            pattern = None
            if err is None and k == 'let':
                got = sc[op[1][1]] if op[1][0] == 's' else ar.get(op[1][1], [b''] * 99)[op[1][2]]
                ref.write(op[1], got)
        for a in created:
            demand.append(array_size(a, 11))
        mem_err = err in (7, 14) and not (k == 'clear' and expect_err == 7)
        if mem_err:
            # allowed only when the free space (after an ideal collection) cannot hold what the statement needs
            need = sum(demand) + len(demand) + 1
            if free_before > need:
                self._fail('unjustified-memory-error:%s' % k, '%r failed with error %d although %d bytes are free after a collection and the statement '
                         'needs at most %d' % (text, err, free_before, need))
            ctx.count('memory-error-justified')
            # nothing may have changed (arrays mentioned may or may not have been auto-dimensioned)
            self.ref = before
            ref = self.ref
            for a, _ in ARRAYS:
                if a in ar and a not in ref.ar and all(x == b'' for x in ar[a]):
                    ref.ar[a] = list(ar[a])
        elif expect_err is not None:
            if err != expect_err:
                self._fail('wrong-outcome:%s:%s' % (k, expect_err), '%r: reference semantics says error %s, implementation gave %r'
                         % (text, expect_err, err if err is not None else 'no error'))
            # values as before, plus arrays created on the way
            keep = {a: ref.ar[a] for a in created if a in ref.ar}
            self.ref = before
            ref = self.ref
            for a, v in keep.items():
                ref.ar.setdefault(a, v)
        elif err is not None:
            self._fail('unexpected-error:%s:%s' % (k, err), '%r failed with error %s' % (text, err))
            self.ref = before
            ref = self.ref
        else:
            if pattern is not None:
                got = sc[target[1]] if target[0] == 's' else ar.get(target[1], [b''] * 99)[target[2]]
                m = parts_regex(pattern).match(got)
                if not m:
                    self._fail('wrong-value:%s' % k, '%r: %s reads back %r, reference %r'
                             % (text, dst_text(target), got, pattern))
                else:
                    for g in m.groups():
                        if int(g) > free_before:
                            self._fail('fre-too-large', '%r: FRE("") inside the expression gave %s, only %d '
                                     'bytes can be free' % (text, g, free_before))
                ref.write(target, got)
        # FRE accounting
        if k == 'frs' and err is None:
            want = self.ideal_free()
            ctx.count('fre-exact-checked')
            if val != want:
                self._fail('fre-accounting', 'PRINT FRE("") gave %r; memory size minus program, variables, arrays and live string '
                         'bytes is %d' % (val, want))
        if k == 'fr0' and err is None:
            want = self.ideal_free()
            if val is None or val > want or val < 0:
                self._fail('fre0-range', 'PRINT FRE(0) gave %r, at most %d can be free' % (val, want))
        # every variable reads back its reference value
        for n in SCALARS:
            if sc[n] != ref.sc.get(n, b''):
                self._fail('value-changed:%s' % k, 'after %r, %s reads back %r; reference semantics: %r'
                         % (text, n, sc[n][:60], ref.sc.get(n, b'')[:60]))
                ref.sc[n] = sc[n]
        for n, _ in ARRAYS:
            have = ar.get(n)
            want = ref.ar.get(n)
            if have is None and want is not None and all(x == b'' for x in want):
                continue
            if have != want and not (want is None and have is not None and all(x == b'' for x in have)):
                self._fail('array-changed:%s' % k, 'after %r, %s() reads back %r; reference semantics: %r'
                         % (text, n, have, want))
            if have is None:
                ref.ar.pop(n, None)
            else:
                ref.ar[n] = list(have)

    def step(self, op, label):
        self.exists_before = set(self.mem.scalars)
        self.run_op(op, label)


# --------------------------------------------------------------------------------------------------

def clear_sizes(rng, var_start, stack, n):
    """decreasing CLEAR sizes from roomy to nearly exhausted"""
    base = var_start + stack + 2            # size at which nothing at all is free
    pool = [30000, 12000, base + 3000, base + 1500, base + 900, base + 600, base + 400, base + 300, base + 200,
            base + 120, base + 80, base + 50, base + 30, base + 12, base + 4]
    picks = sorted(set(rng.sample(pool, min(n, len(pool)))), reverse=True)
    return [p + rng.randrange(0, 7) for p in picks[:-1]] + picks[-1:]


def pressure_episode(r, rng, label, do, extended=False):
    """A statement that dimensions an array implicitly (SWAP / LET / LSET / RSET / MID$ / READ with an element
    of an array that does not exist yet) while the free memory is just too small for it: the implicit DIM has to
    collect garbage between the moment the other operand is looked up and the moment the value is stored, and
    there is garbage above the operand's string so that it moves.  Parameters are random; the memory is filled
    by feedback from FRE(0)."""
    (tname, _), (uname, un) = rng.sample(ARRAYS, 2)
    names = rng.sample(SCALARS, len(SCALARS))
    g, a, c = names[:3]
    holders = [('s', n) for n in names[3:]] + [('e', uname, j) for j in (1, 2)]
    exists = lambda n: bool(r.s.get_variable(n + b'()'))
    if exists(tname):
        do(('erase', tname))
    if not exists(uname):
        do(('dim', uname, un))
    for h in holders:
        do(('let', h, ('lit', b'')))
    lg = rng.randrange(4, 60)
    do(('let', ('s', g), ('rep', lg, 103)))
    do(('let', ('s', a), rng.choice([('rep', rng.randrange(1, 40), 97), ('lit', rand_bytes(rng, rng.randrange(1, 30)))])))
    do(('let', ('s', c), ('rep', rng.randrange(1, 40), 99)))
    do(('let', ('e', uname, 0), ('rep', rng.randrange(0, 25), 117)))
    do(('let', ('s', g), ('lit', b'')))          # garbage above the other strings
    do(('fr0',))
    f = r.last_val
    if r.failed or f is None:
        return False
    need = array_size(tname, 11)
    leave = rng.randrange(max(1, need - lg + 1), need + 1)     # collect needed, and enough afterwards
    fill = f - leave
    if fill < 0 or fill > 255 * len(holders):
        return False
    for h in holders:
        n = min(255, fill)
        if n == 0:
            break
        do(('let', h, ('rep', n, 112)))
        fill -= n
    do(('fr0',))
    i = rng.randrange(0, 11)
    t = ('e', tname, i)
    src = rng.choice([('var', ('s', a)), ('cat', ('var', ('s', a)), ('lit', b'+')),
                      ('cat', ('var', ('s', c)), ('var', ('s', a))), ('var', ('e', uname, 0))])
    x = rng.random()
    if x < 0.25:
        op = ('swap', ('s', a), t)
    elif x < 0.4:
        op = ('swap', ('e', uname, 0), t)
    elif x < 0.5:
        op = ('swap', t, rng.choice([('s', a), ('e', uname, 0)]))
    elif x < 0.75:
        op = ('let', t, src)
    elif x < 0.85:
        op = ('lset', t, rng.random() < 0.5, src)
    elif x < 0.93 or not extended:
        op = ('mid', t, 1, rng.choice([None, 0, 3]), src)
    else:
        op = ('read', t)
    r.ctx.count('pressure:' + op[0])
    do(op)
    if r.last_err in (7, 14):
        r.ctx.count('pressure-failed-alloc')
    do(('fr0',))
    if rng.random() < 0.5:
        do(('frs',))
    return True


def chain_episode(r, rng, label):
    """Variables that share one descriptor (same program literal, same DATA item, copies of a program-literal
    pointer), CHAIN with COMMON or ALL to a copy of the program, then in-place edits (MID$=, LSET, RSET) of single
    variables and forced collections: every other variable must keep its value, FRE must account for one copy per
    variable."""
    do = lambda op: (None if r.failed else r.step(op, label))
    if r.ideal_free() < 2500:
        return
    mode = rng.choice(['all', 'common'])
    pool_s = list(COMMON_SCALARS) if mode == 'common' else [n for n in SCALARS]
    elems = [('e', b'R$', i) for i in range(4)]
    if not r.s.get_variable(b'R$()'):
        do(('dim', b'R$', 3))
    if mode == 'all' and not r.s.get_variable(b'S$()'):
        do(('dim', b'S$', 2))
    if mode == 'all':
        elems += [('e', b'S$', i) for i in range(3)]
    cells = [('s', n) for n in pool_s] + elems
    for _ in range(rng.randrange(2, 6)):
        x = rng.random()
        if x < 0.35:
            do(('gosubs', rng.choice(sorted(SHARE_LINES))))
        elif x < 0.6:
            a, b = rng.sample(cells, 2)
            do(('restore',))
            do(('read', a))
            do(('restore',))
            do(('read', b))
        elif x < 0.85:
            line = rng.choice([n for n, _, _ in CODE_LINES][:3])
            do(('goto', line))
            src = ('s', r.code_lits[line][0])
            for d in rng.sample(cells, rng.randrange(1, 3)):
                if d != src:
                    do(('let', d, ('var', src)))       # copies the pointer into the program text
        else:
            do(('let', rng.choice(cells), ('rep', rng.randrange(1, 30), 120)))
    do(('chain', mode))
    r.ctx.count('chain:' + mode)
    do(('frs',))
    for _ in range(rng.randrange(2, 6)):
        d = rng.choice(cells)
        x = rng.random()
        if x < 0.4:
            do(('mid', d, rng.choice([1, 1, 2, 3]), rng.choice([None, 1, 2]), ('lit', rand_bytes(rng, rng.randrange(1, 4)))))
        elif x < 0.8:
            do(('lset', d, rng.random() < 0.5, ('lit', rand_bytes(rng, rng.randrange(0, 4)))))
        else:
            do(('frs',))
    do(('frs',))


def modelled_session(ctx, n_hist, hist_len, label):
    """histories of modelled statements; compared step by step with the Lean model and with the reference"""
    rng = ctx.rng
    r = Runner(ctx)
    ops = []
    try:
        m = r.mem
        var_start0 = m.var_start()
        sizes = [None] + clear_sizes(rng, m.var_start(), m.stack_size, n_hist - 1)
        for size in sizes:
            if size is not None:
                op = ('clear', size)
                ops.append(op)
                r.step(op, label)
            small = size is not None and size < m.var_start() + m.stack_size + 2 + 500
            length = rng.randrange(hist_len // 3, hist_len + 1)
            for name, n in ARRAYS:
                if rng.random() < 0.8:
                    op = ('dim', name, n)
                    ops.append(op)
                    r.step(op, label)
            def do(op):
                if not r.failed:
                    ops.append(op)
                    r.step(op, label)
            tight = size is not None and size < m.var_start() + m.stack_size + 2 + 1600
            for _ in range(length):
                if r.failed:
                    break
                if tight and rng.random() < 0.012:
                    pressure_episode(r, rng, label, do)
                    continue
                op = rand_op(rng, small)
                ops.append(op)
                r.step(op, label)
            if r.failed:
                break
        line = 'hist %d %d %d %d - %s %s %s' % (
            m.code_start, var_start0, r.total0, m.stack_size, ','.join(hx(n) for n in SCALARS),
            ','.join('%s.%d' % (hx(n), k) for n, k in ARR_OBS), ';'.join(op_proto(o) for o in ops))
        return r, ops, line
    finally:
        r.close()


def compare_model(ctx, r, ops, line, label):
    out = ctx.model([line])
    if out is None:
        return
    reply = out[0]
    if not reply.startswith('ok '):
        ctx.disagree({'label': label, 'line': line[:300]}, 'tokens', reply[:200])
        return
    mt = reply[3:].split(';')
    for i, (a, b) in enumerate(zip(r.impl_tokens, mt)):
        if a != b:
            ctx.disagree({'label': label, 'step': i, 'total0': r.total0, 'history': r.history[:i + 1],
                          'line': ' '.join(line.split(' ')[:8]) + ' ' + ';'.join(line.split(' ')[8].split(';')[:i + 1])},
                         a, b)
            ctx.count('model-disagreement')
            return
    ctx.count('model-steps-agreed', min(len(r.impl_tokens), len(mt)))


DATA_ITEMS = [b'alpha', b'bravo charlie', b'd', b'', b'echo-foxtrot-golf-hotel-india-juliet-kilo-lima-mike-november',
              b'oscar', b'papa quebec', b'romeo', b'sierra tango uniform', b'victor', b'w', b'xray yankee zulu']
COMMON_SCALARS = (b'A$', b'B$', b'C$')
COMMON_ARRAYS = (b'R$',)
# lines that give several variables the same descriptor (one literal instance in the program text)
SHARE_LINES = {
    200: [(('e', b'R$', i), b'shared literal') for i in range(4)],
    210: [(('s', b'B$'), b'pair literal'), (('s', b'C$'), b'pair literal')],
    220: [(('s', b'A$'), b'triple'), (('e', b'R$', 1), b'triple'), (('s', b'D$'), b'triple')],
}
PROGRAM = [
    b'5 COMMON A$,B$,C$,R$()',
    b'200 FOR I%=0 TO 3:R$(I%)="shared literal":NEXT:END',
    b'210 B$="pair literal":C$=B$:END',
    b'220 A$="triple":R$(1)=A$:D$=A$:END',
    b'10 DEF FNA$(X$)=X$+"!"+X$',
    b'20 DEF FNB$(X$,Y$)=LEFT$(Y$+X$,40)+MID$(X$,2,5)',
    b'30 END',
    b'40 DATA ' + b','.join(b'"' + x + b'"' for x in DATA_ITEMS),
]
CODE_LINES = [
    (100, b'A$', b'program literal number one'),
    (110, b'B$', b'x'),
    (120, b'C$', b'the quick brown fox jumps over the lazy dog 0123456789 the quick brown fox jumps over'),
    (130, b'LONGNAME$', b'abcdefghijklmnopqrstuvwxyz'),
    (140, b'D$', b''),
]


def extended_session(ctx, n_hist, hist_len, label):
    """oracle-only histories: program literals, DEF FN calls, string functions, failing expressions"""
    rng = ctx.rng
    program = list(PROGRAM) + [b'%d %s="%s":END' % (n, v, lit) for n, v, lit in CODE_LINES]
    r = Runner(ctx, program)
    r.code_lits = {n: (v, lit) for n, v, lit in CODE_LINES}
    lines = [n for n, _, _ in CODE_LINES]
    try:
        m = r.mem
        sizes = [None] + clear_sizes(rng, m.var_start() + 60, m.stack_size, n_hist - 1)
        for size in sizes:
            if size is not None:
                r.step(('clear', size), label)
            r.step(('rerun',), label)
            small = size is not None and size < m.var_start() + m.stack_size + 2 + 700
            for _ in range(rng.randrange(hist_len // 3, hist_len + 1)):
                if r.failed:
                    return r
                if r.data_unsure:
                    r.step(('restore',), label)
                x = rng.random()
                if x < 0.012:
                    chain_episode(r, rng, label)
                    continue
                if size is not None and size < m.var_start() + m.stack_size + 2 + 1600 and x > 0.985:
                    pressure_episode(r, rng, label, lambda o: (None if r.failed else r.step(o, label)), True)
                    continue
                if 0.04 <= x < 0.06:
                    r.step(('read', rand_dst(rng)), label)
                    continue
                if x < 0.04:
                    op = ('instr', rand_expr(rng, small, 1, True, True), rand_expr(rng, True, 2, True, True))
                else:
                    op = rand_op(rng, small, True, lines)
                r.step(op, label)
        return r
    finally:
        r.close()


READ_REGRESSION = (
    [('rerun',)] + [('read', ('s', b'A$'))] * 3 + [('read', ('e', b'R$', 20)), ('read', ('e', b'R$', 2)),
                                                  ('read', ('e', b'S$', 11)), ('read', ('e', b'S$', 10))]
    + [('read', ('s', b'B$'))] * 7 + [('erase', b'R$'), ('read', ('e', b'R$', 2)), ('dim', b'R$', 3),
                                     ('read', ('e', b'S$', 30)), ('read', ('s', b'C$')), ('restore',),
                                     ('read', ('e', b'R$', 3)), ('read', ('e', b'R$', 4)), ('frs',),
                                     ('mid', ('e', b'R$', 3), 2, None, ('lit', b'XY')),
                                     ('lset', ('e', b'R$', 3), False, ('lit', b'Q')), ('frs',)])


def read_regression(ctx):
    """READ: Out of DATA before the variable is created, subscript errors do not consume an item, the values are
    pointers into the DATA line (copied on MID$/LSET)"""
    program = list(PROGRAM) + [b'%d %s="%s":END' % (n, v, lit) for n, v, lit in CODE_LINES]
    r = Runner(ctx, program)
    r.code_lits = {n: (v, lit) for n, v, lit in CODE_LINES}
    try:
        for op in READ_REGRESSION:
            if r.failed:
                break
            r.step(op, 'extended')
    finally:
        r.close()


def run(ctx):
    quick = ctx.quick
    n_sessions = 5 if quick else 10
    hist_len = 300 if quick else 3000
    n_hist = 9 if quick else 11
    for i in range(n_sessions):
        r, ops, line = modelled_session(ctx, n_hist, hist_len if i else 120, 'modelled')
        compare_model(ctx, r, ops, line, 'modelled')
        if i == 0:
            ctx.sample({'history_head': r.history[:12], 'tokens_head': r.impl_tokens[:12]})
        ctx.log('modelled session %d: %d statements' % (i, len(r.history)))
    for i in range(3 if quick else 8):
        r = extended_session(ctx, 7 if quick else 10, 200 if quick else 1500, 'extended')
        if i == 0:
            ctx.sample({'extended_history_head': r.history[:12]})
        ctx.log('extended session %d: %d statements' % (i, len(r.history)))
    read_regression(ctx)
    directed(ctx)


DIRECTED = [
    # D16: a collection with no permanent string, then an assignment
    [b'Y$="c"+STR$(FRE(""))', b'PRINT FRE("")'],
    # evaluation stack of a failed statement
    [b'A$=STRING$(200,"x")+(1+"y")', b'PRINT FRE("")', b'CLEAR', b'PRINT FRE("")'],
    # string function leaves its argument a root
    [b'A$=STRING$(100,"a")', b'B$=LEFT$(A$,0)', b'PRINT FRE("")', b'B$=MID$(A$+"y",200)', b'CLEAR', b'PRINT FRE("")'],
]


def directed(ctx):
    for hist in DIRECTED:
        s = basic.new_session()
        try:
            done = []
            for text in hist:
                done.append(text.decode('latin-1'))
                ctx.case(('directed', tuple(done)))
                try:
                    out = s.execute(text)
                except Exception as e:
                    ctx.fail('exception:directed:%s' % type(e).__name__,
                             {'label': 'directed', 'history': list(done)}, '%r raised %s: %s' % (text, type(e).__name__, e))
                    break
                if text == b'PRINT FRE("")':
                    m = s._impl.memory
                    want = (m.total_memory - m.stack_size - 2 - m.var_start()
                            - accounted(m, list(m.scalars), list(m.arrays)))
                    got = out.strip()
                    if got != b'%d' % want:
                        ctx.fail('fre-accounting', {'label': 'directed', 'history': list(done)},
                                 'PRINT FRE("") gave %r, accounting says %d' % (got, want))
        finally:
            s.close()


def replay(ctx, payload):
    """re-execute the recorded history against the implementation and the reference semantics"""
    case = payload.get('case', {})
    label = case.get('label')
    sub = _Sub(ctx)
    if label == 'directed' or 'ops' not in case:
        hist = [h.encode('latin-1') for h in case.get('history', [])]
        if not hist:
            return None
        global DIRECTED
        saved, DIRECTED = DIRECTED, [hist]
        try:
            directed(sub)
        finally:
            DIRECTED = saved
    else:
        program = None
        if label == 'extended':
            program = list(PROGRAM) + [b'%d %s="%s":END' % (n, v, lit) for n, v, lit in CODE_LINES]
        r = Runner(sub, program)
        r.code_lits = {n: (v, lit) for n, v, lit in CODE_LINES}
        try:
            for op in dec(case['ops']):
                if r.failed:
                    break
                r.step(op, label)
        finally:
            r.close()
    hits = [f for f in sub.failures if f['key'] == payload.get('key')] or sub.failures
    return hits[0]['what'] if hits else None


class _Sub(object):
    """context for replay: collects oracle failures, no model"""

    def __init__(self, ctx):
        self.rng = ctx.rng
        self.tier = ctx.tier
        self.quick = ctx.quick
        self.failures = []

    def model(self, lines):
        return None

    def fail(self, key, case, what):
        self.failures.append({'key': key, 'case': case, 'what': what})

    def disagree(self, *a):
        pass

    def count(self, *a, **k):
        pass

    def case(self, *a):
        pass

    def sample(self, *a, **k):
        pass

    def log(self, *a):
        pass
