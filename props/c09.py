"""C09 — String functions and statements match their reference definitions."""
import binascii
import math
import re
import shutil
import tempfile
import traceback
from fractions import Fraction

from vlib import basic

LEVEL = 'proof'
RULE = ('strings of boundary lengths (0,1,2,254,255,...) and random lengths over all byte values 0..255 (set with '
        'Session.set_variable), numeric arguments from a boundary set (-32769,-32768,-1,0,1,len-1,len,len+1,254..257,'
        '32767,32768,65536,1E10, halves and quarters that round) passed as %/!/# variables or literals; one case = '
        '(operation, argument values); non-trivial = at least one non-empty string or a non-zero number; every case runs '
        'in one long-lived Session (multi-step history: in-place chains on one target, scalar/array targets, '
        'temporaries, FRE("") leak probes, stored programs with string literals; LSET/RSET/MID$= between FIELD variables '
        'laid over one random-file record buffer by several FIELD statements: whole record, parts, shifted parts, '
        'aliases, expressions over overlapping fields)')
EXPLANATION = ('theorems (PcbV.Props.C09): LEFT$/RIGHT$/MID$/INSTR/STRING$/SPACE$/LEN/ASC/CHR$/+/comparisons/MID$=/LSET/RSET '
               'equal their reference definitions for all strings and all integer arguments, error sets are exactly the '
               'out-of-range sets; correspondence: every case is executed in a real Session (execute/get_variable) and '
               'compared with the compiled Lean model; oracle: Python bytes slicing/searching written from the statement')
TRUSTED_BASE = ['model PcbV.Model.Strings is a hand transcription of values.py StringFunctions/len_/asc_/chr_/space_, '
                'strings.py String.add/eq/gt/lset/midset and memory.py DataSegment.mid_/lset_/rset_',
                'rounding of a float argument to an integer (half away from zero) is computed by the harness with exact '
                'fractions; the conversion itself is property C03']
ASSUMPTIONS = ['numeric arguments outside -32768..32767 raise Overflow (documented GW-BASIC behaviour); "out-of-range" in the '
               'statement is read as: inside the integer range but outside the range the function accepts',
               'when several arguments are bad at once, any of the applicable errors is accepted by the oracle',
               'MID$ statement with length 0 accepts a position beyond the string length (documented exception), but '
               'not a position outside 1..255']

IFC, OVERFLOW, TYPE_MISMATCH, TOO_LONG = 5, 6, 13, 15


# ---------------------------------------------------------------------------------------------
# argument representation
#
# a value is ('s', bytes) or ('n', number, how) where number is a Python int or an exactly
# representable float and how says how it reaches BASIC: '%', '!', '#' variable or 'lit'

def hexs(b):
    return binascii.hexlify(bytes(b)).decode() or '-'


def rounded(x):
    """round half away from zero, exactly"""
    if isinstance(x, int):
        return x
    f = Fraction(x)
    r = math.floor(abs(f) + Fraction(1, 2))
    return r if f >= 0 else -r


def mval(v):
    """protocol word for the Lean model"""
    if v is None:
        return '-'
    if v[0] == 's':
        return 's:' + hexs(v[1])
    return 'n:%d' % rounded(v[1])


def literal(x):
    if isinstance(x, int):
        # a literal beyond the integer range is read as a float by the tokeniser: fine
        return b'%d' % x
    if x == int(x) and abs(x) >= 1e7:
        m, e = ('%E' % x).split('E')
        return ('%sE%d' % (m.rstrip('0').rstrip('.'), int(e))).encode()
    return repr(x).encode()


class Sess(object):
    """The real interpreter, driven through the public Session API."""

    def __init__(self, **kw):
        from pcbasic.basic.base import error
        self.msg = {v: k for k, v in error.BASICError.messages.items()}
        self.s = basic.new_session(**kw)
        self.nvar = 0
        self.s.execute(b'DIM T$(3)')

    def close(self):
        self.s.close()

    def run(self, cmd):
        """execute; 'ok' or 'err n' or 'exc …' / 'out …'"""
        try:
            out = self.s.execute(cmd)
        except Exception as e:   # a host exception escaping Session.execute is itself a failure
            return 'exc %s' % type(e).__name__
        if not out:
            return 'ok'
        text = re.sub(br' in \d+$', b'', out.replace(b'\xff', b'').strip())
        if text in self.msg:
            return 'err %d' % self.msg[text]
        return 'out %r' % out

    def arg(self, v, slot):
        """make the value available to BASIC; returns the expression text"""
        if v[0] == 's':
            name = b'%s$' % slot
            how = v[2] if len(v) > 2 else 'var'
            if how == 'lit':
                return b'"' + v[1] + b'"'
            self.s.set_variable(name, v[1])
            if how == 'tmp':
                return name + b'+""'
            if how == 'mid':
                return b'MID$(' + name + b',1)'
            return name
        x, how = v[1], v[2]
        if how == 'lit':
            return literal(x)
        name = b'%s%s' % (slot, how.encode())
        self.s.set_variable(name, x)
        return name

    def get_str(self, name):
        return bytes(self.s.get_variable(name))

    def fre(self):
        out = self.s.execute(b'PRINT FRE("")')
        try:
            return int(out.strip())
        except ValueError:
            return 'out %r' % out


class FieldSess(Sess):
    """A session with a private scratch drive, for random-access files and FIELD variables."""

    def __init__(self):
        self.tmp = tempfile.mkdtemp(prefix='pcbv_c09_')
        try:
            Sess.__init__(self, devices={'C': self.tmp}, current_device='C', max_reclen=255)
        except Exception:
            shutil.rmtree(self.tmp, ignore_errors=True)
            raise

    def close(self):
        try:
            self.run(b'CLOSE')
            self.s.close()
        finally:
            shutil.rmtree(self.tmp, ignore_errors=True)


# ---------------------------------------------------------------------------------------------
# independent oracle: written from the property statement with Python bytes operations.
# returns ('ok', value) or ('err', set of acceptable error numbers)

class SessionBroken(Exception):
    """a set-up step (plain assignment) failed in the implementation: the session history broke it"""


def o_num(v, errs, lo=None, hi=None):
    """integer value of a numeric argument; collects the applicable errors"""
    if v[0] == 's':
        errs.add(TYPE_MISMATCH)
        return None
    n = rounded(v[1])
    if not -32768 <= n <= 32767:
        errs.add(OVERFLOW)
        return None
    if lo is not None and not lo <= n <= hi:
        errs.add(IFC)
        return None
    return n


def o_str(v, errs):
    if v[0] != 's':
        errs.add(TYPE_MISMATCH)
        return None
    return v[1]


def fin(errs, value):
    if errs:
        return ('err', errs)
    if isinstance(value, bytes) and len(value) > 255:
        return ('err', {TOO_LONG})
    return ('ok', value)


def oracle(op, a):
    errs = set()
    if op == 'left':
        s, n = o_str(a[0], errs), o_num(a[1], errs, 0, 255)
        return fin(errs, None if errs else s[:n])
    if op == 'right':
        s, n = o_str(a[0], errs), o_num(a[1], errs, 0, 255)
        return fin(errs, None if errs else s[max(0, len(s) - n):])
    if op == 'mid':
        s, st = o_str(a[0], errs), o_num(a[1], errs, 1, 255)
        n = None if a[2] is None else o_num(a[2], errs, 0, 255)
        if errs:
            return fin(errs, None)
        rest = s[st - 1:]
        return fin(errs, rest if n is None else rest[:n])
    if op == 'instr':
        st = 1 if a[0] is None else o_num(a[0], errs, 1, 255)
        big, small = o_str(a[1], errs), o_str(a[2], errs)
        if errs:
            return fin(errs, None)
        for j in range(st, len(big) + 1):          # 1-based positions inside the string
            if big[j - 1:j - 1 + len(small)] == small:
                return ('ok', j)
        return ('ok', 0)
    if op == 'string':
        n = o_num(a[0], errs, 0, 255)
        if a[1][0] == 's':
            if a[1][1] == b'':
                errs.add(IFC)
            ch = a[1][1][:1]
        else:
            c = o_num(a[1], errs, 0, 255)
            ch = None if c is None else bytes([c])
        return fin(errs, None if errs else b''.join(ch for _ in range(n)))
    if op == 'space':
        n = o_num(a[0], errs, 0, 255)
        return fin(errs, None if errs else b' ' * n)
    if op == 'len':
        s = o_str(a[0], errs)
        return fin(errs, None if errs else len(s))
    if op == 'asc':
        s = o_str(a[0], errs)
        if s == b'':
            errs.add(IFC)
        return fin(errs, None if errs else s[0])
    if op == 'chr':
        n = o_num(a[0], errs, 0, 255)
        return fin(errs, None if errs else bytes([n]))
    if op == 'add':
        x, y = o_str(a[0], errs), o_str(a[1], errs)
        return fin(errs, None if errs else x + y)
    if op.startswith('cmp:'):
        x, y = o_str(a[0], errs), o_str(a[1], errs)
        if errs:
            return fin(errs, None)
        # byte-wise lexicographic, shorter prefix first: the order of Python tuples of ints
        tx, ty = tuple(x), tuple(y)
        r = {'eq': tx == ty, 'neq': tx != ty, 'gt': tx > ty, 'gte': tx >= ty, 'lte': tx <= ty, 'lt': tx < ty}[op[4:]]
        return ('ok', 1 if r else 0)
    if op in ('lset', 'rset'):
        t, s = o_str(a[0], errs), o_str(a[1], errs)
        if errs:
            return fin(errs, None)
        s = s[:len(t)]
        pad = b' ' * (len(t) - len(s))
        return ('ok', s + pad if op == 'lset' else pad + s)
    if op == 'midset':
        t = a[0][1]
        st = o_num(a[1], errs, 1, 255)
        n = 255 if a[2] is None else o_num(a[2], errs, 0, 255)
        v = t if a[3] == 'same' else o_str(a[3], errs)
        if st is not None and n is not None and n > 0 and st > len(t):
            errs.add(IFC)
        if errs:
            return fin(errs, None)
        k = min(n, len(v), len(t) - (st - 1))
        if k <= 0:
            return ('ok', t)
        if a[3] == 'same':
            r = bytearray(t)
            for i in range(k):       # GW-BASIC copies byte by byte, left to right, within the one buffer
                r[st - 1 + i] = r[i]
            return ('ok', bytes(r))
        return ('ok', t[:st - 1] + v[:k] + t[st - 1 + k:])
    raise ValueError(op)


# ---------------------------------------------------------------------------------------------
# executing one case on the implementation

RESULT_IS_STR = {'left', 'right', 'mid', 'string', 'space', 'chr', 'add'}


def protocol_line(op, a):
    if op == 'instr':
        st = '-' if a[0] is None else '%d' % rounded(a[0][1])
        return 'instr %s %s %s' % (st, mval(a[1]), mval(a[2]))
    if op.startswith('cmp:'):
        return 'cmp %s %s %s' % (op[4:], mval(a[0]), mval(a[1]))
    if op == 'midset':
        return 'midset %s %s %s %s' % (hexs(a[0][1]), mval(a[1]), mval(a[2]),
                                       'same' if a[3] == 'same' else mval(a[3]))
    return ' '.join([op] + [mval(x) for x in a])


CMP_SYM = {'eq': b'=', 'neq': b'<>', 'gt': b'>', 'gte': b'>=', 'lte': b'<=', 'lt': b'<'}


def impl_case(se, op, a, target=b'T$'):
    """Run one case; returns (canonical result string, extra) where extra holds in-place side observations."""
    x = se.arg
    extra = {}
    if op in ('lset', 'rset', 'midset'):
        tv = a[0]
        if tv[0] == 's':
            tname = target
            if b'(' in target:
                se.s.execute(b'T$(1)=""')
                se.s.set_variable(b'Q$', tv[1])
                # an array element cannot be set through the API one by one: assign it from a variable
                st = se.run(b'T$(1)=Q$')
                if st != 'ok':
                    raise SessionBroken('preparing the array target with T$(1)=Q$ gave %s' % st)
            else:
                se.s.set_variable(tname, tv[1])
        else:
            tname = b'N%'
            se.s.set_variable(tname, 0)
        if op == 'midset':
            rhs = tname if a[3] == 'same' else x(a[3], b'B')
            args = [x(a[1], b'I')] + ([x(a[2], b'J')] if a[2] is not None else [])
            cmd = b'MID$(' + tname + b',' + b','.join(args) + b')=' + rhs
        else:
            cmd = op.upper().encode() + b' ' + tname + b'=' + x(a[1], b'B')
        st = se.run(cmd)
        if tv[0] == 's':
            now = bytes(se.s.get_variable(b'T$()')[1]) if b'(' in target else se.get_str(tname)
            extra['target_after'] = now
        else:
            now = b''
        return (('ok ' + hexs(now)) if st == 'ok' else st), extra
    if op == 'left':
        expr = b'LEFT$(' + x(a[0], b'A') + b',' + x(a[1], b'I') + b')'
    elif op == 'right':
        expr = b'RIGHT$(' + x(a[0], b'A') + b',' + x(a[1], b'I') + b')'
    elif op == 'mid':
        expr = b'MID$(' + x(a[0], b'A') + b',' + x(a[1], b'I') + (b',' + x(a[2], b'J') if a[2] is not None else b'') + b')'
    elif op == 'instr':
        expr = b'INSTR(' + (x(a[0], b'I') + b',' if a[0] is not None else b'') + x(a[1], b'A') + b',' + x(a[2], b'B') + b')'
    elif op == 'string':
        expr = b'STRING$(' + x(a[0], b'I') + b',' + x(a[1], b'J' if a[1][0] == 'n' else b'A') + b')'
    elif op == 'space':
        expr = b'SPACE$(' + x(a[0], b'I') + b')'
    elif op == 'len':
        expr = b'LEN(' + x(a[0], b'A' if a[0][0] == 's' else b'I') + b')'
    elif op == 'asc':
        expr = b'ASC(' + x(a[0], b'A' if a[0][0] == 's' else b'I') + b')'
    elif op == 'chr':
        expr = b'CHR$(' + x(a[0], b'I' if a[0][0] == 'n' else b'A') + b')'
    elif op == 'add':
        expr = x(a[0], b'A' if a[0][0] == 's' else b'I') + b'+' + x(a[1], b'B' if a[1][0] == 's' else b'J')
    elif op.startswith('cmp:'):
        expr = b'(' + x(a[0], b'A' if a[0][0] == 's' else b'I') + CMP_SYM[op[4:]] + \
               x(a[1], b'B' if a[1][0] == 's' else b'J') + b')'
    else:
        raise ValueError(op)
    if op in RESULT_IS_STR:
        se.s.set_variable(b'R$', b'?')
        st = se.run(b'R$=' + expr)
        if st != 'ok':
            return st, extra
        return 'ok ' + hexs(se.get_str(b'R$')), extra
    se.s.set_variable(b'R%', -7)
    st = se.run(b'R%=' + expr)
    if st != 'ok':
        return st, extra
    r = se.s.get_variable(b'R%')
    if op.startswith('cmp:'):
        return ('ok 1' if r == -1 else 'ok 0' if r == 0 else 'val %r' % r), extra
    return 'ok %d' % r, extra


def judge(ctx, op, a, out, extra, where='direct'):
    """oracle check of one implementation result"""
    exp = oracle(op, a)
    if exp[0] == 'ok':
        want = 'ok ' + (hexs(exp[1]) if isinstance(exp[1], bytes) else '%d' % exp[1])
        ok = out == want
    else:
        want = 'err one of %s' % sorted(exp[1])
        ok = out.startswith('err ') and int(out.split()[1]) in exp[1]
        if ok:
            ctx.count('err:%s' % out.split()[1])
    what = None
    if not ok:
        what = 'expected %s, implementation gave %s' % (want, out)
    elif op in ('lset', 'rset', 'midset') and a[0][0] == 's':
        after = extra.get('target_after')
        if after is not None:
            if len(after) != len(a[0][1]):
                what = 'target length changed from %d to %d' % (len(a[0][1]), len(after))
            elif exp[0] == 'err' and after != a[0][1]:
                what = 'statement raised an error but modified the target'
    if what:
        ctx.fail(fail_key(op, a, out), {'op': op, 'args': enc_args(a), 'where': where}, '%s %s: %s' % (op, show_args(a), what))
    return ok


def fail_key(op, a, out):
    if op == 'string' and a[1][0] == 's' and a[1][1] == b'':
        return 'string:empty-char'
    if op == 'midset' and a[2] is not None and a[2][0] == 'n' and rounded(a[2][1]) == 0 and a[1][0] == 'n' \
            and not 1 <= rounded(a[1][1]) <= 255 and out.startswith('ok'):
        return 'midset:len0-position-unchecked'
    parts = [op]
    for v in a:
        if v is None or v == 'same':
            parts.append(str(v))
        elif v[0] == 's':
            parts.append('s%d' % len(v[1]))
        else:
            parts.append('n%s' % rounded(v[1]))
    return ':'.join(parts) + ':' + out.split()[0]


def enc_args(a):
    res = []
    for v in a:
        if v is None or v == 'same':
            res.append(v)
        elif v[0] == 's':
            res.append(['s', hexs(v[1])] + list(v[2:]))
        else:
            res.append(['n', v[1], v[2]])
    return res


def dec_args(a):
    res = []
    for v in a:
        if v is None or v == 'same':
            res.append(v)
        elif v[0] == 's':
            res.append(tuple(['s', b'' if v[1] == '-' else binascii.unhexlify(v[1])] + v[2:]))
        else:
            res.append(('n', v[1], v[2]))
    return res


def show_args(a):
    res = []
    for v in a:
        if v is None or v == 'same':
            res.append(str(v))
        elif v[0] == 's':
            res.append('<%d bytes %s%s>' % (len(v[1]), hexs(v[1][:8]), '..' if len(v[1]) > 8 else ''))
        else:
            res.append('%r%s' % (v[1], v[2]))
    return '(' + ', '.join(res) + ')'


# ---------------------------------------------------------------------------------------------
# generators

LENGTHS = [0, 1, 2, 3, 7, 8, 16, 127, 128, 200, 253, 254, 255]


def gen_bytes(rng, n, alphabet=None):
    if alphabet is None:
        k = rng.random()
        if k < 0.5:
            alphabet = None
        elif k < 0.7:
            alphabet = bytes(rng.sample(range(256), 2))
        elif k < 0.8:
            alphabet = b'\x00\xff\x7f\x80 "'
        else:
            alphabet = bytes(rng.sample(range(256), 4))
    if alphabet is None:
        return bytes(rng.randrange(256) for _ in range(n))
    return bytes(rng.choice(alphabet) for _ in range(n))


def gen_len(rng):
    return rng.choice(LENGTHS) if rng.random() < 0.6 else rng.randrange(256)


def gen_str(rng, how=None):
    b = gen_bytes(rng, gen_len(rng))
    if how is None:
        how = rng.choice(['var', 'var', 'var', 'tmp', 'mid'])
    return ('s', b, how)


def num_how(rng, x):
    if isinstance(x, int) and -32768 <= x <= 32767:
        return rng.choice(['%', '%', '!', '#', 'lit'])
    return rng.choice(['!', '#', 'lit'])


def gen_num(rng, n=0):
    """a numeric argument around the boundaries; n = relevant string length"""
    k = rng.random()
    if k < 0.55:
        x = rng.choice([-32769, -32768, -256, -2, -1, 0, 0, 1, 1, 2, 3, n - 1, n, n, n + 1, n + 2, 127, 128, 253, 254, 255, 255,
                        256, 257, 1000, 32767, 32768, 40000, 65535, 65536])
    elif k < 0.75:
        x = rng.choice([-0.75, -0.5, -0.25, 0.25, 0.5, 0.75, 1.25, 1.5, 2.5, n - 0.5, n + 0.25, n + 0.5, 254.5, 255.25,
                        255.5, 256.5, 32767.25, 32767.5, -32768.25, -32768.5, -32768.75, 1e10, -1e10, 1e30])
    elif k < 0.95:
        x = rng.randrange(0, 258)
    else:
        x = rng.randrange(-70000, 70000)
    if isinstance(x, float) and x == int(x) and abs(x) < 1e6:
        x = int(x)
    return ('n', x, num_how(rng, x))


ALL_CMPS = ['eq', 'neq', 'gt', 'gte', 'lte', 'lt']


def gen_case(rng):
    op = rng.choice(['left', 'right', 'mid', 'mid', 'instr', 'instr', 'string', 'space', 'len', 'asc', 'chr', 'add',
                     'cmp', 'cmp', 'lset', 'rset', 'midset', 'midset'])
    wrong = rng.random() < 0.04      # a type error somewhere
    if op in ('left', 'right'):
        s = gen_str(rng)
        a = [s, gen_num(rng, len(s[1]))]
        if wrong:
            a[rng.randrange(2)] = rng.choice([gen_num(rng), gen_str(rng, 'var')])
    elif op == 'mid':
        s = gen_str(rng)
        a = [s, gen_num(rng, len(s[1])), None if rng.random() < 0.3 else gen_num(rng, len(s[1]))]
        if wrong:
            i = rng.randrange(3)
            a[i] = rng.choice([gen_num(rng), gen_str(rng, 'var')]) if a[i] is not None else None
    elif op == 'instr':
        big = gen_str(rng)
        b = big[1]
        k = rng.random()
        if k < 0.45 and b:
            i = rng.randrange(len(b))
            small = b[i:i + rng.choice([1, 1, 2, 3, 5, len(b)])]
            if rng.random() < 0.3 and small:
                small = small[:-1] + bytes([(small[-1] + 1) % 256])
        elif k < 0.6:
            small = b''
        elif k < 0.7:
            small = (b + b'x')[-255:]
        else:
            small = gen_bytes(rng, rng.choice([1, 1, 2, 3]), alphabet=bytes(set(b)) or None)
        st = None if rng.random() < 0.3 else gen_num(rng, len(b))
        a = [st, big, ('s', small, rng.choice(['var', 'tmp']))]
        if wrong:
            # (a numeric first argument would select the three-argument syntax)
            a[2 if st is None else rng.choice([1, 2])] = gen_num(rng)
    elif op == 'string':
        c = rng.random()
        if c < 0.5:
            ch = gen_num(rng, 0)
        elif c < 0.6:
            ch = ('s', b'', 'var')
        else:
            ch = ('s', gen_bytes(rng, rng.choice([1, 1, 2, 255])), 'var')
        a = [gen_num(rng, 0), ch]
        if wrong:
            a[0] = gen_str(rng, 'var')
    elif op in ('space', 'chr'):
        a = [gen_num(rng, 0) if not wrong else gen_str(rng, 'var')]
    elif op in ('len', 'asc'):
        a = [gen_str(rng) if not wrong else gen_num(rng)]
    elif op == 'add':
        x = gen_str(rng)
        k = rng.random()
        if k < 0.5:
            ylen = max(0, min(255, 255 - len(x[1]) + rng.choice([-2, -1, 0, 0, 1, 1, 2])))
        else:
            ylen = gen_len(rng)
        a = [x, ('s', gen_bytes(rng, ylen), rng.choice(['var', 'tmp']))]
        if wrong:
            a[rng.randrange(2)] = gen_num(rng)
    elif op == 'cmp':
        op = 'cmp:' + rng.choice(ALL_CMPS)
        x = gen_bytes(rng, gen_len(rng))
        k = rng.random()
        if k < 0.15:
            y = x
        elif k < 0.3:
            y = x[:rng.randrange(len(x) + 1)]
        elif k < 0.45:
            y = (x + gen_bytes(rng, rng.choice([1, 2, 10])))[:255]
        elif k < 0.75 and x:
            i = rng.randrange(len(x))
            d = rng.choice([x[i] ^ 0x80, (x[i] + 1) % 256, (x[i] - 1) % 256, 0, 255, rng.randrange(256)])
            y = x[:i] + bytes([d]) + (x[i + 1:] if rng.random() < 0.5 else gen_bytes(rng, rng.randrange(4)))
            y = y[:255]
        else:
            y = gen_bytes(rng, gen_len(rng))
        if rng.random() < 0.5:
            x, y = y, x
        a = [('s', x, rng.choice(['var', 'tmp'])), ('s', y, rng.choice(['var', 'tmp']))]
        if wrong:
            a[rng.randrange(2)] = gen_num(rng)
    elif op in ('lset', 'rset'):
        t = ('s', gen_bytes(rng, gen_len(rng)))
        k = rng.random()
        n = len(t[1])
        slen = max(0, min(255, n + rng.choice([-2, -1, 0, 1, 2]))) if k < 0.5 else gen_len(rng)
        a = [t, ('s', gen_bytes(rng, slen), rng.choice(['var', 'tmp', 'mid']))]
        if wrong:
            a[rng.randrange(2)] = gen_num(rng)
    else:  # midset
        t = ('s', gen_bytes(rng, gen_len(rng)))
        n = len(t[1])
        st = gen_num(rng, n)
        if rng.random() < 0.5 and n:
            st = ('n', rng.randrange(1, n + 1), '%')
        num = None if rng.random() < 0.3 else gen_num(rng, n)
        if rng.random() < 0.15:
            num = ('n', 0, rng.choice(['%', 'lit']))
        val = 'same' if rng.random() < 0.3 else ('s', gen_bytes(rng, gen_len(rng)), rng.choice(['var', 'tmp']))
        a = [t, st, num, val]
        if wrong:
            a[rng.choice([1, 3])] = rng.choice([gen_str(rng, 'var'), gen_num(rng)])
    return op, a


def boundary_cases(quick=False):
    """deterministic grid: boundary lengths x boundary arguments for every function"""
    cases = []
    strs = [b'', b'\x00', b'\xff', b'ab', bytes(range(254)), bytes(range(1, 256)), b'\x00' * 255,
            bytes((i * 7) % 256 for i in range(255)), b' ' * 3, b'a"b']
    for s in strs:
        n = len(s)
        nums = sorted(set([-32769, -32768, -1, 0, 1, 2, n - 1, n, n + 1, 254, 255, 256, 32767, 32768]))
        S = ('s', s, 'var')
        for x in nums:
            how = '%' if -32768 <= x <= 32767 else '!'
            N = ('n', x, how)
            cases.append(('left', [S, N]))
            cases.append(('right', [S, N]))
            cases.append(('mid', [S, N, None]))
            cases.append(('instr', [N, S, ('s', s[-1:], 'var')]))
            cases.append(('instr', [N, S, ('s', b'', 'var')]))
            cases.append(('midset', [('s', s), N, None, ('s', b'XYZ', 'var')]))
            cases.append(('midset', [('s', s), N, ('n', 0, '%'), ('s', b'XYZ', 'var')]))
            cases.append(('midset', [('s', s), N, None, 'same']))
            for y in ((0, 255, 256) if quick else (0, 1, n, 255, 256, -1)):
                M = ('n', y, '%')
                cases.append(('mid', [S, N, M]))
                cases.append(('midset', [('s', s), N, M, ('s', b'pq', 'var')]))
                cases.append(('midset', [('s', s), N, M, 'same']))
        for x in (0.5, 1.5, 2.5, n + 0.5, n - 0.5, 255.5, 255.25, -0.5, -0.25, 32767.5, 32767.25, -32768.5, -32768.25):
            for how in (('!', 'lit') if quick else ('!', '#', 'lit')):
                N = ('n', x, how)
                cases.append(('left', [S, N]))
                cases.append(('right', [S, N]))
                cases.append(('mid', [S, N, N]))
        cases.append(('len', [S]))
        cases.append(('asc', [S]))
        for t in strs:
            T = ('s', t, 'var')
            cases.append(('add', [S, T]))
            for c in ALL_CMPS:
                cases.append(('cmp:' + c, [S, T]))
            cases.append(('lset', [('s', s), T]))
            cases.append(('rset', [('s', s), T]))
            cases.append(('instr', [None, S, T]))
            cases.append(('midset', [('s', s), ('n', 1, '%'), None, T]))
    for x in list(range(-2, 259)) + [32767, 32768, -32768, -32769]:
        how = '%' if -32768 <= x <= 32767 else '!'
        N = ('n', x, how)
        cases.append(('chr', [N]))
        cases.append(('space', [N]))
        cases.append(('string', [N, ('n', 65, '%')]))
        cases.append(('string', [('n', 3, '%'), N]))
        cases.append(('string', [N, ('s', b'\x00z', 'var')]))
    for n in (0, 1, 255, 256):
        cases.append(('string', [('n', n, '%'), ('s', b'', 'var')]))
    return cases


# ---------------------------------------------------------------------------------------------
# multi-step histories

def chain_history(ctx, se, steps, target):
    """A chain of in-place statements on ONE target that is never reset: the expected value is carried
    along by the oracle; LEN must stay constant; the model is compared step by step."""
    rng = ctx.rng
    cur = gen_bytes(rng, rng.choice([1, 2, 8, 16, 200, 254, 255]))
    n0 = len(cur)
    tname = target
    if b'(' in target:
        se.s.set_variable(b'Q$', cur)
        se.run(b'T$(1)=Q$')
    else:
        se.s.set_variable(tname, cur)
    cases, outs, lines = [], [], []
    for i in range(steps):
        k = rng.random()
        if k < 0.5:
            st = ('n', rng.choice([1, 1, 2, n0, n0 + 1, 0, rng.randrange(1, n0 + 1)]), rng.choice(['%', 'lit', '!']))
            num = None if rng.random() < 0.4 else ('n', rng.choice([0, 1, 2, n0, 255, 256, rng.randrange(0, 256)]), '%')
            val = 'same' if rng.random() < 0.4 else ('s', gen_bytes(rng, rng.choice([0, 1, 3, n0, 255])), rng.choice(['var', 'tmp']))
            op, a = 'midset', [('s', cur), st, num, val]
            rhs = tname if val == 'same' else se.arg(val, b'B')
            args = [se.arg(st, b'I')] + ([se.arg(num, b'J')] if num is not None else [])
            cmd = b'MID$(' + tname + b',' + b','.join(args) + b')=' + rhs
        else:
            op = rng.choice(['lset', 'rset'])
            val = ('s', gen_bytes(rng, rng.choice([0, 1, n0 - 1, n0, n0 + 1, 255]) % 256), rng.choice(['var', 'tmp']))
            a = [('s', cur), val]
            cmd = op.upper().encode() + b' ' + tname + b'=' + se.arg(val, b'B')
        st_ = se.run(cmd)
        now = bytes(se.s.get_variable(b'T$()')[1]) if b'(' in target else se.get_str(tname)
        out = ('ok ' + hexs(now)) if st_ == 'ok' else st_
        ctx.case(('chain', op, i, hexs(cur)[:16], len(cur)))
        ctx.count('chain:' + op)
        judge(ctx, op, a, out, {'target_after': now}, where='chain')
        cases.append((op, show_args(a)))
        outs.append(out)
        lines.append(protocol_line(op, a))
        lenout = se.run(b'R%=LEN(' + tname + b')')
        if lenout != 'ok' or se.s.get_variable(b'R%') != n0:
            ctx.fail('chain:length', {'op': op, 'args': enc_args(a), 'where': 'chain'},
                     'LEN of the target changed from %d after %s' % (n0, op))
        exp = oracle(op, a)
        if exp[0] == 'ok' and out.startswith('ok'):
            cur = now
    ctx.compare(cases, outs, lines, label='chain')


LEAK_PROBES = [
    ('left:zero', b'R$=LEFT$(A$,0)'),
    ('right:zero', b'R$=RIGHT$(A$,0)'),
    ('mid:beyond', b'R$=MID$(A$,255+Z%)'),
    ('mid:zero', b'R$=MID$(A$,1,0)'),
    ('instr:notfound', b'R%=INSTR(A$,B$)'),
    ('instr:beyond', b'R%=INSTR(255,A$,B$)'),
    ('left:error', b'R$=LEFT$(A$,-1)'),
    ('mid:error', b'R$=MID$(A$,0)'),
    ('instr:typeerror', b'R%=INSTR(A$,5)'),
    ('left:found', b'R$=LEFT$(A$,3):R$=""'),
    ('string:char', b'R$=STRING$(3,A$):R$=""'),
]


def leak_history(ctx, se, reps):
    """Repeating a call that returns early (or fails) must not consume string space: FRE("") after the
    repetitions equals FRE("") before (BASIC-visible; a leak of garbage-collection roots shows up here)."""
    se.s.set_variable(b'A$', bytes((i * 3 + 1) % 256 for i in range(250)))
    se.s.set_variable(b'B$', b'\x01\x01\x01')
    se.s.set_variable(b'R$', b'')
    se.s.set_variable(b'Z%', 0)
    for name, cmd in LEAK_PROBES:
        se.run(b'R$="":R%=0')
        f0 = se.fre()
        for _ in range(reps):
            se.run(cmd)
        se.run(b'R$="":R%=0')
        f1 = se.fre()
        ctx.case(('leak', name))
        ctx.count('leak-probe')
        if f0 != f1 or not isinstance(f0, int):
            ctx.fail('leak:' + name, {'probe': name, 'cmd': cmd.decode('latin-1'), 'reps': reps, 'where': 'leak'},
                     'FRE("") went from %s to %s after %d x %s' % (f0, f1, reps, cmd.decode('latin-1')))
        # and the functions still work afterwards
        out, extra = impl_case(se, 'mid', [('s', b'abcdef', 'var'), ('n', 2, '%'), ('n', 3, '%')])
        if out != 'ok 626364':
            ctx.fail('leak-after:' + name, {'probe': name, 'where': 'leak'}, 'MID$("abcdef",2,3) gave %s after the probe' % out)


def printable(rng, n):
    alphabet = b'abcXYZ 019#,;:'
    return bytes(rng.choice(alphabet) for _ in range(n))


def program_history(ctx, se, nprog):
    """Stored programs: targets and sources are string literals inside the program text (pointers into code),
    in-place statements must copy before modifying and never alter the program; overlapping MID$."""
    rng = ctx.rng
    for _ in range(nprog):
        t = printable(rng, rng.choice([1, 5, 8, 30, 100]))
        v = printable(rng, rng.choice([0, 1, 3, 8, 40]))
        st = rng.choice([1, 2, len(t), len(t) + 1, rng.randrange(1, len(t) + 1)])
        num = rng.choice([None, 0, 1, 3, 255])
        same = rng.random() < 0.4
        kind = rng.choice(['midset', 'lset', 'rset'])
        prog = [b'10 T$="' + t + b'":V$="' + v + b'"']
        if kind == 'midset':
            a = [('s', t), ('n', st, 'lit'), None if num is None else ('n', num, 'lit'), 'same' if same else ('s', v)]
            prog.append(b'20 MID$(T$,%d%s)=%s' % (st, b'' if num is None else b',%d' % num, b'T$' if same else b'V$'))
        else:
            a = [('s', t), ('s', v)]
            prog.append(b'20 %s T$=V$' % kind.upper().encode())
        prog.append(b'30 U$=T$:W$=V$')
        se.s.execute(b'NEW')
        for l in prog:
            se.s.execute(l)
        outs = []
        for rep in range(2):     # running twice shows that the literal in the program text was not modified
            st_ = se.run(b'RUN')
            now = se.get_str(b'U$') if st_ == 'ok' else None
            outs.append(('ok ' + hexs(now)) if st_ == 'ok' else st_)
        out = outs[0]
        ctx.case(('prog', kind, hexs(t)[:12], st, num, same))
        ctx.count('prog:' + kind)
        judge(ctx, kind, a, out, {}, where='program')
        if outs[0] != outs[1]:
            ctx.fail('prog:rerun-differs', {'prog': [l.decode('latin-1') for l in prog], 'where': 'program'},
                     'second RUN gave %s, first %s' % (outs[1], outs[0]))
        ctx.compare([(kind, show_args(a))], [out], [protocol_line(kind, a)], label='program')
    se.s.execute(b'NEW')
    se.s.execute(b'DIM T$(3)')



# ---------------------------------------------------------------------------------------------
# in-place statements whose source and target OVERLAP in memory: FIELD variables laid over one
# random-file record buffer by several FIELD statements (whole record / parts / shifted parts / aliases).
# Reference semantics (statement: "return the values of their reference definitions"): the VALUE of the
# source expression is taken before anything is written; the target window receives the reference result
# for that value, every other byte of the record is untouched.  Only a source that IS the target string
# (same extent: MID$(A$,..)=A$ or an alias FIELDed over exactly the same bytes) copies byte by byte.

def gen_layout(rng, L):
    """FIELD statements over a record of L bytes -> (list of statements, {name: (offset, length)})"""
    tab = {b'R$': (0, L)}
    stmts = [b'FIELD #1,%d AS R$' % L]
    widths_seen = []
    for li in range(rng.choice([2, 3, 3, 4])):
        kind = rng.choice(['equal', 'shift', 'random', 'random', 'alias'])
        if kind == 'alias' and widths_seen:
            widths = list(rng.choice(widths_seen))
        elif kind == 'equal':
            n = rng.choice([2, 3, 4])
            widths = [L // n] * n
        elif kind == 'shift':
            first = rng.randrange(1, max(2, L // 3 + 1))
            w = rng.choice([1, 2, max(1, L // 4), max(1, L // 3)])
            widths = [first]
            while sum(widths) + w <= L and len(widths) < 5:
                widths.append(w)
        else:
            widths, left = [], L
            while left > 0 and len(widths) < 5:
                w = rng.choice([0, 1, 1, 2, 3, max(1, left // 2), left, rng.randrange(1, left + 1)])
                w = min(w, left, 255)
                widths.append(w)
                left -= w
        widths = [w for w in widths if w <= 255]
        if not widths:
            continue
        widths_seen.append(widths)
        off, parts = 0, []
        for fi, w in enumerate(widths):
            name = b'%c%d$' % (b'ABCD'[li], fi)
            tab[name] = (off, w)
            parts.append(b'%d AS %s' % (w, name))
            off += w
        stmts.append(b'FIELD #1,' + b','.join(parts))
    return stmts, tab


def src_value(src, rec, tab):
    """value of a source expression for the record content `rec` (a snapshot)"""
    def fld(n):
        off, ln = tab[n]
        return rec[off:off + ln]
    if src[0] == 'f':
        return fld(src[1])
    if src[0] == 'tmp':
        return fld(src[1])
    if src[0] == 'cat':
        return fld(src[1]) + fld(src[2])
    if src[0] == 'midf':
        return fld(src[1])[src[2] - 1:]
    return src[1]   # ('var', bytes)


def src_fields(src):
    """names of the FIELD variables a source expression reads"""
    return [] if src[0] == 'var' else [n for n in src[1:] if isinstance(n, bytes)]


def src_text(src):
    if src[0] == 'f':
        return src[1]
    if src[0] == 'tmp':
        return src[1] + b'+""'
    if src[0] == 'cat':
        return src[1] + b'+' + src[2]
    if src[0] == 'midf':
        return b'MID$(' + src[1] + b',%d)' % src[2]
    return b'V$'


def gen_src(rng, tab, names):
    k = rng.random()
    if k < 0.55:
        return ('f', rng.choice(names))
    if k < 0.65:
        return ('tmp', rng.choice(names))
    if k < 0.8:
        a, b = rng.choice(names), rng.choice(names)
        if tab[a][1] + tab[b][1] <= 255:
            return ('cat', a, b)
        return ('f', a)
    if k < 0.9:
        a = rng.choice(names)
        return ('midf', a, rng.randrange(1, min(255, tab[a][1] + 1) + 1))
    return ('var', gen_bytes(rng, rng.choice([0, 1, 2, 5, 16, 255])))


def field_step(ctx, se, L, stmts, tab, rec, op, tname, src, st, num, sink=None):
    """Fill the record with `rec`, run one in-place statement, compare the whole record with the reference.
    Returns the record content afterwards (as the implementation has it)."""
    se.s.set_variable(b'V$', rec)
    if se.run(b'LSET R$=V$') != 'ok' or se.get_str(b'R$') != rec:
        raise SessionBroken('filling the record buffer with LSET R$=V$ failed')
    if src[0] == 'var':
        se.s.set_variable(b'V$', src[1])
    toff, tlen = tab[tname]
    tval = rec[toff:toff + tlen]
    sval = src_value(src, rec, tab)
    same = src[0] == 'f' and tab[src[1]] == tab[tname]
    if op == 'midset':
        a = [('s', tval), ('n', st, 'lit'), None if num is None else ('n', num, 'lit'), 'same' if same else ('s', sval)]
        cmd = b'MID$(' + tname + b',%d' % st + (b'' if num is None else b',%d' % num) + b')=' + src_text(src)
    else:
        a = [('s', tval), ('s', sval)]
        cmd = op.upper().encode() + b' ' + tname + b'=' + src_text(src)
    status = se.run(cmd)
    now = se.get_str(b'R$')
    window = now[toff:toff + tlen]
    out = ('ok ' + hexs(window)) if status == 'ok' else status
    exp = oracle(op, a)
    exp_rec = rec[:toff] + exp[1] + rec[toff + tlen:] if exp[0] == 'ok' else rec
    tnow = se.get_str(tname)
    what = None
    if exp[0] == 'ok' and status != 'ok':
        what = 'statement failed with %s' % status
    elif exp[0] == 'err' and not (status.startswith('err ') and int(status.split()[1]) in exp[1]):
        what = 'expected error %s, got %s' % (sorted(exp[1]), status)
    elif now != exp_rec:
        what = 'record is %r, expected %r' % (now, exp_rec)
    elif len(now) != L or tnow != window:
        what = 'target variable reads %r but its bytes in the record are %r (record length %d)' % (tnow, window, len(now))
    sf = src_fields(src)
    rel = ('same-extent' if sf and all(tab[n] == tab[tname] for n in sf) else
           'overlap' if any(tab[n][0] < toff + tlen and toff < tab[n][0] + tab[n][1] for n in sf) else
           'disjoint')
    ctx.case(('field', op, L, tab[tname], src[0], tuple(tab[n] for n in sf), st, num, hexs(rec)[:8]))
    ctx.count('field:' + op)
    ctx.count('field-src:' + rel)
    if what:
        key = 'field:%s:%s:target%d+%d:source-%s%s' % (
            op, rel, toff, tlen, src[0],
            ''.join(':%d+%d' % tab[n] for n in sf))
        ctx.fail(key, {'where': 'field', 'L': L, 'fields': [x.decode('latin-1') for x in stmts], 'record': hexs(rec),
                       'var': hexs(src[1]) if src[0] == 'var' else None, 'cmd': cmd.decode('latin-1'),
                       'expected_record': hexs(exp_rec), 'expected': 'ok' if exp[0] == 'ok' else sorted(exp[1])},
                 '%s with record %r (%s): %s' % (cmd.decode('latin-1'), rec, '; '.join(x.decode('latin-1') for x in stmts), what))
    if sink is not None:
        sink[0].append((op, cmd.decode('latin-1')))
        if src[0] == 'f' and len(now) == L:
            # model of the record buffer with two windows: the WHOLE record is compared
            soff, slen = tab[src[1]]
            sink[1].append(('ok ' + hexs(now)) if status == 'ok' else status)
            if op == 'midset':
                sink[2].append('fmid %s %d %d %d %d %s %s' % (hexs(rec), toff, tlen, soff, slen, mval(a[1]), mval(a[2])))
            else:
                sink[2].append('flset %s %d %d %d %d %s' % (hexs(rec), toff, tlen, soff, slen, op[0]))
        else:
            sink[1].append(out)
            sink[2].append(protocol_line(op, a))
    return now


def open_layout(se, L, stmts):
    se.run(b'CLOSE')
    for cmd in [b'OPEN "R",#1,"F.DAT",%d' % L] + list(stmts):
        st = se.run(cmd)
        if st != 'ok':
            raise SessionBroken('%s gave %s' % (cmd.decode('latin-1'), st))


def field_history(ctx, se, nlayouts, npairs, nsteps):
    rng = ctx.rng
    for _ in range(nlayouts):
        L = rng.choice([1, 2, 3, 4, 8, 8, 12, 16, 16, 33, 64, 128, 254, 255])
        stmts, tab = gen_layout(rng, L)
        open_layout(se, L, stmts)
        names = sorted(tab)
        sink = ([], [], [])
        # every kind of statement between pairs of overlaid variables, fresh record each time
        pairs = [(t_, s_) for t_ in names for s_ in names]
        rng.shuffle(pairs)
        for t_, s_ in pairs[:npairs]:
            rec = gen_bytes(rng, L)
            for op in ('lset', 'rset'):
                field_step(ctx, se, L, stmts, tab, rec, op, t_, ('f', s_), None, None, sink)
            tl = tab[t_][1]
            field_step(ctx, se, L, stmts, tab, rec, 'midset', t_, ('f', s_),
                       rng.choice([1, 1, 2, max(1, tl), tl + 1, rng.randrange(1, tl + 2)]),
                       rng.choice([None, None, 0, 1, 2, tl, 255]), sink)
            # positions that make the written window start inside / just behind / just before the source window
            d = tab[s_][0] - tab[t_][0]
            cands = [p_ for p_ in (d + 2, d + 1 + max(1, tab[s_][1] // 2), d + tab[s_][1], d, d + 1) if 1 <= p_ <= tl]
            if cands:
                field_step(ctx, se, L, stmts, tab, rec, 'midset', t_, ('f', s_), rng.choice(cands),
                           rng.choice([None, None, 255, tab[s_][1], max(1, tab[s_][1] - 1)]), sink)
        # a history on one record: the result of each step is the input of the next
        rec = gen_bytes(rng, L)
        for i in range(nsteps):
            if i % 5 == 4 or rec.strip(b' ') == b'':
                rec = gen_bytes(rng, L)
            t_ = rng.choice(names)
            tl = tab[t_][1]
            op = rng.choice(['lset', 'rset', 'midset'])
            src = gen_src(rng, tab, names)
            st = num = None
            if op == 'midset':
                st = rng.choice([1, 1, 2, max(1, tl), tl + 1, 0, rng.randrange(1, tl + 2)])
                num = rng.choice([None, None, 0, 1, 2, tl, 255, 256])
            rec = field_step(ctx, se, L, stmts, tab, rec, op, t_, src, st, num, sink)
        ctx.compare(sink[0], sink[1], sink[2], label='field')
    se.run(b'CLOSE')


def field_replay(ctx, case):
    """re-execute one recorded FIELD case: returns a description if the record still differs"""
    se = FieldSess()
    try:
        open_layout(se, case['L'], [x.encode('latin-1') for x in case['fields']])
        rec = b'' if case['record'] == '-' else binascii.unhexlify(case['record'])
        se.s.set_variable(b'V$', rec)
        se.run(b'LSET R$=V$')
        if case.get('var') is not None:
            se.s.set_variable(b'V$', b'' if case['var'] == '-' else binascii.unhexlify(case['var']))
        status = se.run(case['cmd'].encode('latin-1'))
        now = se.get_str(b'R$')
        want = case['expected']
        if want == 'ok' and status != 'ok':
            return '%s gave %s' % (case['cmd'], status)
        if want != 'ok' and not (status.startswith('err ') and int(status.split()[1]) in want):
            return '%s gave %s, expected an error of %s' % (case['cmd'], status, want)
        if hexs(now) != case['expected_record']:
            return '%s: record is %r, expected %s' % (case['cmd'], now, case['expected_record'])
        return None
    finally:
        se.close()

# ---------------------------------------------------------------------------------------------

def run_cases(ctx, se, cases, label):
    outs, lines = [], []
    for op, a in cases:
        target = b'T$(1)' if (op in ('lset', 'rset', 'midset') and ctx.rng.random() < 0.3) else b'T$'
        out, extra = impl_case(se, op, a, target)
        outs.append(out)
        lines.append(protocol_line(op, a))
        ctx.case((op, tuple(repr(x) for x in a)))
        ctx.count('op:' + op.split(':')[0])
        if out.startswith('ok'):
            ctx.count('result:ok')
        judge(ctx, op, a, out, extra)
    ctx.compare([(op, show_args(a)) for op, a in cases], outs, lines, label=label)


def guarded(ctx, box, phase, fn, factory=None):
    """Run one phase; a host exception coming out of the interpreter (also through set_variable/get_variable)
    is an oracle failure of the history so far, after which a fresh session is used."""
    try:
        fn(box[0])
    except Exception as e:
        frames = traceback.extract_tb(e.__traceback__)
        if not isinstance(e, SessionBroken) and not any('pcbasic' in fr.filename for fr in frames[-4:]):
            raise
        ctx.fail('history:host-exception:%s' % type(e).__name__, {'where': 'history', 'phase': phase},
                 'after a history of %d cases in one session a Python %s escaped the interpreter at %s:%d (%s)'
                 % (ctx.evaluations, type(e).__name__, frames[-1].filename.split('pcbasic/')[-1], frames[-1].lineno, e))
        try:
            box[0].close()
        except Exception:
            pass
        box[0] = (factory or Sess)()


def run(ctx):
    box = [Sess()]
    try:
        rng = ctx.rng
        bc = boundary_cases(ctx.quick)
        ctx.log('%d boundary cases' % len(bc))
        for i in range(0, len(bc), 1000):
            guarded(ctx, box, 'boundary', lambda se: run_cases(ctx, se, bc[i:i + 1000], 'boundary'))
        reps = 40 if ctx.quick else 300
        guarded(ctx, box, 'leak', lambda se: leak_history(ctx, se, reps))
        n = 3000 if ctx.quick else 60000
        for i in range(0, n, 1500):
            cases = [gen_case(rng) for _ in range(1500)]
            guarded(ctx, box, 'random', lambda se: run_cases(ctx, se, cases, 'random'))
            # multi-step in-place chains interleaved with the one-shot cases, same session
            for target in (b'T$', b'T$(1)'):
                guarded(ctx, box, 'chain', lambda se: chain_history(ctx, se, 60, target))

            def space(se):
                f = se.fre()
                if not isinstance(f, int) or f < 30000:
                    ctx.fail('history:string-space', {'where': 'history', 'after_cases': ctx.evaluations},
                             'FRE("") = %s after %d cases in one session (only a handful of variables are live)'
                             % (f, ctx.evaluations))
            guarded(ctx, box, 'space', space)
        guarded(ctx, box, 'program', lambda se: program_history(ctx, se, 60 if ctx.quick else 600))
        # overlapping source/target: FIELD variables over one record buffer, in a session with a scratch drive
        fbox = [FieldSess()]
        try:
            for _ in range(2 if ctx.quick else 20):
                guarded(ctx, fbox, 'field', lambda se: field_history(
                    ctx, se, 4, 16 if ctx.quick else 40, 30 if ctx.quick else 60), FieldSess)
        finally:
            fbox[0].close()
        guarded(ctx, box, 'leak', lambda se: leak_history(ctx, se, reps))
        se = box[0]
        ctx.sample({'op': 'midset', 'line': protocol_line('midset', [('s', b'12345678'), ('n', 4, '%'), None, 'same']),
                    'impl': impl_case(se, 'midset', [('s', b'12345678'), ('n', 4, '%'), None, 'same'])[0]})
        ctx.sample({'op': 'instr', 'impl': impl_case(se, 'instr', [('n', 2, '%'), ('s', b'abcabc', 'var'), ('s', b'bc', 'var')])[0]})
    finally:
        box[0].close()


def replay(ctx, payload):
    case = payload.get('case', {})
    sub = Ctx2(ctx)
    se = Sess()
    try:
        if case.get('where') in ('direct', 'chain', 'program') and 'op' in case:
            a = dec_args(case['args'])
            out, extra = impl_case(se, case['op'], a)
            judge(sub, case['op'], a, out, extra)
            hits = sub.failures
        elif case.get('where') == 'field':
            what = field_replay(sub, case)
            return what
        elif case.get('where') == 'leak':
            leak_history(sub, se, case.get('reps', 40))
            hits = [f for f in sub.failures if f['key'] == payload.get('key')]
        else:
            import random
            sub.rng = random.Random(payload.get('seed', 0))
            run(sub)
            hits = [f for f in sub.failures if f['key'] == payload.get('key')]
    finally:
        se.close()
    return hits[0]['what'] if hits else None


class Ctx2(object):
    """thin proxy so replay can reuse the run-time helpers without touching the outer evidence"""
    def __init__(self, ctx):
        self.__dict__.update(ctx.__dict__)
        self._ctx = ctx
        self.failures = []
        self.disagreements = []

    def __getattr__(self, name):
        return getattr(self._ctx.__class__, name).__get__(self)
