/-
  Lemmas for property C16 (PcbV.Props.C16): facts about the classification table checked by evaluation,
  and the step lemmas for the invariant "protected bytes in memory -> flag set".
-/
import PcbV.Model.Protected

namespace PcbV.Protected.Lemmas
open PcbV.Protected PcbV.Gen.Stmts

theorem lookup_mem {α β : Type} [BEq α] [LawfulBEq α] (a : α) (b : β) :
    ∀ l : List (α × β), l.lookup a = some b → (a, b) ∈ l
  | [], h => by simp [List.lookup] at h
  | (x, y) :: l, h => by
    by_cases hx : a == x
    · have : a = x := by simpa using hx
      subst this
      simp [List.lookup] at h
      subst h
      exact List.mem_cons_self
    · rw [List.lookup] at h
      simp only [hx] at h
      exact List.mem_cons_of_mem _ (lookup_mem a b l h)

/-- table facts, checked by evaluation over the whole classification -/
theorem table_guarded :
    ∀ e ∈ classTable, e.1 ≠ Cb.interpreter_read_ → wellGuarded e.2 = true := by decide +kernel

theorem table_poke_guard :
    ∀ e ∈ classTable, e.2.effect = Effect.pokeFlag → e.2.guard = Guard.directOnly := by decide +kernel

theorem guarded_blocks (k : Class) (s : St) (a : Args)
    (hk : wellGuarded k = true) (hp : s.prot = true) (hd : materialise k.danger a ≠ .none) :
    blocked k.guard s false a = true := by
  obtain ⟨d, g, e⟩ := k
  cases d <;> cases g <;> simp [wellGuarded] at hk <;>
    simp_all [blocked, materialise]

theorem applyEffect_inv (k : Class) (s : St) (a : Args) (run : Bool) (hi : Inv s)
    (hpg : k.effect = Effect.pokeFlag → k.guard = Guard.directOnly)
    (hb : blocked k.guard s run a = false)
    (hrun : run = true → ¬ (k.effect = Effect.pokeFlag ∧ a.flag = true ∧ a.zero = true)) :
    Inv (applyEffect k.effect s a) := by
  obtain ⟨ha, hs⟩ := hi
  obtain ⟨d, g, e⟩ := k
  cases e
  · exact ⟨ha, hs⟩
  · simp [applyEffect, Inv, ha]
  · simp only [applyEffect]
    split
    · simp [loadInto, Inv, ha]
    · exact ⟨ha, hs⟩
  · have hg : g = Guard.directOnly := hpg rfl
    subst hg
    simp only [applyEffect]
    split
    · rename_i hf
      cases run
      · -- direct mode: not blocked means not protected, hence no secret
        simp [blocked] at hb
        refine ⟨ha, ?_⟩
        intro hsec
        have := hs hsec
        simp_all
      · have hz : a.zero = false := by
          have := hrun rfl
          simp at hf
          simp [hf.1] at this
          simpa using this
        simp [Inv, ha, hz]
    · exact ⟨ha, hs⟩

theorem step_inv (run : Bool) (s : St) (op : Op) (hi : Inv s)
    (hrun : run = true → clearsFlag op = false) : Inv (step run s op).2 := by
  cases op with
  | enterLine => simp only [step]; split <;> exact hi
  | stmt c a =>
    simp only [step]
    cases hc : classify c with
    | none => exact hi
    | some k =>
      simp only
      cases hpre : a.preErr with
      | some n => exact hi
      | none =>
        simp only
        cases hb : blocked k.guard s run a with
        | true => simpa using hi
        | false =>
          simp only [Bool.false_eq_true, if_false]
          apply applyEffect_inv k s a run hi
          · exact table_poke_guard (c, k) (lookup_mem c k classTable hc)
          · exact hb
          · intro hr ⟨he, hf, hz⟩
            have := hrun hr
            simp [clearsFlag, hc, he, hf, hz] at this

theorem direct_step_quiet (s : St) (op : Op) (hi : Inv s) (hsec : s.secret = true)
    (hr : ∀ a, op ≠ .stmt .interpreter_read_ a) : discloses (step false s op).1 = false := by
  have hp : s.prot = true := hi.2 hsec
  cases op with
  | enterLine => simp [step, hp, discloses]
  | stmt c a =>
    simp only [step]
    cases hc : classify c with
    | none => simp [discloses]
    | some k =>
      simp only
      cases hpre : a.preErr with
      | some n => simp [discloses]
      | none =>
        simp only
        cases hb : blocked k.guard s false a with
        | true => simp [discloses]
        | false =>
          simp only [Bool.false_eq_true, if_false]
          have hne : c ≠ Cb.interpreter_read_ := by
            intro h; exact hr a (by rw [h])
          have hk := table_guarded (c, k) (lookup_mem c k classTable hc) hne
          by_cases hd : materialise k.danger a = .none
          · simp [hd, discloses]
          · have := guarded_blocks k s a hk hp hd
            simp [hb] at this


end PcbV.Protected.Lemmas
