import PcbV.Model.IntOps
namespace PcbV.Drv.C02
open PcbV PcbV.IntOps

def showN (r : R Nat) : String := showR toString r

def handle : List String → String
  | [op, a, b] =>
    match a.toNat?, b.toNat? with
    | some a, some b =>
      if a ≥ 65536 ∨ b ≥ 65536 then "bad-op" else
      match op with
      | "iadd" => showN (iadd a b)
      | "isub" => showN (isub a b)
      | "idiv" => showN (idivInt a b)
      | "imod" => showN (imod a b)
      | "and" => showN (and_ a b)
      | "or" => showN (or_ a b)
      | "xor" => showN (xor_ a b)
      | "eqv" => showN (eqv_ a b)
      | "imp" => showN (imp_ a b)
      | "gt" => "ok " ++ showBool (gt a b)
      | "eq" => "ok " ++ showBool (eq a b)
      | _ => "bad-op"
    | _, _ => "bad-op"
  | ["for", fuel, a, b, c] =>
    match fuel.toNat?, a.toNat?, b.toNat?, c.toNat? with
    | some fuel, some a, some b, some c =>
      if a ≥ 65536 ∨ b ≥ 65536 ∨ c ≥ 65536 then "bad-op" else
      let (tr, st) := forLoop fuel a b c
      "ok " ++ showNats tr ++ " " ++ st
    | _, _, _, _ => "bad-op"
  | [op, a] =>
    match a.toNat? with
    | some a =>
      if a ≥ 65536 then "bad-op" else
      match op with
      | "ineg" => showN (ineg a)
      | "iabs" => showN (iabs a)
      | "not" => showN (not_ a)
      | _ => "bad-op"
    | none => "bad-op"
  | _ => "bad-op"

end PcbV.Drv.C02
