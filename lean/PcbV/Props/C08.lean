import PcbV.Lemmas.Using
import PcbV.Lemmas.UsingChars
/-
  C08 — PRINT USING produces fields of the declared width with correctly rounded digits.

  `PcbV.Using` transcribes `formatter.py: StringField / NumberField / Formatter._print_using` and
  `numbers.py: Float.to_str_fixed / to_str_scientific` (on top of the C07 decimal layer `PcbV.Decimal`).
  Text is a list of ASCII codes: 43 '+', 45 '-', 36 '$', 42 '*', 35 '#', 46 '.', 44 ',', 94 '^',
  33 '!', 38 '&', 92 '\', 32 ' ', 95 '_', 37 '%', 48 '0'.

  What is NOT proved here: that the digits produced by `to_decimal` are the correctly rounded digits of
  the stored value.  That is C07's error bound (stated there as `PrintErrorBound`, checked by its exact
  oracle); C08's oracle checks the shown digits of every PRINT USING output against the exact value
  (half a unit of the last shown place + one unit of the 7th/16th significant digit).  What is proved
  about digits is their number (`scientific_digit_count_partial`).
-/
namespace PcbV.C08
open PcbV PcbV.Mbf PcbV.Decimal PcbV.Using

/-! ## 1. the field parsers -/

/-- **parser_consumes** (numeric fields): every well-formed spec of the grammar
    `[+] [$$|**|**$] (#|,)* [. #*] [^^^^] [+|-]`, followed by the end of the format string or by any
    character that is not one of `# , . ^ + - $`, is parsed to exactly its own text (nothing less, nothing
    more), with `digits_before` = prefix positions + integer positions (commas count), `decimals` = the
    `#` after the point, and the comma flag set iff the integer part has a comma. -/
theorem parser_consumes (s : Spec) (rest : Bytes) (hw : s.WF) (hr : NonField rest) :
    parseNumber (s.text ++ rest) =
      some (⟨s.text, s.pre.positions + s.ints.length, s.places, s.ints.contains true⟩, rest) := by
  have hbody := numBody_spec s rest hw hr
  have hpost := numPost_spec s rest hw hr
  have hhead := body_head s rest hw hr
  have hpre := numPrefix_spec s.pre (intText s.ints ++ s.fraction ++ s.post ++ rest)
    (fun c hc => (hhead c hc).1) (fun hp c hc => ((hhead c hc).2 hp).1)
  have hcount := spec_count s hw
  have hsome := hw.some
  have hplaces : (if s.dot then s.places else 0) = s.places := by
    cases hd : s.dot with
    | true => simp
    | false => simp [hw.needDot hd]
  have hnz : ¬ (s.pre.positions + s.ints.length + (if s.dot = true then s.places else 0) = 0) := by omega
  have hsplit : s.text ++ rest =
      (if s.plus then [43] else []) ++ (s.pre.text ++ (intText s.ints ++ s.fraction ++ s.post ++ rest)) := by
    simp [Spec.text, List.append_assoc]
  rw [hsplit]
  cases hpl : s.plus with
  | true =>
    rw [hpl] at hpost
    simp only [if_true, List.cons_append, List.nil_append]
    unfold parseNumber
    simp only [List.head?_cons, decide_true, if_true, List.drop_succ_cons, List.drop_zero]
    rw [hpre]
    simp only [hbody, hpost, hplaces]
    simp [Spec.text, hpl, List.append_assoc]
    intro h1 h2 h3
    have := hw.some
    simp [Spec.positions, h1, h2, h3] at this
  | false =>
    rw [hpl] at hpost
    simp only [Bool.false_eq_true, if_false, List.nil_append]
    have hno43 : (s.pre.text ++ (intText s.ints ++ s.fraction ++ s.post ++ rest)).head? ≠ some 43 := by
      cases hp : s.pre with
      | none =>
        simp only [Pre.text, List.nil_append]
        intro h
        exact ((hhead 43 h).2 hp).2 rfl
      | dollars => simp [Pre.text]
      | stars => simp [Pre.text]
      | starsDollar => simp [Pre.text]
    unfold parseNumber
    simp only [hno43, decide_false, Bool.false_eq_true, if_false]
    rw [hpre]
    simp only [hbody, hpost, hplaces]
    simp [Spec.text, hpl, List.append_assoc]
    intro h1 h2 h3
    have := hw.some
    simp [Spec.positions, h1, h2, h3] at this

/-- **parse_consumes_prefix**: for ANY input, what `NumberField` takes is a non-empty prefix of the input
    with at least one digit position; the stream continues exactly behind it. -/
theorem parse_consumes_prefix (inp : Bytes) (fld : NumField) (rest : Bytes)
    (h : parseNumber inp = some (fld, rest)) :
    inp = fld.tokens ++ rest ∧ 0 < fld.digitsBefore + fld.decimals ∧ fld.tokens ≠ [] := by
  unfold parseNumber at h
  dsimp only at h
  split at h
  · cases h
  · rename_i w1 d1 r1 hp
    obtain ⟨hsplit1, hlen1⟩ := numPrefix_prefix _ _ _ _ hp
    have hb := numBody_prefix r1
    have hc := numBody_count r1
    have hpo := numPost_prefix (decide (inp.head? = some 43)) (numBody r1).rest
    by_cases hz : d1 + (numBody r1).before + (numBody r1).after = 0
    · simp [hz] at h
    · simp only [hz, if_false, Option.some.injEq, Prod.mk.injEq] at h
      obtain ⟨rfl, rfl⟩ := h
      have hinp : inp = (if decide (inp.head? = some 43) = true then [43] else []) ++
          (if decide (inp.head? = some 43) = true then inp.drop 1 else inp) := by
        by_cases h43 : inp.head? = some 43
        · cases inp with
          | nil => simp at h43
          | cons c t => simp at h43; subst h43; simp
        · simp [h43]
      refine ⟨?_, ?_, ?_⟩
      · simp only [List.append_assoc]
        conv => lhs; rw [hinp, hsplit1, hb, hpo]
      · simp only; omega
      · simp only
        intro hnil
        have hl := congrArg List.length hnil
        simp only [List.length_append, List.length_nil] at hl
        by_cases hd : 0 < d1
        · have := hlen1 hd; omega
        · omega

/-- string field parser: `!` and `&` are one-character fields; a backslash, `n` blanks and a backslash
    form a field of `n + 2` characters. -/
theorem string_parse_spec (n : Nat) (rest : Bytes) :
    parseString (33 :: rest) = some ([33], rest) ∧
    parseString (38 :: rest) = some ([38], rest) ∧
    parseString (92 :: (List.replicate n 32 ++ 92 :: rest)) = some (92 :: (List.replicate n 32 ++ [92]), rest) := by
  refine ⟨by simp [parseString], by simp [parseString], ?_⟩
  have hloop : bsLoop (List.replicate n 32 ++ 92 :: rest) = some (List.replicate n 32 ++ [92], rest) := by
    induction n with
    | zero => simp [bsLoop]
    | succ k ih => simp [List.replicate_succ, bsLoop, ih]
  simp [parseString, hloop]

/-- an opening backslash that is not closed after blanks only is no string field -/
theorem string_parse_unclosed (n : Nat) (c : Nat) (rest : Bytes) (hc : c ≠ 92) (hc' : c ≠ 32) :
    parseString (92 :: List.replicate n 32) = none ∧
    parseString (92 :: (List.replicate n 32 ++ c :: rest)) = none := by
  have h2 : bsLoop (List.replicate n 32 ++ c :: rest) = none := by
    induction n with
    | zero => simp [bsLoop, hc, hc']
    | succ k ih => simp [List.replicate_succ, bsLoop, ih]
  have h1 : bsLoop (List.replicate n 32) = none := by
    clear h2
    induction n with
    | zero => rfl
    | succ k ih => simp [List.replicate_succ, bsLoop, ih]
  simp [parseString, h1, h2]

/-! ## 2. string fields -/

/-- **string_field_spec**: `!` prints the first character (a blank for the empty string), `&` the whole
    string, `\ n blanks \` the string cut to, or padded with blanks to, exactly `n + 2` characters. -/
theorem string_field_spec (s : Bytes) (n : Nat) :
    formatString [38] s = s ∧
    formatString [33] s = [s.headD 32] ∧
    formatString (92 :: (List.replicate n 32 ++ [92])) s = s.take (n + 2) ++ List.replicate (n + 2 - s.length) 32 ∧
    (formatString (92 :: (List.replicate n 32 ++ [92])) s).length = n + 2 := by
  have hne : (92 :: (List.replicate n 32 ++ [92])) ≠ [38] := by
    cases n <;> simp [List.replicate_succ]
  have hlen : (92 :: (List.replicate n 32 ++ [92])).length = n + 2 := by simp
  refine ⟨by simp [formatString], ?_, ?_, ?_⟩
  · cases s with
    | nil => simp [formatString, padCut]
    | cons a t => simp [formatString, padCut]
  · simp only [formatString, hne, if_false, padCut, hlen]
    rw [List.take_append]
    by_cases h : s.length ≤ n + 2
    · have h0 : n + 2 - s.length - (n + 2 - s.length) = 0 := by omega
      simp [List.take_of_length_le h]
    · have h0 : n + 2 - s.length = 0 := by omega
      simp [h0]
  · simp only [formatString, hne, if_false, padCut, hlen]
    simp
    omega

/-! ## 3. numeric fields: width, `%`, fill, sign, `$` -/

/-- **field_width**: whenever `NumberField.format` returns text for a field and a number, then with
    `rep` the full representation (sign, `$`, digits, trailing sign) either `rep` is not longer than the
    field and the output has EXACTLY the field's length, or `rep` is longer and the output is `%` followed
    by `rep`; so `%` appears iff the representation does not fit. -/
theorem field_width (fld : NumField) (v : Num) (out : Bytes) (h : formatNumber fld v = some (.ok out)) :
    ∃ body, bodyWith toStrScientific toStrFixed fld v = some body ∧
      (((represent fld v body).length ≤ fld.tokens.length ∧ out.length = fld.tokens.length ∧
          out = List.replicate (fld.tokens.length - (represent fld v body).length)
                  (if fld.tokens.contains 42 then 42 else 32) ++ represent fld v body) ∨
       (fld.tokens.length < (represent fld v body).length ∧ out = 37 :: represent fld v body)) := by
  unfold formatNumber formatNumberWith at h
  by_cases h24 : fld.digitsBefore + fld.decimals > 24
  · simp [h24] at h
  · simp only [h24, if_false] at h
    cases hb : bodyWith toStrScientific toStrFixed fld v with
    | none => simp [hb] at h
    | some body =>
      simp only [hb, Option.some.injEq, Except.ok.injEq] at h
      refine ⟨body, rfl, ?_⟩
      unfold fit at h
      by_cases hl : (represent fld v body).length > fld.tokens.length
      · right
        simp only [hl, if_true] at h
        exact ⟨hl, h.symm⟩
      · left
        simp only [hl, if_false] at h
        have hle : (represent fld v body).length ≤ fld.tokens.length := by omega
        refine ⟨hle, ?_, ?_⟩
        · rw [← h]; exact rjust_length _ _ _ hle
        · rw [← h]; rfl

/-- more than 24 digit positions: Illegal function call, whatever the number -/
theorem too_many_positions (fld : NumField) (v : Num) (h : fld.digitsBefore + fld.decimals > 24) :
    formatNumber fld v = some (.error PcbV.Gen.E.ifc) := by
  unfold formatNumber formatNumberWith
  simp [h]

/-- **sign_dollar_star_placement**: the full representation is, in this order, the leading sign
    (`+`/`-` for a field that starts with `+`; `-` for a negative number in a field without sign
    character; nothing otherwise), `$` iff the field has a `$`, the digits, and the trailing sign
    (`+`/`-` for a field ending in `+`; `-`/blank for a field ending in `-`); the only other character
    ever added is one `0` in front of a leading decimal point when the field has room for it and no `$`
    stands before the point.  By `field_width` the fill (`*` iff the field has `**`, else blanks) stands
    in front of all of this.  (`body` is what `to_str_fixed` / `to_str_scientific` returned for the absolute
    value; it begins with a digit, the point or the exponent letter: `Using.body_head_not_sign`.) -/
theorem sign_dollar_star_placement (fld : NumField) (v : Num) (body : Bytes)
    (hb : bodyWith toStrScientific toStrFixed fld v = some body) :
    let neg := isNeg (toFloat v).1.fmt (toFloat v).2
    let pre := signPrefix (signMode fld.tokens) neg
    let dol : Bytes := if fld.tokens.contains 36 then [36] else []
    let suf := signSuffix (signMode fld.tokens) neg
    represent fld v body = pre ++ dol ++ body ++ suf ∨
    (dol = [] ∧ body.head? = some 46 ∧ represent fld v body = pre ++ 48 :: body ++ suf ∧
      (pre ++ dol ++ body ++ suf).length < fld.tokens.length) := by
  intro neg pre dol suf
  have hbody := body_head_not_sign fld v body hb
  have hrep : represent fld v body =
      if (pre ++ dol ++ body ++ suf).length < fld.tokens.length then leadZero (pre ++ dol ++ body ++ suf)
      else pre ++ dol ++ body ++ suf := by
    unfold represent
    rfl
  have hdol : dol = [] ∨ dol = [36] := by
    by_cases hd : fld.tokens.contains 36 = true
    · right; show (if fld.tokens.contains 36 = true then [36] else []) = [36]; rw [if_pos hd]
    · left; show (if fld.tokens.contains 36 = true then [36] else []) = []; rw [if_neg hd]
  by_cases hl : (pre ++ dol ++ body ++ suf).length < fld.tokens.length
  · rw [hrep, if_pos hl]
    rcases leadZero_shape pre dol body suf (signPrefix_cases _ _) hdol (signSuffix_cases _ _) hbody with h | ⟨h1, h2, h3⟩
    · exact Or.inl h
    · exact Or.inr ⟨h1, h2, h3, hl⟩
  · left
    rw [hrep, if_neg hl]

/-- the sign characters, spelled out -/
theorem sign_characters (neg : Bool) :
    signPrefix .leading neg = [if neg then 45 else 43] ∧ signSuffix .leading neg = [] ∧
    signPrefix .trailingPlus neg = [] ∧ signSuffix .trailingPlus neg = [if neg then 45 else 43] ∧
    signPrefix .trailingMinus neg = [] ∧ signSuffix .trailingMinus neg = [if neg then 45 else 32] ∧
    signPrefix .floating neg = (if neg then [45] else []) ∧ signSuffix .floating neg = [] := by
  simp [signPrefix, signSuffix]

/-- the sign mode of a well-formed spec is what its text says -/
theorem sign_mode_of_spec (s : Spec) (hw : s.WF) :
    signMode s.text = (if s.plus then .leading else
      match s.trail with
      | .plus => .trailingPlus
      | .minus => .trailingMinus
      | .none => .floating) := by
  cases hpl : s.plus with
  | true => simp [signMode, Spec.text, hpl]
  | false =>
    -- the first character is not `+` …
    have hhead := body_head s [] hw (by intro c hc; simp at hc)
    have h1 : s.text.head? ≠ some 43 := by
      have : s.text = s.pre.text ++ (intText s.ints ++ s.fraction ++ s.post ++ []) := by
        simp [Spec.text, hpl, List.append_assoc]
      rw [this]
      cases hp : s.pre with
      | none =>
        simp only [Pre.text, List.nil_append]
        intro h
        exact ((hhead 43 h).2 hp).2 rfl
      | dollars => simp [Pre.text]
      | stars => simp [Pre.text]
      | starsDollar => simp [Pre.text]
    -- … and the last one is the trailing sign, or not a sign at all
    have hlast : s.text.getLast? = (s.pre.text ++ intText s.ints ++ s.fraction ++ s.post).getLast? := by
      simp [Spec.text, hpl]
    simp only [signMode, h1, if_false, Bool.false_eq_true]
    cases htr : s.trail with
    | plus => simp [hlast, Spec.post, htr, Trail.text, List.getLast?_append]
    | minus => simp [hlast, Spec.post, htr, Trail.text, List.getLast?_append]
    | none =>
      -- the last character is `^`, `#`, `,`, `.`, `$` or `*`
      have hl : ∀ c, s.text.getLast? = some c → c ≠ 43 ∧ c ≠ 45 := by
        intro c hc
        rw [hlast] at hc
        simp only [Spec.post, htr, Trail.text, List.append_nil] at hc
        cases hcar : s.caret with
        | true =>
          simp [hcar, carets, List.getLast?_append] at hc
          omega
        | false =>
          simp only [hcar, Bool.false_eq_true, if_false, List.append_nil] at hc
          have hmem : c ∈ s.pre.text ++ intText s.ints ++ s.fraction := List.mem_of_getLast? hc
          simp only [List.mem_append] at hmem
          rcases hmem with (hm | hm) | hm
          · cases hp : s.pre <;> simp [hp, Pre.text] at hm <;> omega
          · simp only [intText, List.mem_map] at hm
            obtain ⟨b, _, hb⟩ := hm
            cases b <;> simp at hb <;> omega
          · unfold Spec.fraction at hm
            cases hd : s.dot with
            | false => simp [hd] at hm
            | true =>
              simp only [hd, if_true, List.mem_cons, List.mem_replicate] at hm
              rcases hm with hm | hm <;> omega
      have h2 : s.text.getLast? ≠ some 43 := fun h => (hl 43 h).1 rfl
      have h3 : s.text.getLast? ≠ some 45 := fun h => (hl 45 h).2 rfl
      simp [h2, h3]

/-! ## 4. digits -/

/-- the fixed-point digit string consists of digits, thousands commas and the point only -/
theorem fixed_body_characters (nf : NumFmt) (x : F) (n : Nat) (forceDot group : Bool) (out : Bytes)
    (h : toStrFixed nf x n forceDot group = some out) :
    ∀ c ∈ out, (48 ≤ c ∧ c ≤ 57) ∨ c = 44 ∨ c = 46 :=
  toStrFixed_chars _ nf x n forceDot group out h

/-- without the comma flag there is no comma -/
theorem fixed_body_no_comma (nf : NumFmt) (x : F) (n : Nat) (forceDot : Bool) (out : Bytes)
    (h : toStrFixed nf x n forceDot false = some out) : 44 ∉ out := by
  intro hc
  unfold toStrFixed toStrFixedWith at h
  have h48 : (44 : Nat) ≠ 48 := by decide
  by_cases hz : x.isZero
  · simp only [hz, if_true] at h
    split at h
    · simp only [Option.some.injEq] at h; subst h
      rcases List.mem_cons.1 hc with h | h
      · exact absurd h (by decide)
      · exact h48 (List.eq_of_mem_replicate h)
    · split at h
      · simp only [Option.some.injEq] at h; subst h
        exact h48 (List.eq_of_mem_replicate hc)
      · simp only [Option.some.injEq] at h; subst h
        simp at hc
  · simp only [hz, Bool.false_eq_true, if_false] at h
    split at h
    · cases h
    · split at h
      · cases h
      · simp only [Option.some.injEq] at h
        subst h
        rename_i mantissa exp10 _
        have hds : ∀ c ∈ ljust0 (decStr mantissa.natAbs)
            ((n : Int) + ((decStr mantissa.natAbs).length - -exp10)).toNat, IsDigit c :=
          ljust0_digits _ _ (decStr_digits _)
        unfold decimalNotation at hc
        simp only [Bool.false_eq_true, if_false, List.append_nil, ite_self] at hc
        have key : ∀ c, (c ∈ ljust0 (decStr mantissa.natAbs)
            ((n : Int) + ((decStr mantissa.natAbs).length - -exp10)).toNat ∨ c = 48 ∨ c = 46) → c ≠ 44 := by
          intro c hcc
          rcases hcc with h | h | h
          · have := hds c h; unfold IsDigit at this; omega
          · omega
          · omega
        split at hc
        · split at hc
          · simp only [List.mem_append, List.mem_replicate, List.mem_singleton] at hc
            rcases hc with (h | h) | h
            · exact key 44 (Or.inl h) rfl
            · exact key 44 (Or.inr (Or.inl h.2)) rfl
            · exact key 44 (Or.inr (Or.inr h)) rfl
          · simp only [List.mem_append, List.mem_replicate] at hc
            rcases hc with h | h
            · exact key 44 (Or.inl h) rfl
            · exact key 44 (Or.inr (Or.inl h.2)) rfl
        · split at hc
          · simp only [List.mem_append, List.mem_singleton] at hc
            rcases hc with (h | h) | h
            · exact key 44 (Or.inl (List.mem_of_mem_take h)) rfl
            · exact key 44 (Or.inr (Or.inr h)) rfl
            · exact key 44 (Or.inl (List.mem_of_mem_drop h)) rfl
          · simp only [List.mem_append, List.mem_singleton, List.mem_replicate] at hc
            rcases hc with (h | h) | h
            · exact key 44 (Or.inr (Or.inr h)) rfl
            · exact key 44 (Or.inr (Or.inl h.2)) rfl
            · exact key 44 (Or.inl h) rfl

/-- **scientific_digit_count_partial** — for a non-zero number the scientific digit string handed to the
    layout has exactly as many digits as the field has digit positions (after the sign reservation);
    PARTIAL: that these digits are the correctly rounded leading digits of the value is C07's error
    bound for `to_decimal`, not proved (oracle-checked). -/
theorem scientific_digit_count_partial (nf : NumFmt) (x : F) (before after : Nat) (forceDot : Bool) (out : Bytes)
    (hx : x.isZero = false) (h : toStrScientific nf x before after forceDot = some out) :
    ∃ ds exp10, ds.length = before + after ∧ out = scientificNotation nf ds exp10 before forceDot := by
  unfold toStrScientific toStrScientificWith at h
  simp only [hx, Bool.false_eq_true, if_false] at h
  split at h
  · cases h
  · rename_i r hr
    simp only [Option.some.injEq] at h
    refine ⟨_, _, ?_, h.symm⟩
    simp [ljust0]
    omega

/-! ## 5. cycling of the format string -/

/-- a format string that is exactly one field and does not start with the escape character: the field is
    used again for every argument; the output is the concatenation of the formatted arguments, and the
    statement ends the line iff the argument list has no trailing separator. -/
theorem single_field_cycles (fmt : Bytes) (fld : Field) (trailing : Bool)
    (hf : parseField fmt = some (fld, [])) (h95 : fmt.head? ≠ some 95) :
    ∀ (pairs : List (Arg × Bytes)), (∀ p ∈ pairs, formatField fld p.1 = some (.ok p.2)) →
      printUsing fmt (pairs.map Prod.fst) trailing = some ⟨(pairs.map Prod.snd).flatten, .ok (!trailing)⟩ := by
  have hne : fmt ≠ [] := by
    intro h; subst h; simp [parseField, parseString, parseNumber, numPrefix, numBody] at hf
  obtain ⟨c, r, hcr⟩ : ∃ c r, fmt = c :: r := by
    cases fmt with
    | nil => exact absurd rfl hne
    | cons c r => exact ⟨c, r, rfl⟩
  have hc95 : c ≠ 95 := by
    intro h; apply h95; rw [hcr, h]; rfl
  -- the loop from the start of a cycle
  have key : ∀ (pairs : List (Arg × Bytes)), (∀ p ∈ pairs, formatField fld p.1 = some (.ok p.2)) →
      ∀ (fuel : Nat) (fc : Bool) (out : Bytes), 2 * pairs.length + 1 ≤ fuel →
        usingLoop fmt trailing fuel
          { cur := fmt, args := pairs.map Prod.fst, startCycle := true, initial := [], formatChars := fc, out := out } =
        some ⟨out ++ (pairs.map Prod.snd).flatten, .ok (!trailing)⟩ := by
    intro pairs
    induction pairs with
    | nil =>
      intro _ fuel fc out hfuel
      obtain ⟨k, rfl⟩ : ∃ k, fuel = k + 1 := ⟨fuel - 1, by omega⟩
      unfold usingLoop
      simp only [hcr, hc95, if_false]
      rw [← hcr, hf]
      simp [finishUsing]
    | cons p pairs ih =>
      intro hall fuel fc out hfuel
      have hat := hall p (List.mem_cons_self ..)
      have ih' := ih (fun q hq => hall q (List.mem_cons_of_mem _ hq))
      obtain ⟨k, rfl⟩ : ∃ k, fuel = k + 2 := ⟨fuel - 2, by simp at hfuel; omega⟩
      unfold usingLoop
      simp only [hcr, hc95, if_false]
      rw [← hcr, hf]
      simp only [List.map_cons, hat, if_true, List.append_nil]
      -- now at the end of the format string with format_chars set: wrap around
      unfold usingLoop
      simp only [Bool.true_eq_false, if_false]
      have := ih' k true (out ++ p.2) (by simp at hfuel; omega)
      simp only [List.flatten_cons, ← List.append_assoc]
      exact this
  intro pairs hall
  unfold printUsing
  simp only [hne, if_false]
  have := key pairs hall ((fmt.length + 2) * ((pairs.map Prod.fst).length + 2)) false [] (by
    have h2 : 2 ≤ fmt.length + 2 := by omega
    have : 2 * (pairs.length + 2) ≤ (fmt.length + 2) * (pairs.length + 2) := Nat.mul_le_mul_right _ h2
    simp only [List.length_map]
    omega)
  simpa using this

/-- formatting is a function of the operand's VALUE: the same operand given `k` times to a one-field format
    prints `k` copies of one and the same text.  In the code this holds only as long as `NumberField.format`
    works on a copy (`value.clone().iabs()`) and leaves the variable it was handed untouched; the check reads
    variables and array elements back after every PRINT / PRINT# / LPRINT USING. -/
theorem repeated_operand (fmt : Bytes) (fld : Field) (trailing : Bool)
    (hf : parseField fmt = some (fld, [])) (h95 : fmt.head? ≠ some 95)
    (a : Arg) (t : Bytes) (k : Nat) (ha : formatField fld a = some (.ok t)) :
    printUsing fmt (List.replicate k a) trailing = some ⟨(List.replicate k t).flatten, .ok (!trailing)⟩ := by
  have := single_field_cycles fmt fld trailing hf h95 (List.replicate k (a, t)) (by
    intro p hp; rw [List.eq_of_mem_replicate hp]; exact ha)
  simpa using this

/-! ## 6. the three defects of the unrepaired code (models of the old code: `…Old`) -/

/-- `PRINT USING "#.##^^^^"; 9.999`: the rounding carry of `to_decimal(2)` (99.99 → 100) was laid out as if
    it had two digits: `0.10E+01` (= 1.0) instead of `0.10E+02` -/
theorem scientific_carry_old_counterexample :
    formatNumberOld ⟨[35, 46, 35, 35, 94, 94, 94, 94], 1, 2, false⟩ (.sgl ⟨0x1FFBE7, 0x84⟩) =
      some (.ok [48, 46, 49, 48, 69, 43, 48, 49]) ∧
    formatNumber ⟨[35, 46, 35, 35, 94, 94, 94, 94], 1, 2, false⟩ (.sgl ⟨0x1FFBE7, 0x84⟩) =
      some (.ok [48, 46, 49, 48, 69, 43, 48, 50]) := by
  constructor <;> decide +kernel

/-- `PRINT USING ".##"; 0.006`: with no significant digit left of the last decimal, `to_decimal(0)` did not
    scale the number: it came out as `0.00` (not rounded to `.01`), one character too long: `%0.00` -/
theorem fixed_small_old_counterexample :
    formatNumberOld ⟨[46, 35, 35], 0, 2, false⟩ (.sgl ⟨0x449BA6, 0x79⟩) = some (.ok [37, 48, 46, 48, 48]) ∧
    formatNumber ⟨[46, 35, 35], 0, 2, false⟩ (.sgl ⟨0x449BA6, 0x79⟩) = some (.ok [46, 48, 49]) := by
  constructor <;> decide +kernel

/-- `PRINT USING "########.###"; 9999999.999999998#` (10^7 − 2 ulp): both conversions round up to the power
    of ten, the first then reports one digit less after the point and the second answer kept one decimal
    too many: `%10000000.0000` (4 decimals, 13 > 12 characters) instead of `10000000.000` -/
theorem fixed_surplus_decimal_old_counterexample :
    formatNumberOld ⟨[35, 35, 35, 35, 35, 35, 35, 35, 46, 35, 35, 35], 8, 3, false⟩ (.dbl ⟨0x18967FFFFFFFFE, 0x98⟩) =
      some (.ok [37, 49, 48, 48, 48, 48, 48, 48, 48, 46, 48, 48, 48, 48]) ∧
    formatNumber ⟨[35, 35, 35, 35, 35, 35, 35, 35, 46, 35, 35, 35], 8, 3, false⟩ (.dbl ⟨0x18967FFFFFFFFE, 0x98⟩) =
      some (.ok [49, 48, 48, 48, 48, 48, 48, 48, 46, 48, 48, 48]) := by
  constructor <;> decide +kernel

/-! ## 7. non-vacuity -/

/-- `+**$#,###.##^^^^` is a well-formed spec … -/
def demoSpec : Spec := ⟨true, .starsDollar, [false, true, false, false, false], true, 2, true, .none⟩

example : demoSpec.WF := ⟨by decide, by decide, by decide, by decide⟩
example : NonField [] := by intro c hc; simp at hc
example : NonField [65, 35] := by intro c hc; simp at hc; subst hc; decide
example : demoSpec.text = [43, 42, 42, 36, 35, 44, 35, 35, 35, 46, 35, 35, 94, 94, 94, 94] := by decide
/-- … and the parser takes exactly it (the `-A` behind it is literal text because the field began with `+`) -/
example : parseNumber (demoSpec.text ++ [65]) = some (⟨demoSpec.text, 7, 2, true⟩, [65]) := by decide
/-- `field_width`, `single_field_cycles`: hypotheses are satisfiable -/
example : formatNumber ⟨[35, 35, 46, 35], 2, 1, false⟩ (.int 0xFFFF) = some (.ok [45, 49, 46, 48]) := by decide +kernel
example : formatNumber ⟨[35, 46, 35], 1, 1, false⟩ (.int 0xFFF6) = some (.ok [37, 45, 49, 48, 46, 48]) := by
  decide +kernel
example : printUsing [35, 35] [.num (.int 1), .num (.int 2)] false = some ⟨[32, 49, 32, 50], .ok true⟩ := by
  decide +kernel
/-- a lone `$` that ends the format string is taken for a field (quirk of `fors.read(2)` at the end) -/
example : parseNumber [36] = some (⟨[36], 1, 0, false⟩, []) := by decide

end PcbV.C08
