import PcbV.Model.SeqFile
namespace PcbV.Drv.C24
open PcbV PcbV.SeqFile

/-
  Request: `<soft|wrap> <op>;<op>;…` — a history on ONE file (file #1).  Ops:
    oO oA oI c          OPEN FOR OUTPUT / APPEND / INPUT, CLOSE
    h<hex>              (file closed) the host replaces the file content
    L                   the line end of PRINT #1, x  (write_line())
    W<it>,<it>…         WRITE #1, items; item = s<hex> (string) | n<hex> (number text from the number printer)
    W                   WRITE #1 with no items
    P<hex> Q<hex>       PRINT #1, a$   /  PRINT #1, a$;
    d<n>                WIDTH #1, n
    is in               INPUT #1, a$ / INPUT #1, x   → w<word hex>/<sep hex>  |  E62
    l                   LINE INPUT #1, a$             → l<hex> | E62
    r<n>                INPUT$(n, #1)                 → r<hex> | E62
    e f k               EOF(1), LOF(1), LOC(1)        → e0|e1|E54, f<n>, k<n>
    T<k><a><b>          DEFSTR/DEFINT/DEFSNG/DEFDBL a-b  (k = s i f d; a, b letters)
    iv<hex name>        INPUT #1, <variable as written, without indices>: the model derives the type from the
                        completed name (DEFtype table)  → as is/in
    lv<hex name>        LINE INPUT #1, <variable>  → l<hex> | E62 | E13 (not a string variable; nothing read)
    W items may also be v<hex name>/<hex>: a variable as written + its text; quoted iff the completed name is a string
  Reply: `ok <results joined by ;, or -> <hex of the host file>`; `X` marks an op that is invalid in the state.
-/

def parseItem (tab : DefTab) (s : String) : Option Item :=
  match s.toList with
  | 'v' :: rest =>
    match (String.ofList rest).splitOn "/" with
    | [n, t] => do
      let name ← ofHex n
      let text ← ofHex t
      pure (itemOfVar tab name text)
    | _ => none
  | 's' :: rest => (ofHex (String.ofList rest)).map Item.str
  | 'n' :: rest => (ofHex (String.ofList rest)).map Item.num
  | _ => none

def parseItems (tab : DefTab) (s : String) : Option (List Item) :=
  if s = "" then some [] else (s.splitOn ",").mapM (parseItem tab)

def letterIdx (c : Char) : Nat := upperByte c.toNat - 65

def sigilOf : Char → Option Nat
  | 's' => some 36
  | 'i' => some 37
  | 'f' => some 33
  | 'd' => some 35
  | _ => none

def showEntry : R (Bytes × Bytes) → String
  | .ok (w, c) => "w" ++ toHex w ++ "/" ++ toHex c
  | .error e => "E" ++ toString e

def showRB (tag : String) : R Bytes → String
  | .ok b => tag ++ toHex b
  | .error e => "E" ++ toString e

def step (tab : DefTab) (s : Fs) (op : String) : Fs × Option String :=
  match op.toList, s.h with
  | ['o', 'O'], .closed => ({ s with h := .out openOut }, none)
  | ['o', 'A'], .closed => ({ s with h := .out (openAppend s.disk) }, none)
  | ['o', 'I'], .closed => ({ s with h := .inp (openIn s.soft s.disk) }, none)
  | ['c'], _ => (s.closeH, none)
  | 'h' :: rest, .closed =>
    match ofHex (String.ofList rest) with
    | some b => ({ s with disk := b }, none)
    | none => (s, some "X")
  | ['L'], .out w => ({ s with h := .out w.writeLine }, none)
  | 'W' :: rest, .out w =>
    match parseItems tab (String.ofList rest) with
    | some items => ({ s with h := .out (w.writeStmt items) }, none)
    | none => (s, some "X")
  | 'P' :: rest, .out w =>
    match ofHex (String.ofList rest) with
    | some b => ({ s with h := .out (w.printLine b) }, none)
    | none => (s, some "X")
  | 'Q' :: rest, .out w =>
    match ofHex (String.ofList rest) with
    | some b => ({ s with h := .out (w.write b) }, none)
    | none => (s, some "X")
  | 'd' :: rest, .out w =>
    match (String.ofList rest).toNat? with
    | some n => ({ s with h := .out { w with width := n } }, none)
    | none => (s, some "X")
  | ['i', 's'], .inp r =>
    let x := r.inputEntry true
    ({ s with h := .inp x.2 }, some (match x.1 with
      | .ok (w, c) => "w" ++ toHex w ++ "/" ++ toHex c
      | .error e => "E" ++ toString e))
  | ['i', 'n'], .inp r =>
    let x := r.inputEntry false
    ({ s with h := .inp x.2 }, some (match x.1 with
      | .ok (w, c) => "w" ++ toHex w ++ "/" ++ toHex c
      | .error e => "E" ++ toString e))
  | 'i' :: 'v' :: rest, .inp r =>
    match ofHex (String.ofList rest) with
    | some name =>
      let x := r.inputVar tab name
      ({ s with h := .inp x.2 }, some (showEntry x.1))
    | none => (s, some "X")
  | 'l' :: 'v' :: rest, .inp r =>
    match ofHex (String.ofList rest) with
    | some name =>
      let x := r.lineInputVar tab name
      ({ s with h := .inp x.2 }, some (showRB "l" x.1))
    | none => (s, some "X")
  | ['l'], .inp r =>
    let x := r.lineInput
    ({ s with h := .inp x.2 }, some (showRB "l" x.1))
  | 'r' :: rest, .inp r =>
    match (String.ofList rest).toNat? with
    | some n =>
      let x := r.inputChars n
      ({ s with h := .inp x.2 }, some (showRB "r" x.1))
    | none => (s, some "X")
  | ['e'], .inp r =>
    let x := r.eof
    ({ s with h := .inp x.2 }, some (if x.1 then "e1" else "e0"))
  | ['e'], .out _ => (s, some ("E" ++ toString Gen.E.bad_file_mode))
  | ['f'], .inp r => (s, some ("f" ++ toString r.lof))
  | ['f'], .out w => (s, some ("f" ++ toString w.lof))
  | ['k'], .inp r => (s, some ("k" ++ toString r.loc))
  | ['k'], .out w => (s, some ("k" ++ toString w.loc))
  | _, _ => (s, some "X")

def runOps : List String → DefTab → Fs → List String → Fs × List String
  | [], _, s, acc => (s, acc.reverse)
  | op :: ops, tab, s, acc =>
    match op.toList with
    | ['T', k, a, b] =>
      match sigilOf k with
      | some sg => runOps ops (defType tab sg (letterIdx a) (letterIdx b)) s acc
      | none => runOps ops tab s ("X" :: acc)
    | _ =>
      let x := step tab s op
      runOps ops tab x.1 (match x.2 with | some r => r :: acc | none => acc)

def handle : List String → String
  | [mode, hist] =>
    if mode ≠ "soft" ∧ mode ≠ "wrap" then "bad-op" else
    let x := runOps (hist.splitOn ";") defaultTab { disk := [], h := .closed, soft := mode = "soft" } []
    "ok " ++ (if x.2.isEmpty then "-" else ";".intercalate x.2) ++ " " ++ toHex x.1.bytes
  | _ => "bad-op"

end PcbV.Drv.C24
