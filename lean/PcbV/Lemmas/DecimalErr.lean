import PcbV.Lemmas.C04Rat
import PcbV.Lemmas.DecimalStep
/-
  C07 lemmas, part 5: the error of `_mul10_den` / `_div10_den` in rational numbers, the chain of
  `|exp10|` such steps in `from_decimal`, and the final rounding of `_normalise`.
-/
namespace PcbV.Decimal
open PcbV PcbV.Mbf PcbV.Mbf.C04

/-- magnitude of a denormalised value -/
def mag (f : Fmt) (d : Den) : Rat := dmag f d.exp d.man

/-- normalised extended mantissa -/
def Norm (f : Fmt) (d : Den) : Prop := f.denMask ≤ d.man ∧ d.man < f.denUpper

theorem mag_nonneg (f : Fmt) (d : Den) : 0 ≤ mag f d := dmag_nonneg f _ _

/-- `v'` is `t` up to the relative error `η`, measured against either of them -/
def Near (η v' t : Rat) : Prop := |v' - t| ≤ η * v' ∧ |v' - t| ≤ η * t

/-! ### arithmetic in ℚ -/

theorem scaled_abs (x k P : Rat) (hP : 0 ≤ P) (h1 : -k ≤ x) (h2 : x ≤ k) : |x * P| ≤ k * P := by
  rw [abs_le]; constructor <;> nlinarith

theorem mul_err (P a b k : Rat) (hP : 0 < P) (c1 : 10 * a ≤ k * b + k) (c2 : k * b ≤ 10 * a + k) :
    |b * (k * P) - 10 * (a * P)| ≤ k * P := by
  have : b * (k * P) - 10 * (a * P) = (k * b - 10 * a) * P := by ring
  rw [this]; exact scaled_abs _ _ _ hP.le (by linarith) (by linarith)

theorem div_err3 (P a b : Rat) (hP : 0 < P) (c1 : 4 * a ≤ 5 * b + 8) (c2 : 5 * b ≤ 4 * a + 3) :
    |b * P - a * (8 * P) / 10| ≤ 8 * P / 5 := by
  have : b * P - a * (8 * P) / 10 = ((5 * b - 4 * a) / 5) * P := by ring
  have h2 : 8 * P / 5 = (8 / 5) * P := by ring
  rw [this, h2]; exact scaled_abs _ _ _ hP.le (by linarith) (by linarith)

theorem div_err4 (P a b : Rat) (hP : 0 < P) (c1 : 8 * a ≤ 5 * b + 16) (c2 : 5 * b ≤ 8 * a + 6) :
    |b * P - a * (16 * P) / 10| ≤ 16 * P / 5 := by
  have : b * P - a * (16 * P) / 10 = ((5 * b - 8 * a) / 5) * P := by ring
  have h2 : 16 * P / 5 = (16 / 5) * P := by ring
  rw [this, h2]; exact scaled_abs _ _ _ hP.le (by linarith) (by linarith)

/-- an error of one unit `u` of the result, whose mantissa is at least `M` units -/
theorem near_of_unit (v' t u M : Rat) (hM : 256 ≤ M) (hu : 0 ≤ u) (herr : |v' - t| ≤ u) (hv : u * M ≤ v') :
    Near (17 / (16 * M)) v' t := by
  obtain ⟨l1, l2⟩ := abs_le.mp herr
  have hMp : (0 : Rat) < 16 * M := by linarith
  constructor
  · refine le_trans herr ?_
    have : 17 / (16 * M) * v' = 17 * v' / (16 * M) := by ring
    rw [this, le_div_iff₀ hMp]
    nlinarith
  · refine le_trans herr ?_
    have : 17 / (16 * M) * t = 17 * t / (16 * M) := by ring
    rw [this, le_div_iff₀ hMp]
    have h1 : u * M ≤ t + u := by linarith
    have h2 : 0 ≤ u * (M - 17) := mul_nonneg hu (by linarith)
    nlinarith

/-- an error of a fifth of a unit `u` of the input, whose mantissa is at least `M` units -/
theorem near_of_input_unit (v' v u M : Rat) (hM : 256 ≤ M) (hu : 0 ≤ u) (herr : |v' - v / 10| ≤ u / 5)
    (hv : u * M ≤ v) : Near (17 / (8 * M)) v' (v / 10) := by
  obtain ⟨l1, l2⟩ := abs_le.mp herr
  have hMp : (0 : Rat) < 8 * M := by linarith
  constructor
  · refine le_trans herr ?_
    have : 17 / (8 * M) * v' = 17 * v' / (8 * M) := by ring
    rw [this, le_div_iff₀ hMp]
    have h2 : 0 ≤ u * (M - 34) := mul_nonneg hu (by linarith)
    nlinarith
  · refine le_trans herr ?_
    have : 17 / (8 * M) * (v / 10) = 17 * v / (80 * M) := by ring
    rw [this, le_div_iff₀ (by linarith)]
    nlinarith

/-- one `_mul10_den` step: normalised, same sign, exponent stays non-negative, and the value is ten
    times the input up to one unit of the result's extended mantissa: relative error at most
    17/(16·den_mask) -/
theorem mul10_near (f : Fmt) (hf : f.WF) (d : Den) (he : 0 ≤ d.exp) (hn : Norm f d) :
    Norm f (mul10Den f d) ∧ (mul10Den f d).neg = d.neg ∧ 0 ≤ (mul10Den f d).exp ∧
      Near (17 / (16 * f.denMask)) (mag f (mul10Den f d)) (10 * mag f d) := by
  obtain ⟨hS, _, _, hdm, hdu, _, _, _⟩ := wf_S f hf
  have hU : f.denUpper = 2 * f.denMask := by omega
  have hM : 256 ≤ f.denMask := by omega
  obtain ⟨a1, a2, a3, a4⟩ := mul10Den_step f hU hM d he hn.1 hn.2
  generalize mul10Den f d = r at *
  have hMq : (256 : Rat) ≤ f.denMask := by exact_mod_cast hM
  have hP := p2_pos (d.exp - f.bias - 8)
  have hunit : |mag f r - 10 * mag f d| ≤ p2 (r.exp - f.bias - 8) := by
    rcases a4 with ⟨e4, b1, b2⟩ | ⟨e3, b1, b2⟩
    · have hp : p2 (r.exp - f.bias - 8) = 16 * p2 (d.exp - f.bias - 8) := by
        rw [e4, show d.exp + 4 - (f.bias : Int) - 8 = (4 : Int) + (d.exp - f.bias - 8) from by omega, p2_add]
        unfold p2; norm_num
      unfold mag dmag
      rw [hp]
      exact mul_err _ _ _ 16 hP (by exact_mod_cast b1) (by exact_mod_cast b2)
    · have hp : p2 (r.exp - f.bias - 8) = 8 * p2 (d.exp - f.bias - 8) := by
        rw [e3, show d.exp + 3 - (f.bias : Int) - 8 = (3 : Int) + (d.exp - f.bias - 8) from by omega, p2_add]
        unfold p2; norm_num
      unfold mag dmag
      rw [hp]
      exact mul_err _ _ _ 8 hP (by exact_mod_cast b1) (by exact_mod_cast b2)
  have hv : p2 (r.exp - f.bias - 8) * f.denMask ≤ mag f r := by
    unfold mag dmag
    have : (f.denMask : Rat) ≤ r.man := by exact_mod_cast a2
    have hp := p2_pos (r.exp - f.bias - 8)
    calc p2 (r.exp - f.bias - 8) * (f.denMask : Rat) ≤ p2 (r.exp - f.bias - 8) * r.man :=
          mul_le_mul_of_nonneg_left this hp.le
      _ = r.man * p2 (r.exp - f.bias - 8) := mul_comm _ _
  refine ⟨⟨a2, a3⟩, a1, by rcases a4 with ⟨e, _, _⟩ | ⟨e, _, _⟩ <;> omega, ?_⟩
  exact near_of_unit _ _ _ _ hMq (p2_pos _).le hunit hv

/-- one `_div10_den` step: normalised, same sign, and the value is a tenth of the input up to a fifth
    of a unit of the *input's* extended mantissa: relative error at most 17/(8·den_mask) -/
theorem div10_near (f : Fmt) (hf : f.WF) (ht : TenOK f) (d : Den) (hn : Norm f d) :
    Norm f (div10Den f d) ∧ (div10Den f d).neg = d.neg ∧
      Near (17 / (8 * f.denMask)) (mag f (div10Den f d)) (mag f d / 10) := by
  obtain ⟨hS, _, _, hdm, hdu, _, _, _⟩ := wf_S f hf
  have hM : 256 ≤ f.denMask := by omega
  obtain ⟨a1, a2, a3, a4⟩ := div10Den_step f hf ht d hn.1 hn.2
  generalize div10Den f d = r at *
  have hMq : (256 : Rat) ≤ f.denMask := by exact_mod_cast hM
  have herr : |mag f r - mag f d / 10| ≤ p2 (d.exp - f.bias - 8) / 5 := by
    rcases a4 with ⟨e3, b1, b2⟩ | ⟨e4, b1, b2⟩
    · have hp : p2 (d.exp - f.bias - 8) = 8 * p2 (r.exp - f.bias - 8) := by
        rw [e3, show d.exp - (f.bias : Int) - 8 = (3 : Int) + (d.exp - 3 - f.bias - 8) from by omega, p2_add]
        unfold p2; norm_num
      unfold mag dmag
      rw [hp]
      exact div_err3 _ _ _ (p2_pos _) (by exact_mod_cast b1) (by exact_mod_cast b2)
    · have hp : p2 (d.exp - f.bias - 8) = 16 * p2 (r.exp - f.bias - 8) := by
        rw [e4, show d.exp - (f.bias : Int) - 8 = (4 : Int) + (d.exp - 4 - f.bias - 8) from by omega, p2_add]
        unfold p2; norm_num
      unfold mag dmag
      rw [hp]
      exact div_err4 _ _ _ (p2_pos _) (by exact_mod_cast b1) (by exact_mod_cast b2)
  have hv : p2 (d.exp - f.bias - 8) * f.denMask ≤ mag f d := by
    unfold mag dmag
    have : (f.denMask : Rat) ≤ d.man := by exact_mod_cast hn.1
    have hp := p2_pos (d.exp - f.bias - 8)
    calc p2 (d.exp - f.bias - 8) * (f.denMask : Rat) ≤ p2 (d.exp - f.bias - 8) * d.man :=
          mul_le_mul_of_nonneg_left this hp.le
      _ = d.man * p2 (d.exp - f.bias - 8) := mul_comm _ _
  exact ⟨⟨a2, a3⟩, a1, near_of_input_unit _ _ _ _ hMq (p2_pos _).le herr hv⟩

end PcbV.Decimal
