import PcbV.Model.Screen
namespace PcbV.Drv.C35
open PcbV PcbV.Screen

/-- synthetic 8-pixel-wide font used by the correspondence check (the same bytes are loaded into the
    real `Font` object): row `i` of character `c` -/
def fontByte (c i : Nat) : Nat := (c * 37 + i * 101 + (c / 16) * 7) % 256

/-- `dbcs = true`: codepage 936 (GBK) without box protection: lead 81..FE, trail 40..7E, 80..FE -/
def mkEnv (th tw fh fw : Nat) (dbcs : Bool) : Env :=
  { g := { th := th, tw := tw, fh := fh, fw := fw }
    glyph := fun c a i j => if fontByte c i / 2 ^ (7 - j) % 2 = 1 then a else a / 16 % 8
    backOf := fun a => a / 16 % 8
    conv := if dbcs then pairConv (fun b => decide (129 ≤ b ∧ b ≤ 254))
                                  (fun b => decide (64 ≤ b ∧ b ≤ 254 ∧ b ≠ 127)) tw
            else sbcsConv
    dbcs := dbcs }

/-- cell codes as 4 hex digits each, "-" for none -/
def hex16 (l : List Nat) : String :=
  if l.isEmpty then "-" else String.join (l.map fun n => hexByte (n / 256 % 256) ++ hexByte (n % 256))

/-- pixels: hex, or "-" in DBCS runs (full-width sprite rendering is not modelled) -/
def pxHex (skip : Bool) (l : List Nat) : String := if skip then "-" else toHex l

def tab (h w : Nat) (f : Mat) : List Nat :=
  (List.range h).flatMap fun i => (List.range w).map fun j => f i j

def showSignal (skip : Bool) : Signal → String
  | .setMode a b c d => s!"M,{a},{b},{c},{d}"
  | .update row col text attrs y0 x0 sp =>
    s!"U,{row},{col},{text.h},{text.w},{hex16 (tab text.h text.w text.f)},{toHex (tab attrs.h attrs.w attrs.f)},{y0},{x0},{sp.h},{sp.w},{pxHex skip (tab sp.h sp.w sp.f)}"
  | .clearRows b s t => s!"C,{b},{s},{t}"
  | .scroll up f t b => s!"S,{if up then "-1" else "1"},{f},{t},{b}"

def showPage (e : Env) (p : Page) : String :=
  s!"{toHex (tab e.g.th e.g.tw p.chars)},{toHex (tab e.g.th e.g.tw p.attrs)},{hex16 (tab e.g.th e.g.tw p.utext)},{pxHex e.dbcs (tab e.g.H e.g.W p.px)},{showBool p.visible}"

def nats (ws : List String) : Option (List Nat) := ws.mapM String.toNat?

def parseOp (w : String) : Option Op :=
  match w.splitOn "," with
  | "X" :: rest =>
    match rest with
    | [i, y0, y1, x0, x1, hex] =>
      match nats [i, y0, y1, x0, x1], ofHex hex with
      | some [i, y0, y1, x0, x1], some data =>
        let wd := x1 - x0
        some (Op.page i (POp.setPixels y0 y1 x0 x1 (fun a b => data.getD (a * wd + b) 0)))
      | _, _ => none
    | _ => none
  | tag :: rest =>
    match tag, nats rest with
    | "P", some [i, row, col, ch, attr] => some (Op.page i (POp.putChar row col ch attr))
    | "L", some [i] => some (Op.page i POp.lock)
    | "U", some [i] => some (Op.page i POp.unlock)
    | "C", some [i, a, b, c] => some (Op.page i (POp.clearRows a b c))
    | "F", some [i, a, b, c] => some (Op.page i (POp.clearRowFrom a b c))
    | "SU", some [i, a, b, c] => some (Op.page i (POp.scrollUp a b c))
    | "SD", some [i, a, b, c] => some (Op.page i (POp.scrollDown a b c))
    | "V", some [v] => some (Op.setPage v)
    | "Y", some [a, b] => some (Op.pcopy a b)
    | _, _ => none
  | [] => none

/-- `run th tw fh fw npages attr dbcs ops` → signals | visible page | pages | canvas pixels | canvas text
    | what `rebuild` would send, folded into an empty canvas -/
def handle : List String → String
  | ["run", th, tw, fh, fw, np, attr, db, ops] =>
    match nats [th, tw, fh, fw, np, attr, db], (if ops == "-" then some [] else (ops.splitOn ";").mapM parseOp) with
    | some [th, tw, fh, fw, np, attr, db], some ops =>
      let e := mkEnv th tw fh fw (db != 0)
      let (d, sigs) := runOps e (initDisp np attr 0) ops
      let all := modeSignal e :: sigs
      let cv := consume Canvas.empty all
      let cv2 := consume Canvas.empty (rebuild e d)
      let pages := (List.range np).map fun i => showPage e (d.pages i)
      "ok " ++ ";".intercalate (all.map (showSignal e.dbcs)) ++ " " ++ toString d.vnum ++ " " ++ ";".intercalate pages
        ++ " " ++ pxHex e.dbcs (tab cv.ch cv.cw cv.px) ++ " " ++ hex16 (tab cv.th cv.tw cv.tx)
        ++ " " ++ pxHex e.dbcs (tab cv2.ch cv2.cw cv2.px) ++ " " ++ hex16 (tab cv2.th cv2.tw cv2.tx)
    | _, _ => "bad-op"
  | _ => "bad-op"

end PcbV.Drv.C35
