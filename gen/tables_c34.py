"""Generate lean/PcbV/Gen/Modes.lean: memory-map parameters of every video mode of display/modes.py,
read from the mapper objects the current source builds (modes.get_mode), plus the adapter -> mode table."""
from gen_tables import generator, HEADER, lean_str

DEFAULT_VIDEO_MEMORY = 262144

# (table key, Session video=, monitor, video memory)
ADAPTERS = [
    ('cga', 'cga', 'rgb', DEFAULT_VIDEO_MEMORY), ('ega', 'ega', 'rgb', DEFAULT_VIDEO_MEMORY),
    ('ega_64k', 'ega', 'rgb', 65536), ('vga', 'vga', 'rgb', DEFAULT_VIDEO_MEMORY),
    ('mda', 'mda', 'mono', DEFAULT_VIDEO_MEMORY), ('ega_mono', 'ega', 'mono', DEFAULT_VIDEO_MEMORY),
    ('hercules', 'hercules', 'mono', DEFAULT_VIDEO_MEMORY), ('tandy', 'tandy', 'rgb', DEFAULT_VIDEO_MEMORY),
    ('pcjr', 'pcjr', 'rgb', DEFAULT_VIDEO_MEMORY), ('olivetti', 'olivetti', 'rgb', DEFAULT_VIDEO_MEMORY),
]

KINDS = {'TextMemoryMapper': 0, 'CGAMemoryMapper': 1, 'EGAMemoryMapper': 2, 'Tandy6MemoryMapper': 3}


def mode_numbers(key):
    from pcbasic.basic.display import modes
    res = []
    for k in modes._MODES[key]:
        if isinstance(k, tuple):
            res.append((0, k[1]))
        elif not (key == 'olivetti' and k > 3):     # olivetti: 4..255 are all the mode of SCREEN 3
            res.append((k, 0))
    return sorted(res)


def mode_record(mode):
    mm = mode.memorymap
    kind = KINDS[type(mm).__name__]
    rec = dict(name=mode.name, kind=kind, segment=mm._video_segment, pageSize=mm._page_size,
               maxPages=mm._max_pages or 0)
    if kind == 0:
        # text: a row is 2*columns bytes (character, attribute); modelled as a byte grid
        rec.update(width=2 * mm._text_width, height=mm._text_height, interleave=1, bankSize=mm._page_size,
                   bpp=8, ppb=1, bytesPerRow=2 * mm._text_width, masterMask=0, planeMod=1)
    else:
        rec.update(width=mm._pixel_width, height=mm._pixel_height, interleave=mm._interleave_times,
                   bankSize=mm._bank_size, bpp=mm._bitsperpixel, ppb=mm._ppb, bytesPerRow=mm._bytes_per_row,
                   masterMask=getattr(mm, '_master_plane_mask', 0),
                   planeMod=(max(mm._planes_used) + 1) if kind == 2 else 1)
    return rec


def collect():
    from pcbasic.basic.display import modes
    table, adapters = {}, []
    for key, video, monitor, vmem in ADAPTERS:
        for number, width in mode_numbers(key):
            mode = modes.get_mode(number, width, key, monitor, vmem)
            rec = mode_record(mode)
            old = table.setdefault(rec['name'], rec)
            assert old == rec, (old, rec)
            adapters.append((key, video, monitor, vmem, number, width, rec['name'], mode.num_pages))
    return table, adapters


FIELDS = ['kind', 'segment', 'width', 'height', 'interleave', 'bankSize', 'bpp', 'ppb', 'bytesPerRow', 'pageSize',
          'maxPages', 'masterMask', 'planeMod']


@generator('Modes')
def gen_modes():
    table, adapters = collect()
    out = [HEADER, 'namespace PcbV.Gen.Modes\n',
           '/-- Memory-map parameters of a video mode.  kind: 0 text, 1 CGA packed, 2 EGA planar, 3 Tandy-6.',
           '    Text modes are described as a byte grid: width = bytesPerRow = 2*columns, height = rows. -/',
           'structure Mode where', '  name : String']
    out += ['  %s : Nat' % f for f in FIELDS]
    out += ['deriving DecidableEq, Repr\n']
    names = sorted(table)
    for i, n in enumerate(names):
        r = table[n]
        out.append('def m%d : Mode := { name := %s, %s }' % (i, lean_str(n), ', '.join('%s := %d' % (f, r[f]) for f in FIELDS)))
    out.append('\ndef table : List Mode := [%s]\n' % ', '.join('m%d' % i for i in range(len(names))))
    out.append('/-- (adapter key, SCREEN number, WIDTH (text only), mode name, pages with the adapter\'s default video memory) -/')
    out.append('def adapters : List (String × Nat × Nat × String × Nat) := [')
    out.append(',\n'.join('  (%s, %d, %d, %s, %d)' % (lean_str(a[0]), a[4], a[5], lean_str(a[6]), a[7]) for a in adapters))
    out.append(']\n')
    out.append('end PcbV.Gen.Modes\n')
    return '\n'.join(out)
