"""C13 — The stored program matches the entered lines after any edit history."""
import os
import shutil
import struct
import tempfile

from vlib import basic

LEVEL = 'proof'
RULE = ('edit histories (enter / overwrite / bare-number delete / DELETE a-b, a-, -b, a incl. empty and partly '
        'existing ranges / NEW / re-insert) over a per-history pool of line numbers drawn from boundary values and '
        '0..65529, statement text from a generator of tokens with embedded 00 bytes (numbers, jump targets), string '
        'literals and REM/DATA with high bytes, lengths 0..250; a case is one operation inside its history '
        '(every observable is compared after every operation); non-trivial = an operation that changes the program '
        'or is refused; profiles: mixed, descending (front insertion), long lines in a small memory (Out of memory), '
        'renum (RENUM [new][,old][,step] with new at/around the highest kept line, old on/between lines, steps 0/1/10/large '
        'reaching past 65529, refused only at a later line; after an accepted RENUM the reference is re-read and the '
        'history continues); refused-then-edit (every kind of refused command: RENUM overflow/overlap/step 0, DELETE and '
        'bare number of missing lines, LOAD/MERGE of a missing file, EDIT/AUTO/syntax errors, Out of memory, each '
        'followed by edits aimed at the top and the middle of the program); merge (MERGE / LOAD of text files written by '
        'the harness: lines in any order, repeats, number-only lines, blank and blank-only lines, CR/LF/CRLF, with or '
        'without 1A or final line end; reference = typing the lines in file order)')
EXPLANATION = ('theorems (PcbV.Props.C13): representation invariant Inv (bytes = serialisation of a strictly sorted record '
               'list, dict = its offset table, memory bound) holds initially and is preserved by store/delete/new for '
               'well-formed bodies; Inv gives dict = rescan(bytes), increasing offsets, correct next-address fields, '
               '00 00 00 end; refinement abs(op s) = specOp(abs s) incl. error cases, lifted to all histories; LIST = '
               'ascending spec listing; jump lands on the record with that line field; the link chain visits all '
               'lines and ends at the terminator.  Correspondence: real Session histories vs the compiled model after '
               'every op (status, size, bytes, line_numbers, rebuild_line_dict on a copy, PEEK chain, LIST order); refused '
               'commands (rejected_edit_keeps_program / rejected_edit_spec) leave bytes and index unchanged; oracle: a '
               'Python dict line -> (tokens, listing) with its own serialiser')
TRUSTED_BASE = ['model PcbV.Model.Program: hand transcription of program.py (store_line, delete, find_pos_line_dict, '
                'update_line_dict, rebuild_line_dict, list_lines, erase) and codestream.py TokenisedStream.skip_to',
                'the tokeniser/lister are used as given (C17): a line\'s tokens and listing are taken from a scratch '
                'session holding only that line']
ASSUMPTIONS = ['memory.stack_start() <= 65535 (max_memory <= 65534)',
               'bodies are what Tokeniser.tokenise_line produces; the well-formedness predicate wfBody is evaluated '
               'on every generated body (count wf:0 must stay 0)']

MSG = {b'Undefined line number\xff\r\n': 'e8', b'Illegal function call\xff\r\n': 'e5', b'Out of memory\xff\r\n': 'e7',
       b'': 'ok'}


def digest(nums):
    h = 7
    for x in nums:
        h = (h * 257 + x + 1) % 1000000007
    return h


def hexb(b):
    return bytes(b).hex() or '-'


# ---------------------------------------------------------------------------------------------
# generator

BOUNDARY_LINES = [0, 1, 2, 9, 10, 11, 99, 100, 255, 256, 257, 511, 512, 1000, 9999, 10000, 32767, 32768, 32769,
                  65279, 65280, 65281, 65520, 65527, 65528, 65529]
NUMS = [b'0', b'1', b'9', b'10', b'11', b'255', b'256', b'257', b'512', b'1024', b'32767', b'32768', b'65535', b'65536',
        b'16777216', b'1.5', b'.0', b'0!', b'0#', b'1E10', b'1D0', b'2D0', b'1.0000000001', b'&H0', b'&H100', b'&HFF00',
        b'&O0', b'&O400', b'&O177400', b'0.5', b'128', b'1!', b'256#', b'3.14159']
JUMPS = [b'0', b'1', b'10', b'255', b'256', b'512', b'1000', b'32768', b'65280', b'65529']
KEYWORDS = [b'PRINT', b'LET', b'FOR', b'NEXT', b'WHILE', b'WEND', b'CLS', b'BEEP', b'STOP', b'SWAP', b'FILES', b'CVI',
            b'MKI$', b'LEFT$', b'MID$', b'STRING$', b'TIMER', b'EXP', b'USING', b'KEY', b'LOCATE', b'ERL', b'INKEY$']


def rand_bytes(rng, n, alphabet):
    return bytes(bytearray(rng.choice(alphabet) for _ in range(n)))


ASCII = [c for c in range(32, 127)]
STRCH = [c for c in range(32, 256) if c != 34] + [0x8f] * 20 + [0x20] * 10
REMCH = [c for c in range(32, 256)] + [34] * 10 + [0x8f] * 5
DATACH = [c for c in range(32, 127) if c not in (58,)] + [34] * 3


def gen_piece(rng):
    k = rng.random()
    if k < 0.22:
        return b'A' + rng.choice([b'', b'%', b'!', b'#']) + b'=' + rng.choice(NUMS)
    if k < 0.34:
        return rng.choice([b'GOTO ', b'GOSUB ', b'IF X THEN ', b'ON X GOTO 5,', b'RESTORE ', b'IF Y THEN 10 ELSE ']) \
            + rng.choice(JUMPS)
    if k < 0.52:
        s = rand_bytes(rng, rng.choice([0, 1, 2, 5, 17, 40]), STRCH)
        return rng.choice([b'PRINT "', b'A$="', b'?"']) + s + rng.choice([b'"', b'"', b'";' + rng.choice(NUMS)])
    if k < 0.60:
        return rng.choice(KEYWORDS) + rng.choice([b'', b' ', b'(1)', b' 256'])
    if k < 0.68:
        return b'DATA ' + rand_bytes(rng, rng.choice([0, 1, 3, 9, 30]), DATACH)
    if k < 0.76:
        return b'PRINT ' + rng.choice(NUMS) + rng.choice([b'+', b'*', b'-', b'\\', b' MOD ', b'^']) + rng.choice(NUMS)
    if k < 0.82:
        return rand_bytes(rng, rng.choice([1, 2, 6, 20]), ASCII)
    if k < 0.90:
        return b'B(' + rng.choice(NUMS) + b',' + rng.choice(NUMS) + b')=' + rng.choice(NUMS)
    return b' ' * rng.choice([1, 2, 5])


def gen_text(rng, tag):
    """Statement text (without the line number).  A 'tagged' line starts with PRINT "T<tag>":END so that a GOTO
    to it is observable and harmless."""
    want = rng.choice([0, 0, 1, 3, 8, 20, 40, 80, 120, 200, 235])
    tagged = rng.random() < 0.7
    parts = [b'PRINT "T%d":END' % tag] if tagged else []
    total = len(parts[0]) if parts else 0
    while total < want:
        p = gen_piece(rng)
        parts.append(p)
        total += len(p) + 1
    text = b':'.join(parts)
    k = rng.random()
    if k < 0.25:
        tail = rng.choice([b":REM ", b"'", b":'", b" ' "]) if text else rng.choice([b"REM ", b"'"])
        text += tail + rand_bytes(rng, rng.choice([0, 1, 4, 15, 50]), REMCH)
    elif k < 0.33:
        text += (b':' if text else b'') + b'PRINT "' + rand_bytes(rng, rng.choice([0, 3, 12]), STRCH)   # unterminated
    if not text.strip(b' '):
        text = b'X' if not tagged else text
    if text.lstrip(b' ')[:1] in (b'0', b'1', b'2', b'3', b'4', b'5', b'6', b'7', b'8', b'9', b'.'):
        text = b'Z' + text     # `11  7` would be line 117
    return text[:244], tagged


PROBES = ['between-top', 'between-top', 'replace-top', 'replace-second', 'between-any', 'replace-any', 'above-top',
          'below-first']


def probe_line(rng, nums, kind):
    """Line number for an edit aimed at a particular place of the program holding the lines `nums`."""
    if not nums:
        return rng.choice([0, 10, 65529, rng.randrange(65530)])
    gaps = [(a, b) for a, b in zip(nums, nums[1:]) if b - a > 1]
    if kind == 'between-top' and len(nums) >= 2 and nums[-1] - nums[-2] > 1:
        a, b = nums[-2], nums[-1]
        return rng.choice([(a + b) // 2, a + 1, b - 1])
    if kind in ('between-top', 'between-any') and gaps:
        a, b = rng.choice(gaps) if kind == 'between-any' else gaps[-1]
        return rng.choice([(a + b) // 2, a + 1, b - 1])
    if kind == 'replace-second' and len(nums) >= 2:
        return nums[-2]
    if kind == 'replace-any':
        return rng.choice(nums)
    if kind == 'above-top' and nums[-1] < 65529:
        return rng.choice([nums[-1] + 1, 65529, min(65529, nums[-1] + 10)])
    if kind == 'below-first' and nums[0] > 0:
        return rng.choice([nums[0] - 1, 0])
    return nums[-1]


FILE_SEPARATORS = [b'\r\n', b'\r\n', b'\r', b'\n', b'\r\n\r\n', b'\r\r', b'\n\n', b'\r\n   \r\n', b'\r\n\n',
                   b'\r\n\r\n\r\n', b'\r\n \r\n', b'\r\n\t\r\n']
FILE_ENDINGS = [b'\r\n\x1a', b'\r\n', b'', b'\x1a', b'\r\x1a', b'\r\n\r\n\x1a', b'\n', b'\r\n\x1a\x1a', b'\r\n  \r\n',
                b'\r\n\x1a30000 REM behind the end-of-file byte\r\n\x1a']
FILE_LEADS = [b'', b'', b'', b'\r\n', b'  \r\n', b'\r\n\r\n']


def text_file(rng, nums, tag0):
    """A program text file as an editor would write it (not SAVE): numbered lines in any order, repeats of
    existing / earlier numbers (replace), lines holding only a number (delete; only numbers present at that
    point, a missing one would abort the MERGE with Undefined line number), blank and blank-only lines,
    CR / LF / CRLF line ends, with or without 1A, last line with or without a line end.
    Returns (file bytes, [[n, text or None, tagged, tag], ...] in file order)."""
    present = set(nums)
    items = []
    for j in range(rng.choice([1, 2, 3, 4, 6, 9])):
        k = rng.random()
        if k < 0.15 and present:
            n = rng.choice(sorted(present))
            present.discard(n)
            items.append([n, None, False, 0])
            continue
        if k < 0.4 and present:
            n = rng.choice(sorted(present))
        elif k < 0.7:
            n = probe_line(rng, sorted(present), rng.choice(PROBES))
        else:
            n = rng.choice([rng.randrange(65530), rng.choice(BOUNDARY_LINES)])
        tag = tag0 + j
        text = b'PRINT "T%d":END' % tag
        if rng.random() < 0.5:
            piece = gen_piece(rng)
            if len(piece) <= 60 and piece.strip(b' '):
                text += b':' + piece
        present.add(n)
        items.append([n, text.decode('latin-1'), True, tag])
    data = rng.choice(FILE_LEADS)
    for j, it in enumerate(items):
        data += (b'%d' % it[0]) + (b'' if it[1] is None else b' ' + it[1].encode('latin-1'))
        if j < len(items) - 1:
            data += rng.choice(FILE_SEPARATORS)
    data += rng.choice(FILE_ENDINGS)
    return data, items


def failing_cmd(rng, nums):
    """An editing command that must be refused whatever the program is."""
    missing = next(n for n in (rng.randrange(65530), 7, 65529, 65528, 3, 1, 0, 2) if n not in nums)
    return rng.choice([b'LOAD "NOSUCH"', b'MERGE "NOSUCH"', b'LOAD "NOSUCH.BAS",R', b'CHAIN MERGE "NOSUCH"',
                       b'EDIT %d' % missing, b'AUTO 10,', b'65530 PRINT 1', b'RENUM 65530', b'DELETE 10,20',
                       b'DELETE 65530', b'RENUM 10,,', b'%d' % missing, b'DELETE %d' % missing])


def gen_history(rng, nops, profile):
    """List of ops: ['s', n, text, tagged, tag] | ['b', n] | ['d', a|None, b|None] | ['n'] |
    ['r', new|None, old|None, step|None] (RENUM) | ['f', cmd] (must fail) | ['p', kind] (aimed line entry) |
    ['m', 'merge'|'load', file bytes, [[n, text|None, tagged, tag], ...]] (text file written by the harness)"""
    pool = sorted(set(rng.sample(BOUNDARY_LINES, rng.choice([2, 4, 8])) +
                      [rng.randrange(65530) for _ in range(rng.choice([2, 6, 20, 40]))]))
    ops = []
    tag = 0

    def pick(p_new=0.1):
        if rng.random() < p_new:
            return rng.choice([rng.randrange(65530), rng.choice(BOUNDARY_LINES)])
        return rng.choice(pool)

    for i in range(nops):
        k = rng.random()
        if profile == 'desc':
            # mostly insertion in front of everything already there
            if k < 0.8:
                n = max(0, 65529 - 7 * i - rng.randrange(7))
                tag += 1
                text, tagged = gen_text(rng, tag)
                ops.append(['s', n, text, tagged, tag])
                pool.append(n)
                continue
            k = rng.random()
        if profile == 'merge':
            if k < 0.2:
                ops.append(['m', 'auto'])
                if rng.random() < 0.4:
                    ops.append(['p', rng.choice(PROBES)])
                continue
            k = rng.random()
        if profile == 'renum':
            if k < 0.15:
                ops.append(['r', 'auto', 'auto', 'auto'])
                if rng.random() < 0.6:
                    ops.append(['p', rng.choice(PROBES)])
                continue
            k = rng.random()
        if profile == 'smallmem':
            if k < 0.75:
                n = pick(0.3) if rng.random() < 0.5 else max(0, 40000 - 11 * i)
                tag += 1
                text = b'PRINT "T%d":END:A$="' % tag + rand_bytes(rng, rng.choice([10, 60, 150, 220]), STRCH) + b'"'
                ops.append(['s', n, text[:244], True, tag])
                pool.append(n)
                continue
            k = rng.random()
        if k < 0.55:
            tag += 1
            text, tagged = gen_text(rng, tag)
            ops.append(['s', pick(), text, tagged, tag])
        elif k < 0.70:
            ops.append(['b', pick(0.15)])
        elif k < 0.93:
            form = rng.random()
            a, b = pick(0.3), pick(0.3)
            if form < 0.55:
                if rng.random() < 0.85 and a > b:
                    a, b = b, a
                ops.append(['d', a, b])
            elif form < 0.75:
                ops.append(['d', a, a])
            elif form < 0.88:
                ops.append(['d', a, None])
            else:
                ops.append(['d', None, b])
        elif k < 0.975 or profile == 'smallmem':
            ops.append(['n'])
        elif k < 0.98 and profile == 'mixed':
            # MERGE / LOAD of a text file written by the harness (chosen when it is reached)
            ops.append(['m', 'auto'])
        elif k < 0.99:
            # RENUM; the arguments are chosen when the operation is reached (they depend on the lines present
            # at that point) and written back into the op, so that a replay has the concrete numbers
            ops.append(['r', 'auto', 'auto', 'auto'])
        else:
            # an editing command that must fail (missing file, missing line, bad syntax) and change nothing
            ops.append(['f', 'auto'])
        # a command that may have been refused is followed, now and then, by an edit aimed at the lines
        # around the top / the middle of the program (also chosen when it is reached)
        if ops[-1][0] in ('r', 'd', 'b', 'f') and rng.random() < (0.6 if ops[-1][0] in ('r', 'f') else 0.25):
            ops.append(['p', rng.choice(PROBES)])
        elif profile == 'smallmem' and ops[-1][0] == 's' and rng.random() < 0.12:
            ops.append(['p', rng.choice(PROBES)])      # after a possible Out of memory
    return ops


# ---------------------------------------------------------------------------------------------
# oracle: Python dict line -> (tokens, listing)

def serialise(ref, code_start):
    """The byte layout the statement describes: 00 <addr of next line + 1 : 2> <line : 2> tokens ... 00 00 00"""
    out = bytearray()
    offsets = {}
    for n in sorted(ref):
        body = ref[n][0]
        offsets[n] = len(out)
        nxt = code_start + 1 + len(out) + 5 + len(body)
        out += struct.pack('<BHH', 0, nxt & 0xffff, n) + body
    offsets[65536] = len(out)
    out += b'\0\0\0'
    return bytes(out), offsets


class Scratch(object):
    """A second real session that only ever holds one line: gives a line's tokens and its listing."""

    def __init__(self):
        self.s = basic.new_session()
        self.cache = {}

    def line(self, n, text):
        key = (n, text)
        if key not in self.cache:
            s = self.s
            s.execute(b'NEW')
            out = s.execute(b'%d %s' % (n, text))
            p = s._impl.program
            code = p.bytecode.getvalue()[:p.size()]
            if out != b'' or len(code) < 8:
                self.cache[key] = None    # the line is not storable on its own (does not happen with the generator)
            else:
                listed = p.list_lines(None, None)
                if struct.unpack('<H', code[3:5])[0] != n or len(listed) != 1:
                    self.cache[key] = None    # e.g. `11  7…` is line 117
                else:
                    self.cache[key] = (code[5:-3], listed[0])
        return self.cache[key]

    def close(self):
        self.s.close()


class History(object):
    """Runs one history on a real Session, checking every observable after every operation."""

    def __init__(self, ctx, scratch, ops, max_memory, profile, sample_every=25, with_load=True):
        self.ctx, self.scratch, self.ops, self.max_memory, self.profile = ctx, scratch, ops, max_memory, profile
        self.sample_every = sample_every
        self.with_load = with_load or any(o[0] == 'm' for o in ops)
        self.model_ops = []
        self.impl_steps = []
        self.failed = None
        self.nonwf_reported = False
        self.final = ''
        self.ref = {}
        self.tmp = None

    def case(self, upto):
        ops = [[o[0]] + [x.decode('latin-1') if isinstance(x, bytes) else x for x in o[1:]] for o in self.ops[:upto + 1]]
        return {'ops': ops, 'max_memory': self.max_memory, 'profile': self.profile}

    def fail(self, key, i, what):
        if self.failed is None:
            self.failed = (key, i, what)
            self.ctx.fail(key, self.case(i), 'op %d %r: %s' % (i, self.ops[i][:3] if i < len(self.ops) else 'end', what))

    # -- observables of the real implementation

    def peek(self, a):
        m = self.impl.all_memory
        return m._get_memory(m.segment * 16 + a)

    def chain_fast(self):
        cs = self.prog.code_start
        p, out, term = cs, [], None
        for _ in range(5000):
            link = self.peek(p + 1) + 256 * self.peek(p + 2)
            if link == 0:
                term = p - cs
                break
            out.append((p - cs, self.peek(p + 3) + 256 * self.peek(p + 4)))
            p = link - 1
            if p < cs or p > 70000:
                break
        return out, term

    def chain_basic(self):
        """The same walk by a BASIC one-liner using PEEK."""
        cs = self.prog.code_start
        out = self.s.execute(b'P=%d:FOR I=1 TO 3000:L=PEEK(P+1)+256*PEEK(P+2):PRINT P;L;PEEK(P+3)+256*PEEK(P+4);:P=L-1:'
                             b'I=I-3000*(L=0):NEXT:PRINT' % cs)
        try:
            v = [int(float(x)) for x in out.split()]
        except ValueError:
            return None, out
        trip = [v[i:i + 3] for i in range(0, len(v), 3)]
        if not trip or len(trip[-1]) != 3 or trip[-1][1] != 0:
            return None, out
        return ([(t[0] - cs, t[2]) for t in trip[:-1]], trip[-1][0] - cs), out

    def run(self):
        ctx = self.ctx
        kw = {}
        if self.with_load:
            self.tmp = tempfile.mkdtemp(prefix='c13_')
            kw = dict(devices={'C': self.tmp}, current_device='C')
        if self.max_memory:
            kw['max_memory'] = self.max_memory
        self.s = basic.new_session(**kw)
        try:
            self.impl = self.s._impl
            self.prog = self.impl.program
            self.cs = self.prog.code_start
            self.stack = self.impl.memory.stack_start()
            self.ref = {}
            for i, op in enumerate(self.ops):
                self.step(i, op)
                if self.failed:
                    break
            if not self.failed and self.with_load and self.ops and all(v[4] for v in self.ref.values()):
                self.save_load(len(self.ops) - 1)
        finally:
            try:
                self.s.close()
            finally:
                if self.tmp:
                    shutil.rmtree(self.tmp, ignore_errors=True)
        return self

    def step(self, i, op):
        ctx, ref = self.ctx, self.ref
        kind = op[0]
        ctx.count('op:' + kind)
        if kind == 'p':
            # resolve the probe into an ordinary line entry (kept in the op list for the replay)
            n = probe_line(ctx.rng, sorted(ref), op[1])
            tag = 900000 + i
            ctx.count('probe:' + op[1])
            op[:] = ['s', n, b'PRINT "T%d":END' % tag + ctx.rng.choice([b'', b':A=256', b':GOTO %d' % n, b":' probe"]),
                     True, tag]
            kind = 's'
        if kind == 'f':
            self.failing(i, op)
            return
        if kind == 'm':
            self.mergefile(i, op)
            return
        # --- expected effect from the property statement
        may_oom = False
        if kind == 's':
            n, text = op[1], op[2]
            cmd = b'%d %s' % (n, text)
            info = self.scratch.line(n, text)
            if info is None:
                ctx.count('skipped:not-storable')
                return
            wf = ctx_wf(ctx, info[0])
            new = dict(ref)
            new[n] = (info[0], info[1], op[3], op[4], wf)
            newsize = len(serialise(new, self.cs)[0])
            if self.cs + newsize <= self.stack:
                exp, expref = 'ok', new
            elif self.cs + newsize > self.stack + 2:
                exp, expref = 'e7', ref
            else:
                exp, expref, may_oom = 'ok', new, True
            self.model_ops.append('s:%d:%s' % (n, hexb(info[0])))
            ctx.count('store:%s' % ('replace' if n in ref else 'insert'))
            ctx.count('bodylen:%d' % (len(info[0]) // 50 * 50))
        elif kind == 'b':
            n = op[1]
            cmd = b'%d' % n
            if n in ref:
                expref = dict(ref)
                del expref[n]
                exp = 'ok'
            else:
                exp, expref = 'e8', ref
            self.model_ops.append('s:%d:-' % n)
            ctx.count('bare:%s' % ('hit' if n in ref else 'miss'))
        elif kind == 'd':
            a, b = op[1], op[2]
            if a is not None and b is not None and a == b and self.ctx.rng.random() < 0.5:
                cmd = b'DELETE %d' % a
            else:
                cmd = b'DELETE %s-%s' % (b'' if a is None else b'%d' % a, b'' if b is None else b'%d' % b)
            lo_, hi_ = (0 if a is None else a), (65535 if b is None else b)
            sel = [n for n in ref if lo_ <= n <= hi_]
            if sel:
                expref = {n: v for n, v in ref.items() if n not in sel}
                exp = 'ok'
            else:
                exp, expref = 'e5', ref
            self.model_ops.append('d:%s:%s' % ('-' if a is None else a, '-' if b is None else b))
            ctx.count('delete:%s' % ('none' if not sel else 'all' if len(sel) == len(ref) else 'some'))
        elif kind == 'r':
            self.renum(i, op)
            return
        else:
            cmd = b'NEW'
            exp, expref = 'ok', {}
            self.model_ops.append('n')
        # --- the real thing
        try:
            out = self.s.execute(cmd)
        except Exception as e:  # noqa
            self.fail('exception:%s' % type(e).__name__, i, '%r raised %r out of Session.execute' % (cmd[:60], e))
            return
        status = MSG.get(out, 'other')
        ctx.count('status:' + status)
        if may_oom and status == 'e7':
            exp, expref = 'e7', ref
        ctx.case((self.profile, i, cmd))
        if status != exp:
            self.fail('status:%s-for-%s' % (status, exp), i, '%r answered %r, expected %s' % (cmd[:60], out, exp))
            return
        self.ref = ref = expref
        self.observe(i, status)

    def mergefile(self, i, op):
        """MERGE / LOAD of a text file written by the harness: the program afterwards is what typing the file's
        lines in file order gives (LOAD: on an empty program)."""
        ctx, ref = self.ctx, self.ref
        if self.tmp is None:
            ctx.count('mergefile:skipped-no-drive')
            return
        if op[1] == 'auto':
            data, items = text_file(ctx.rng, sorted(ref), 800000 + 100 * i)
            op[:] = ['m', ctx.rng.choice(['merge', 'merge', 'load']), data, items]
        mode, data, items = op[1], op[2], op[3]
        new = {} if mode == 'load' else dict(ref)
        for n, text, tagged, tag in items:
            if text is None:
                if n not in new:
                    ctx.count('mergefile:skipped-bare-missing')
                    return
                del new[n]
            else:
                info = self.scratch.line(n, text.encode('latin-1'))
                if info is None:
                    ctx.count('mergefile:skipped-not-storable')
                    return
                new[n] = (info[0], info[1], tagged, tag, ctx_wf(ctx, info[0]))
        if self.cs + len(serialise(new, self.cs)[0]) + 600 > self.stack:
            ctx.count('mergefile:skipped-near-memory-limit')
            return
        name = 'M%d' % (i % 7)
        with open(os.path.join(self.tmp, name + '.BAS'), 'wb') as f:
            f.write(data)
        cmd = b'%s "%s"' % (mode.upper().encode(), name.encode())
        try:
            out = self.s.execute(cmd)
        except Exception as e:  # noqa
            self.fail('exception:mergefile:%s' % type(e).__name__, i, '%r of %r raised %r' % (cmd, data[:200], e))
            return
        ctx.case((self.profile, i, cmd, data))
        ctx.count('mergefile:%s' % mode)
        ctx.count('mergefile:%s' % ('blank-line-inside' if any(s in data.rstrip(b'\r\n\x1a \t') for s in
                                    (b'\r\n\r\n', b'\r\r', b'\n\n', b'\r\n \r\n', b'\r\n   \r\n', b'\r\n\t\r\n', b'\r\n\n'))
                                    else 'no-blank-line-inside'))
        if out != b'':
            self.fail('mergefile:message', i, '%r of the file %r printed %r' % (cmd, data[:300], out[:100]))
            return
        self.ref = new
        self.model_ops.append('l:%s' % (','.join('%d.%s' % (n, hexb(new[n][0])) for n in sorted(new)) or '-'))
        if not all(v[4] for v in new.values()):
            ctx.count('mergefile:nonwf-line')
        self.observe(i, 'ok')
        if self.failed and self.failed[1] == i:
            # make the report say which file it was
            self.ctx.failures[-1]['what'] += ' [after %r of the text file %r]' % (cmd, data[:300])

    def failing(self, i, op):
        """A command that must be refused: an error message, and the program exactly as before."""
        ctx = self.ctx
        if op[1] == 'auto':
            op[1] = failing_cmd(ctx.rng, sorted(self.ref))
        cmd = op[1]
        try:
            out = self.s.execute(cmd)
        except Exception as e:  # noqa
            self.fail('exception:failing:%s' % type(e).__name__, i, '%r raised %r out of Session.execute' % (cmd, e))
            return
        ctx.case((self.profile, i, cmd))
        ctx.count('failing:%s' % cmd.split(b' ')[0].decode('latin-1')[:8])
        if not out.endswith(b'\xff\r\n') or out.count(b'\r\n') != 1:
            self.fail('failing:not-refused', i, '%r answered %r, expected a single error message' % (cmd, out[:100]))
            return
        if len(op) > 2 and op[2] and op[2] not in out:
            self.fail('failing:message', i, '%r answered %r, expected %r' % (cmd, out[:100], op[2]))
            return
        self.model_ops.append('x:0')
        self.observe(i, 'e0')

    def renum(self, i, op):
        """RENUM [new][,[old][,step]]: checked structurally, then the reference is re-read (a RENUM rewrites
        jump operands, which the line -> tokens reference cannot predict)."""
        import re
        ctx, ref = self.ctx, self.ref
        nums = sorted(ref)
        if any(not ref[n][4] for n in nums):
            ctx.count('renum:skipped-nonwf-line-present')   # known finding C13-F1: the token scan derails
            return
        if op[1] == 'auto':
            op[1], op[2], op[3] = renum_args(ctx.rng, nums)
        new, old, step = op[1], op[2], op[3]
        cmd = renum_cmd(ctx.rng, new, old, step)
        nw, od, st = (10 if new is None else new), (0 if old is None else old), (10 if step is None else step)
        kept = [n for n in nums if n < od]
        moved = [n for n in nums if n >= od]
        # the rule of the statement: a kept line at or above `new`, or a new number above 65529, is refused
        if any(v is not None and v > 65529 for v in (new, old, step)):
            # not a line number at all (line numbers are 0..65529): `65530` reads as the number 6553 followed
            # by 0, so the statement is a Syntax error before RENUM's own range logic is reached
            exp, why = 'e2', 'unrepresentable-argument'
        elif st < 1:
            exp, why = 'e5', 'step0'
        elif kept and kept[-1] >= nw:
            exp, why = 'e5', 'overlap'
        elif moved and nw + (len(moved) - 1) * st > 65529:
            exp, why = 'e5', 'beyond65529'
        else:
            exp, why = 'ok', ('none-moved' if not moved else 'all-moved' if not kept else 'some-moved')
        ctx.count('renum:%s' % why)
        if kept and exp == 'ok' or why == 'overlap':
            ctx.count('renum:new-vs-highest-kept:%s' % ('equal' if nw == kept[-1] else 'one-above' if nw == kept[-1] + 1
                                                         else 'one-below' if nw == kept[-1] - 1 else 'other'))
        try:
            out = self.s.execute(cmd)
        except Exception as e:  # noqa
            self.fail('exception:renum:%s' % type(e).__name__, i, '%r raised %r out of Session.execute' % (cmd, e))
            return
        if out == b'Illegal function call\xff\r\n':
            status = 'e5'
        elif out == b'Syntax error\xff\r\n':
            status = 'e2'
        elif re.match(br'\A(Undefined line \d+ in \d+\r\n)*\Z', out):
            status = 'ok'
        else:
            status = 'other'
        ctx.count('status:' + status)
        ctx.case((self.profile, i, cmd))
        if status != exp:
            self.fail('renum:status:%s-for-%s' % (status, exp), i,
                      '%r with lines %r answered %r, expected %s (%s)' % (cmd, nums[:40], out[:100], exp, why))
            return
        if status in ('e5', 'e2'):
            # refused: nothing may have changed (observe compares everything with the old reference)
            self.model_ops.append('x:%s' % status[1:])
            self.observe(i, status)
            return
        prog = self.prog
        code = prog.bytecode.getvalue()[:prog.size()]
        image = parse_image(code, self.cs)
        if isinstance(image, str):
            self.fail('renum:image', i, '%r left a broken program image: %s' % (cmd, image))
            return
        got = [(line, mask_jumps(body)) for _, line, body in image]
        want = [(n, mask_jumps(ref[n][0])) for n in kept] + \
               [(nw + j * st, mask_jumps(ref[n][0])) for j, n in enumerate(moved)]
        if [g[0] for g in got] != [w[0] for w in want]:
            self.fail('renum:numbers', i, '%r on lines %r gave lines %r, expected %r'
                      % (cmd, nums[:40], [g[0] for g in got][:40], [w[0] for w in want][:40]))
            return
        if got != want:
            bad = [w[0] for g, w in zip(got, want) if g != w]
            self.fail('renum:bodies', i, '%r changed more than jump operands in line(s) %r' % (cmd, bad[:10]))
            return
        listed = prog.list_lines(None, None)
        if len(listed) != len(image) or any(not l.startswith(b'%d ' % line) for l, (_, line, _) in zip(listed, image)):
            self.fail('renum:list', i, 'after %r LIST shows %r for the lines %r'
                      % (cmd, [l[:12] for l in listed][:20], [g[0] for g in got][:20]))
            return
        newref = {}
        for (_, line, body), text, n in zip(image, listed, kept + moved):
            # (the lister treats line 0 specially: no separating blank; not compared)
            if body == ref[n][0] and n != 0 and line != 0 and text[len(b'%d' % line):] != ref[n][1][len(b'%d' % n):]:
                self.fail('renum:listing', i, 'line %d (was %d) has the same tokens but lists as %r, before %r'
                          % (line, n, text[:80], ref[n][1][:80]))
                return
            newref[line] = (bytes(body), text, ref[n][2], ref[n][3], ctx_wf(ctx, body))
        # re-synchronise: the reference and the model continue from the state read back
        self.ref = newref
        self.model_ops.append('l:%s' % (','.join('%d.%s' % (line, hexb(body)) for _, line, body in image) or '-'))
        self.observe(i, 'ok', sample=True)

    def observe(self, i, status, sample=None):
        ctx, ref, prog = self.ctx, self.ref, self.prog
        exp_bytes, exp_off = serialise(ref, self.cs)
        size = prog.size()
        code = prog.bytecode.getvalue()
        if size != len(exp_bytes) or code[:size] != exp_bytes:
            self.fail('bytes', i, 'program memory (%d bytes) %s differs from the serialised reference (%d bytes) %s'
                      % (size, hexb(code[:size])[:400], len(exp_bytes), hexb(exp_bytes)[:400]))
            return
        if len(code) != size:
            self.fail('bytes:trailing', i, 'bytecode buffer holds %d bytes beyond size()' % (len(code) - size))
            return
        if self.cs + size > self.stack + 2:
            self.fail('memory', i, 'program end %d beyond the top of memory %d' % (self.cs + size, self.stack))
            return
        ln = dict(prog.line_numbers)
        if ln != exp_off:
            self.fail('dict', i, 'line_numbers %r differ from the reference offsets %r'
                      % (sorted(ln.items())[:20], sorted(exp_off.items())[:20]))
            return
        # fresh rescan by the real rebuild_line_dict: must reproduce the same index and leave the bytes alone.
        # It is run on a COPY of the bytes inside the scratch session's Program: calling it on the session under
        # test would rebuild that session's bookkeeping after every operation and hide stale incremental state.
        sp = self.scratch.s._impl.program
        if sp.code_start != self.cs:
            raise RuntimeError('scratch session has a different code_start')
        sp.erase()
        sp.bytecode.seek(0)
        sp.bytecode.write(code)
        sp.bytecode.truncate()
        sp.rebuild_line_dict()
        rs = dict(sp.line_numbers)
        code2 = sp.bytecode.getvalue()
        sp.erase()
        nonwf = [n for n in ref if not ref[n][4]]
        if nonwf and (rs != ln or code2 != code):
            # outside the theorems' hypothesis: the line holds a raw byte the scanner takes for a token
            ctx.count('nonwf:rescan-differs')
            if not self.nonwf_reported:
                self.nonwf_reported = True
                ctx.fail('nonwf-body:rescan', self.case(i),
                         'line %d holds a raw REM/FD/FE/FF byte outside string literals and REM; rebuild_line_dict gives %r, '
                         'incremental index %r' % (nonwf[0], sorted(rs.items())[:20], sorted(ln.items())[:20]))
        elif rs != ln or code2 != code:
            self.fail('rescan', i, 'rebuild_line_dict gives %r (bytes %s), incremental index %r'
                      % (sorted(rs.items())[:20], 'changed' if code2 != code else 'same', sorted(ln.items())[:20]))
            return
        ch, term = self.chain_fast()
        exp_chain = [(exp_off[n], n) for n in sorted(ref)]
        if ch != exp_chain or term != exp_off[65536]:
            self.fail('chain', i, 'link chain %r end %r, expected %r end %r' % (ch[:20], term, exp_chain[:20], exp_off[65536]))
            return
        lines = prog.list_lines(None, None)
        exp_list = [ref[n][1] for n in sorted(ref)]
        if lines != exp_list:
            self.fail('list', i, 'listing %r, expected %r' % (lines[:8], exp_list[:8]))
            return
        nums = sorted(ref)
        self.impl_steps.append('%s:%d:%d:%d:%d:%d:%d' % (
            status, size, digest(bytearray(code[:size])),
            digest([x for kv in sorted(ln.items()) for x in kv]),
            digest([x for kv in sorted(rs.items()) for x in kv]),
            digest([x for pr in ch for x in pr] + [term + 1 if term is not None else 0]),
            digest([int(l.split(b' ')[0]) for l in lines])))
        by_pos = [k for _, k in sorted((p, k) for k, p in ln.items() if k <= 65535)]
        self.final = '%s %s %s' % (hexb(code[:size]), ','.join(str(x) for kv in sorted(ln.items()) for x in kv) or '-',
                                   ','.join(map(str, by_pos)) or '-')
        if sample is None:
            sample = (i % self.sample_every == self.sample_every - 1) or i == len(self.ops) - 1
        if sample:
            self.sampled(i, nums, exp_chain, exp_off)

    def sampled(self, i, nums, exp_chain, exp_off):
        """The slow observations through BASIC statements: LIST, PEEK, GOTO."""
        ctx, ref = self.ctx, self.ref
        ctx.count('sampled')
        rng = ctx.rng
        # LIST of a window (the whole program when small)
        if len(nums) <= 25:
            cmd, want = b'LIST', nums
        else:
            a = rng.randrange(len(nums))
            b = min(len(nums) - 1, a + rng.randrange(12))
            cmd, want = b'LIST %d-%d' % (nums[a], nums[b]), nums[a:b + 1]
        out = self.s.execute(cmd)
        exp = b''.join(ref[n][1] + b'\r\n' for n in want)
        if out != exp:
            self.fail('LIST', i, '%r printed %r, expected %r' % (cmd, out[:300], exp[:300]))
            return
        got, raw = self.chain_basic()
        if got is None and raw == b'Out of memory\xff\r\n':
            ctx.count('peek-walk:no-room-for-variables')
        elif got is None or got[0] != exp_chain or got[1] != exp_off[65536]:
            self.fail('PEEK', i, 'PEEK walk gave %r' % (raw[:300],))
            return
        tagged = [n for n in nums if ref[n][2]]
        targets = set(rng.sample(tagged, min(3, len(tagged))))
        if tagged:
            targets |= {tagged[0], tagged[-1]}
        for n in sorted(targets):
            out = self.s.execute(b'GOTO %d' % n)
            ctx.count('goto')
            if out != b'T%d\r\n' % ref[n][3]:
                self.fail('GOTO', i, 'GOTO %d printed %r, expected T%d' % (n, out[:100], ref[n][3]))
                return
        for n in (rng.randrange(65530), (nums[0] + 1) if nums else 5):
            if n not in ref:
                out = self.s.execute(b'GOTO %d' % n)
                if out != b'Undefined line number\xff\r\n':
                    self.fail('GOTO:missing', i, 'GOTO %d (no such line) printed %r' % (n, out[:100]))
                    return

    def save_load(self, i):
        """LOAD of the saved program (the statement lists LOAD among the edit operations)."""
        self.ctx.count('save-load')
        try:
            out = self.s.execute(b'SAVE "T.BAS"')
            out += self.s.execute(b'LOAD "T.BAS"')
        except Exception as e:  # noqa
            self.fail('exception:load:%s' % type(e).__name__, i, 'SAVE/LOAD raised %r' % (e,))
            return
        if out in (b'Out of string space\xff\r\n' * 2, b'Out of memory\xff\r\n' * 2):
            self.ctx.count('save-load:no-room-for-the-file-name')
            return
        if out != b'':
            self.fail('load:message', i, 'SAVE/LOAD printed %r' % out[:200])
            return
        prog = self.prog
        exp_bytes, exp_off = serialise(self.ref, self.cs)
        code = prog.bytecode.getvalue()[:prog.size()]
        if code != exp_bytes or dict(prog.line_numbers) != exp_off:
            self.fail('load', i, 'after SAVE/LOAD the program is %s %r, expected %s' % (
                hexb(code)[:300], sorted(prog.line_numbers.items())[:10], hexb(exp_bytes)[:300]))
            return
        lines = prog.list_lines(None, None)
        if lines != [self.ref[n][1] for n in sorted(self.ref)]:
            self.fail('load:list', i, 'listing after LOAD %r' % lines[:8])


WF_CACHE = {}


def wf_body(body):
    """The hypothesis of the theorems (Lean: wfBody): TokenisedStream.skip_to, as repaired, finds no line end
    inside the body and the body does not end inside a token payload.  Used only to classify."""
    from pcbasic.basic.base import tokens as tk
    plus = {ord(k): v for k, v in tk.PLUS_BYTES.items() if len(k) == 1}
    rem_tok = ord(tk.REM)
    lit = rem = False
    skip = 0
    for c in bytearray(body):
        if skip:
            skip -= 1
            continue
        if c == 0:
            return False
        if c == 34:
            lit = not lit
        elif c == rem_tok and not lit:
            rem = True
        if lit or rem:
            continue
        skip = plus.get(c, 0)
    return skip == 0


def mask_jumps(body):
    """The body with the operand of every line-number token (0E lo hi, outside string literals and REM)
    replaced by FF FF: the part of a line RENUM may not change."""
    from pcbasic.basic.base import tokens as tk
    plus = {ord(k): v for k, v in tk.PLUS_BYTES.items() if len(k) == 1}
    rem_tok, uint = ord(tk.REM), ord(tk.T_UINT)
    out = bytearray(body)
    lit = rem = False
    i, n = 0, len(out)
    while i < n:
        c = out[i]
        if c == 34:
            lit = not lit
        elif c == rem_tok and not lit:
            rem = True
        if lit or rem:
            i += 1
            continue
        k = plus.get(c, 0)
        if c == uint:
            for j in range(i + 1, min(n, i + 3)):
                out[j] = 0xff
        i += 1 + k
    return bytes(out)


def parse_image(code, cs):
    """The records of a program image, found by following the next-address fields:
    [(offset, line, body)], or a string saying what is wrong with the image."""
    p, out = 0, []
    for _ in range(70000):
        if p + 3 > len(code) or code[p:p + 1] != b'\0':
            return 'no record start at offset %d' % p
        link, = struct.unpack('<H', code[p + 1:p + 3])
        if link == 0:
            if p + 3 != len(code):
                return 'terminator at %d but the image has %d bytes' % (p, len(code))
            return out
        nxt = link - cs - 1
        if nxt < p + 5 or nxt + 3 > len(code):
            return 'next-address field at %d points to %d' % (p, nxt)
        line, = struct.unpack('<H', code[p + 3:p + 5])
        out.append((p, line, code[p + 5:nxt]))
        p = nxt
    return 'chain does not end'


RENUM_RX = None


def renum_args(rng, nums):
    """Boundary-dense RENUM arguments for a program with the line numbers `nums`."""
    cand_old = [None, None, 0, 65529]
    if nums:
        x = rng.choice(nums)
        cand_old += [x, x, x + 1, max(0, x - 1), nums[0], nums[-1], nums[-1] + 1, nums[len(nums) // 2]]
    old = rng.choice(cand_old)
    if old is not None:
        old = min(65529, old)
    o = 0 if old is None else old
    kept = [n for n in nums if n < o]
    k = len(nums) - len(kept)
    step = rng.choice([None, None, 1, 1, 2, 10, 100, 1000, 7000, 65529, 0])
    st = 10 if step is None else step
    cand_new = [None, None, 0, 1, 10, 65529, 65520, rng.randrange(65530)]
    if kept:
        hk = kept[-1]
        cand_new += [hk, hk, max(0, hk - 1), hk + 1, hk + 1, hk + 2, kept[0], hk + rng.randrange(1, 50)]
    if k:
        fit = 65529 - (k - 1) * st     # the last renumbered line gets exactly 65529
        cand_new += [v for v in (fit, fit, fit + 1, fit - 1) if 0 <= v <= 65529]
    new = rng.choice(cand_new)
    if new is not None:
        new = min(65529, new)
    if k >= 2 and rng.random() < 0.3:
        # refused only when a LATER line is reached: line j (counted from 0) is the first to pass 65529
        j = rng.randrange(1, k)
        new = (kept[-1] + 1 if kept else rng.choice([1, 2, 10]))
        new = min(new, 65000)       # (new >= 1 keeps the step an enterable number <= 65529)
        step = (65529 - new) // j + 1
    if rng.random() < 0.06:
        # an argument that is not a line number (0..65529)
        bad = rng.choice([65530, 65531, 65535, 65536, 70000, 99999])
        which = rng.randrange(3)
        new, old, step = (bad if which == 0 else new), (bad if which == 1 else old), (bad if which == 2 else step)
    return new, old, step


def renum_cmd(rng, new, old, step):
    f = lambda v: b'' if v is None else b'%d' % v    # noqa
    if step is not None:
        return b'RENUM %s,%s,%s' % (f(new), f(old), f(step))
    if old is not None:
        return b'RENUM %s,%s' % (f(new), f(old))
    if new is not None:
        return b'RENUM %d' % new
    return b'RENUM'


def ctx_wf(ctx, body):
    """classify a body and remember it so that the model's wfBody can be compared in one batch"""
    body = bytes(body)
    if body not in WF_CACHE:
        WF_CACHE[body] = wf_body(body)
    return WF_CACHE[body]


def compare_histories(ctx, hs):
    """model correspondence: one protocol line per history; reply = digests after every operation + final state"""
    lines, impl, cases = [], [], []
    for h in hs:
        if not h.model_ops or h.failed:
            continue
        n = len(h.impl_steps)
        if n != len(h.model_ops):
            continue
        lines.append('run %d %d %s' % (h.cs, h.stack, ';'.join(h.model_ops)))
        impl.append('ok %s | %s' % (' '.join(h.impl_steps), h.final))
        cases.append({'profile': h.profile, 'nops': n})
    if lines:
        ctx.compare(cases, impl, lines, label='history')


def run_history(ctx, scratch, ops, max_memory, profile, **kw):
    return History(ctx, scratch, ops, max_memory, profile, **kw).run()


def check_wf(ctx):
    """every body the tokeniser produced must satisfy the model's well-formedness predicate"""
    bodies = sorted(WF_CACHE)
    if not bodies:
        return
    outs = ctx.model(['wf %s' % hexb(b) for b in bodies])
    if outs is None:
        return
    for b, o in zip(bodies, outs):
        parts = o.split()
        mine = 'ok %d' % int(WF_CACHE[b])
        ctx.count('wf:%d' % int(WF_CACHE[b]))
        if ' '.join(parts[:2]) != mine:
            ctx.disagree({'label': 'wfBody', 'body': hexb(b)}, mine, o)


def fixed_histories():
    """hand-written histories for the corners named in the statement and the two repaired defects"""
    t = lambda k: b'PRINT "T%d":END' % k   # noqa
    hs = []
    hs.append(('fixed', None, [['b', 10], ['d', 1, 5], ['d', None, 100], ['d', 0, None], ['n'], ['b', 0],
                               ['s', 0, t(1), True, 1], ['s', 65529, t(2), True, 2], ['s', 256, t(3) + b':A=256', True, 3],
                               ['d', 1, 255], ['d', 257, 65528], ['s', 256, t(4), True, 4], ['s', 256, t(5) + b':GOTO 0', True, 5],
                               ['b', 256], ['s', 256, t(6), True, 6], ['d', 0, 0], ['d', 65529, None], ['d', None, 65529],
                               ['d', 0, 65529]]))
    # REM byte inside a string literal followed by a token with a 00 payload (rescan defect)
    hs.append(('fixed', None, [['s', 10, b'PRINT "A":A=256', False, 1], ['s', 20, b'PRINT "\x8f":A=256:GOTO 10', False, 2],
                               ['s', 5, b'A$="\x8f\x8f":B=0!:C=1D0', False, 3], ['s', 20, b'PRINT "\x8f";256', False, 4],
                               ['d', 10, 10], ['s', 30, b'?"\x8f', False, 5], ['s', 25, b'A$="x\x8fy":GOSUB 512', False, 6]]))
    # RENUM corners: new equal to / below / above the highest kept line, numbers beyond 65529, step 0, no-ops
    j = lambda k, tgt: b'PRINT "T%d":END:GOTO %d:IF X THEN %d ELSE 65529' % (k, tgt, tgt)   # noqa
    hs.append(('fixed-renum', None, [['s', 10, j(1, 30), True, 1], ['s', 20, j(2, 10), True, 2], ['s', 30, j(3, 40), True, 3],
                                     ['s', 40, j(4, 20) + b':REM GOTO 20 "\x0e\x14\x15', True, 4],
                                     ['r', 10, 20, None], ['r', 9, 20, None], ['r', 11, 20, None], ['r', None, None, None],
                                     ['r', 65500, None, None], ['r', 65499, None, None], ['r', 65526, None, 1],
                                     ['r', None, None, 0], ['r', 65527, None, 1], ['r', 100, 65529, 5], ['r', 0, None, 16382],
                                     ['b', 16382], ['r', 0, 1, 1], ['r', 1, 1, 1], ['s', 5, j(5, 2), True, 5],
                                     ['r', 5, 6, 7], ['r', 6, 6, 7], ['r', None, 7, None], ['d', 0, 5], ['r', 0, None, 65529],
                                     ['r', 1000, None, 1000], ['n'], ['r', None, None, None], ['r', 5, 5, 5]]))
    # raw FF / REM bytes in unquoted DATA text: outside the hypothesis wfBody (known finding C13-F1)
    hs.append(('fixed-nonwf', None, [['s', 10, b'DATA \xff', False, 1], ['s', 20, t(2), True, 2], ['s', 5, t(3), True, 3],
                                     ['s', 15, b'DATA \x8f:A=256', False, 4], ['b', 10], ['d', 15, 15]]))
    return hs


def failing_family(quick):
    """Deterministic family: (enter a small program, a command that must be refused, edits aimed at the top /
    middle of the program, a range delete), for every refused command x every kind of follow-up edit."""
    t = lambda k: b'PRINT "T%d":END' % k   # noqa
    shapes = [[10, 20, 30, 40]] if quick else [[10, 20, 30, 40], [1, 2, 3], [100, 65000], [5, 6, 7, 8, 9, 10, 65529],
                                                 [0, 256, 512, 32768, 65528]]
    rounds, tag = [], 0
    for lines in shapes:
        k = len(lines)
        refused = [['r', min(1, lines[0]), None, 65529],                 # the 2nd line would get a number > 65529
                   ['r', 1, None, 65528 // (k - 1) + 1],                 # only the last line would (step <= 65529)
                   ['r', 0, None, 65530], ['r', 65535, None, None], ['r', None, 65536, 1],   # not line numbers: Syntax error
                   ['r', lines[k // 2 - 1] + 1, lines[k // 2], 65529],   # the same with kept lines below `old`
                   ['r', lines[0], lines[1], None],                      # a kept line at `new`
                   ['r', lines[1], lines[-1], 1],                        # kept lines above `new`
                   ['r', None, None, 0],
                   ['d', lines[-1] + 1 if lines[-1] < 65529 else 65529, None] if lines[-1] < 65529 else ['d', 4, 4],
                   ['d', lines[0] + 1, lines[1] - 1] if lines[1] - lines[0] > 1 else ['b', 4],
                   ['b', lines[0] + 1 if lines[0] + 1 not in lines else 4],
                   ['f', b'LOAD "NOSUCH"', b'File not found'], ['f', b'MERGE "NOSUCH"', b'File not found'],
                   ['f', b'EDIT 4', b'Undefined line number'], ['f', b'AUTO 10,', b'Illegal function call'],
                   ['f', b'65530 PRINT 1', b'Syntax error'], ['f', b'DELETE 10,20', b'Syntax error']]
        for f in refused:
            for probe in (('between-top', 'replace-top', 'between-any') if quick else
                          ('between-top', 'replace-top', 'replace-second', 'between-any')):
                ops = [['n']]
                for n in lines:
                    tag += 1
                    ops.append(['s', n, t(tag), True, tag])
                ops += [list(f), ['p', probe], ['p', 'replace-any'], ['d', lines[1], lines[-1]]]
                rounds.append(ops)
    return rounds


def run(ctx):
    rng = ctx.rng
    scratch = Scratch()
    hs = []
    try:
        for profile, mm, ops in fixed_histories():
            hs.append(run_history(ctx, scratch, ops, mm, profile, sample_every=3))
        fam = failing_family(ctx.quick)
        for a in range(0, len(fam), 60):
            hs.append(run_history(ctx, scratch, [op for r in fam[a:a + 60] for op in r], None, 'refused-then-edit',
                                  sample_every=150, with_load=True))
            ctx.count('history:refused-then-edit')
        if ctx.quick:
            plan = [('mixed', None, 60, 21), ('merge', None, 40, 6), ('renum', None, 60, 8), ('mixed', None, 300, 2), ('desc', None, 120, 2),
                    ('smallmem', 7000, 120, 4), ('smallmem', 5600, 60, 3)]
        else:
            plan = [('mixed', None, 60, 400), ('merge', None, 60, 150), ('renum', None, 80, 150), ('mixed', None, 300, 40), ('mixed', None, 2000, 4), ('desc', None, 300, 12),
                    ('desc', None, 400, 3), ('smallmem', 7000, 300, 30), ('smallmem', 5600, 100, 30),
                    ('smallmem', 12000, 500, 6)]
        for profile, mm, nops, count in plan:
            for _ in range(count):
                ops = gen_history(rng, nops, profile)
                h = run_history(ctx, scratch, ops, mm, profile,
                                sample_every=25 if nops <= 300 else 200, with_load=(rng.random() < 0.5))
                hs.append(h)
                ctx.count('history:' + profile)
                ctx.count('final-lines:%s' % ('0' if not h.ref else '1-9' if len(h.ref) < 10 else '10-49' if len(h.ref) < 50
                                              else '50+'))
                if len(scratch.cache) > 20000:
                    scratch.cache.clear()
        # the front-insertion history that overran memory before the repair (full-size memory)
        big = [['s', 65529 - k, b'PRINT "T%d":END:A$="%s"' % (k, b'X' * 225), True, k] for k in range(1, 270)]
        hs.append(run_history(ctx, scratch, big, None, 'desc-full', sample_every=1000, with_load=False))
        ctx.count('history:desc-full')
    finally:
        scratch.close()
    compare_histories(ctx, hs)
    check_wf(ctx)
    done = [h for h in hs if h.impl_steps]
    if done:
        h = done[0]
        ctx.sample({'profile': h.profile, 'ops': h.case(min(5, len(h.ops) - 1))['ops'], 'steps': h.impl_steps[:6]})
        h = done[-1]
        ctx.sample({'profile': h.profile, 'nops': len(h.ops), 'last_step': h.impl_steps[-1],
                    'lines_at_end': len(h.ref)})
    ctx.notes['histories'] = len(hs)


def replay(ctx, payload):
    case = payload.get('case') or {}
    if 'ops' not in case:
        return None
    ops = [[o[0]] + [x.encode('latin-1') if isinstance(x, str) and ((j == 1 and o[0] in ('s', 'm')) or (o[0] == 'f' and x != 'auto')) else x
                     for j, x in enumerate(o[1:])] for o in case['ops']]
    sub = _Sub(ctx)
    scratch = Scratch()
    try:
        h = run_history(sub, scratch, ops, case.get('max_memory'), case.get('profile', 'replay'), sample_every=1)
    finally:
        scratch.close()
    hits = [f for f in sub.failures if f['key'] == payload.get('key')] or sub.failures
    return hits[0]['what'] if hits else None


class _Sub(object):
    """collects failures of a replay without touching the outer evidence"""

    def __init__(self, ctx):
        self.rng = ctx.rng
        self.failures = []
        self.model_ok = ctx.model_ok
        self._ctx = ctx

    def count(self, *a, **k):
        pass

    def case(self, *a, **k):
        pass

    def sample(self, *a, **k):
        pass

    def fail(self, key, case, what):
        self.failures.append({'key': key, 'case': case, 'what': what})

    def disagree(self, *a, **k):
        pass

    def model(self, lines):
        return self._ctx.model(lines)
