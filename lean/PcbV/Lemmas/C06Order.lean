import PcbV.Lemmas.MbfBasic
import Mathlib.Tactic.Linarith
import Mathlib.Tactic.Positivity
import Mathlib.Algebra.Order.Field.Basic
import Mathlib.Algebra.Order.Field.Rat
import Mathlib.Tactic.Ring
import Mathlib.Tactic.NormNum
/-
  C06 lemmas, part 1: the value of an MBF pattern is an integer (`smag`) over 2^bias; for
  normalised mantissas the lexicographic order on (exponent byte, mantissa) is the order of the
  magnitudes; `Float.gt` / `Float.eq` decide the order / equality of `smag`.
-/
namespace PcbV.Mbf

theorem two_signMask {f : Fmt} (hf : f.WF) : 2 * f.signMask = 2 ^ f.w := by
  obtain ⟨h8, _, _, _, _, hs, _, _⟩ := hf
  rw [hs]
  have : f.w = (f.w - 1) + 1 := by omega
  conv_rhs => rw [this, Nat.pow_succ]
  omega

theorem signMask_pos {f : Fmt} (hf : f.WF) : 0 < f.signMask := by
  obtain ⟨h8, _, _, _, _, hs, _, _⟩ := hf
  rw [hs]; exact Nat.two_pow_pos _ 

theorem isNeg_iff {f : Fmt} (hf : f.WF) {x : F} (hx : x.Valid f) :
    isNeg f x = true ↔ f.signMask ≤ x.m := by
  unfold isNeg
  rw [two_signMask hf, Nat.mod_eq_of_lt hx.1]
  simp

/-- lexicographic order on (exponent, mantissa) is the order of man·2^e for normalised mantissas -/
theorem mag_lt_of_exp_lt {S a b e1 e2 : Nat} (ha : a < 2 * S) (hb : S ≤ b) (he : e1 < e2) :
    a * 2 ^ e1 < b * 2 ^ e2 := by
  calc a * 2 ^ e1 < (2 * S) * 2 ^ e1 := Nat.mul_lt_mul_of_pos_right ha (Nat.two_pow_pos _)
    _ = S * 2 ^ (e1 + 1) := by rw [Nat.pow_succ]; ring
    _ ≤ S * 2 ^ e2 := Nat.mul_le_mul_left _ (Nat.pow_le_pow_right (by decide) he)
    _ ≤ b * 2 ^ e2 := Nat.mul_le_mul_right _ hb

theorem mag_lt_iff {S a b e1 e2 : Nat} (ha : S ≤ a) (ha' : a < 2 * S) (hb : S ≤ b) (hb' : b < 2 * S) :
    a * 2 ^ e1 < b * 2 ^ e2 ↔ (e1 < e2 ∨ (e1 = e2 ∧ a < b)) := by
  rcases Nat.lt_trichotomy e1 e2 with h | h | h
  · exact ⟨fun _ => Or.inl h, fun _ => mag_lt_of_exp_lt ha' hb h⟩
  · subst h
    have hp : 0 < 2 ^ e1 := Nat.two_pow_pos _
    constructor
    · intro hlt; exact Or.inr ⟨rfl, Nat.lt_of_mul_lt_mul_right hlt⟩
    · rintro (h | ⟨_, h⟩)
      · omega
      · exact Nat.mul_lt_mul_of_pos_right h hp
  · have := mag_lt_of_exp_lt hb' ha h
    constructor
    · intro hlt; omega
    · rintro (h' | ⟨h', _⟩) <;> omega


theorem pow2_eq (k : Int) : pow2 k = (2:Rat) ^ k := by
  unfold pow2
  split
  · next h =>
    conv_rhs => rw [← Int.toNat_of_nonneg h]
    rw [zpow_natCast]
  · next h =>
    have h' : 0 ≤ -k := by omega
    have : k = -((-k).toNat : Int) := by rw [Int.toNat_of_nonneg h']; omega
    conv_rhs => rw [this]
    rw [zpow_neg, zpow_natCast, one_div]

theorem pow2_sub (e b : Nat) : pow2 ((e:Int) - b) = (2:Rat)^e / (2:Rat)^b := by
  rw [pow2_eq, zpow_sub₀ (by norm_num : (2:Rat) ≠ 0), zpow_natCast, zpow_natCast]

/-- magnitude scaled by 2^bias -/
def mag (f : Fmt) (x : F) : Nat := manOf f x * 2 ^ x.e

/-- signed value scaled by 2^bias: an integer -/
def smag (f : Fmt) (x : F) : Int :=
  if x.e = 0 then 0 else if isNeg f x then -(mag f x : Int) else (mag f x : Int)

theorem val_eq_smag (f : Fmt) (x : F) : val f x = (smag f x : Rat) / (2:Rat) ^ f.bias := by
  unfold val smag mag
  by_cases he : x.e = 0
  · simp [he]
  · simp only [he, if_false]
    rw [pow2_sub]
    by_cases hn : isNeg f x = true
    · simp only [hn, if_true]; push_cast; ring
    · simp only [hn]; push_cast; ring

theorem val_lt_iff (f : Fmt) (x y : F) : val f x < val f y ↔ smag f x < smag f y := by
  rw [val_eq_smag, val_eq_smag, div_lt_div_iff_of_pos_right (by positivity)]
  exact Int.cast_lt

theorem val_eq_iff (f : Fmt) (x y : F) : val f x = val f y ↔ smag f x = smag f y := by
  rw [val_eq_smag, val_eq_smag, div_left_inj' (by positivity)]
  exact Int.cast_inj

theorem manOf_bounds {f : Fmt} (hf : f.WF) {x : F} (hx : x.Valid f) :
    f.signMask ≤ manOf f x ∧ manOf f x < 2 * f.signMask := by
  have h2 := two_signMask hf
  have hm := hx.1
  unfold manOf
  by_cases hn : isNeg f x = true
  · have := (isNeg_iff hf hx).1 hn
    simp only [hn, if_true]; omega
  · have : ¬ f.signMask ≤ x.m := fun h => hn ((isNeg_iff hf hx).2 h)
    simp only [hn]; constructor <;> simp <;> omega

theorem mag_pos {f : Fmt} (hf : f.WF) {x : F} (hx : x.Valid f) : 0 < mag f x := by
  unfold mag
  exact Nat.mul_pos (Nat.lt_of_lt_of_le (signMask_pos hf) (manOf_bounds hf hx).1) (Nat.two_pow_pos _)

theorem mag_lt_mag_iff {f : Fmt} (hf : f.WF) {x y : F} (hx : x.Valid f) (hy : y.Valid f) :
    mag f x < mag f y ↔ (x.e < y.e ∨ (x.e = y.e ∧ manOf f x < manOf f y)) :=
  mag_lt_iff (manOf_bounds hf hx).1 (manOf_bounds hf hx).2 (manOf_bounds hf hy).1 (manOf_bounds hf hy).2


theorem lex_decide (e1 e2 m1 m2 : Nat) :
    (if e1 ≠ e2 then decide (e1 > e2) else decide (m1 > m2)) = true ↔
      (e2 < e1 ∨ (e2 = e1 ∧ m2 < m1)) := by
  by_cases h : e1 = e2
  · subst h; simp
  · simp [h]; omega

theorem gt_iff_smag {f : Fmt} (hf : f.WF) {x y : F} (hx : x.Valid f) (hy : y.Valid f) :
    gt f x y = true ↔ smag f y < smag f x := by
  have hpx : (0:Int) < mag f x := by exact_mod_cast mag_pos hf hx
  have hpy : (0:Int) < mag f y := by exact_mod_cast mag_pos hf hy
  have hxy := mag_lt_mag_iff hf hx hy
  have hyx := mag_lt_mag_iff hf hy hx
  have hS := signMask_pos hf
  have nx := isNeg_iff hf hx
  have ny := isNeg_iff hf hy
  unfold manOf at hxy hyx
  unfold gt absGt smag F.isZero
  by_cases hxe : x.e = 0
  · -- zero is only greater than negative non-zero
    by_cases hye : y.e = 0 <;> by_cases hny : isNeg f y = true <;> simp [hxe, hye, hny] <;> omega
  · have hxe' : (x.e == 0) = false := by simpa using hxe
    by_cases hnx : isNeg f x = true <;> by_cases hny : isNeg f y = true
    · -- both negative: rhs._abs_gt(self), no masking
      simp only [hxe', hxe, hnx, hny, if_true, if_false, bne_self_eq_false, Bool.false_eq_true] at hxy hyx ⊢
      rw [lex_decide]
      by_cases hye : y.e = 0
      · simp only [hye, if_true]; omega
      · simp only [hye, if_false]
        rw [← hxy]; omega
    · -- self negative, rhs not
      simp only [hxe', hxe, hnx, hny, if_true, if_false, Bool.false_eq_true]
      by_cases hye : y.e = 0 <;> simp [hye] <;> omega
    · -- self positive, rhs negative (possibly a negative-looking zero)
      simp only [hxe', hxe, hnx, hny, if_true, if_false, Bool.false_eq_true]
      by_cases hye : y.e = 0 <;> simp [hye] <;> omega
    · -- both positive: self._abs_gt(rhs), sign bit of rhs masked (it is clear anyway)
      simp only [hxe', hxe, hnx, hny, if_true, if_false, bne_self_eq_false, Bool.false_eq_true] at hxy hyx ⊢
      rw [lex_decide]
      by_cases hye : y.e = 0
      · simp only [hye, if_true]; omega
      · simp only [hye, if_false]
        have : y.m + f.signMask < x.m + f.signMask ↔ y.m < x.m := by omega
        rw [← this, ← hyx]; omega


theorem eq_iff_smag {f : Fmt} (hf : f.WF) {x y : F} (hx : x.Valid f) (hy : y.Valid f) :
    eq x y = true ↔ smag f x = smag f y := by
  have hpx : (0:Int) < mag f x := by exact_mod_cast mag_pos hf hx
  have hpy : (0:Int) < mag f y := by exact_mod_cast mag_pos hf hy
  have hxy := mag_lt_mag_iff hf hx hy
  have hyx := mag_lt_mag_iff hf hy hx
  unfold manOf at hxy hyx
  unfold eq F.isZero
  by_cases hxe : x.e = 0
  · unfold smag
    by_cases hye : y.e = 0
    · simp [hxe, hye]
    · by_cases hny : isNeg f y = true <;> simp [hxe, hye, hny] <;> omega
  · have hxe' : (x.e == 0) = false := by simpa using hxe
    simp only [hxe', Bool.false_eq_true, if_false, beq_iff_eq]
    constructor
    · intro h; rw [h]
    · intro h
      unfold smag at h
      simp only [hxe, if_false] at h
      by_cases hye : y.e = 0
      · simp only [hye, if_true] at h
        split at h <;> omega
      · simp only [hye, if_false] at h
        by_cases hnx : isNeg f x = true <;> by_cases hny : isNeg f y = true <;>
          simp only [hnx, hny, if_true, if_false, Bool.false_eq_true] at h hxy hyx
        · have hm : mag f x = mag f y := by omega
          rw [hm] at hxy hyx
          have he : x.e = y.e := by omega
          have hmm : x.m = y.m := by omega
          cases x; cases y; simp_all
        · omega
        · omega
        · have hm : mag f x = mag f y := by omega
          rw [hm] at hxy hyx
          have he : x.e = y.e := by omega
          have hmm : x.m = y.m := by omega
          cases x; cases y; simp_all


theorem shiftUp_spec (lim : Nat) : ∀ (fuel : Nat) (exp : Int) (man : Nat), 0 < man → man < 2 * lim →
    lim ≤ man * 2 ^ fuel →
    ∃ k, k ≤ fuel ∧ shiftUp fuel lim exp man = (exp - k, man * 2 ^ k) ∧ lim ≤ man * 2 ^ k ∧
      man * 2 ^ k < 2 * lim := by
  intro fuel
  induction fuel with
  | zero =>
    intro exp man h0 h1 h2
    exact ⟨0, Nat.le_refl _, by simp [shiftUp], by simpa using h2, by simpa using h1⟩
  | succ fuel ih =>
    intro exp man h0 h1 h2
    by_cases hlt : man < lim
    · obtain ⟨k, hk, hs, hl, hu⟩ := ih (exp - 1) (man * 2) (by omega) (by omega)
        (by rw [Nat.pow_succ] at h2; rw [Nat.mul_assoc, Nat.mul_comm 2]; exact h2)
      refine ⟨k + 1, by omega, ?_, ?_, ?_⟩
      · simp only [shiftUp, hlt, if_true, hs]
        rw [Nat.pow_succ, Nat.mul_assoc, Nat.mul_comm 2, ← Nat.mul_assoc]
        congr 1; push_cast; omega
      · rw [Nat.pow_succ, Nat.mul_comm (2 ^ k), ← Nat.mul_assoc]; exact hl
      · rw [Nat.pow_succ, Nat.mul_comm (2 ^ k), ← Nat.mul_assoc]; exact hu
    · exact ⟨0, by omega, by simp [shiftUp, hlt], by simp; omega, by simpa using h1⟩

end PcbV.Mbf
