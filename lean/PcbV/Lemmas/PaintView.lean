import PcbV.Lemmas.Paint
import PcbV.Lemmas.Viewport
/-
  Link between the flood-fill model in viewport coordinates (`PcbV.Model.Paint`) and the viewport / pixel
  matrix model of C30 (`PcbV.Model.Viewport`, `PcbV.Model.Draw`): the interval writes of a solid PAINT, sent
  through `GraphicsViewPort.__setitem__`, produce exactly the picture the flood-fill model computes.
-/
namespace PcbV.Paint
open PcbV PcbV.Viewport PcbV.Draw PcbV.ViewportLemmas

/-- a closed slice inside the sequence selects exactly its positions -/
theorem sel_slice_exact (len lo hi k : Int) (h0 : 0 ≤ lo) (h1 : lo ≤ hi) (h2 : hi ≤ len) :
    (Ix.slice (some lo) (some hi)).sel len k = true ↔ (lo ≤ k ∧ k < hi) := by
  have e : (Ix.slice (some lo) (some hi)).range len = (pyNorm len lo, pyNorm len hi) := rfl
  unfold Ix.sel
  rw [e]
  simp only [decide_eq_true_eq]
  rw [pyNorm_of_range len lo h0 (by omega), pyNorm_of_range len hi (by omega) h2]

/-- the cells assigned by `graph_view[y, xl:xr+1] = …` for an interval inside the viewport bounds -/
theorem fill_written (v : View) (hv : v.wf) (y xl xr cx cy : Int)
    (hy0 : v.ymin ≤ y) (hy1 : y ≤ v.ymax) (hx0 : v.xmin ≤ xl) (hx1 : xr ≤ v.xmax) (hlr : xl ≤ xr + 1) :
    v.written (.int y) (.slice (some xl) (some (xr + 1))) cx cy = true ↔
      (cy = y + v.offY ∧ xl + v.offX ≤ cx ∧ cx ≤ xr + v.offX) := by
  obtain ⟨h0, h1, h2, h3, h4, h5⟩ := hv
  have ex0 := xmin_off v; have ex1 := xmax_off v; have ey0 := ymin_off v; have ey1 := ymax_off v
  have e : v.convertSlice (.int y) (.slice (some xl) (some (xr + 1))) =
      (.slice (some (max y v.ymin + v.offY)) (some (min (y + 1) (v.ymax + 1) + v.offY)),
       .slice (some (max xl v.xmin + v.offX)) (some (min (xr + 1) (v.xmax + 1) + v.offX))) := rfl
  have a1 : max y v.ymin = y := by omega
  have a2 : min (y + 1) (v.ymax + 1) = y + 1 := by omega
  have a3 : max xl v.xmin = xl := by omega
  have a4 : min (xr + 1) (v.xmax + 1) = xr + 1 := by omega
  unfold View.written
  rw [e, a1, a2, a3, a4]
  simp only [Bool.and_eq_true]
  rw [sel_slice_exact v.H (y + v.offY) (y + 1 + v.offY) cy (by omega) (by omega) (by omega),
    sel_slice_exact v.W (xl + v.offX) (xr + 1 + v.offX) cx (by omega) (by omega) (by omega)]
  omega

/-- an interval write `(y, xl, xr)` lies inside the bounds -/
def OpIn (B : Bounds) (op : Int × Int × Int) : Prop :=
  B.y0 ≤ op.1 ∧ op.1 ≤ B.y1 ∧ B.x0 ≤ op.2.1 ∧ op.2.2 ≤ B.x1 ∧ op.2.1 ≤ op.2.2

/-- the picture after a list of interval writes of one attribute -/
def replay (f : Nat) (g : Grid) (ops : List (Int × Int × Int)) : Grid :=
  ops.foldl (fun g op => setRow g (fun _ _ => f) op.1 op.2.1 op.2.2) g

theorem loop_grid_replay (B : Bounds) (f b : Nat) : ∀ (n : Nat) (g : Grid) (st : List Iv),
    (loop B (solidFill f) b n g st).grid = replay f g (loop B (solidFill f) b n g st).ops
  | 0, g, st => rfl
  | n + 1, g, [] => rfl
  | n + 1, g, e :: st => by
    have ih := loop_grid_replay B f b n (setRow g (solidFill f).val e.y (leftOf B g b e) (rightOf B g b e))
      (pushes B (solidFill f) g b e (leftOf B g b e) (rightOf B g b e) st)
    simp only [loop, replay, List.foldl_cons] at ih ⊢
    exact ih

theorem loop_ops_in {B : Bounds} {F : Fill} {g0 : Grid} {b : Nat} {sx sy : Int} :
    ∀ (n : Nat) (g : Grid) (st : List Iv), SInv B F g0 b sx sy g st →
      ∀ op ∈ (loop B F b n g st).ops, OpIn B op
  | 0, g, st, _, op, h => by simp [loop] at h
  | n + 1, g, [], _, op, h => by simp [loop] at h
  | n + 1, g, e :: st, hI, op, h => by
    have he := hI.stk e (List.mem_cons_self ..)
    obtain ⟨hl, hr, hext⟩ := extension_region hI e he
    simp only [loop, List.mem_cons] at h
    rcases h with rfl | h
    · have hbl := (hext _ (Int.le_refl _) (by have := he.1; omega)).has
      have hbr := (hext _ (by have := he.1; omega) (Int.le_refl _)).has
      unfold Bounds.has at hbl hbr
      have := he.1
      exact ⟨hbl.2.2.1, hbl.2.2.2, hbl.1, hbr.2.1, by show leftOf B g b e ≤ rightOf B g b e; omega⟩
    · exact loop_ops_in n _ _ (sinv_step e hI) op h

/-- interval writes inside the bounds, sent through the viewport, act on the picture in viewport coordinates
    exactly like `setRow` -/
theorem applyOps_replay (v : View) (hv : v.wf) (f : Nat) : ∀ (ops : List (Int × Int × Int)) (pg : Page),
    (∀ op ∈ ops, OpIn (viewBounds v) op) →
    viewGrid v (applyOps v f pg (opsToSetItems ops)) = replay f (viewGrid v pg) ops
  | [], pg, _ => rfl
  | (y, xl, xr) :: ops, pg, h => by
    have hin := h (y, xl, xr) (List.mem_cons_self ..)
    obtain ⟨h1, h2, h3, h4, h5⟩ := hin
    simp only [viewBounds] at h1 h2 h3 h4 h5
    have ih := applyOps_replay v hv f ops (applyOp v f pg ⟨.int y, .slice (some xl) (some (xr + 1))⟩)
      (fun op hm => h op (List.mem_cons_of_mem _ hm))
    have e1 : opsToSetItems ((y, xl, xr) :: ops) =
        ⟨.int y, .slice (some xl) (some (xr + 1))⟩ :: opsToSetItems ops := by
      simp [opsToSetItems, fillInterval]
    have e2 : viewGrid v (applyOp v f pg ⟨.int y, .slice (some xl) (some (xr + 1))⟩) =
        setRow (viewGrid v pg) (fun _ _ => f) y xl xr := by
      funext x y'
      unfold viewGrid applyOp setRow
      have hw := fill_written v hv y xl xr (x + v.offX) (y' + v.offY) h1 h2 h3 h4 (by omega)
      by_cases hc : y' = y ∧ xl ≤ x ∧ x ≤ xr
      · rw [if_pos hc, if_pos (hw.mpr ⟨by omega, by omega, by omega⟩)]
      · rw [if_neg hc, if_neg (fun hh => hc (by have := hw.mp hh; omega))]
    rw [e1]
    show viewGrid v (applyOps v f (applyOp v f pg _) (opsToSetItems ops)) = _
    rw [ih, e2]
    rfl

end PcbV.Paint
