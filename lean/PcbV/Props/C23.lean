import PcbV.Lemmas.ClearChain
import PcbV.Model.Arrays
/-
  C23 — RUN, CLEAR and NEW reset state; CHAIN keeps exactly the COMMON variables.

  Model: `PcbV.ClearChain` (the REPAIRED code, pending fixes C23-1-clear-math-error-trap,
  C23-2-clear-gosub-stack, C23-3-chain-hold-garbage, C23-4-chain-copy-free-check,
  C23-5-chain-all-deffn-record).

  * `clear_resets_all`, `new_resets_all`, `run_resets_all`, `run_undefined_line_resets_all`: every
    component named by the statement is back at its initial value, whatever the state before; and
    which of the three closes files / keeps the program.
  * `chain_keeps_commons`: after a successful CHAIN the variables are exactly the snapshot `pick` of the
    COMMON names (all names with ALL), in that order, each with the identical value (numbers as byte
    patterns, strings and array elements by content, array dimensions), although every string has been
    moved to a rebuilt string space; `chain_exactly_commons` restates the set of names;
    `chain_rebuilt_heap_wf`: the rebuilt string space is well-formed (disjoint non-empty blocks above
    `current`, below the top; every variable pointer is a key with its length and lies in string space);
    `chain_clears_rest`: everything else is cleared as after CLEAR (files stay open, DEFtype kept only
    by MERGE, DEF FN only by ALL, OPTION BASE only when something is common).
  * `chain_missing_file_changes_nothing`: the file is opened first; a failing open leaves the state as it
    was.  `chain_failure_releases_hold`: any later failure releases the collector hold; no failure is
    an Out of string space (two of the repaired defects).
  * `…_counterexample`: models of the code before the repairs.
-/
namespace PcbV.C23
open PcbV PcbV.ClearChain
open PcbV.Heap (Ptr lookup Blocks)

/-- every component that the statement lists is at its initial value -/
structure Reset (s : St) : Prop where
  scalars : s.mem.scalars = []
  arrays : s.mem.arrays = []
  strings : s.mem.strs = [] ∧ s.mem.current = s.mem.top
  varBytes : s.mem.scalBytes = 0 ∧ s.mem.arrBytes = 0
  fns : s.fns = []
  deftype : s.mem.deftype = defaultDeftype
  base : s.mem.base = none ∧ s.mem.baseByDim = false
  loops : s.it.forS = [] ∧ s.it.whileS = []
  gosub : s.it.gosub = []
  trap : s.it.onError = none ∧ s.it.errHandle = false ∧ s.it.errResume = none ∧ s.it.mathRaise = false
  err : s.it.errNum = 0 ∧ s.it.errPos = 0
  events : s.it.evGosub = [] ∧ s.it.evEnabled = [] ∧ s.it.suspendAll = false
  rnd : s.seed = initSeed
  data : s.it.dataPos = 0
  cont : s.it.stopPos = none

theorem clearAll_resets (cf : Bool) (s : St) : Reset (clearAll cf false false false s) := by
  constructor <;> simp [clearAll, clearMem, clearInterp, Mem.top]

/-- CLEAR [,mem][,stack]: everything is reset; files stay open, the program stays -/
theorem clear_resets_all (memSize stack : Option Nat) (s s' : St) (h : clearStmt memSize stack s = .ok s') :
    Reset s' ∧ s'.files = s.files ∧ s'.prog = s.prog := by
  unfold clearStmt at h
  split at h
  · cases h
  · split at h
    · cases h
    · simp only [Except.ok.injEq] at h
      subst h
      exact ⟨clearAll_resets _ _, rfl, rfl⟩

/-- NEW: everything is reset and the program is erased; files stay open (as coded) -/
theorem new_resets_all (s : St) :
    Reset (newStmt s) ∧ (newStmt s).prog = [] ∧ (newStmt s).files = s.files ∧ (newStmt s).it.tron = false := by
  refine ⟨?_, rfl, rfl, rfl⟩
  constructor <;> simp [newStmt, clearAll, clearMem, clearInterp, clearStacks, Mem.top]

/-- RUN [line]: everything is reset, all files are closed, the program stays and runs -/
theorem run_resets_all (line : Option Nat) (s s' : St) (h : runStmt line s = .ok s') :
    Reset s' ∧ s'.files = [] ∧ s'.prog = s.prog ∧ s'.it.runMode = true := by
  unfold runStmt at h
  cases line <;> simp only at h
  · cases h
    refine ⟨?_, rfl, rfl, rfl⟩
    constructor <;> simp [clearAll, clearMem, clearInterp, clearStacks, Mem.top]
  · split at h
    · cases h
      refine ⟨?_, rfl, rfl, rfl⟩
      constructor <;> simp [clearAll, clearMem, clearInterp, clearStacks, Mem.top]
    · cases h

/-- RUN to a line that does not exist reports Undefined line number *after* the reset -/
theorem run_undefined_line_resets_all (line : Option Nat) (s s' : St) (e : Nat)
    (h : runStmt line s = .error (e, s')) :
    e = Gen.E.undefined_line_number ∧ Reset s' ∧ s'.files = [] ∧ s'.prog = s.prog := by
  unfold runStmt at h
  cases line <;> simp only at h
  · cases h
  · split at h
    · cases h
    · cases h
      refine ⟨rfl, ?_, rfl, rfl⟩
      constructor <;> simp [clearAll, clearMem, clearInterp, clearStacks, Mem.top]

/-! ### CHAIN -/

/-- names that CHAIN preserves -/
def keptS (all : Bool) (cS : List Bytes) (s : St) : List Bytes := if all then s.mem.scalars.map (·.1) else cS
def keptA (all : Bool) (cA : List Bytes) (s : St) : List Bytes := if all then s.mem.arrays.map (·.1) else cA

/-- well-formedness of the variables' string pointers in a memory whose strings all live in string space -/
structure WFm (m : Mem) : Prop where
  blocks : Blocks m.current m.top m.strs
  scalars : ∀ n p, (n, Cell.str p) ∈ m.scalars → 0 < p.len →
    m.varStart ≤ p.addr ∧ ∃ b, lookup m.strs p.addr = some b ∧ b.length = p.len
  arrays : ∀ (n : Bytes) (a : Arr) (i : Nat) (p : Ptr), (n, a) ∈ m.arrays → a.2[i]? = some (Cell.str p) → 0 < p.len →
    m.varStart ≤ p.addr ∧ ∃ b, lookup m.strs p.addr = some b ∧ b.length = p.len

/-- what a successful CHAIN has computed (shared by the theorems below) -/
theorem chain_core (merge all : Bool) (cS cA : List Bytes) (file : Option (List (Nat × Bytes) × Nat))
    (jump : Option Nat) (s s' : St) (h : chainStmt merge all cS cA file jump s = .ok s') :
    ∃ (asgS asgA : List (Key × Ptr)) (st : Store) (prog : List (Nat × Bytes)) (size : Nat),
      file = some (prog, size) ∧
      Blocks st.current s.mem.top st.strs ∧
      s'.mem.strs = st.strs ∧ s'.mem.current = st.current ∧ s'.mem.varStart ≤ st.current ∧
      s'.mem.top = s.mem.top ∧ s'.mem.allowCollect = true ∧
      s'.mem.scalars = rewriteScalars asgS (pick (keptS all cS s) s.mem.scalars) ∧
      s'.mem.arrays = rewriteArrays asgA (pick (keptA all cA s) s.mem.arrays) ∧
      (∀ x ∈ pick (keptS all cS s) s.mem.scalars,
        CellIs st.strs st.current (rewrite asgS (x.1, 0) x.2) (absCell s.mem x.2)) ∧
      (∀ x ∈ pick (keptA all cA s) s.mem.arrays, ∀ i c, x.2.2[i]? = some c →
        CellIs st.strs st.current (rewrite asgA (x.1, i) c) (absCell s.mem c)) ∧
      s'.fns = (if all then s.fns else []) ∧
      s'.mem.deftype = (if merge then s.mem.deftype else defaultDeftype) ∧
      s'.files = s.files ∧ s'.prog = prog ∧ s'.seed = initSeed ∧
      s'.it = { clearStacks (clearInterp s.it) with runMode := true } ∧
      ((cS = [] ∧ cA = [] ∧ all = false) → s'.mem.base = none) ∧
      (s.mem.base.isSome → (cS ≠ [] ∨ cA ≠ [] ∨ all = true) → s'.mem.base = s.mem.base) := by
  unfold chainStmt chainWith at h
  cases file with
  | none => cases h
  | some pf =>
  obtain ⟨prog, size⟩ := pf
  have hfile : some (prog, size) = some (prog, size) := rfl
  simp only [chainOpened, Bool.not_true, Bool.false_and, Bool.false_eq_true, if_false] at h
  split at h
  · cases h
  · rename_i s3 hcl
    have hs3 := chainLoad_ok _ _ _ _ _ hcl
    unfold chainFinish at h
    split at h
    · cases h
    · rename_i m4 hrc
      simp only [Except.ok.injEq] at h
      subst h
      obtain ⟨r1, r2, r3, r4, r5, r6, r7, r8, r9, r10, r11, r12, r13, r14⟩ := restoreCommons_ok _ _ _ _ _ hrc
      obtain ⟨hb, asgS, asgA, e1, e2, hS, hA⟩ :=
        migrateAll_spec s.mem _ _ (pick_fn _ _) (pick_fn _ _) r1
      subst hs3
      refine ⟨asgS, asgA, _, prog, size, hfile, hb, r5, r6, ?_, ?_, rfl, ?_, ?_, hS, hA, rfl, ?_, rfl, rfl, rfl, rfl,
        ?_, ?_⟩
      · show m4.codeStart + m4.progSize ≤ _
        rw [r7, r8]; exact r2
      · show m4.total - m4.stackSize - 2 = _
        rw [r11, r12]; rfl
      · show m4.scalars = _
        rw [r3, e1]; rfl
      · show m4.arrays = _
        rw [r4, e2]; rfl
      · show m4.deftype = _
        rw [r10]; rfl
      · rintro ⟨rfl, rfl, rfl⟩
        show m4.base = none
        rw [r14 (by rw [e2]; rfl)]; rfl
      · intro hs hc
        show m4.base = s.mem.base
        have hpb : (!cS.isEmpty || !cA.isEmpty || all) = true := by
          rcases hc with hc | hc | hc
          · cases cS with
            | nil => exact absurd rfl hc
            | cons _ _ => rfl
          · cases cA with
            | nil => exact absurd rfl hc
            | cons _ _ => simp
          · simp [hc]
        have hb3 : ∀ (m : Mem), (clearMem true merge m).base = m.base := fun _ => rfl
        rw [r13 (by simpa [clearAll, clearMem, hpb] using hs)]
        simp [clearAll, clearMem, hpb]

/-- **CHAIN keeps exactly the COMMON variables, with identical values.**  The variables after a
    successful CHAIN, as BASIC sees them (numbers as byte patterns, strings and array elements by
    content, arrays with their dimensions), are the snapshot of the COMMON names (every name with ALL)
    that were defined before, in that order, with the values they had before. -/
theorem chain_keeps_commons (merge all : Bool) (cS cA : List Bytes) (file : Option (List (Nat × Bytes) × Nat))
    (jump : Option Nat) (s s' : St) (h : chainStmt merge all cS cA file jump s = .ok s') :
    absScalars s'.mem = (pick (keptS all cS s) s.mem.scalars).map (fun x => (x.1, absCell s.mem x.2)) ∧
    absArrays s'.mem =
      (pick (keptA all cA s) s.mem.arrays).map (fun x => (x.1, (x.2.1, x.2.2.map (absCell s.mem)))) := by
  obtain ⟨asgS, asgA, st, prog, size, _, _, hstrs, _, hvs, _, _, hsc, har, hS, hA, _⟩ :=
    chain_core merge all cS cA file jump s s' h
  constructor
  · simp only [absScalars, hsc, rewriteScalars, List.map_map]
    apply List.map_congr_left
    intro x hx
    simp only [Function.comp]
    have := hS x hx
    rw [← hstrs] at this
    rw [absCell_of_CellIs s'.mem st.current _ _ this hvs]
  · simp only [absArrays, har, rewriteArrays, List.map_map]
    apply List.map_congr_left
    intro x hx
    simp only [Function.comp]
    congr 2
    apply List.ext_getElem?
    intro i
    rw [List.getElem?_map, getElem?_rewriteCells, List.getElem?_map]
    cases hc : x.2.2[i]? with
    | none => rfl
    | some c =>
      have := hA x hx i c hc
      rw [← hstrs] at this
      simp only [Option.map_some]
      rw [absCell_of_CellIs s'.mem st.current _ _ this hvs]

/-- CHAIN … ALL: every variable survives with its value (names are unique, as dict keys are) -/
theorem chain_all_keeps_everything (merge : Bool) (cS cA : List Bytes) (file : Option (List (Nat × Bytes) × Nat))
    (jump : Option Nat) (s s' : St) (h : chainStmt merge true cS cA file jump s = .ok s')
    (hs : (s.mem.scalars.map (·.1)).Nodup) (ha : (s.mem.arrays.map (·.1)).Nodup) :
    absScalars s'.mem = absScalars s.mem ∧ absArrays s'.mem = absArrays s.mem := by
  obtain ⟨h1, h2⟩ := chain_keeps_commons merge true cS cA file jump s s' h
  simp only [keptS, keptA, if_true] at h1 h2
  rw [pick_self _ hs] at h1
  rw [pick_self _ ha] at h2
  exact ⟨h1, h2⟩

/-- the set of defined scalars after CHAIN is exactly (COMMON names) ∩ (scalars defined before); likewise arrays -/
theorem chain_exactly_commons (merge all : Bool) (cS cA : List Bytes) (file : Option (List (Nat × Bytes) × Nat))
    (jump : Option Nat) (s s' : St) (h : chainStmt merge all cS cA file jump s = .ok s') (n : Bytes) :
    (n ∈ s'.mem.scalars.map (·.1) ↔ n ∈ keptS all cS s ∧ ∃ c, s.mem.scalars.lookup n = some c) ∧
    (n ∈ s'.mem.arrays.map (·.1) ↔ n ∈ keptA all cA s ∧ ∃ a, s.mem.arrays.lookup n = some a) := by
  obtain ⟨h1, h2⟩ := chain_keeps_commons merge all cS cA file jump s s' h
  have e1 := congrArg (List.map (·.1)) h1
  have e2 := congrArg (List.map (·.1)) h2
  simp only [absScalars, absArrays, List.map_map] at e1 e2
  have e1' : List.map (fun x => x.1) s'.mem.scalars
      = List.map (fun x => x.1) (pick (keptS all cS s) s.mem.scalars) := e1
  have e2' : List.map (fun x => x.1) s'.mem.arrays
      = List.map (fun x => x.1) (pick (keptA all cA s) s.mem.arrays) := e2
  constructor
  · rw [← pick_names]
    show n ∈ List.map (fun x => x.1) s'.mem.scalars ↔ n ∈ List.map (fun x => x.1) (pick (keptS all cS s) s.mem.scalars)
    rw [e1']
  · rw [← pick_names]
    show n ∈ List.map (fun x => x.1) s'.mem.arrays ↔ n ∈ List.map (fun x => x.1) (pick (keptA all cA s) s.mem.arrays)
    rw [e2']

/-- the rebuilt string space is well-formed and every variable string lives in it -/
theorem chain_rebuilt_heap_wf (merge all : Bool) (cS cA : List Bytes) (file : Option (List (Nat × Bytes) × Nat))
    (jump : Option Nat) (s s' : St) (h : chainStmt merge all cS cA file jump s = .ok s') : WFm s'.mem := by
  obtain ⟨asgS, asgA, st, prog, size, _, hb, hstrs, hcur, hvs, htop, _, hsc, har, hS, hA, _⟩ :=
    chain_core merge all cS cA file jump s s' h
  have key : ∀ (c : Cell) (v : Val) (p : Ptr), CellIs st.strs st.current c v → c = Cell.str p → 0 < p.len →
      s'.mem.varStart ≤ p.addr ∧ ∃ b, lookup s'.mem.strs p.addr = some b ∧ b.length = p.len := by
    intro c v p hc hp h0
    subst hp
    cases v with
    | num b => simp [CellIs] at hc
    | str b =>
      simp only [CellIs] at hc
      obtain ⟨hl, hk⟩ := hc.2 (by rw [← hc.1]; exact h0)
      exact ⟨by omega, b, by rw [hstrs]; exact hl, hc.1.symm⟩
  constructor
  · rw [hstrs, hcur, htop]; exact hb
  · intro n p hm h0
    rw [hsc] at hm
    simp only [rewriteScalars, List.mem_map] at hm
    obtain ⟨x, hx, he⟩ := hm
    have he2 : rewrite asgS (x.1, 0) x.2 = Cell.str p := congrArg Prod.snd he
    exact key _ _ p (hS x hx) he2 h0
  · intro n a i p hm hi h0
    rw [har] at hm
    simp only [rewriteArrays, List.mem_map] at hm
    obtain ⟨x, hx, he⟩ := hm
    have he2 : (x.2.1, rewriteCells asgA x.1 x.2.2) = a := congrArg Prod.snd he
    subst he2
    simp only [getElem?_rewriteCells] at hi
    cases hc : x.2.2[i]? with
    | none => simp [hc] at hi
    | some c =>
      simp only [hc, Option.map_some, Option.some.injEq] at hi
      exact key _ _ p (hA x hx i c hc) hi h0

/-- everything that is not a COMMON variable is cleared by CHAIN as by CLEAR; files stay open; DEF FN
    survive only with ALL, DEFtype only with MERGE, OPTION BASE only when something is COMMON (or ALL) -/
theorem chain_clears_rest (merge all : Bool) (cS cA : List Bytes) (file : Option (List (Nat × Bytes) × Nat))
    (jump : Option Nat) (s s' : St) (h : chainStmt merge all cS cA file jump s = .ok s') :
    s'.it.gosub = [] ∧ s'.it.forS = [] ∧ s'.it.whileS = [] ∧
    s'.it.onError = none ∧ s'.it.errHandle = false ∧ s'.it.errResume = none ∧ s'.it.mathRaise = false ∧
    s'.it.errNum = 0 ∧ s'.it.evGosub = [] ∧ s'.it.evEnabled = [] ∧ s'.it.dataPos = 0 ∧ s'.it.stopPos = none ∧
    s'.seed = initSeed ∧ s'.files = s.files ∧
    s'.fns = (if all then s.fns else []) ∧
    s'.mem.deftype = (if merge then s.mem.deftype else defaultDeftype) ∧
    ((cS = [] ∧ cA = [] ∧ all = false) → s'.mem.base = none) ∧
    (s.mem.base.isSome → (cS ≠ [] ∨ cA ≠ [] ∨ all = true) → s'.mem.base = s.mem.base) ∧
    s'.mem.allowCollect = true := by
  obtain ⟨_, _, _, _, _, _, _, _, _, _, _, hgc, _, _, _, _, hfn, hdt, hfi, _, hseed, hit, hb0, hb1⟩ :=
    chain_core merge all cS cA file jump s s' h
  rw [hit]
  exact ⟨rfl, rfl, rfl, rfl, rfl, rfl, rfl, rfl, rfl, rfl, rfl, rfl, hseed, hfi, hfn, hdt, hb0, hb1, hgc⟩

/-- a CHAIN whose file cannot be opened changes nothing at all: the state is the one before, the error is
    File not found (to be reported or trapped like any other error) -/
theorem chain_missing_file_changes_nothing (merge all : Bool) (cS cA : List Bytes) (jump : Option Nat) (s : St) :
    chainStmt merge all cS cA none jump s = .error (Gen.E.file_not_found, s) := rfl

/-- a CHAIN that fails: either the file could not be opened and nothing has changed, or the failure came
    later (undefined start line, Out of memory …) and garbage collection is enabled again; it is never
    an Out of string space: the strings to keep always fit -/
theorem chain_failure_releases_hold (merge all : Bool) (cS cA : List Bytes)
    (file : Option (List (Nat × Bytes) × Nat)) (jump : Option Nat) (s t : St) (e : Nat)
    (h : chainStmt merge all cS cA file jump s = .error (e, t)) :
    ((file = none ∧ e = Gen.E.file_not_found ∧ t = s) ∨
     (file ≠ none ∧ e ≠ Gen.E.file_not_found ∧ t.mem.allowCollect = true)) ∧
    e ≠ Gen.E.out_of_string_space := by
  unfold chainStmt chainWith at h
  cases file with
  | none =>
    simp only [Except.error.injEq, Prod.mk.injEq] at h
    obtain ⟨rfl, rfl⟩ := h
    exact ⟨Or.inl ⟨rfl, rfl, rfl⟩, by decide⟩
  | some pf =>
  simp only [chainOpened, Bool.not_true, Bool.false_and, Bool.false_eq_true, if_false] at h
  split at h
  · rename_i x hcl
    cases h
    obtain ⟨he, hg⟩ := chainLoad_error _ _ _ _ _ _ hcl
    subst he
    exact ⟨Or.inr ⟨by simp, by decide, by rw [hg]; rfl⟩, by decide⟩
  · rename_i s3 hcl
    unfold chainFinish at h
    split at h
    · rename_i e' hrc
      simp only [Except.error.injEq, Prod.mk.injEq] at h
      obtain ⟨rfl, rfl⟩ := h
      rcases restoreCommons_error _ _ _ _ _ hrc with rfl | rfl | rfl
      · exact ⟨Or.inr ⟨by simp, by decide, rfl⟩, by decide⟩
      · exact ⟨Or.inr ⟨by simp, by decide, rfl⟩, by decide⟩
      · exact ⟨Or.inr ⟨by simp, by decide, rfl⟩, by decide⟩
    · cases h

/-! ### non-vacuity and the code before the repairs -/

/-- a program state near the memory limit: A$ = "hello" in string space, B% = 7, a string array;
    string space is otherwise full of garbage (5 bytes free) -/
def demo : St :=
  { mem := { total := 6000, stackSize := 512, codeStart := 4718, progSize := 100, code := [],
             deftype := defaultDeftype, base := some 0, baseByDim := true,
             scalars := [([65, 36], .str ⟨5, 5482⟩), ([66, 37], .num [7, 0])],
             scalBytes := 13,
             arrays := [([83, 36], ([1], [.str ⟨2, 5480⟩, .str ⟨0, 0⟩]))],
             arrBytes := 15,
             strs := [(5480, [104, 105]), (5482, [104, 101, 108, 108, 111])],
             current := 4851, temp := 4851, fieldsSet := false, allowCollect := true },
    fns := [[65, 33]], seed := 12345,
    it := { gosub := [10], forS := [20], whileS := [], onError := some 100, errHandle := false,
            errResume := none, errNum := 11, errPos := 30, mathRaise := true, evGosub := [(1, 200)],
            evEnabled := [1], suspendAll := false, stopPos := none, dataPos := 40, runMode := true,
            tron := false },
    files := [1], prog := [(10, [])], strig := false, sound := 0, draw := 0 }

/-- the hypothesis of the CHAIN theorems is satisfiable, with a string and a string array COMMON -/
example :
    (match chainStmt false false [[65, 36], [90, 37]] [[83, 36]] (some ([(10, [])], 50)) none demo with
     | .ok s' => (absScalars s'.mem, absArrays s'.mem, s'.mem.current)
     | .error _ => ([], [], 0))
    = ([([65, 36], .str [104, 101, 108, 108, 111])],
       [([83, 36], ([1], [.str [104, 105], .str []]))], 5479) := by decide

/-- an empty string computed at run time shares its address with the string stored just before it
    (`B$ = MID$(A$,9)` after `A$ = "hel"+"lo"`, both pointers have address 5482); the migration goes by
    variable, not by address, so both come back with their own value -/
example :
    (match chainStmt false true [] [] (some ([(10, [])], 50)) none
        { demo with mem := { demo.mem with
            scalars := [([65, 36], .str ⟨5, 5482⟩), ([66, 36], .str ⟨0, 5482⟩)], scalBytes := 14,
            arrays := [([83, 36], ([1], [.str ⟨0, 5482⟩, .str ⟨2, 5480⟩]))] } } with
     | .ok s' => (absScalars s'.mem, absArrays s'.mem)
     | .error _ => ([], []))
    = ([([65, 36], .str [104, 101, 108, 108, 111]), ([66, 36], .str [])],
       [([83, 36], ([1], [.str [], .str [104, 105]]))]) := by decide

example : (match clearStmt (some 5900) none demo with
     | .ok s' => (s'.mem.current, s'.it.gosub, s'.files)
     | .error _ => (0, [], [])) = (5386, [], [1]) := by decide

/-- before the repair CLEAR kept the GOSUB stack and the suspended soft handling of math errors -/
theorem clear_gosub_mathtrap_counterexample :
    (clearInterpOld demo.it).gosub ≠ [] ∧ (clearInterpOld demo.it).mathRaise = true := by decide

/-- before the repair a CHAIN failing after the file was opened (here: undefined start line) left
    garbage collection switched off for good -/
theorem hold_garbage_counterexample :
    (match chainWith false true false false [[65, 36]] [] (some ([(10, [])], 50)) (some 77) demo with
     | .error (e, t) => (e, t.mem.allowCollect)
     | .ok _ => (0, true)) = (5, false) := by decide

/-- before the repair CHAIN failed with Out of string space (and collection off) when a COMMON string was
    not shorter than the free memory of the OLD program, although the string fits easily afterwards
    (the repaired CHAIN succeeds on the same state, see the example above) -/
theorem copy_free_check_counterexample :
    (match chainWith false false false false [[65, 36]] [] (some ([(10, [])], 50)) none demo with
     | .error (e, t) => (e, t.mem.allowCollect)
     | .ok _ => (0, true)) = (14, false) := by decide

/-! ### "reset" = the state of a fresh session, also for what only LATER behaviour shows

  The OPTION BASE machine of `Arrays` (`PcbV.Arrays`, the model of C12: base, the flag "base implied by DIM",
  the arrays) is part of the state here (`Mem.base`, `Mem.baseByDim`, `Mem.arrays`).  The flag cannot be read
  by any single statement: it only decides whether a later ERASE of the last array drops the base.  After
  CLEAR / NEW / RUN (also RUN to an undefined line) and after a CHAIN without COMMON the whole machine is
  the one of a fresh session, hence EVERY later history of OPTION BASE / DIM / ERASE / element accesses
  gives the results it gives in a fresh session. -/

/-- the `Arrays` object inside the memory, as the C12 model sees it (array names become positions, contents
    are not needed here) -/
def arrView (m : Mem) : Arrays.State :=
  { arrs := m.arrays.zipIdx.map (fun xi => (xi.2, ⟨xi.1.2.1.map Int.ofNat, xi.1.2.2.map (fun _ => 0)⟩)),
    base := m.base.map Int.ofNat,
    byDim := m.baseByDim }

theorem arrView_fresh_of_reset (s : St) (h : Reset s) : arrView s.mem = Arrays.State.init := by
  simp [arrView, Arrays.State.init, h.arrays, h.base.1, h.base.2]

/-- after CLEAR, every later array/OPTION BASE history behaves as in a fresh session -/
theorem clear_equals_fresh (memSize stack : Option Nat) (s s' : St) (h : clearStmt memSize stack s = .ok s')
    (ops : List Arrays.Op) : Arrays.run (arrView s'.mem) ops = Arrays.run Arrays.State.init ops := by
  rw [arrView_fresh_of_reset s' (clear_resets_all memSize stack s s' h).1]

theorem new_equals_fresh (s : St) (ops : List Arrays.Op) :
    Arrays.run (arrView (newStmt s).mem) ops = Arrays.run Arrays.State.init ops := by
  rw [arrView_fresh_of_reset _ (new_resets_all s).1]

theorem run_equals_fresh (line : Option Nat) (s s' : St) (ops : List Arrays.Op) :
    (runStmt line s = .ok s' → Arrays.run (arrView s'.mem) ops = Arrays.run Arrays.State.init ops) ∧
    (∀ e, runStmt line s = .error (e, s') → Arrays.run (arrView s'.mem) ops = Arrays.run Arrays.State.init ops) := by
  constructor
  · intro h; rw [arrView_fresh_of_reset s' (run_resets_all line s s' h).1]
  · intro e h; rw [arrView_fresh_of_reset s' (run_undefined_line_resets_all line s s' e h).2.1]

/-- CHAIN without COMMON (and without ALL) resets the machine completely as well -/
theorem chain_without_common_equals_fresh (merge : Bool) (file : Option (List (Nat × Bytes) × Nat))
    (jump : Option Nat) (s s' : St) (h : chainStmt merge false [] [] file jump s = .ok s')
    (ops : List Arrays.Op) : Arrays.run (arrView s'.mem) ops = Arrays.run Arrays.State.init ops := by
  have hv : arrView s'.mem = Arrays.State.init := by
    unfold chainStmt chainWith at h
    cases file with
    | none => cases h
    | some pf =>
    simp only [chainOpened, Bool.not_true, Bool.false_and, Bool.false_eq_true, if_false] at h
    split at h
    · cases h
    · rename_i s3 hcl
      have hs3 := chainLoad_ok _ _ _ _ _ hcl
      unfold chainFinish at h
      split at h
      · cases h
      · rename_i m4 hrc
        simp only [Except.ok.injEq] at h
        subst h
        subst hs3
        have hsa : (migrateAll s.mem (pick [] s.mem.scalars) (pick [] s.mem.arrays)).2.2 = [] := rfl
        simp only [if_false, Bool.false_eq_true] at hrc
        rw [hsa] at hrc
        obtain ⟨hd, hb⟩ := restoreCommons_byDim _ _ _ _ hrc
        have ha := (restoreCommons_ok _ _ _ _ _ hrc).2.2.2.1
        simp only [arrView, Arrays.State.init]
        show Arrays.State.mk _ (m4.base.map Int.ofNat) m4.baseByDim = _
        rw [hd, hb]
        have : m4.arrays = [] := by rw [ha]; rfl
        simp [this, clearAll, clearMem]
  rw [hv]

/-- why the flag belongs to the state although no single statement shows it: with a stale "implied by DIM"
    flag (base unset) the history OPTION BASE 1 / DIM / ERASE / OPTION BASE 0 ends differently (the ERASE
    drops the explicit base, OPTION BASE 0 is accepted instead of Duplicate Definition) -/
theorem stale_dim_flag_shows_later :
    (Arrays.run ⟨[], none, true⟩ [.optionBase true, .dim [(0, [2])], .erase [0], .optionBase false]).2
      ≠ (Arrays.run Arrays.State.init [.optionBase true, .dim [(0, [2])], .erase [0], .optionBase false]).2 := by
  decide

end PcbV.C23
