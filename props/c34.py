"""C34 — video memory reflects and controls the screen content (PEEK/POKE/BSAVE/BLOAD vs pixels and text)."""
import logging
import os
import shutil
import struct
import tempfile
import time

from vlib import basic, translated

LEVEL = 'proof'
RULE = ('histories on every SCREEN mode of every adapter configuration (cga, ega, ega 64k, vga, mda, ega mono, hercules, '
        'tandy, pcjr, olivetti; text 40/80 and all graphics modes): set-up by LINE…BF rectangles / PRINT on several pages, '
        'then PEEK, POKE, BSAVE, BLOAD, OUT plane registers at boundary-dense and random addresses (row ends, bank ends, '
        'page ends, last page, below the segment, unmapped tails) with lengths that start mid-row and cross rows, banks '
        'and pages; session A uses block operations and BASIC statements, its twin B the same history one byte at a '
        'time; mode-switch histories (leave a mode and re-enter it with and without video memory access in between, '
        'WIDTH changes, SCREEN n,,a,v in mode n, OUT to the plane registers before/after, CLEAR ,,,n on Tandy/PCjr) '
        'with the registers expected to reset exactly when a new mode object is built; a case is one operation of a history; non-trivial = distinct (mode, op kind, address, length)')
EXPLANATION = ('theorems (PcbV.Props.C34): for every graphics mode of the regenerated mode table, all page counts, addresses '
               'and lengths the repaired _walk_memory yields exactly the units whose _get_coords are on screen, each with its '
               'own coordinates (walk_is_bytewise, incl. the factor-2 plane walks of Tandy SCREEN 6), every run stays inside '
               'its scan line; block read/write = bytewise read/write, unmapped bytes read 0 and a POKE changes only the '
               'covered content in EVERY mode of the table (text, CGA-packed, EGA-planar and Tandy-6: the recombination of '
               'the two Tandy-6 planes into the interleaved byte array is proved, PcbV.Lemmas.VideoT6); pack/unpack round '
               'trips, POKE-then-PEEK per mapper, Tandy-6 byte pairs cover the same pixels and their planes are independent; '
               'mode switches (switchMode): a SCREEN naming the current mode keeps screen and registers, another name gives fresh '
               'registers and erased pages, away-and-back resets the registers and a POKE is read back (away_and_back_resets_registers, '
               'reentry_poke_then_peek); counterexamples for the walk as it was (D11 and two-bank modes), the old Tandy-6 odd-address reader and the '
               'old text mapper. Correspondence: every operation result and the touched pixel rows of real Sessions against '
               'the compiled model. Oracle: documented memory layout of each mode applied in the pixel->address direction '
               'to the page buffers.'
               '; source tie: _get_coords of the CGA, EGA and Tandy-6 memory mappers and _coord_ok are translated '
               'mechanically from the current Python AST (PcbV.Gen.Translated.cgaCoords* / egaCoords* / '
               'tandy6Coords* / coordOk, gen/py2lean.py), proved equal to coordsCGA / coordsEGA / coordsTandy6 / '
               'coordOk of the model for every mode record with positive page size and every address '
               '(translated_cgaCoords_eq, translated_egaCoords_eq, translated_tandy6Coords_eq, '
               'translated_coordOk_eq) and compared with real mapper objects, also synthetic ones '
               '(vlib/translated.py)')
TRUSTED_BASE = ['model PcbV.Model.VideoMem: hand transcription of framebuffer.py mappers (repaired walk) and of the '
                'ByteMatrix slice/pack semantics as per-byte pixel groups',
                'lean/PcbV/Gen/Modes.lean regenerated from the mapper objects built by modes.get_mode',
                'oracle layout table in props/c34.py (segment and page size of each mode are taken as emulator configuration)',
                'translator gen/py2lean.py + PcbV.PyInt (Python int semantics in Lean), validated by '
                'vlib/translated.py against the real functions; it covers the listed functions only']
ASSUMPTIONS = ['addresses are kept inside the video window A0000..BFFFF except for the block/byte differential at its edges',
               'number of pages of a mode is configuration (read from the display); unmapped video bytes read as 0 and ignore writes',
               'EGA read-plane register is taken modulo 4; SCREEN 10 uses planes 1 and 3 as configured in modes.py']

logging.getLogger().setLevel(logging.CRITICAL)

# label, Session keywords, [(SCREEN number, WIDTH for text)]
TEXT = [(0, 40), (0, 80)]
ADAPTERS = [
    ('cga', dict(video='cga'), TEXT + [(1, 0), (2, 0)]),
    ('ega', dict(video='ega'), TEXT + [(1, 0), (2, 0), (7, 0), (8, 0), (9, 0)]),
    ('ega64k', dict(video='ega', video_memory=65536), TEXT + [(1, 0), (2, 0), (7, 0), (8, 0), (9, 0)]),
    ('vga', dict(video='vga'), TEXT + [(1, 0), (2, 0), (7, 0), (8, 0), (9, 0)]),
    ('mda', dict(video='mda', monitor='mono'), TEXT),
    ('egamono', dict(video='ega', monitor='mono'), TEXT + [(10, 0)]),
    ('hercules', dict(video='hercules', monitor='mono'), TEXT + [(3, 0)]),
    ('tandy', dict(video='tandy'), TEXT + [(1, 0), (2, 0), (3, 0), (4, 0), (5, 0), (6, 0)]),
    ('pcjr', dict(video='pcjr'), TEXT + [(1, 0), (2, 0), (3, 0), (4, 0), (5, 0), (6, 0)]),
    ('olivetti', dict(video='olivetti'), TEXT + [(1, 0), (2, 0), (3, 0)]),
]
MONO_TEXT = ('mda', 'egamono', 'hercules')
EGA_FAMILY = ('ega', 'ega64k', 'vga', 'egamono')


# ---------------------------------------------------------------------------------------------------
# the documented memory layout of each mode (independent of framebuffer.py), pixel -> address direction

class Layout(object):
    """kind: text | packed | tandy6 | planar.  Offsets are relative to the start of a page."""

    def __init__(self, adapter, screen, width):
        self.adapter, self.screen = adapter, screen
        self.planes = ()
        if screen == 0:
            self.kind, self.cols, self.rows = 'text', width, 25
            self.seg = 0xB000 if adapter in MONO_TEXT else 0xB800
            self.page_size = 0x800 if width == 40 else 0x1000
            self.name = 'text'
        elif adapter in EGA_FAMILY and screen >= 7:
            self.kind, self.seg = 'planar', 0xA000
            self.w, self.h = {7: (320, 200), 8: (640, 200), 9: (640, 350), 10: (640, 350)}[screen]
            self.page_size = {7: 0x2000, 8: 0x4000, 9: 0x8000, 10: 0x8000}[screen]
            self.planes = (1, 3) if screen == 10 else (0, 1, 2, 3)
            self.bpr = self.w // 8
            self.name = 'planar'
        else:
            self.seg = 0xB800
            if adapter in ('tandy', 'pcjr') and screen == 6:
                self.kind, self.w, self.h, self.banks, self.bpp = 'tandy6', 640, 200, 4, 1
                self.bpr = 160
                self.name = 'tandy6'
            else:
                self.kind = 'packed'
                if adapter == 'hercules':
                    self.w, self.h, self.bpp, self.banks = 720, 348, 1, 4
                elif adapter == 'olivetti' and screen == 3:
                    self.w, self.h, self.bpp, self.banks = 640, 400, 1, 4
                else:
                    self.w, self.h, self.bpp, self.banks = {
                        1: (320, 200, 2, 2), 2: (640, 200, 1, 2), 3: (160, 200, 4, 2), 4: (320, 200, 2, 2),
                        5: (320, 200, 4, 4)}[screen]
                self.bpr = self.w * self.bpp // 8
                self.name = 'packed-%dbank' % self.banks
            self.page_size = self.banks * 0x2000
        self.base = self.seg * 16
        self._inv = None

    def inverse(self):
        """offset in page -> (y, k[, plane]) by enumerating the forward (content -> address) map"""
        if self._inv is None:
            inv = {}
            if self.kind == 'text':
                for row in range(self.rows):
                    for col in range(self.cols):
                        inv[2 * (row * self.cols + col)] = (row, col, 0)
                        inv[2 * (row * self.cols + col) + 1] = (row, col, 1)
            elif self.kind == 'planar':
                for y in range(self.h):
                    for k in range(self.bpr):
                        inv[y * self.bpr + k] = (y, k, None)
            elif self.kind == 'packed':
                for y in range(self.h):
                    start = (y % self.banks) * 0x2000 + (y // self.banks) * self.bpr
                    for k in range(self.bpr):
                        inv[start + k] = (y, k, None)
            else:
                for y in range(self.h):
                    start = (y % 4) * 0x2000 + (y // 4) * 160
                    for k in range(80):
                        inv[start + 2 * k] = (y, k, 0)
                        inv[start + 2 * k + 1] = (y, k, 1)
            assert all(0 <= o < self.page_size for o in inv)
            self._inv = inv
        return self._inv

    def locate(self, addr, np):
        """(page, y, k, plane) of the content an address backs, or None"""
        r = addr - self.base
        if r < 0:
            return None
        page, off = divmod(r, self.page_size)
        if page >= np:
            return None
        hit = self.inverse().get(off)
        return None if hit is None else (page,) + hit


LAYOUTS = {}


def layout_for(adapter, screen, width):
    key = (adapter, screen, width)
    if key not in LAYOUTS:
        LAYOUTS[key] = Layout(adapter, screen, width)
    return LAYOUTS[key]


class Screen(object):
    """Snapshot of all page buffers of a session (the observation point of the property)."""

    def __init__(self, lay, session):
        display = session._impl.display
        self.np = len(display.pages)
        if lay.kind == 'text':
            self.rows = [[bytearray(b''.join(r.chars)) for r in p._rows] for p in display.pages]
            self.attrs = [[bytearray(r.attrs) for r in p._rows] for p in display.pages]
        else:
            self.rows = [[bytearray(r) for r in p.pixels[:, :]._rows] for p in display.pages]
            self.attrs = None

    def copy(self):
        c = Screen.__new__(Screen)
        c.np = self.np
        c.rows = [[bytearray(r) for r in p] for p in self.rows]
        c.attrs = None if self.attrs is None else [[bytearray(r) for r in p] for p in self.attrs]
        return c

    def diff(self, other):
        for which, a, b in (('content', self.rows, other.rows), ('attr', self.attrs, other.attrs)):
            if a is None:
                continue
            for p, (pa, pb) in enumerate(zip(a, b)):
                if pa != pb:
                    for y, (ra, rb) in enumerate(zip(pa, pb)):
                        if ra != rb:
                            x = next(i for i in range(len(ra)) if ra[i] != rb[i])
                            return '%s page %d row %d x %d: %d vs %d' % (which, p, y, x, ra[x], rb[x])
        return None


class Oracle(object):
    """Expected PEEK values and POKE effects from the documented layout."""

    def __init__(self, lay, np):
        self.lay, self.np = lay, np
        self.read_plane, self.write_mask = 0, 0xff

    def expected_byte(self, scr, addr):
        lay = self.lay
        loc = lay.locate(addr, self.np)
        if loc is None:
            return 0
        page, y, k, which = loc
        if lay.kind == 'text':
            return scr.attrs[page][y][k] if which else scr.rows[page][y][k]
        row = scr.rows[page][y]
        if lay.kind == 'packed':
            ppb, v = 8 // lay.bpp, 0
            for t in range(ppb):
                v = (v << lay.bpp) | (row[k * ppb + t] & ((1 << lay.bpp) - 1))
            return v
        if lay.kind == 'planar':
            plane = self.read_plane % 4
            if plane not in lay.planes:
                return 0
        else:
            plane = which
        v = 0
        for t in range(8):
            v = (v << 1) | ((row[k * 8 + t] >> plane) & 1)
        return v

    def apply_byte(self, scr, addr, v):
        """change `scr` as a write of byte v at addr must change it; returns True if anything is covered"""
        lay = self.lay
        loc = lay.locate(addr, self.np)
        if loc is None:
            return False
        page, y, k, which = loc
        if lay.kind == 'text':
            (scr.attrs if which else scr.rows)[page][y][k] = v
            return True
        row = scr.rows[page][y]
        if lay.kind == 'packed':
            ppb = 8 // lay.bpp
            for t in range(ppb):
                row[k * ppb + t] = (v >> (lay.bpp * (ppb - 1 - t))) & ((1 << lay.bpp) - 1)
            return True
        if lay.kind == 'planar':
            mask = self.write_mask & sum(1 << p for p in lay.planes)
        else:
            mask = 1 << which
        if not mask:
            return False
        for t in range(8):
            bit = (v >> (7 - t)) & 1
            row[k * 8 + t] = (row[k * 8 + t] & ~mask & 0xff) | (mask if bit else 0)
        return True

    def readable_writable(self):
        if self.lay.kind != 'planar':
            return True
        plane = self.read_plane % 4
        return plane in self.lay.planes and bool(self.write_mask & (1 << plane))


# ---------------------------------------------------------------------------------------------------
# driving the real interpreter

class Real(object):
    """One real Session in a given mode; `block=True` uses BSAVE/BLOAD and BASIC statements,
    `block=False` does the same operations one byte at a time through Memory._get_memory/_set_memory."""

    def __init__(self, cfg, block, tmp):
        adapter, kw, screen, width = cfg
        self.block, self.tmp = block, tmp
        self.session = basic.new_session(devices={'C': tmp}, current_device='C', **kw)
        # with the Tandy syntax BSAVE repeats the header after the data and BLOAD drops the last 7 bytes
        self.tandy_syntax = kw.get('syntax') == 'tandy'
        self.problems = []
        if screen == 0:
            self.run(b'SCREEN 0:WIDTH %d:CLS' % width)
        else:
            self.run(b'SCREEN %d:CLS' % screen)
        self.memory = self.session._impl.all_memory
        self.display = self.session._impl.display

    def switch(self, screen, width):
        """SCREEN / WIDTH statement(s) leading to the given mode; no video memory is touched"""
        if screen == 0:
            self.run(b'SCREEN 0,,0,0:WIDTH %d' % width)
        else:
            self.run(b'SCREEN %d,,0,0' % screen)

    def pages(self, screen, apage, vpage):
        """SCREEN statement naming the current mode with page arguments"""
        self.run(b'SCREEN %d,,%d,%d' % (screen, apage, vpage))

    def clear_video(self, size):
        """CLEAR ,,,n (PCjr/Tandy syntax)"""
        self.run(b'CLEAR ,,,%d' % size)

    def close(self):
        self.session.close()

    def run(self, text):
        out = basic.safe_exec(self.session, text)
        if out:
            self.problems.append('%r printed %r' % (text, out))
        return out

    @staticmethod
    def split(addr, rng=None, span=1):
        """segment:offset with offset+span-1 <= 0xfff0"""
        choices = [seg for seg in (0xA000, 0xA800, 0xB000, 0xB800, 0xAF00, 0xB700)
                   if 0 <= addr - seg * 16 and addr - seg * 16 + span - 1 <= 0xffff]
        if rng is not None and (not choices or rng.random() < 0.3):
            lo = max(0, (addr + span - 1 - 0xffff + 15) // 16)
            hi = addr // 16
            choices = [rng.randint(lo, hi) if lo <= hi else hi]
        seg = rng.choice(choices) if rng is not None else choices[0]
        return seg, addr - seg * 16

    def peek(self, addr, rng):
        if self.block:
            seg, off = self.split(addr, rng)
            self.run(b'DEF SEG=&H%X:V%%=PEEK(&H%X)' % (seg, off))
            return self.session.get_variable('V%')
        try:
            return self.memory._get_memory(addr)
        except Exception as e:   # noqa: an escaping host exception is a finding, not a harness crash
            self.problems.append('_get_memory(%05X) raised %s' % (addr, type(e).__name__))
            return -1

    def poke(self, addr, v, rng):
        if self.block:
            seg, off = self.split(addr, rng)
            self.run(b'DEF SEG=&H%X:POKE &H%X,%d' % (seg, off, v))
        else:
            try:
                self.memory._set_memory(addr, v)
            except Exception as e:   # noqa
                self.problems.append('_set_memory(%05X) raised %s' % (addr, type(e).__name__))

    def read(self, addr, n, rng):
        if not self.block:
            try:
                return bytes(self.memory._get_memory(addr + i) for i in range(n))
            except Exception as e:   # noqa
                self.problems.append('_get_memory in %05X+%d raised %s' % (addr, n, type(e).__name__))
                return b''
        seg, off = self.split(addr, rng, n)
        path = os.path.join(self.tmp, 'S.BIN')
        if os.path.exists(path):
            os.remove(path)
        self.run(b'DEF SEG=&H%X:BSAVE "S.BIN",&H%X,&H%X' % (seg, off, n))
        try:
            data = open(path, 'rb').read()
        except EnvironmentError:
            self.problems.append('BSAVE wrote no file')
            return b''
        head = b'\xfd' + struct.pack('<HHH', seg, off, n)
        if data[:7] != head or len(data) < 7 + n:
            self.problems.append('BSAVE file header/length wrong: %r, %d bytes for %d' % (data[:7], len(data), n))
        return data[7:7 + n]

    def write(self, addr, data, rng):
        if not self.block:
            try:
                for i, v in enumerate(data):
                    self.memory._set_memory(addr + i, v)
            except Exception as e:   # noqa
                self.problems.append('_set_memory in %05X+%d raised %s' % (addr, len(data), type(e).__name__))
            return
        seg, off = self.split(addr, rng, len(data))
        with open(os.path.join(self.tmp, 'L.BIN'), 'wb') as f:
            head = b'\xfd' + struct.pack('<HHH', seg, off, len(data))
            f.write(head + bytes(data) + (head if self.tandy_syntax else b'') + b'\x1a')
        self.run(b'BLOAD "L.BIN",&H%X' % off)

    def out(self, port, v):
        # select the register through its index port first, as a program would (map mask = sequencer
        # register 2, read map select = graphics controller register 4)
        if port == 0x3c5:
            self.run(b'OUT &H3C4,2:OUT &H3C5,%d' % v)
        elif port == 0x3cf:
            self.run(b'OUT &H3CE,4:OUT &H3CF,%d' % v)
        else:
            self.run(b'OUT &H%X,%d' % (port, v))

    def rect(self, page, x0, y0, x1, y1, c):
        self.run(b'SCREEN ,,%d,0:LINE (%d,%d)-(%d,%d),%d,BF:SCREEN ,,0,0' % (page, x0, y0, x1, y1, c))

    def text(self, page, row, col, fg, bg, chars):
        text = (b'SCREEN ,,%d,0:LOCATE %d,%d:COLOR %d,%d:PRINT "%s";:COLOR 7,0:LOCATE 1,1:SCREEN ,,0,0'
                % (page, row + 1, col + 1, fg, bg, chars))
        out = basic.safe_exec(self.session, text)
        if out != chars:
            self.problems.append('%r printed %r' % (text, out))


def hexb(b):
    return bytes(b).hex() or '-'


def interesting_addresses(lay, np, rng, count):
    """boundary-dense + random absolute addresses inside A0000..BFFFF"""
    base, ps = lay.base, lay.page_size
    bpr = 2 * lay.cols if lay.kind == 'text' else lay.bpr
    pts = [0, 1, bpr - 1, bpr, bpr + 1, 2 * bpr - 1, ps - 1, ps, ps + 1, np * ps - 1, np * ps, np * ps + 5,
           -1, -2, -bpr, -ps, -ps - 1, (np - 1) * ps, (np - 1) * ps + bpr - 1]
    if lay.kind in ('packed', 'tandy6'):
        used = ((lay.h + lay.banks - 1) // lay.banks) * bpr
        for b in range(lay.banks):
            pts += [b * 0x2000 - 3, b * 0x2000 - 1, b * 0x2000, b * 0x2000 + 1, b * 0x2000 + used - 1,
                    b * 0x2000 + used, b * 0x2000 + used - bpr - 1, b * 0x2000 + 0x1ffd]
        pts += [ps + 0x1ffd, ps + 0x2000 - 1, (np - 1) * ps + 0x3ffe]
    elif lay.kind == 'planar':
        pts += [lay.h * bpr - 1, lay.h * bpr, lay.h * bpr - bpr - 1, ps + lay.h * bpr - 2]
    else:
        pts += [25 * bpr - 1, 25 * bpr, 25 * bpr - 2, ps + 25 * bpr - 1, 24 * bpr - 1]
    res = []
    for _ in range(count):
        k = rng.random()
        if k < 0.45:
            a = base + rng.choice(pts) + rng.choice([0, 0, 0, 1, -1, 2, -2, 3])
        elif k < 0.93:
            a = base + rng.randrange(0, max(1, min(np, 4) * ps)) if rng.random() < 0.8 else \
                base + rng.randrange(0, np * ps)
        else:
            a = rng.randrange(0xA0000, 0xC0000)
        res.append(min(max(a, 0xA0000), 0xBFFFF))
    return res


def gen_history(cfg, lay, np, rng, n_ops, max_read, max_write):
    """JSON-able list of operations"""
    ops = []
    bpr = 2 * lay.cols if lay.kind == 'text' else lay.bpr
    pages = sorted(set([0, np - 1, rng.randrange(np)]))
    if lay.kind == 'text':
        for _ in range(rng.randrange(2, 5)):
            n = rng.randrange(1, 20)
            chars = ''.join(rng.choice('ABCXYZabcxyz0123456789!#$%&()*+,-./:;<=>?@[]^_{|}~') for _ in range(n))
            ops.append(['W', rng.choice(pages), rng.randrange(0, 23), rng.randrange(0, lay.cols - n - 1),
                        rng.randrange(0, 32), rng.randrange(0, 8), chars])
    else:
        if lay.kind == 'packed':
            maxc = (1 << lay.bpp) - 1
        else:
            maxc = 3 if lay.kind == 'tandy6' or lay.screen == 10 else 15
        if cfg[0] == 'ega64k' and lay.screen == 9:
            maxc = 3
        for _ in range(rng.randrange(2, 5)):
            x0, x1 = sorted([rng.randrange(lay.w), rng.randrange(lay.w)])
            y0, y1 = sorted([rng.randrange(lay.h), rng.randrange(lay.h)])
            if rng.random() < 0.5:
                y1 = min(y1, y0 + 9)
            ops.append(['R', rng.choice(pages), x0, y0, x1, y1, rng.randrange(1, maxc + 1)])
    addrs = interesting_addresses(lay, np, rng, n_ops)
    for a in addrs:
        k = rng.random()
        lens = [1, 2, 3, 4, 5, 7, 10, bpr - 1, bpr, bpr + 1, 2 * bpr + 3, rng.randrange(1, 40), rng.randrange(1, 4 * bpr)]
        if lay.kind == 'planar' and k < 0.18:
            ops.append(['P', rng.choice([0, 1, 2, 3, 3, 4, 5, 7, 255])] if rng.random() < 0.5 else
                       ['M', rng.choice([0, 1, 2, 4, 8, 3, 5, 10, 15, 255, 240, rng.randrange(256)])])
        elif k < 0.3:
            ops.append(['k', a])
        elif k < 0.5:
            ops.append(['p', a, rng.choice([0, 255, 0x55, 0xAA, 0x1B, 0x80, 1, rng.randrange(256)])])
        elif k < 0.75:
            n = min(rng.choice(lens + [0x2000 - (a - lay.base) % 0x2000 + rng.randrange(0, 8), max_read]), max_read,
                    0xC0000 - a)
            ops.append(['g', a, max(n, 1)])
        else:
            n = max(1, min(rng.choice(lens + [0x2000 - (a - lay.base) % 0x2000 + rng.randrange(0, 8), max_write]),
                           max_write, 0xC0000 - a))
            pat = rng.random()
            if pat < 0.6:
                data = [rng.randrange(256) for _ in range(n)]
            elif pat < 0.8:
                data = [(i * 37 + 11) & 0xff for i in range(n)]
            else:
                data = [rng.choice([0xff, 0x00, 0xf0, 0x1a])] * n
            ops.append(['s', a, bytes(data).hex()])
    return ops


def classify(lay, np, addr, n):
    """distribution counters for an address range"""
    tags = []
    r = addr - lay.base
    if r < 0:
        tags.append('below-segment')
    if r + n > np * lay.page_size:
        tags.append('beyond-last-page')
    bpr = 2 * lay.cols if lay.kind == 'text' else lay.bpr
    if r >= 0:
        if r // lay.page_size != (r + n - 1) // lay.page_size:
            tags.append('page-crossing')
        if lay.kind in ('packed', 'tandy6') and r // 0x2000 != (r + n - 1) // 0x2000:
            tags.append('bank-crossing')
        inpage = r % lay.page_size
        inbank = inpage % 0x2000 if lay.kind in ('packed', 'tandy6') else inpage
        if inbank % bpr:
            tags.append('mid-row')
        if n > 1 and inbank % bpr + n > bpr:
            tags.append('row-crossing')
        if lay.kind == 'tandy6' and addr % 2:
            tags.append('odd-start')
    return tags


def observation_ops(lay, np, scr_before, scr_after, rng):
    """model observations of the rows that changed (and a random one)"""
    obs = []
    width = len(scr_after.rows[0][0])
    changed = []
    for p in range(np):
        if scr_before.rows[p] != scr_after.rows[p] or (scr_after.attrs and scr_before.attrs[p] != scr_after.attrs[p]):
            for y in range(len(scr_after.rows[p])):
                if scr_before.rows[p][y] != scr_after.rows[p][y] or \
                        (scr_after.attrs and scr_before.attrs[p][y] != scr_after.attrs[p][y]):
                    changed.append((p, y))
    for p, y in rng.sample(changed, min(3, len(changed))) + [(rng.randrange(np), rng.randrange(len(scr_after.rows[0])))]:
        x0 = rng.randrange(0, max(1, width - 48))
        obs.append((p, y, x0, min(48, width - x0)))
    return obs


def grid_row(lay, scr, p, y, x0, n):
    """values of row y as the model sees them (text: interleaved character/attribute bytes)"""
    if lay.kind == 'text':
        row = bytearray(2 * lay.cols)
        row[0::2] = scr.rows[p][y]
        row[1::2] = scr.attrs[p][y]
        return bytes(row[x0:x0 + n])
    return bytes(scr.rows[p][y][x0:x0 + n])


def run_history(ctx, cfg, ops, use_model=True, label=''):
    """Execute one history on twin sessions (A block / B bytewise), check the oracle, compare with the model."""
    adapter, kw, screen, width = cfg
    lay = layout_for(adapter, screen, width)
    rng = ctx.rng
    tmp_a, tmp_b = tempfile.mkdtemp(prefix='pcbv_c34_'), tempfile.mkdtemp(prefix='pcbv_c34_')
    A = B = None
    modetag = '%s/%d/%d' % (adapter, screen, width)
    try:
        A, B = Real(cfg, True, tmp_a), Real(cfg, False, tmp_b)
        np = len(A.display.pages)
        mode_name = A.display.mode.name
        orc = Oracle(lay, np)
        cur = Screen(lay, A.session)
        mlines, mouts = [], []     # model ops / implementation results
        first_mode, first_np = mode_name, np
        screen_now, width_now = screen, (width if screen == 0 else 0)
        vmem = kw.get('video_memory', 262144)

        failed = []

        def fail(kind, step, what):
            failed.append(kind)
            key = '%s:%s' % (kind, lay.name)
            ctx.fail(key, {'cfg': [adapter, kw, screen, width], 'ops': ops[:step + 1], 'mode': mode_name}, what)

        def m(op, result='-'):
            mlines.append(op)
            mouts.append(result)

        for step, op in enumerate(ops):
            kind = op[0]
            ctx.case((modetag, kind) + tuple(op[1:3]) + ((len(op[2]) if kind == 's' else 0),))
            ctx.count('op:' + kind)
            mutating = kind in 'RWps'
            before = cur
            if kind == 'R':
                _, page, x0, y0, x1, y1, c = op
                page = min(page, np - 1)
                A.rect(page, x0, y0, x1, y1, c)
                B.rect(page, x0, y0, x1, y1, c)
                cur = Screen(lay, A.session)       # set-up: the buffers are taken as they are
                m('R:%d:%d:%d:%d:%d:%d' % (page, x0, y0, x1, y1, c))
            elif kind == 'W':
                _, page, row, col, fg, bg, chars = op
                page = min(page, np - 1)
                A.text(page, row, col, fg, bg, chars.encode())
                B.text(page, row, col, fg, bg, chars.encode())
                cur = Screen(lay, A.session)
                m('W:%d:%d:%d:%d:%s' % (page, row, col, cur.attrs[page][row][col], chars.encode().hex()))
            elif kind in 'XVC':
                # mode switches.  X: SCREEN/WIDTH to a mode; V: SCREEN naming the current mode with page
                # arguments; C: CLEAR ,,,n (PCjr/Tandy).  A switch to another mode (and a CLEAR that changes the
                # video memory size) builds a new mode object: fresh plane registers, erased pages; a SCREEN
                # statement naming the current mode keeps both.  No video memory is accessed here.
                rebuilt = forced = False
                if kind == 'X':
                    target = (op[1], op[2] if op[1] == 0 else 0)
                    for R_ in (A, B):
                        R_.switch(op[1], op[2])
                    rebuilt = target != (screen_now, width_now)
                    if rebuilt:
                        screen_now, width_now = target
                elif kind == 'V':
                    for R_ in (A, B):
                        R_.pages(screen_now, min(op[1], np - 1), min(op[2], np - 1))
                else:
                    for R_ in (A, B):
                        R_.clear_video(op[1])
                    if op[1] != vmem:
                        vmem = op[1]
                        rebuilt = forced = True
                        # the emulator drops to text mode; which width is configuration, read from the display
                        screen_now, width_now = 0, A.display.mode.width
                if rebuilt:
                    lay = layout_for(adapter, screen_now, width_now)
                    np = len(A.display.pages)
                    mode_name = A.display.mode.name
                    modetag = '%s/%d/%d' % (adapter, screen_now, width_now)
                    orc = Oracle(lay, np)          # read plane 0, all planes writable
                    cur = Screen(lay, A.session)   # set-up: the new pages are taken as they are
                    d_ab = cur.diff(Screen(lay, B.session))
                    if d_ab:
                        fail('twins-differ-after-mode-switch', step, d_ab)
                    ctx.count('switch:rebuilt')
                else:
                    ctx.count('switch:same-mode')
                m('%s:%s:%d' % ('Z' if forced else 'X', A.display.mode.name, len(A.display.pages)))
            elif kind in 'PM':
                v = op[1]
                for R_ in (A, B):
                    R_.out(0x3cf if kind == 'P' else 0x3c5, v)
                if kind == 'P':
                    orc.read_plane = v
                else:
                    orc.write_mask = v
                m('%s:%d' % (kind, v))
            elif kind == 'k':
                a = op[1]
                va, vb = A.peek(a, rng), B.peek(a, rng)
                exp = orc.expected_byte(cur, a)
                for t in classify(lay, np, a, 1):
                    ctx.count('peek:' + t)
                ctx.count('peek:mapped' if lay.locate(a, np) else 'peek:unmapped')
                if va != exp or vb != exp:
                    fail('peek-not-content' if lay.locate(a, np) else 'unmapped-read-nonzero', step,
                         'PEEK at %05X in %s (%s): statement %r, Memory._get_memory %r, expected %d from the page buffers'
                         % (a, modetag, mode_name, va, vb, exp))
                m('k:%d' % a, str(va))
            elif kind == 'g':
                a, n = op[1], op[2]
                da, db = A.read(a, n, rng), B.read(a, n, rng)
                exp = bytes(orc.expected_byte(cur, a + i) for i in range(n))
                for t in classify(lay, np, a, n):
                    ctx.count('read:' + t)
                if da != db:
                    i = next((i for i in range(min(len(da), len(db))) if da[i] != db[i]), min(len(da), len(db)))
                    fail('block-read-differs-from-bytes', step,
                         'BSAVE of %d bytes at %05X in %s (%s) differs from %d single reads from offset %d: %s vs %s'
                         % (n, a, modetag, mode_name, n, i, da[i:i + 8].hex(), db[i:i + 8].hex()))
                if db != exp:
                    i = next((i for i in range(min(len(exp), len(db))) if exp[i] != db[i]), 0)
                    fail('peek-not-content', step, 'single reads at %05X+%d in %s: %s, expected %s from the page buffers'
                         % (a, i, modetag, db[i:i + 8].hex(), exp[i:i + 8].hex()))
                elif da != exp:
                    i = next((i for i in range(min(len(exp), len(da))) if exp[i] != da[i]), 0)
                    fail('block-read-not-content', step, 'BSAVE at %05X+%d in %s: %s, expected %s from the page buffers'
                         % (a, i, modetag, da[i:i + 8].hex(), exp[i:i + 8].hex()))
                if use_model:
                    m('g:%d:%d' % (a, n), hexb(da))
                    m('G:%d:%d' % (a, n), hexb(db))
            elif kind in 'ps':
                a = op[1]
                data = [op[2]] if kind == 'p' else list(bytes.fromhex(op[2]))
                n = len(data)
                exp = cur.copy()
                covered = 0
                for i, v in enumerate(data):
                    covered += orc.apply_byte(exp, a + i, v)
                for t in classify(lay, np, a, n):
                    ctx.count('write:' + t)
                ctx.count('write:covers-content' if covered else 'write:covers-nothing')
                if kind == 'p':
                    A.poke(a, data[0], rng)
                    B.poke(a, data[0], rng)
                else:
                    A.write(a, data, rng)
                    B.write(a, data, rng)
                sa, sb = Screen(lay, A.session), Screen(lay, B.session)
                d_ab, d_b, d_a = sa.diff(sb), exp.diff(sb), exp.diff(sa)
                if kind == 's' and d_ab:
                    fail('block-write-differs-from-bytes', step,
                         'BLOAD of %d bytes at %05X in %s (%s) leaves a different screen than %d single writes: %s'
                         % (n, a, modetag, mode_name, n, d_ab))
                if d_b:
                    fail('poke-effect' if covered else 'unmapped-write-changes-screen', step,
                         'single writes of %d bytes at %05X in %s: expected vs actual %s' % (n, a, modetag, d_b))
                elif d_a:
                    fail(('poke-effect' if kind == 'p' else 'block-write-effect') if covered
                         else 'unmapped-write-changes-screen', step,
                         '%s of %d bytes at %05X in %s: expected vs actual %s'
                         % ('POKE' if kind == 'p' else 'BLOAD', n, a, modetag, d_a))
                cur = sa
                m(('p:%d:%d' % (a, data[0])) if kind == 'p' else 's:%d:%s' % (a, hexb(data)))
                # POKE then PEEK returns the byte written
                if orc.readable_writable():
                    for i in sorted(set([0, n - 1, rng.randrange(n)])):
                        if lay.locate(a + i, np):
                            # a later byte of the block may cover the same content only in Tandy-6/planar? no: distinct bytes
                            got = B.peek(a + i, rng)
                            ctx.count('poke-then-peek')
                            if got != data[i]:
                                fail('poke-then-peek', step, 'wrote %d at %05X in %s, PEEK returns %d'
                                     % (data[i], a + i, modetag, got))
            else:
                raise ValueError(op)
            if mutating and use_model:
                for (p, y, x0, nn) in observation_ops(lay, np, before, cur, rng):
                    m('x:%d:%d:%d:%d' % (p, y, x0, nn), hexb(grid_row(lay, cur, p, y, x0, nn)))
            for R_ in (A, B):
                if R_.problems:
                    fail('unexpected-output', step, '; '.join(R_.problems[:3]))
                    R_.problems = []
            if failed:
                break
        # the visible page through the public API
        if not failed:
            A.run(b'SCREEN ,,0,0')
        if failed:
            pass
        elif lay.kind != 'text':
            pub = A.session.get_pixels()
            if [bytes(r) for r in pub] != [bytes(r) for r in cur.rows[0]]:
                fail('get-pixels-differs-from-page-buffer', len(ops) - 1, 'Session.get_pixels() != page 0 buffer')
        else:
            pub = A.session.get_chars()
            if [b''.join(r) for r in pub] != [bytes(r) for r in cur.rows[0]]:
                fail('get-chars-differs-from-page-buffer', len(ops) - 1, 'Session.get_chars() != page 0 buffer')
        if use_model and mlines:
            line = 'hist %s %d %s' % (first_mode, first_np, ';'.join(mlines))
            replies = ctx.model([line])
            if replies is not None:
                impl = 'ok ' + ';'.join(mouts)
                if replies[0] != impl:
                    mr = replies[0][3:].split(';') if replies[0].startswith('ok ') else [replies[0]]
                    idx = next((i for i in range(min(len(mr), len(mouts))) if mr[i] != mouts[i]), -1)
                    ctx.disagree({'label': 'history ' + label, 'mode': modetag, 'ops': mlines[:idx + 1][-6:],
                                  'first_differing_op': mlines[idx] if idx >= 0 else None},
                                 mouts[idx][:80] if idx >= 0 else impl[:80], mr[idx][:80] if idx >= 0 else replies[0][:80])
                ctx.count('model-histories')
        return np, mode_name
    finally:
        for R_ in (A, B):
            if R_ is not None:
                try:
                    R_.close()
                except Exception:
                    pass
        shutil.rmtree(tmp_a, ignore_errors=True)
        shutil.rmtree(tmp_b, ignore_errors=True)


def big_history(cfg, lay, np, rng):
    """whole-page / multi-page / bank-crossing transfers (oracle and block-vs-byte only, no model)"""
    ps, base = lay.page_size, lay.base
    ops = []
    maxc = 1 if lay.kind == 'packed' and lay.bpp == 1 else 3
    if lay.kind == 'text':
        ops.append(['W', 0, 3, 2, 14, 1, 'Video memory'])
        ops.append(['W', np - 1, 22, 5, 7, 0, 'last page'])
    else:
        ops.append(['R', 0, 3, 1, lay.w - 5, lay.h - 2, 1])
        ops.append(['R', 0, 17, 5, lay.w // 2, lay.h // 2, maxc])
        ops.append(['R', np - 1, 1, 0, lay.w - 1, 9, maxc])
    top = min(0xC0000, base + np * ps + 16)
    start = base + rng.choice([0, 1, 3, lay.page_size // 2 + 1])
    ops.append(['g', start, min(0xfff0, top - start)])
    if np > 1:
        a = base + ps - rng.randrange(1, 300)
        ops.append(['g', a, min(0xfff0, top - a, ps + 600)])
    n = rng.randrange(ps // 2, ps + 200)
    a = base + rng.choice([0, 1, 2, 0x1ffd, ps - 77, rng.randrange(ps)])
    n = min(n, 0xC0000 - a)
    seed = rng.randrange(256)
    ops.append(['s', a, bytes(((i * 73 + seed) ^ (i >> 5)) & 0xff for i in range(n)).hex()])
    ops.append(['g', base, min(0xfff0, top - base)])
    if lay.kind == 'planar':
        ops.append(['M', rng.choice([1, 2, 4, 8, 5, 10])])
        ops.append(['s', base + rng.randrange(0, 200), bytes(rng.randrange(256) for _ in range(1000)).hex()])
        ops.append(['P', rng.choice([1, 2, 3])])
        ops.append(['g', base, min(0xfff0, 2 * ps)])
    return ops


def plane_sweep_history(cfg, lay, np, rng):
    """planar modes: a different byte on every plane at the same addresses (one plane enabled at a time, then
    overlapping masks), read back with every read-select value; oracle = POKE-then-PEEK per plane, the other
    planes keep their bytes, unused planes read 0 and ignore writes"""
    base, ps = lay.base, lay.page_size
    ops = []
    maxc = 3 if lay.screen == 10 or (cfg[0] == 'ega64k' and lay.screen == 9) else 15
    ops.append(['R', 0, 5, 0, lay.w - 9, 6, rng.randrange(1, maxc + 1)])
    # last page that lies inside the video window A0000..BFFFF
    last = min(np, (0xC0000 - base) // ps) - 1
    ops.append(['R', last, 0, 0, lay.w - 1, 3, rng.randrange(1, maxc + 1)])
    addrs = [base + rng.choice([0, 1, lay.bpr - 1, lay.bpr + 2, 1000]),
             base + last * ps + lay.bpr * rng.randrange(0, 3) + rng.randrange(lay.bpr)]
    values = rng.sample([0x5A, 0xA5, 0x3C, 0xC3, 0x0F, 0xF0, 0x81, 0x7E, 0x99, 0x66, 0xFF, 0x01], 4)
    for a in addrs:
        order = list(range(4))
        rng.shuffle(order)
        for pl in order:
            ops.append(['M', 1 << pl])
            ops.append(['P', pl])
            ops.append(['p', a, values[pl]])
            for r in range(4):
                ops.append(['P', r])
                ops.append(['k', a])
        # every read-select value incl. the ones above 3, single and block reads
        for r in [0, 1, 2, 3, rng.choice([4, 5, 6, 7]), rng.choice([7, 11, 255])]:
            ops.append(['P', r])
            ops.append(['k', a])
            ops.append(['g', a - 1, 3])
        values = values[1:] + values[:1]
    # overlapping masks: two planes at once, block write, then each plane again
    a = addrs[0] + 4
    for mask in (rng.choice([3, 5, 6, 9, 10, 12]), rng.choice([0, 7, 11, 13, 14, 15, 255])):
        ops.append(['M', mask])
        ops.append(['s', a - 2, bytes(rng.randrange(256) for _ in range(6)).hex()])
        for r in range(4):
            ops.append(['P', r])
            ops.append(['g', a - 3, 8])
    ops.append(['M', 255])
    ops.append(['P', 0])
    return ops


def visit_ops(adapter, screen, width, rng, quiet, wide_pages=False):
    """operations of one visit to a mode inside a mode-switch history"""
    lay = layout_for(adapter, screen, width)
    ops = []
    if lay.kind == 'text':
        n = rng.randrange(2, 12)
        ops.append(['W', 0, rng.randrange(0, 23), rng.randrange(0, lay.cols - n - 1), rng.randrange(0, 32),
                    rng.randrange(0, 8), ''.join(rng.choice('ABCxyz0189#+-') for _ in range(n))])
        bpr = 2 * lay.cols
    else:
        if lay.kind == 'packed':
            maxc = (1 << lay.bpp) - 1
        else:
            maxc = 3 if lay.kind == 'tandy6' or lay.screen == 10 or adapter == 'ega64k' else 15
        x0, y0 = rng.randrange(0, 40), rng.randrange(0, 8)
        ops.append(['R', 0, x0, y0, x0 + rng.randrange(8, 200), y0 + rng.randrange(0, 6), rng.randrange(1, maxc + 1)])
        bpr = lay.bpr
    if quiet:
        return ops      # no access to video memory at all during this visit
    top = min(4, max(1, (0xC0000 - lay.base) // lay.page_size))

    def addr():
        page = rng.randrange(top) if wide_pages and rng.random() < 0.7 else 0
        return lay.base + page * lay.page_size + rng.choice([0, 1, 2, bpr, bpr + 1, 3 * bpr + 5, rng.randrange(0, 8 * bpr)])

    def some_access(k):
        for _ in range(k):
            c = rng.random()
            a = addr()
            if c < 0.3:
                ops.append(['k', a])
            elif c < 0.6:
                ops.append(['p', a, rng.choice([0xff, 0x5a, 0xa5, 0x81, rng.randrange(256)])])
            elif c < 0.8:
                ops.append(['g', a, rng.randrange(1, 24)])
            else:
                ops.append(['s', a, bytes(rng.randrange(256) for _ in range(rng.randrange(1, 14))).hex()])
    planar = lay.kind == 'planar'
    if not planar or rng.random() < 0.7:
        some_access(rng.randrange(2, 4))       # with the registers as the mode switch left them
    if planar:
        ops.append(['M', rng.choice([1, 2, 4, 8, 3, 5, 6, 10, 12])])
        ops.append(['P', rng.choice([1, 2, 3])])
        some_access(rng.randrange(2, 4))
    k = rng.random()
    if k < 0.35:
        ops.append(['V', rng.randrange(0, 2), rng.randrange(0, 2)])     # SCREEN n,,a,v in mode n
        some_access(2)
    elif k < 0.6:
        ops.append(['X', screen, width])                                 # SCREEN n in mode n
        some_access(2)
    return ops


def switch_history(adapter, modes, home, rng, clear=False):
    """a history that leaves and re-enters modes: home mode used, left for a quiet visit elsewhere (no video memory
    access there), re-entered; then other modes with access in between; WIDTH changes; optional CLEAR ,,,n"""
    others = [md for md in modes if md != home]
    texts = [md for md in modes if md[0] == 0]
    ops = visit_ops(adapter, home[0], home[1], rng, False, clear)
    sizes = [32768, 65536, 98304, 131072, 262144]
    for rnd in range(3):
        away = rng.choice(texts if rng.random() < 0.6 else others)
        quiet = rnd == 0 or rng.random() < 0.5
        if clear and rng.random() < 0.8:
            ops.append(['C', rng.choice(sizes)])                          # drops to text mode
            if rng.random() < 0.5:
                ops.append(['X', away[0], away[1]])
                ops += visit_ops(adapter, away[0], away[1], rng, quiet, clear)
        else:
            ops.append(['X', away[0], away[1]])
            ops += visit_ops(adapter, away[0], away[1], rng, quiet, clear)
            if away[0] == 0 and rng.random() < 0.4:
                w2 = 40 if away[1] == 80 else 80
                ops.append(['X', 0, w2])                                   # WIDTH change in text mode
                ops += visit_ops(adapter, 0, w2, rng, rng.random() < 0.5, clear)
        ops.append(['X', home[0], home[1]])
        ops += visit_ops(adapter, home[0], home[1], rng, False, clear)
    return ops


SWITCH_FAMILIES = [
    # label, Session keywords, modes, CLEAR ,,,n available
    ('ega', dict(video='ega'), TEXT + [(1, 0), (2, 0), (7, 0), (8, 0), (9, 0)], False),
    ('vga', dict(video='vga'), TEXT + [(1, 0), (2, 0), (7, 0), (8, 0), (9, 0)], False),
    ('ega64k', dict(video='ega', video_memory=65536), TEXT + [(1, 0), (2, 0), (7, 0), (8, 0), (9, 0)], False),
    ('egamono', dict(video='ega', monitor='mono'), TEXT + [(10, 0)], False),
    ('tandy', dict(video='tandy', syntax='tandy'), TEXT + [(1, 0), (2, 0), (3, 0), (4, 0), (5, 0), (6, 0)], True),
    ('pcjr', dict(video='pcjr', syntax='pcjr'), TEXT + [(1, 0), (2, 0), (3, 0), (4, 0), (5, 0), (6, 0)], True),
    ('cga', dict(video='cga'), TEXT + [(1, 0), (2, 0)], False),
    ('hercules', dict(video='hercules', monitor='mono'), TEXT + [(3, 0)], False),
    ('olivetti', dict(video='olivetti'), TEXT + [(1, 0), (2, 0), (3, 0)], False),
]


def switch_part(ctx):
    t0 = time.time()
    try:
        _switch_part(ctx)
    finally:
        ctx.notes['mode_switch_part_s'] = round(time.time() - t0, 1)


def _switch_part(ctx):
    """mode-switch histories: every planar home mode in the thorough tier, a seed-rotated one per adapter family in
    the quick tier"""
    rng = ctx.rng
    for fi, (adapter, kw, modes, clear) in enumerate(SWITCH_FAMILIES):
        graphics = [md for md in modes if md[0] != 0]
        stateful = [md for md in graphics if md[0] >= 7] if adapter in EGA_FAMILY else \
            ([md for md in graphics if md[0] in (5, 6, 1)] if clear else graphics)
        if ctx.quick:
            if not (adapter in EGA_FAMILY or clear):
                continue
            homes = [stateful[(ctx.seed + fi) % len(stateful)]]
        else:
            homes = stateful + [rng.choice(modes)]
        for home in homes:
            for h in range(1 if ctx.quick else 2):
                ops = switch_history(adapter, modes, home, rng, clear)
                run_history(ctx, (adapter, kw, home[0], home[1]), ops, use_model=True,
                            label='%s mode switches from SCREEN %d' % (adapter, home[0]))
                ctx.count('mode-switch-histories')


def edge_differential(ctx, cfg):
    """Memory._get_memory_block against single reads across the edges of the video window (no oracle model:
    pure block-vs-byte comparison of the splitting code in machine.py)"""
    adapter, kw, screen, width = cfg
    tmp = tempfile.mkdtemp(prefix='pcbv_c34_')
    A = None
    try:
        A = Real(cfg, True, tmp)
        if screen:
            A.rect(0, 0, 0, 300, 150, 1)
        else:
            A.text(0, 24 - 3, 3, 7, 0, b'edge')
        for a, n in ((0x9FFF0, 48), (0x9FFFF, 3), (0xBFFF0, 40), (0xBFFFE, 2), (0xBFFFF, 1), (0xBFFFF, 2), (0xB7FF8, 16),
                     (0xA0000, 1), (ctx.rng.randrange(0x9FF00, 0xA0000), 512)):
            try:
                blk = bytes(A.memory._get_memory_block(a, n))
                one = bytes(max(0, A.memory._get_memory(a + i)) for i in range(n))
            except Exception as e:   # noqa
                blk, one = b'exception', type(e).__name__.encode()
            ctx.case(('edge', adapter, screen, a, n))
            ctx.count('edge-differential')
            if blk != one:
                ctx.fail('block-read-differs-from-bytes:window-edge',
                         {'cfg': [adapter, kw, screen, width], 'edge': [a, n]},
                         '_get_memory_block(%05X,%d) = %s but single reads give %s' % (a, n, blk.hex(), one.hex()))
    finally:
        if A is not None:
            A.close()
        shutil.rmtree(tmp, ignore_errors=True)


def screen10_bit0(ctx):
    """every attribute of a pixel must be distinguishable in video memory (SCREEN 10 on EGA mono)"""
    cfg = ('egamono', dict(video='ega', monitor='mono'), 10, 0)
    tmp = tempfile.mkdtemp(prefix='pcbv_c34_')
    A = None
    try:
        A = Real(cfg, True, tmp)
        seen = {}
        for attr in range(4):
            A.run(b'LINE (0,0)-(7,0),%d' % attr)
            vals = []
            for plane in range(4):
                A.out(0x3cf, plane)
                vals.append(A.peek(0xA0000, None))
            seen[attr] = tuple(vals)
        ctx.case(('screen10', 'planes'))
        # the recorded deviation (known finding C34-F1), exactly: planes 1 and 3 carry attribute bits 1 and 3,
        # attribute bit 0 is on no plane.  Anything else read here is a different failure with its own key.
        known_f1 = {0: (0, 0, 0, 0), 1: (0, 0, 0, 0), 2: (0, 255, 0, 0), 3: (0, 255, 0, 0)}
        if seen == known_f1:
            ctx.fail('screen10-attribute-bit0-not-in-video-memory', {'special': 'screen10'},
                     'SCREEN 10: PEEK over planes 0..3 of 8 pixels of attribute 0,1,2,3 gives %r: attributes are not '
                     'distinguishable in video memory' % (seen,))
        elif len(set(seen.values())) < 4 or any(v[2] for v in seen.values()):
            ctx.fail('screen10-plane-readback', {'special': 'screen10'},
                     'SCREEN 10: PEEK over read-select 0..3 of 8 pixels of attribute 0,1,2,3 gives %r (neither a '
                     'faithful encoding nor the recorded deviation %r)' % (seen, known_f1))
    finally:
        if A is not None:
            A.close()
        shutil.rmtree(tmp, ignore_errors=True)


def all_configs():
    return [(adapter, kw, screen, width) for adapter, kw, modes in ADAPTERS for screen, width in modes]


def probe(cfg):
    """number of pages of the configuration (from the display)"""
    tmp = tempfile.mkdtemp(prefix='pcbv_c34_')
    try:
        R_ = Real(cfg, False, tmp)
        try:
            return len(R_.display.pages)
        finally:
            R_.close()
    finally:
        shutil.rmtree(tmp, ignore_errors=True)


def run(ctx):
    translated.check_coords(ctx)
    rng = ctx.rng
    configs = all_configs()
    n_small = 1 if ctx.quick else 6
    n_ops = 12 if ctx.quick else 24
    pages = {}
    for ci, cfg in enumerate(configs):
        adapter, kw, screen, width = cfg
        lay = layout_for(adapter, screen, width)
        key = (adapter, screen, width)
        if key not in pages:
            pages[key] = probe(cfg)
        np = pages[key]
        ctx.count('mode:%s' % lay.name)
        for h in range(n_small):
            ops = gen_history(cfg, lay, np, rng, n_ops, 700 if ctx.quick else 1500, 400 if ctx.quick else 700)
            np2, mode_name = run_history(ctx, cfg, ops, use_model=True, label='%s/%d/%d#%d' % (adapter, screen, width, h))
            if h == 0 and ci % 9 == 0:
                ctx.sample({'mode': '%s SCREEN %d WIDTH %d = %s, %d pages' % (adapter, screen, width, mode_name, np2),
                            'ops': [o if o[0] != 's' else ['s', o[1], '%d bytes' % (len(o[2]) // 2)] for o in ops[:8]]})
        # large transfers: every graphics configuration in the thorough tier, a rotating subset in the quick tier
        if not ctx.quick or (ci + ctx.seed) % 3 == 0 or (lay.kind in ('packed', 'tandy6') and lay.banks == 4):
            run_history(ctx, cfg, big_history(cfg, lay, np, rng), use_model=False, label='big')
            ctx.count('big-histories')
        if not ctx.quick or ci % 7 == 0:
            edge_differential(ctx, cfg)
        # every planar mode (SCREEN 7-9 of ega/ega64k/vga, SCREEN 10 of ega mono), in both tiers
        if lay.kind == 'planar':
            for h in range(1 if ctx.quick else 3):
                run_history(ctx, cfg, plane_sweep_history(cfg, lay, np, rng), use_model=True,
                            label='%s/%d plane sweep' % (adapter, screen))
                ctx.count('plane-sweep-histories')
    switch_part(ctx)
    screen10_bit0(ctx)
    ctx.notes['configurations'] = len(configs)


def replay(ctx, payload):
    case = payload.get('case', {})
    sub = Ctx2(ctx)
    import random
    sub.rng = random.Random(payload.get('seed', 0))
    if case.get('special') == 'screen10':
        screen10_bit0(sub)
    elif 'edge' in case:
        edge_differential(sub, tuple(case['cfg']))
    else:
        adapter, kw, screen, width = case['cfg']
        run_history(sub, (adapter, kw, screen, width), case['ops'], use_model=False, label='replay')
    hits = [f for f in sub.failures if f['key'] == payload.get('key')] or sub.failures
    return hits[0]['what'] if hits else None


class Ctx2(object):
    """thin proxy so replay can reuse the checks without touching the outer evidence"""

    def __init__(self, ctx):
        self.__dict__.update(ctx.__dict__)
        self._ctx = ctx
        self.failures = []
        self.disagreements = []

    def __getattr__(self, name):
        return getattr(self._ctx.__class__, name).__get__(self)
