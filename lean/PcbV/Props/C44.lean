import PcbV.Model.Clock
/-
  C44 — TIME$, DATE$ and ENVIRON read back what was set.
  Theorems about `PcbV.Clock` (transcription of clock.py Clock and dos.py Environment).
  The host clock is an arbitrary integer `host` (microseconds), the host calendar an arbitrary
  `Cal` whose `civil` inverts `days` on valid dates (stated hypothesis `hcal`).
-/
namespace PcbV.C44
open PcbV PcbV.Clock


theorem parseTime_ok (s : Bytes) (t : Int × Int × Int) (h : parseTime s = .ok t) : TimeOk t := by
  unfold parseTime at h
  simp only at h
  split at h
  · cases h
  · split at h
    · cases h
    · split at h
      · cases h
      · next hc =>
        injection h with h; subst h
        unfold TimeOk; simp only; omega

theorem parseTime_err (s : Bytes) (e : Nat) (h : parseTime s = .error e) : e = ifc := by
  unfold parseTime at h
  simp only at h
  split at h
  · injection h with h; exact h.symm
  · split at h
    · injection h with h; exact h.symm
    · split at h
      · injection h with h; exact h.symm
      · cases h

theorem time_set_get (host off off' : Int) (s : Bytes) (t : Int × Int × Int)
    (hp : parseTime s = .ok t) (hs : timeSet host off s = .ok off') (d : Int) (hd : 0 ≤ d) :
    timeFnSecs (host + d) off' =
      (t.1 * 3600 + t.2.1 * 60 + t.2.2 + ((host + off) % 1000000 + d) / 1000000) % 86400 := by
  have ht := parseTime_ok s t hp
  unfold TimeOk at ht
  unfold timeSet at hs
  rw [hp] at hs
  simp only [bind, Except.bind, pure, Except.pure] at hs
  injection hs with hs
  subst hs
  unfold timeFnSecs usDay usSec
  obtain ⟨h, m, sec⟩ := t
  simp only at ht ⊢
  omega


theorem parseDate_ok (s : Bytes) (y mo d : Int) (h : parseDate s = .ok (y, mo, d)) :
    DateOk y mo d ∧ y ≤ 2099 := by
  unfold parseDate at h
  simp only at h
  split at h
  · cases h
  · split at h
    · cases h
    · split at h
      · cases h
      · split at h
        · next hr hok =>
          injection h with h
          injection h with h1 h2
          injection h2 with h2 h3
          subst h1 h2 h3
          refine ⟨hok, ?_⟩
          unfold fullYear
          split <;> (try split) <;> omega
        · cases h

theorem date_set_get (cal : Cal) (hcal : ∀ y mo d, DateOk y mo d → cal.civil (cal.days y mo d) = (y, mo, d))
    (host off off' : Int) (s : Bytes) (y mo d : Int)
    (hp : parseDate s = .ok (y, mo, d)) (hs : dateSet cal host off s = .ok off')
    (el : Int) (h0 : 0 ≤ (host + off) % 86400000000 + el) (h1 : (host + off) % 86400000000 + el < 86400000000) :
    dateFnYmd cal (host + el) off' = (y, mo, d) := by
  have hok := (parseDate_ok s y mo d hp).1
  unfold dateSet at hs
  rw [hp] at hs
  simp only [bind, Except.bind, pure, Except.pure] at hs
  injection hs with hs
  subst hs
  unfold dateFnYmd
  rw [← hcal y mo d hok]
  congr 1
  unfold usDay
  generalize cal.days y mo d = D
  omega

/-- the time of day is not disturbed by setting the date -/
theorem date_keeps_time (cal : Cal) (host off off' : Int) (s : Bytes)
    (hs : dateSet cal host off s = .ok off') (el : Int) :
    timeFnSecs (host + el) off' = timeFnSecs (host + el) off := by
  unfold dateSet at hs
  cases hp : parseDate s with
  | error e => rw [hp] at hs; cases hs
  | ok t =>
    rw [hp] at hs
    obtain ⟨y, mo, d⟩ := t
    simp only [bind, Except.bind, pure, Except.pure] at hs
    injection hs with hs
    subst hs
    unfold timeFnSecs usDay usSec
    generalize cal.days y mo d = D
    omega


theorem envGet_put_same (env : Env) (k v : Bytes) : envGet (envPut env k v) k = v := by
  unfold envGet envPut
  simp [List.find?]

theorem envGet_put_other (env : Env) (k k' v : Bytes) (h : k' ≠ k) :
    envGet (envPut env k v) k' = envGet env k' := by
  unfold envGet envPut
  have h1 : ((k, v).1 == k') = false := by simp; exact fun e => h e.symm
  simp only [List.find?, h1]
  congr 1
  induction env with
  | nil => rfl
  | cons kv rest ih =>
    simp only [List.filter]
    by_cases hk : kv.1 = k
    · have : (kv.1 != k) = false := by simp [hk]
      simp only [this]
      have : (kv.1 == k') = false := by simp [hk]; exact fun e => h e.symm
      simp only [List.find?, this]
      exact ih
    · have : (kv.1 != k) = true := by simp [hk]
      simp only [this, List.find?]
      cases hkk : (kv.1 == k')
      · simp only; exact ih
      · rfl

theorem indexOf_spec (c : Nat) (name value : Bytes) (hn : ∀ x ∈ name, x ≠ c) :
    indexOf c (name ++ c :: value) = some name.length := by
  induction name with
  | nil => simp [indexOf]
  | cons x xs ih =>
    have hx : (x == c) = false := by simp; exact hn x (by simp)
    simp only [List.cons_append, indexOf, hx]
    rw [ih (fun y hy => hn y (by simp [hy]))]
    simp

/-- ENVIRON "name=value" then ENVIRON$(name') returns value for every spelling name' of the name
    that differs only in letter case -/
theorem environ_set_get (env env' : Env) (name value name' : Bytes)
    (hn : ∀ x ∈ name, x ≠ 61)
    (hs : environSet env (name ++ 61 :: value) = .ok env')
    (hcase : name'.map upper = name.map upper) (hne : name' ≠ []) (hascii : ∀ x ∈ name', x < 128) :
    environGet env' name' = .ok value := by
  unfold environSet at hs
  rw [indexOf_spec 61 name value hn] at hs
  have hname : name ≠ [] := by
    intro h; subst h; simp at hcase; exact hne hcase
  have hlen : name.length ≠ 0 := by
    intro h; exact hname (List.eq_nil_of_length_eq_zero h)
  cases hl : name.length with
  | zero => exact absurd hl hlen
  | succ n =>
    rw [hl] at hs
    simp only at hs
    split at hs
    · cases hs
    · split at hs
      · cases hs
      · injection hs with hs
        subst hs
        unfold environGet
        have h1 : name'.isEmpty = false := by cases name' <;> simp_all
        have h2 : name'.any (· ≥ 128) = false := by
          simp only [List.any_eq_false, decide_eq_true_eq]; intro x hx; have := hascii x hx; omega
        simp only [h1, h2, Bool.false_eq_true, if_false]
        rw [hcase]
        have ht : (name ++ 61 :: value).take (n + 1) = name := by
          rw [← hl]; simp
        have hd : (name ++ 61 :: value).drop (n + 1 + 1) = value := by
          rw [← hl]; simp
        rw [ht, hd, envGet_put_same]

/-- an accepted ENVIRON hands the host a NUL-free ASCII key and a NUL-free value -/
theorem environSet_ok_envOk (env env' : Env) (s : Bytes) (h : environSet env s = .ok env') :
    ∃ eqs, indexOf 61 s = some eqs ∧ EnvOk (s.take eqs) (s.drop (eqs + 1)) := by
  unfold environSet at h
  split at h
  · cases h
  · cases h
  · next eqs _ heq =>
    refine ⟨eqs, heq, ?_⟩
    simp only at h
    split at h
    · cases h
    · next hk =>
      split at h
      · cases h
      · next hz =>
        unfold EnvOk
        simp only [Bool.or_eq_true, List.any_eq_true, beq_iff_eq, not_or, not_exists, not_and] at hz
        simp only [List.any_eq_true, decide_eq_true_eq, not_exists, not_and] at hk
        refine ⟨fun x hx => ⟨fun h0 => hz.1 x hx h0, ?_⟩, fun x hx h0 => hz.2 x hx h0⟩
        have := hk x hx; omega

/-- every rejection is Illegal function call (and, being an error, leaves the state unchanged) -/
theorem environSet_err (env : Env) (s : Bytes) (e : Nat) (h : environSet env s = .error e) : e = ifc := by
  unfold environSet at h
  split at h
  · injection h with h; exact h.symm
  · injection h with h; exact h.symm
  · simp only at h
    split at h
    · injection h with h; exact h.symm
    · split at h
      · injection h with h; exact h.symm
      · cases h

/-- setting one name leaves every other name's value unchanged -/
theorem environ_set_frame (env env' : Env) (name value other : Bytes)
    (hn : ∀ x ∈ name, x ≠ 61) (hs : environSet env (name ++ 61 :: value) = .ok env')
    (hdiff : other.map upper ≠ name.map upper) :
    environGet env' other = environGet env other := by
  unfold environSet at hs
  rw [indexOf_spec 61 name value hn] at hs
  cases hl : name.length with
  | zero => rw [hl] at hs; cases hs
  | succ n =>
    rw [hl] at hs
    simp only at hs
    split at hs
    · cases hs
    · split at hs
      · cases hs
      · injection hs with hs
        subst hs
        have ht : (name ++ 61 :: value).take (n + 1) = name := by rw [← hl]; simp
        unfold environGet
        split
        · rfl
        · split
          · rfl
          · rw [ht, envGet_put_other _ _ _ _ hdiff]

/-- defect D2 (repaired): the old validation accepted a negative hour, which the host rejects -/
theorem parseTimeOld_counterexample :
    parseTimeOld [45, 49] = .ok (-1, 0, 0) ∧ ¬ TimeOk (-1, 0, 0) := by
  constructor
  · decide
  · unfold TimeOk; omega

/-- defect D3 (repaired): the old ENVIRON passed a NUL byte to the host -/
theorem environSetOld_counterexample :
    environSetOld [] [65, 61, 66, 0, 67] = .ok [([65], [66, 0, 67])] ∧ ¬ EnvOk [65] [66, 0, 67] := by
  constructor
  · decide
  · unfold EnvOk; intro h; exact (h.2 0 (by simp)) rfl

/-! non-vacuity -/
example : parseTime [50, 51, 58, 53, 57] = .ok (23, 59, 0) := by decide
example : parseTime [49, 46, 50, 46, 51] = .ok (1, 2, 3) := by decide
example : parseTime [45, 49] = .error ifc := by decide
example : parseDate [49, 45, 51, 49, 45, 57, 57] = .ok (1999, 1, 31) := by decide
example : parseDate [50, 47, 51, 48, 47, 50, 48, 50, 52] = .error ifc := by decide
example : environSet [] [112, 61, 113] = .ok [([80], [113])] := by decide
example : environGet [([80], [113])] [112] = .ok [113] := by decide

end PcbV.C44
