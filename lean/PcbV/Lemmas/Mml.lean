import PcbV.Model.Play
/-
  PcbV.Lemmas.Mml — how the macro-language scanner (PcbV.Model.Mml) reads well-formed pieces of text:
  digit strings, dots, and what it does at a byte that cannot continue the current item.
-/
namespace PcbV.Mml
open PcbV

/-- the stream is at its end or continues with a byte for which `bad` is false -/
def HeadNot (bad : Nat → Bool) : Bytes → Prop
  | [] => True
  | c :: _ => bad c = false

theorem HeadNot.append {bad : Nat → Bool} {a b : Bytes} (ha : ∀ x ∈ a, bad x = false)
    (hb : HeadNot bad b) : HeadNot bad (a ++ b) := by
  cases a with
  | nil => simpa using hb
  | cons x xs => exact ha x (by simp)

theorem skipBlank_of_headNot {s : Bytes} (h : HeadNot (fun c => c == 32) s) : skipBlank s = s := by
  cases s with
  | nil => rfl
  | cons c r =>
    simp only [HeadNot] at h
    simp [skipBlank, h]

/-- value of a string of decimal digits -/
def digitsVal (ds : Bytes) : Nat := ds.foldl (fun a d => a * 10 + (d - 48)) 0

theorem literal_digits (ds : Bytes) (hd : ∀ d ∈ ds, isDigit d = true) (acc : Nat) (s : Bytes)
    (hs : HeadNot (fun c => c == 32 || isDigit c) s) :
    literal acc (ds ++ s) = (ds.foldl (fun a d => a * 10 + (d - 48)) acc, s) := by
  induction ds generalizing acc with
  | nil =>
    cases s with
    | nil => rfl
    | cons c r =>
      simp only [HeadNot, Bool.or_eq_false_iff] at hs
      simp [literal, hs.1, hs.2]
  | cons d ds ih =>
    have hdd := hd d (by simp)
    have h32 : (d == 32) = false := by
      simp [isDigit] at hdd
      simp; omega
    simp only [List.cons_append, literal, h32, hdd, List.foldl_cons]
    simpa using ih (fun x hx => hd x (by simp [hx])) _

theorem dots_replicate (n : Nat) (s : Bytes) (hs : HeadNot (fun c => c == 32 || c == 46) s) :
    dots (List.replicate n 46 ++ s) = (n, s) := by
  induction n with
  | zero =>
    cases s with
    | nil => rfl
    | cons c r =>
      simp only [HeadNot, Bool.or_eq_false_iff] at hs
      simp [dots, hs.1, hs.2]
  | succ k ih => simp [List.replicate_succ, dots, ih]

end PcbV.Mml
