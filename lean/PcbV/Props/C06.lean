import PcbV.Model.Compare
import PcbV.Lemmas.C06Order
import PcbV.Lemmas.C06Exact
/-
  C06 — Numeric comparisons agree with the exact order of values.

  `Mbf.gt/eq/absGt` transcribe `numbers.py: Float.gt/eq/_abs_gt`, `IntOps.gt/eq` transcribe
  `Integer.gt/eq`, `Compare.*` transcribes `values.py: match_types, eq/neq/gt/gte/lte/lt`.
  `Mbf.val f x : Rat` is the exact value of a stored pattern (0 iff the exponent byte is 0),
  `IntOps.toInt` the two's-complement value of a 16-bit word.  All theorems quantify over every
  valid pattern (mantissa integer < 2^w, exponent byte < 256), in particular over exponent-0
  patterns with arbitrary mantissa bytes, for any format whose masks have the shapes in `Fmt.WF`
  (`single_wf`, `double_wf`: the regenerated constants of the current source).
-/
namespace PcbV.C06
open PcbV PcbV.Mbf PcbV.Compare

/-! ### same-format floats -/

/-- `Float.gt` decides the exact order -/
theorem gt_iff {f : Fmt} (hf : f.WF) {x y : F} (hx : x.Valid f) (hy : y.Valid f) :
    Mbf.gt f x y = true ↔ val f y < val f x := by
  rw [val_lt_iff]; exact gt_iff_smag hf hx hy

/-- `Float.eq` decides equality of the exact values (so `val` is injective on non-zero patterns
    and every exponent-0 pattern equals every other) -/
theorem eq_iff {f : Fmt} (hf : f.WF) {x y : F} (hx : x.Valid f) (hy : y.Valid f) :
    Mbf.eq x y = true ↔ val f x = val f y := by
  rw [val_eq_iff]; exact eq_iff_smag hf hx hy

/-- all zero encodings compare equal and neither is greater, whatever the mantissa bytes -/
theorem zeros_equal (f : Fmt) (x y : F) (hx : x.e = 0) (hy : y.e = 0) :
    Mbf.eq x y = true ∧ Mbf.gt f x y = false ∧ Mbf.gt f y x = false := by
  simp [Mbf.eq, Mbf.gt, F.isZero, hx, hy]

/-- key lemma: for normalised mantissas (2^(w-1) ≤ a, b < 2^w, written with S = 2^(w-1)) the
    lexicographic order on (exponent, mantissa) is the order of the magnitudes a·2^e -/
theorem lex_order {S a b e1 e2 : Nat} (ha : S ≤ a) (ha' : a < 2 * S) (hb : S ≤ b) (hb' : b < 2 * S) :
    a * 2 ^ e1 < b * 2 ^ e2 ↔ (e1 < e2 ∨ (e1 = e2 ∧ a < b)) :=
  mag_lt_iff ha ha' hb hb'

/-- the same on stored patterns: two non-zero values of the same sign are ordered as their
    (exponent byte, mantissa bytes) are, reversed for negatives -/
theorem lex_order_val {f : Fmt} (hf : f.WF) {x y : F} (hx : x.Valid f) (hy : y.Valid f)
    (hxe : x.e ≠ 0) (hye : y.e ≠ 0) (hs : isNeg f x = isNeg f y) :
    val f x < val f y ↔
      if isNeg f x then (y.e < x.e ∨ (y.e = x.e ∧ y.m < x.m))
      else (x.e < y.e ∨ (x.e = y.e ∧ x.m < y.m)) := by
  have hxy := mag_lt_mag_iff hf hx hy
  have hyx := mag_lt_mag_iff hf hy hx
  rw [val_lt_iff]
  unfold smag
  unfold manOf at hxy hyx
  rw [← hs] at hxy hyx
  simp only [hxe, hye, if_false, ← hs]
  by_cases hn : isNeg f x = true
  · simp only [hn, if_true] at hxy hyx ⊢
    rw [← hyx]; omega
  · simp only [hn, Bool.false_eq_true, if_false] at hxy hyx ⊢
    have : x.m + f.signMask < y.m + f.signMask ↔ x.m < y.m := by omega
    rw [← this, ← hxy]; omega

/-- trichotomy for same-format floats: exactly one of x<y, x=y, x>y is reported -/
theorem float_trichotomy {f : Fmt} (hf : f.WF) {x y : F} (hx : x.Valid f) (hy : y.Valid f) :
    (Mbf.gt f y x = true ∧ Mbf.eq x y = false ∧ Mbf.gt f x y = false) ∨
    (Mbf.gt f y x = false ∧ Mbf.eq x y = true ∧ Mbf.gt f x y = false) ∨
    (Mbf.gt f y x = false ∧ Mbf.eq x y = false ∧ Mbf.gt f x y = true) := by
  have h1 := gt_iff hf hx hy
  have h2 := gt_iff hf hy hx
  have h3 := eq_iff hf hx hy
  rcases lt_trichotomy (val f x) (val f y) with h | h | h
  · left
    refine ⟨h2.2 h, ?_, ?_⟩
    · cases he : Mbf.eq x y
      · rfl
      · exact absurd (h3.1 he) (ne_of_lt h)
    · cases hg : Mbf.gt f x y
      · rfl
      · exact absurd (h1.1 hg) (not_lt.2 (le_of_lt h))
  · right; left
    refine ⟨?_, h3.2 h, ?_⟩
    · cases hg : Mbf.gt f y x
      · rfl
      · exact absurd (h2.1 hg) (by rw [h]; exact lt_irrefl _)
    · cases hg : Mbf.gt f x y
      · rfl
      · exact absurd (h1.1 hg) (by rw [h]; exact lt_irrefl _)
  · right; right
    refine ⟨?_, ?_, h1.2 h⟩
    · cases hg : Mbf.gt f y x
      · rfl
      · exact absurd (h2.1 hg) (not_lt.2 (le_of_lt h))
    · cases he : Mbf.eq x y
      · rfl
      · exact absurd (h3.1 he) (ne_of_gt h)

/-! ### integers -/

theorem toInt_eq (a : Nat) (ha : a < 65536) :
    IntOps.toInt a = if a / 256 > 127 then (a:Int) - 65536 else a := by
  unfold IntOps.toInt; split <;> split <;> omega

/-- `Integer.gt` decides the order of the two's-complement values -/
theorem int_gt_iff {a b : Nat} (ha : a < 65536) (hb : b < 65536) :
    IntOps.gt a b = true ↔ IntOps.toInt b < IntOps.toInt a := by
  unfold IntOps.gt
  rw [toInt_eq a ha, toInt_eq b hb]
  by_cases h1 : a / 256 ≥ 128 <;> by_cases h2 : b / 256 ≥ 128 <;>
   simp only [h1, h2, decide_true, decide_false, bne_self_eq_false, Bool.false_eq_true, if_false, if_true,
     Bool.true_bne, Bool.false_bne, Bool.not_true, Bool.not_false, Bool.bne_true, Bool.bne_false] <;>
   (try split) <;> (try split) <;> (try split) <;> (try split) <;> simp <;> omega

theorem int_eq_iff {a b : Nat} (ha : a < 65536) (hb : b < 65536) :
    IntOps.eq a b = true ↔ IntOps.toInt a = IntOps.toInt b := by
  unfold IntOps.eq IntOps.toInt
  simp only [beq_iff_eq]
  constructor
  · intro h; rw [h]
  · intro h; split at h <;> split at h <;> omega

/-! ### promotions are exact -/

/-- `Float.from_int` is exact for |n| < 2^w: no error, a valid pattern, the same value -/
theorem fromInt_exact {f : Fmt} (hf : f.WF) (hw : f.w ≤ 127) (n : Int) (hn : n.natAbs < 2 ^ f.w) :
    ∃ x, fromInt f n = .ok x ∧ x.Valid f ∧ val f x = (n : Rat) :=
  Mbf.fromInt_exact hf hw n hn

/-- hence every 16-bit integer converts exactly to Single and to Double -/
theorem intToF_exact {f : Fmt} (hf : f.WF) (hw : 16 ≤ f.w ∧ f.w ≤ 127) {a : Nat} (ha : a < 65536) :
    (intToF f a).Valid f ∧ val f (intToF f a) = (IntOps.toInt a : Rat) := by
  have hn : (IntOps.toInt a).natAbs < 2 ^ f.w := by
    have h1 : (IntOps.toInt a).natAbs ≤ 32768 := by unfold IntOps.toInt; split <;> omega
    have h2 : 2 ^ 16 ≤ 2 ^ f.w := Nat.pow_le_pow_right (by decide) hw.1
    omega
  obtain ⟨x, h1, h2, h3⟩ := Mbf.fromInt_exact hf hw.2 (IntOps.toInt a) hn
  unfold intToF
  rw [h1]
  exact ⟨h2, h3⟩

/-- `Double.from_single` is exact -/
theorem fromSingle_exact {x : F} (hx : x.Valid single) :
    (fromSingle x).Valid double ∧ val double (fromSingle x) = val single x :=
  ⟨fromSingle_valid hx, Mbf.fromSingle_exact hx⟩

/-! ### the relational operators of values.py on all type pairs -/

def Valid : Num → Prop
  | .int w => w < 65536
  | .sng x => x.Valid single
  | .dbl x => x.Valid double

/-- exact mathematical value of a stored number -/
def value : Num → Rat
  | .int w => (IntOps.toInt w : Rat)
  | .sng x => val single x
  | .dbl x => val double x

theorem single_w16 : 16 ≤ single.w ∧ single.w ≤ 127 := by decide
theorem double_w16 : 16 ≤ double.w ∧ double.w ≤ 127 := by decide

/-- `_bool_gt` (match_types, then the method) decides the exact order for every type pair -/
theorem boolGt_iff {a b : Num} (ha : Valid a) (hb : Valid b) :
    boolGt a b = true ↔ value b < value a := by
  cases a with
  | int a =>
    cases b with
    | int b =>
      show IntOps.gt a b = true ↔ _
      rw [int_gt_iff ha hb]; exact Int.cast_lt.symm
    | sng y =>
      obtain ⟨h1, h2⟩ := intToF_exact single_wf single_w16 ha
      show Mbf.gt single (intToF single a) y = true ↔ _
      rw [gt_iff single_wf h1 hb, h2]; rfl
    | dbl y =>
      obtain ⟨h1, h2⟩ := intToF_exact double_wf double_w16 ha
      show Mbf.gt double (intToF double a) y = true ↔ _
      rw [gt_iff double_wf h1 hb, h2]; rfl
  | sng x =>
    cases b with
    | int b =>
      obtain ⟨h1, h2⟩ := intToF_exact single_wf single_w16 hb
      show Mbf.gt single x (intToF single b) = true ↔ _
      rw [gt_iff single_wf ha h1, h2]; rfl
    | sng y =>
      show Mbf.gt single x y = true ↔ _
      exact gt_iff single_wf ha hb
    | dbl y =>
      obtain ⟨h1, h2⟩ := fromSingle_exact ha
      show Mbf.gt double (fromSingle x) y = true ↔ _
      rw [gt_iff double_wf h1 hb, h2]; rfl
  | dbl x =>
    cases b with
    | int b =>
      obtain ⟨h1, h2⟩ := intToF_exact double_wf double_w16 hb
      show Mbf.gt double x (intToF double b) = true ↔ _
      rw [gt_iff double_wf ha h1, h2]; rfl
    | sng y =>
      obtain ⟨h1, h2⟩ := fromSingle_exact hb
      show Mbf.gt double x (fromSingle y) = true ↔ _
      rw [gt_iff double_wf ha h1, h2]; rfl
    | dbl y =>
      show Mbf.gt double x y = true ↔ _
      exact gt_iff double_wf ha hb

/-- `_bool_eq` decides equality of the exact values for every type pair -/
theorem boolEq_iff {a b : Num} (ha : Valid a) (hb : Valid b) :
    boolEq a b = true ↔ value a = value b := by
  cases a with
  | int a =>
    cases b with
    | int b =>
      show IntOps.eq a b = true ↔ _
      rw [int_eq_iff ha hb]; exact Int.cast_inj.symm
    | sng y =>
      obtain ⟨h1, h2⟩ := intToF_exact single_wf single_w16 ha
      show Mbf.eq (intToF single a) y = true ↔ _
      rw [eq_iff single_wf h1 hb, h2]; rfl
    | dbl y =>
      obtain ⟨h1, h2⟩ := intToF_exact double_wf double_w16 ha
      show Mbf.eq (intToF double a) y = true ↔ _
      rw [eq_iff double_wf h1 hb, h2]; rfl
  | sng x =>
    cases b with
    | int b =>
      obtain ⟨h1, h2⟩ := intToF_exact single_wf single_w16 hb
      show Mbf.eq x (intToF single b) = true ↔ _
      rw [eq_iff single_wf ha h1, h2]; rfl
    | sng y =>
      show Mbf.eq x y = true ↔ _
      exact eq_iff single_wf ha hb
    | dbl y =>
      obtain ⟨h1, h2⟩ := fromSingle_exact ha
      show Mbf.eq (fromSingle x) y = true ↔ _
      rw [eq_iff double_wf h1 hb, h2]; rfl
  | dbl x =>
    cases b with
    | int b =>
      obtain ⟨h1, h2⟩ := intToF_exact double_wf double_w16 hb
      show Mbf.eq x (intToF double b) = true ↔ _
      rw [eq_iff double_wf ha h1, h2]; rfl
    | sng y =>
      obtain ⟨h1, h2⟩ := fromSingle_exact hb
      show Mbf.eq x (fromSingle y) = true ↔ _
      rw [eq_iff double_wf ha h1, h2]; rfl
    | dbl y =>
      show Mbf.eq x y = true ↔ _
      exact eq_iff double_wf ha hb

/-- the BASIC truth value −1 / 0 as an Integer pattern -/
def truth (p : Prop) [Decidable p] : Nat := if p then 65535 else 0

theorem truth_is_minus_one_or_zero (p : Prop) [Decidable p] :
    IntOps.toInt (truth p) = if p then -1 else 0 := by
  unfold truth; split <;> decide

theorem fromBool_truth {b : Bool} {p : Prop} [Decidable p] (h : b = true ↔ p) :
    fromBool b = truth p := by
  unfold fromBool truth
  by_cases hp : p
  · simp [hp, h.2 hp]
  · have : b = false := by cases b <;> simp_all
    simp [hp, this]

/-- `=`, `<>`, `<`, `>`, `<=`, `>=` return −1 when the relation holds between the exact values
    and 0 otherwise, for all pairs of integers, singles and doubles -/
theorem operators_spec {a b : Num} (ha : Valid a) (hb : Valid b) :
    Compare.eq a b = truth (value a = value b) ∧
    Compare.neq a b = truth (value a ≠ value b) ∧
    Compare.lt a b = truth (value a < value b) ∧
    Compare.gt a b = truth (value a > value b) ∧
    Compare.lte a b = truth (value a ≤ value b) ∧
    Compare.gte a b = truth (value a ≥ value b) := by
  have hg := boolGt_iff ha hb
  have hl := boolGt_iff hb ha
  have he := boolEq_iff ha hb
  refine ⟨fromBool_truth he, fromBool_truth ?_, fromBool_truth hl, fromBool_truth hg,
    fromBool_truth ?_, fromBool_truth ?_⟩
  · rw [Bool.not_eq_true', ← Bool.not_eq_true, he]
  · rw [Bool.not_eq_true', ← Bool.not_eq_true, hg, not_lt]
  · rw [Bool.not_eq_true', ← Bool.not_eq_true, hl, not_lt]

/-- exactly one of `<`, `=`, `>` holds (is −1), the other two are 0 -/
theorem trichotomy {a b : Num} (ha : Valid a) (hb : Valid b) :
    (Compare.lt a b = 65535 ∧ Compare.eq a b = 0 ∧ Compare.gt a b = 0) ∨
    (Compare.lt a b = 0 ∧ Compare.eq a b = 65535 ∧ Compare.gt a b = 0) ∨
    (Compare.lt a b = 0 ∧ Compare.eq a b = 0 ∧ Compare.gt a b = 65535) := by
  obtain ⟨h1, _, h3, h4, _, _⟩ := operators_spec ha hb
  rw [h1, h3, h4]
  unfold truth
  rcases lt_trichotomy (value a) (value b) with h | h | h
  · left; simp [h, ne_of_lt h, not_lt.2 (le_of_lt h)]
  · right; left; simp [h]
  · right; right; simp [h, ne_of_gt h, not_lt.2 (le_of_lt h)]

/-- `<=` is the negation of `>`, `>=` of `<`, `<>` of `=`; and `<=` is "`<` or `=`" -/
theorem negations {a b : Num} (ha : Valid a) (hb : Valid b) :
    Compare.lte a b = 65535 - Compare.gt a b ∧
    Compare.gte a b = 65535 - Compare.lt a b ∧
    Compare.neq a b = 65535 - Compare.eq a b ∧
    (Compare.lte a b = 65535 ↔ (Compare.lt a b = 65535 ∨ Compare.eq a b = 65535)) ∧
    (Compare.gte a b = 65535 ↔ (Compare.gt a b = 65535 ∨ Compare.eq a b = 65535)) := by
  obtain ⟨h1, h2, h3, h4, h5, h6⟩ := operators_spec ha hb
  rw [h1, h2, h3, h4, h5, h6]
  unfold truth
  rcases lt_trichotomy (value a) (value b) with h | h | h
  · simp [h, ne_of_lt h, not_lt.2 (le_of_lt h), le_of_lt h]
  · simp [h]
  · simp [h, ne_of_gt h, not_lt.2 (le_of_lt h), le_of_lt h, not_le.2 h]

/-- the results are Integer −1 or 0, nothing else -/
theorem results_boolean (a b : Num) :
    ∀ r ∈ [Compare.eq a b, Compare.neq a b, Compare.lt a b, Compare.gt a b, Compare.lte a b,
      Compare.gte a b], r = 65535 ∨ r = 0 := by
  intro r hr
  simp only [List.mem_cons, List.not_mem_nil, or_false] at hr
  rcases hr with h | h | h | h | h | h <;> subst h <;>
    simp only [Compare.eq, Compare.neq, Compare.lt, Compare.gt, Compare.lte, Compare.gte, fromBool] <;>
    split <;> simp

/-- the promotion branches inside `Integer.gt/eq` and `Float.gt/eq` give the same answers as
    promoting with `match_types` first -/
theorem methods_agree (a b : Num) :
    (∀ r, methodGt a b = some r → r = boolGt a b) ∧ (∀ r, methodEq a b = some r → r = boolEq a b) := by
  cases a <;> cases b <;> constructor <;> intro r h <;>
    simp only [methodGt, methodEq, Option.some.injEq, reduceCtorEq] at h <;> subst h <;> rfl

/-! ### non-vacuity: the hypotheses are satisfiable, and the functions do return both answers
    (1 < 2; −2 < −1 with the byte order reversed; a non-canonical zero equals canonical zero,
    is not less than a positive-looking zero, is greater than −1; 5% = 5! ; 1! = 1#). -/
example : single.WF ∧ double.WF := ⟨single_wf, double_wf⟩
example : F.Valid single ⟨0x123456, 0⟩ ∧ F.Valid double ⟨0xffffffffffffff, 255⟩ := by decide
example : Mbf.gt single ⟨0, 130⟩ ⟨0, 129⟩ = true ∧ Mbf.gt single ⟨0, 129⟩ ⟨0, 130⟩ = false := by decide
example : Mbf.gt single ⟨0x800000, 129⟩ ⟨0x800000, 130⟩ = true := by decide
example : Mbf.eq ⟨0x923456, 0⟩ ⟨0, 0⟩ = true ∧ Mbf.gt single ⟨0x923456, 0⟩ ⟨0x800000, 129⟩ = true ∧
    Mbf.gt single ⟨0, 129⟩ ⟨0x923456, 0⟩ = true ∧ Mbf.gt single ⟨0x923456, 0⟩ ⟨5, 0⟩ = false := by decide
example : Compare.eq (.int 5) (.sng ⟨0x200000, 131⟩) = 65535 := by decide +kernel
example : Compare.eq (.sng ⟨0, 129⟩) (.dbl ⟨0, 129⟩) = 65535 ∧
    Compare.lt (.sng ⟨0, 129⟩) (.dbl ⟨1, 129⟩) = 65535 ∧ Compare.gte (.int 65535) (.dbl ⟨0, 0⟩) = 0 := by decide +kernel

end PcbV.C06
