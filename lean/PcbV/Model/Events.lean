import PcbV.Basic
/-
  PcbV.Model.Events — event traps (basicevents.py BasicEvents/EventHandler, interpreter.py
  handle_basic_events / jump_sub / return_ / trap_error / resume_ / set_pointer / clear,
  eventcycle.py _check_input).

  Three layers, all executable and import-free:

  1. `St`, `Ev`, `step`: the CODE's flags.  Per trap (KEY(n), PEN, STRIG(n), TIMER, PLAY — every
     handler whose `triggered` is the plain attribute of `EventHandler`; COM handlers, whose
     `triggered` is a live device property and which OFF does not disable, are NOT modelled):
     `enabled` (membership of `BasicEvents.enabled`), `stopped`, `triggered`, `hasGosub`
     (`gosub is not None`); globally `suspend_all`, `run_mode` and the handler tags of `gosub_stack`.
  2. `SSt`, `sstep`: the SPECIFICATION machine, a direct reading of the property statement:
     per trap `armed ∈ {off,on,stop}`, `pending`, `busy`, `hasHandler`; `errActive`; `run`.
  3. `Vm`: a little "event program" machine (one statement per line, handler sections, an ON ERROR
     section with RESUME NEXT, key presses injected per executed-line tick) built on `step`, so that
     the driver can produce the marker trace of a whole scenario from one protocol line.  A scenario
     may cross run-mode boundaries: after the program has ended (END, fatal error, end of program)
     DIRECT-MODE statements follow (ON/OFF/STOP, ON..GOSUB, ERROR — which enters the program's ON ERROR
     handler from direct mode —, CONT, GOTO line, CLEAR), with occurrences before each of them.

  A dispatch (`handle_basic_events`) iterates a Python `set`; the iteration order is not specified,
  so the `dispatch` event carries the order as data (any list; the theorems quantify over it, the
  harness passes the order the interpreter's set actually has).
-/
namespace PcbV.Events

/-- pointwise update of a trap table -/
def upd {α : Type} (f : Nat → α) (i : Nat) (v : α) : Nat → α := fun j => if j = i then v else f j

/-! ## 1. the code's machine -/

/-- flags of one `EventHandler` (+ membership of `BasicEvents.enabled`) -/
structure Trap where
  enabled : Bool := false
  stopped : Bool := false
  triggered : Bool := false
  hasGosub : Bool := false
deriving DecidableEq, Repr, Inhabited

structure St where
  traps : Nat → Trap
  suspendAll : Bool
  run : Bool
  /-- handler tag of every `gosub_stack` frame, top first (`none` = plain GOSUB) -/
  stack : List (Option Nat)

/-- a fresh session: `BasicEvents.reset()`, direct mode -/
def St.init : St := { traps := fun _ => {}, suspendAll := false, run := false, stack := [] }

inductive Ev where
  /-- an input signal for trap `i` processed by `_check_input` while the basic handlers are registered -/
  | occur (i : Nat)
  | on (i : Nat)
  | off (i : Nat)
  | stop (i : Nat)
  /-- `ON event GOSUB line` (`true`) / `ON event GOSUB 0` (`false`) -/
  | setHandler (i : Nat) (b : Bool)
  /-- `handle_basic_events`, iterating the enabled set in the given order -/
  | dispatch (order : List Nat)
  /-- plain GOSUB -/
  | gosub
  /-- RETURN (no-op on the trap state when the stack is empty: that is a BASIC error) -/
  | ret
  /-- `trap_error` jumping to the ON ERROR handler -/
  | errTrap
  /-- RESUME -/
  | resume
  /-- END / STOP / end of program / untrapped error: `set_pointer(False)` -/
  | endProg
  /-- CONT: back to run mode, nothing reset -/
  | cont
  /-- RUN: `clear_stacks_and_pointers`, `_clear_all` → `BasicEvents.reset()`, run mode -/
  | runCmd
  /-- CLEAR: `Interpreter.clear`: `BasicEvents.reset()` (fresh handlers, suspension off) and the GOSUB
      stack is dropped (`gosub_stack = []`), the run mode stays -/
  | clear
deriving DecidableEq, Repr

def setTrap (s : St) (i : Nat) (t : Trap) : St := { s with traps := upd s.traps i t }

/-- `event.triggered and not event.stopped and event.gosub is not None`, for a member of the enabled set -/
def fireable (s : St) (i : Nat) : Bool :=
  (s.traps i).enabled && (s.traps i).triggered && !(s.traps i).stopped && (s.traps i).hasGosub

/-- release trigger, stop the event while handling it, `jump_sub(event.gosub, event)` -/
def fire (s : St) (i : Nat) : St :=
  { s with traps := upd s.traps i { s.traps i with triggered := false, stopped := true },
           stack := some i :: s.stack }

/-- the `for event in enabled` loop; returns the traps fired, in order -/
def dispatchL : List Nat → St → St × List Nat
  | [], s => (s, [])
  | i :: rest, s =>
    if fireable s i then
      let r := dispatchL rest (fire s i)
      (r.1, i :: r.2)
    else dispatchL rest s

def step (s : St) : Ev → St × List Nat
  | .occur i =>
    (if (s.traps i).enabled then setTrap s i { s.traps i with triggered := true } else s, [])
  | .on i => (setTrap s i { s.traps i with enabled := true, stopped := false }, [])
  | .off i => (setTrap s i { s.traps i with enabled := false }, [])
  | .stop i => (setTrap s i { s.traps i with stopped := true }, [])
  | .setHandler i b => (setTrap s i { s.traps i with hasGosub := b }, [])
  | .dispatch order => if s.suspendAll || !s.run then (s, []) else dispatchL order s
  | .gosub => ({ s with stack := none :: s.stack }, [])
  | .ret =>
    match s.stack with
    | [] => (s, [])
    | none :: r => ({ s with stack := r }, [])
    | some i :: r => ({ setTrap s i { s.traps i with stopped := false } with stack := r }, [])
  | .errTrap => ({ s with suspendAll := true }, [])
  | .resume => ({ s with suspendAll := false }, [])
  | .endProg => ({ s with run := false }, [])
  | .cont => ({ s with run := true }, [])
  | .runCmd => ({ traps := fun _ => {}, suspendAll := false, run := true, stack := [] }, [])
  | .clear => ({ traps := fun _ => {}, suspendAll := false, run := s.run, stack := [] }, [])

/-- state before step `k` of an (infinite, arbitrary) schedule, from a fresh session -/
def stateAt (sched : Nat → Ev) : Nat → St
  | 0 => St.init
  | k + 1 => (step (stateAt sched k) (sched k)).1

/-- traps entered by step `k` -/
def firesAt (sched : Nat → Ev) (k : Nat) : List Nat := (step (stateAt sched k) (sched k)).2

/-! ## 2. the specification machine -/

inductive Armed where
  | off | on | stop
deriving DecidableEq, Repr

structure STrap where
  armed : Armed := .off
  /-- an occurrence was recorded while the trap was not OFF and has not been handled yet -/
  pending : Bool := false
  /-- the handler has been entered and has neither returned nor re-enabled the event -/
  busy : Bool := false
  hasHandler : Bool := false
deriving DecidableEq, Repr

structure SSt where
  traps : Nat → STrap
  /-- an error handler is active: entered by a trapped error, not yet RESUMEd -/
  errActive : Bool
  run : Bool
  stack : List (Option Nat)

def SSt.init : SSt := { traps := fun _ => {}, errActive := false, run := false, stack := [] }

def ssetTrap (s : SSt) (i : Nat) (t : STrap) : SSt := { s with traps := upd s.traps i t }

/-- the statement's firing rule for one trap (the global part is in `sstep`) -/
def sfireable (s : SSt) (i : Nat) : Bool :=
  (s.traps i).armed == .on && (s.traps i).pending && !(s.traps i).busy && (s.traps i).hasHandler

def sfire (s : SSt) (i : Nat) : SSt :=
  { s with traps := upd s.traps i { s.traps i with pending := false, busy := true },
           stack := some i :: s.stack }

def sdispatchL : List Nat → SSt → SSt × List Nat
  | [], s => (s, [])
  | i :: rest, s =>
    if sfireable s i then
      let r := sdispatchL rest (sfire s i)
      (r.1, i :: r.2)
    else sdispatchL rest s

def sstep (s : SSt) : Ev → SSt × List Nat
  | .occur i =>
    -- an occurrence while OFF is lost; while ON or STOPped it is remembered
    (if (s.traps i).armed ≠ .off then ssetTrap s i { s.traps i with pending := true } else s, [])
  | .on i => (ssetTrap s i { s.traps i with armed := .on, busy := false }, [])
  -- OFF keeps `pending` (as the code does): an occurrence recorded while ON survives OFF … ON
  | .off i => (ssetTrap s i { s.traps i with armed := .off }, [])
  -- STOP on an OFF trap leaves it OFF
  | .stop i => (if (s.traps i).armed ≠ .off then ssetTrap s i { s.traps i with armed := .stop } else s, [])
  | .setHandler i b => (ssetTrap s i { s.traps i with hasHandler := b }, [])
  | .dispatch order => if s.run && !s.errActive then sdispatchL order s else (s, [])
  | .gosub => ({ s with stack := none :: s.stack }, [])
  | .ret =>
    match s.stack with
    | [] => (s, [])
    | none :: r => ({ s with stack := r }, [])
    -- RETURN from a trap handler: implicit event ON unless the trap is OFF
    | some i :: r =>
      ({ ssetTrap s i { s.traps i with busy := false,
                                       armed := if (s.traps i).armed = .stop then .on else (s.traps i).armed }
         with stack := r }, [])
  | .errTrap => ({ s with errActive := true }, [])
  | .resume => ({ s with errActive := false }, [])
  | .endProg => ({ s with run := false }, [])
  | .cont => ({ s with run := true }, [])
  | .runCmd => ({ traps := fun _ => {}, errActive := false, run := true, stack := [] }, [])
  | .clear => ({ traps := fun _ => {}, errActive := false, run := s.run, stack := [] }, [])

def sstateAt (sched : Nat → Ev) : Nat → SSt
  | 0 => SSt.init
  | k + 1 => (sstep (sstateAt sched k) (sched k)).1

def sfiresAt (sched : Nat → Ev) (k : Nat) : List Nat := (sstep (sstateAt sched k) (sched k)).2

/-! ## 3. event programs -/

/-- one program line -/
inductive Stmt where
  /-- `PRINT "<marker>"` -/
  | mark (m : String)
  | on (i : Nat)
  | off (i : Nat)
  | stop (i : Nat)
  /-- `ON KEY(i) GOSUB <handler i>` / `ON KEY(i) GOSUB 0` -/
  | seth (i : Nat) (b : Bool)
  /-- `ON ERROR GOTO <error section>` / `ON ERROR GOTO 0` -/
  | onerr (b : Bool)
  /-- `ERROR 5` -/
  | err
  /-- `GOSUB <sub section>` -/
  | gosub
  | ret
  | resumeNext
  | end_
  | clear
  /-- `RETURN <line with index k>`: pops the GOSUB stack like RETURN (re-arming the trap whose handler frame it was)
      and continues at line k instead of the return position -/
  | retTo (k : Nat)
  /-- `GOTO <line with index k>` (in the program: the guard after the final END; in direct mode: re-enter the program) -/
  | goto (k : Nat)
  /-- `CONT` (direct mode only) -/
  | cont
deriving Repr

structure Prog where
  code : List Stmt
  /-- index of the first line of the handler of trap `i` -/
  handler : List Nat
  errStart : Nat
  subStart : Nat

structure Vm where
  core : St
  pc : Nat
  /-- return positions, parallel to `core.stack` -/
  rstack : List Nat
  /-- `on_error` is set to a line -/
  onErr : Bool
  /-- `error_handle_mode` -/
  inErr : Bool
  /-- `error_resume`: statement position … -/
  errResume : Option Nat
  /-- … and run mode of the failing statement (`true` = it was a direct-mode statement) -/
  errDirect : Bool
  /-- `stop_pos` (set by END, used by CONT) -/
  stopPos : Option Nat
  /-- markers printed, newest first -/
  out : List String
  /-- indices of the lines executed (one per hook call), newest first -/
  lines : List Nat
  /-- control is back at the prompt -/
  halted : Bool

def Vm.init : Vm :=
  { core := (step St.init .runCmd).1, pc := 0, rstack := [], onErr := false, inErr := false,
    errResume := none, errDirect := false, stopPos := none, out := [], lines := [], halted := false }

def applyEv (v : Vm) (e : Ev) : Vm := { v with core := (step v.core e).1 }

/-- `trap_error` for a statement of the running program -/
def raise (v : Vm) : Vm :=
  if v.onErr && !v.inErr then
    applyEv { v with errResume := some v.pc, errDirect := false, inErr := true } .errTrap
  else
    -- not trapped: `error_handle_mode = False; error_resume = None; set_pointer(False)`
    applyEv { v with inErr := false, errResume := none, errDirect := false, halted := true } .endProg

def raiseTo (p : Prog) (v : Vm) : Vm :=
  let w := raise v
  if w.halted then w else { w with pc := p.errStart }

/-- `trap_error` for a direct-mode statement: `jump(on_error)` switches to run mode, the traps are
    suspended exactly as for an error of the running program -/
def raiseDirect (p : Prog) (v : Vm) : Vm :=
  if v.onErr && !v.inErr then
    applyEv (applyEv { v with errResume := none, errDirect := true, inErr := true, pc := p.errStart,
                              halted := false } .errTrap) .cont
  else { v with inErr := false, errResume := none, errDirect := false }

def next (v : Vm) : Vm := { v with pc := v.pc + 1 }

def exec (p : Prog) (v : Vm) : Stmt → Vm
  | .mark m => next { v with out := m :: v.out }
  | .on i => next (applyEv v (.on i))
  | .off i => next (applyEv v (.off i))
  | .stop i => next (applyEv v (.stop i))
  | .seth i b => next (applyEv v (.setHandler i b))
  | .onerr b =>
    let w := { v with onErr := b }
    -- ON ERROR GOTO 0 inside the error handler re-raises the error
    if !b && v.inErr then raiseTo p w else next w
  | .err => raiseTo p v
  | .gosub => { applyEv v .gosub with rstack := (v.pc + 1) :: v.rstack, pc := p.subStart }
  | .ret =>
    match v.rstack with
    | [] => raiseTo p v
    | r :: rs => { applyEv v .ret with rstack := rs, pc := r }
  | .retTo k =>
    match v.rstack with
    | [] => raiseTo p v
    | _ :: rs => { applyEv v .ret with rstack := rs, pc := k }
  | .resumeNext =>
    if v.errDirect then
      -- back to the direct line, whose only statement is skipped: control returns to the prompt
      applyEv (applyEv { v with inErr := false, errResume := none, errDirect := false, halted := true }
        .resume) .endProg
    else
    match v.errResume with
    | none => raiseTo p { v with onErr := false }
    | some r => { applyEv v .resume with inErr := false, errResume := none, pc := r + 1 }
  | .end_ =>
    applyEv { v with inErr := false, errResume := none, errDirect := false, stopPos := some (v.pc + 1),
                     halted := true } .endProg
  | .clear =>
    next (applyEv { v with onErr := false, inErr := false, errResume := none, errDirect := false,
                           stopPos := none, rstack := [] } .clear)
  | .goto k => { v with pc := k }
  | .cont => raiseTo p v   -- not generated inside programs (CONT in a program is not modelled)

/-- a direct-mode statement, executed while control is at the prompt -/
def execDirect (p : Prog) (v : Vm) : Stmt → Vm
  | .mark m => { v with out := m :: v.out }
  | .on i => applyEv v (.on i)
  | .off i => applyEv v (.off i)
  | .stop i => applyEv v (.stop i)
  | .seth i b => applyEv v (.setHandler i b)
  | .err => raiseDirect p v
  | .cont =>
    match v.stopPos with
    | none => raiseDirect p v            -- Can't continue
    | some q => applyEv { v with pc := q, halted := false } .cont
  | .goto k => applyEv { v with pc := k, halted := false } .cont
  | .clear =>
    applyEv { v with onErr := false, inErr := false, errResume := none, errDirect := false,
                     stopPos := none, rstack := [] } .clear
  | _ => v

/-- enter the handlers of the traps fired by one dispatch: each `jump_sub` saves the CURRENT position,
    which for the second and later ones is the start of the previously entered handler -/
def enter (p : Prog) : List Nat → Vm → Vm
  | [], v => v
  | i :: rest, v => enter p rest { v with rstack := v.pc :: v.rstack, pc := p.handler.getD i 0 }

def deliverAll (v : Vm) (l : List Nat) : Vm := l.foldl (fun v i => applyEv v (.occur i)) v

/-- one iteration of `Interpreter.parse` in run mode: check_events (deliver the occurrences put on the
    queue since the last one), handle_basic_events, read the line (program end?), hook, statement -/
def tick (p : Prog) (v : Vm) (deliver : List Nat) (order : List Nat) : Vm :=
  let v1 := deliverAll v deliver
  let r := step v1.core (.dispatch order)
  let v2 := enter p r.2 { v1 with core := r.1 }
  match p.code[v2.pc]? with
  -- end of program (with an unfinished error handler: No RESUME, untrapped, which clears `error_resume`)
  | none => applyEv { v2 with inErr := false, errResume := none, errDirect := false, halted := true } .endProg
  | some s => exec p { v2 with lines := v2.pc :: v2.lines } s

/-- one direct-mode statement: check_events, handle_basic_events (not in run mode: nothing can be
    entered, but the machine is asked all the same), statement -/
def direct (p : Prog) (v : Vm) (deliver : List Nat) (order : List Nat) (s : Stmt) : Vm :=
  let v1 := deliverAll v deliver
  let r := step v1.core (.dispatch order)
  execDirect p (enter p r.2 { v1 with core := r.1 }) s

/-- one step of a scenario as observed: a program line (hook call) or a direct-mode statement; both
    carry the occurrences delivered by the check_events before them and the iteration order of the
    enabled set.  A program line while the machine is at the prompt (or a direct statement while it is
    not) is skipped — the traces then differ from the implementation's. -/
inductive Item where
  | line (deliver order : List Nat)
  | direct (deliver order : List Nat) (s : Stmt)

def runVm (p : Prog) : List Item → Vm → Vm
  | [], v => v
  | .line d o :: rest, v => runVm p rest (if v.halted then v else tick p v d o)
  | .direct d o s :: rest, v => runVm p rest (if v.halted then direct p v d o s else v)

end PcbV.Events
