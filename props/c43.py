"""C43 — Session API values round-trip (set_variable / get_variable / evaluate / nested lists)."""
import math
import re
import unicodedata
from decimal import Decimal
from fractions import Fraction

from vlib import basic

LEVEL = 'proof'
RULE = ('one case = one value (or nested list, or expression) pushed through the public Session API: '
        'integers at and around the 16-bit bounds plus PRNG values; floats as powers of two +-1 ulp, values with '
        '1..53 significant bits over the whole exponent range of IEEE doubles (tiny, huge, inf, nan), decimal '
        'fractions, into ! and # variables; byte strings over all byte values and lengths 0..256; unicode strings '
        'over the codepage-437 repertoire (box characters, control pictures, raw control characters, NFC '
        'compositions); nested lists of rank 1..3 with OPTION BASE unset/0/1, DIMmed exactly / larger / not at all, '
        'of every variable type, with bool and unicode leaves; random expressions over API-set variables for '
        'evaluate-versus-PRINT; random multi-step histories mixing API writes, BASIC statements and garbage '
        'collection; API round trips of scalars (short and 40-character names), lists and string expressions with the '
        'free memory steered by FRE(0) feedback to a few bytes around what the operation needs, before and after '
        'collecting the string garbage placed above the live strings; histories over four arrays and three scalars per '
        'type that interleave set_variable / get_variable / evaluate with ERASE (of the array accessed last, of another, '
        'of two), DIM with other rank or bounds, CLEAR, NEW, OPTION BASE, implicit dimensioning by element reads and '
        'writes, and SWAP - a deterministic family around ERASE-and-reuse plus PRNG histories; '
        'non-trivial = not the zero/empty value')
EXPLANATION = ('theorems (PcbV.Props.C43): int_roundtrip / int_out_of_range / bool_roundtrip; float_roundtrip '
               '(truncation by less than one unit in the last place, exact when representable), '
               'float_roundtrip_exact, float_zero/underflow/overflow/nan; bytes_roundtrip; string_roundtrip '
               '(conditional on the C41 codepage round trip); fromList2_spec (from_list writes exactly the addressed '
               'block) and list_roundtrip1/2/3 (to_list . from_list = id on an array dimensioned to the list). '
               'Correspondence: every case of kind int/bool/flt/str/lst is run through Session.set_variable + '
               'get_variable (lists: CLEAR / OPTION BASE / DIM through Session.execute) and compared with the '
               'compiled Lean model. Oracle: written from the statement with fractions.Fraction (floats), Python\'s '
               'own cp437 codec plus the control-picture table (strings), plain Python lists (arrays), parsing of '
               'the PRINT output (evaluate); memory-pressure episodes: the same round trips with the free memory steered to a '
               'few bytes around the need of the operation - exact result or a clean Out of memory / Out of string '
               'space, every other variable intact, also after a forced collection; restructuring histories: every API value '
               'and every statement status is compared, as it is produced, with a reference dictionary model of the '
               'session variables (DIM/ERASE/OPTION BASE/CLEAR/implicit DIM/SWAP written from the documented behaviour), '
               'and the histories over integer arrays also run through the Lean model (driver op hist; theorem '
               'list_after_erase1). Reading of the statement for arrays: the list reads back as the same '
               'list when the array has the list\'s shape (DIM); when the array is larger (DIMmed larger, or '
               'auto-dimensioned to 10 by the first write, as the pinned unit test test_session expects) the list '
               'reads back embedded at the origin and every other element is untouched.')
TRUSTED_BASE = ['model PcbV.Model.SessionApi is a hand transcription of Implementation.set_variable/get_variable, '
                'Values.from_value, Integer/Float/String from_value/to_value and Arrays.from_list/to_list; it reuses '
                'PcbV.Model.Mbf (C03..C06), PcbV.Model.Arrays (C12), PcbV.Model.Codepage (C41)',
                'a Python float is modelled as the dyadic rational num*2^k; math.frexp / math.ldexp / int() are '
                'exact on it',
                'to_value forms man * 2.**exp in IEEE arithmetic: exact below 2^53, correctly rounded above '
                '(applied by the harness, not by the model)']
ASSUMPTIONS = ['math.frexp, math.ldexp, math.isinf and int() of CPython follow IEEE-754 / their documentation',
               'codepage 437 is the session codepage (default); unicode input is NFC-normalised by the harness '
               'before it is given to the model (NFC is a host function)',
               'evaluate-versus-PRINT is an oracle-only check (no theorem): PRINT shows 7 (single) / 16 (double) '
               'significant digits, the comparison allows two units of the last digit PRINT can show']

TYPES = {'!': ('s', 24), '#': ('d', 56)}
CONTROL_KEPT = (7, 9, 10, 11, 12, 13, 28, 29, 30, 31)      # statement-side copy of the documented behaviour
PICTURES = (u'☺☻♥♦♣♠•◘○◙♂♀♪♫☼'
            u'►◄↕‼¶§▬↨↑↓→←∟↔▲▼')


# ---------------------------------------------------------------------------------------------
# helpers

def decomp(x):
    """finite float -> (neg, num, k) with x = +-num * 2^k, num odd (or 0)."""
    fr = Fraction(x)
    neg = fr < 0 or (fr == 0 and math.copysign(1.0, x) < 0)
    n, d = abs(fr.numerator), fr.denominator
    k = -(d.bit_length() - 1)
    if n == 0:
        return neg, 0, 0
    while n % 2 == 0:
        n //= 2
        k += 1
    return neg, n, k


def show_float(x):
    if x != x:
        return 'nan'
    if x in (float('inf'), float('-inf')):
        return 'inf %d' % (x < 0)
    neg, n, k = decomp(x)
    if n == 0:
        return 'z'
    return '%d %d %d' % (neg, n, k)


def ieee_round_reply(m):
    t = m.split()
    if len(t) == 5 and t[0] == 'ok':
        v = float(Fraction(int(t[3])) * Fraction(2) ** int(t[4]))
        return 'ok %s %s' % (t[1], show_float(-v if t[2] == '1' else v))
    return m


def mbf_max(w):
    return Fraction((1 << w) - 1, 1 << w) * Fraction(2) ** 127


def classify_exc(e):
    from pcbasic.basic.base import error
    if isinstance(e, error.BASICError):
        return 'err %d' % e.err
    if isinstance(e, ValueError):
        return 'err 1000'
    return 'exc %s' % type(e).__name__


def screen_has(session, word):
    return any(word in b''.join(r) for r in session.get_chars())


def enc_oracle(u):
    """Expected codepage-437 bytes of a unicode string, from Python's own codec and the picture table."""
    out = bytearray()
    for c in unicodedata.normalize('NFC', u):
        o = ord(c)
        if c in PICTURES:
            out.append(PICTURES.index(c) + 1)
        elif c == u'⌂':
            out.append(0x7f)
        elif o < 0x80:
            out.append(o)
        else:
            try:
                b = c.encode('cp437')
            except UnicodeError:
                continue        # not in the repertoire: dropped (errors='ignore')
            out += b
    return bytes(out)


def dec_oracle(b):
    """Expected unicode of get_variable(..., as_type=str): pictures except for the CONTROL set."""
    out = []
    for o in bytearray(b):
        if o in CONTROL_KEPT or o == 0:
            out.append(chr(o))
        elif o < 32:
            out.append(PICTURES[o - 1])
        elif o == 0x7f:
            out.append(u'⌂')
        elif o < 0x80:
            out.append(chr(o))
        else:
            out.append(bytes([o]).decode('cp437'))
    return u''.join(out)


REPERTOIRE = [c for c in (dec_oracle(bytes([b])) for b in range(1, 256))]


def cps(u):
    return '.'.join('%x' % ord(c) for c in u) or '-'


# ---------------------------------------------------------------------------------------------
# the checker

class Checker(object):

    def __init__(self, ctx):
        self.ctx = ctx
        self.rng = ctx.rng
        self.s = basic.new_session()
        self.batch = []     # (case, impl_out, line)

    def close(self):
        try:
            self.s.close()
        except Exception:
            pass

    def fresh(self):
        self.close()
        self.s = basic.new_session()

    def flush(self, label):
        """compare the batch with the model; float replies of the model are exact dyadics, `to_value` then
        forms man * 2.**exp in IEEE arithmetic: that final (correct) rounding is applied here"""
        if not self.batch:
            return
        cases, outs, lines = zip(*self.batch)
        self.batch = []
        mouts = self.ctx.model(list(lines))
        if mouts is None:
            return
        for c, i, l, m in zip(cases, outs, lines, mouts):
            if label == 'flt':
                m = ieee_round_reply(m)
            if i != m:
                self.ctx.disagree({'label': label, 'input': c, 'line': l}, i, m)

    # ---- integers -------------------------------------------------------------------------

    def int_case(self, n, compare=True):
        ctx, s = self.ctx, self.s
        ctx.case(('int', n))
        s.set_variable('N%', 1234)
        try:
            s.set_variable('N%', n)
            got = s.get_variable('N%')
            out = 'ok %d' % got if type(got) is int else 'type %s' % type(got).__name__
        except Exception as e:
            out = classify_exc(e)
        if compare:
            self.batch.append((n, out, 'int %d' % n))
        if -32768 <= n <= 32767:
            ctx.count('int:in-range')
            if out != 'ok %d' % n:
                ctx.fail('int:in-range', {'kind': 'int', 'n': n}, 'set/get of %d gave %s' % (n, out))
            else:
                # the BASIC side sees the same value, and the typed conversions agree
                if s.get_variable('N%', float) != float(n) or s.get_variable('N%', bool) != (n != 0):
                    ctx.fail('int:as_type', {'kind': 'int', 'n': n}, 'as_type conversion of %d differs' % n)
        else:
            ctx.count('int:out-of-range')
            if out != 'err 6':
                ctx.fail('int:out-of-range', {'kind': 'int', 'n': n}, 'set of %d gave %s, expected Overflow' % (n, out))
            elif s.get_variable('N%') != 1234:
                ctx.fail('int:out-of-range-stored', {'kind': 'int', 'n': n},
                         'a refused value changed the variable to %r' % s.get_variable('N%'))

    def bool_case(self, b):
        ctx, s = self.ctx, self.s
        ctx.case(('bool', b))
        for name in ('N%', 'N!', 'N#'):
            try:
                s.set_variable(name, b)
                got = s.get_variable(name)
            except Exception as e:
                got = classify_exc(e)
            if got != (-1 if b else 0):
                ctx.fail('bool:scalar', {'kind': 'bool', 'b': b, 'name': name}, '%s := %r read back as %r' % (name, b, got))
            if name == 'N%':
                self.batch.append((b, 'ok %s' % got, 'bool %d' % b))

    # ---- floats ---------------------------------------------------------------------------

    def float_case(self, x, sigil, compare=True):
        ctx, s = self.ctx, self.s
        fmt, w = TYPES[sigil]
        name = 'F' + sigil
        ctx.case(('flt', sigil, repr(x)))
        s.set_variable(name, 0.75)
        try:
            s.set_variable(name, x)
            got = s.get_variable(name)
            ovf = screen_has(s, b'Overflow')
            if ovf:
                s.execute(b'CLS')
            out = ('ok %d %s' % (ovf, show_float(got))) if type(got) is float else 'type %s' % type(got).__name__
        except Exception as e:
            got, ovf = None, False
            out = classify_exc(e)
            if screen_has(s, b'Overflow'):
                s.execute(b'CLS')
        if compare:
            if x != x:
                line = 'flt %s nan' % fmt
            elif math.isinf(x):
                line = 'flt %s inf %d' % (fmt, x < 0)
            else:
                line = 'flt %s %d %d %d' % ((fmt,) + decomp(x))
            self.batch.append(((sigil, repr(x)), out, line))
        case = {'kind': 'flt', 'x': x.hex() if x == x else 'nan', 'sigil': sigil}
        # ---- oracle, from the statement
        if x != x:
            ctx.count('flt:nan')
            if out != 'err 5':
                ctx.fail('flt:%s:nan' % sigil, case, 'NaN gave %s, expected Illegal function call' % out)
            return
        if out.startswith(('exc', 'err', 'type')):
            ctx.fail('flt:%s:%s' % (sigil, out.replace(' ', '-')), case, '%s := %r raised %s' % (name, x, out))
            return
        big = Fraction(2) ** 127
        if math.isinf(x) or abs(Fraction(x)) >= big:
            ctx.count('flt:overflow')
            want = mbf_max(w) * (-1 if x < 0 else 1)
            if Fraction(got) != Fraction(float(want)) or not ovf:
                ctx.fail('flt:%s:overflow' % sigil, case,
                         '%r: expected Overflow and the signed maximum, got %r (message shown: %s)' % (x, got, ovf))
            return
        X, G = Fraction(x), Fraction(got)
        if ovf:
            ctx.fail('flt:%s:spurious-overflow' % sigil, case, '%r reported Overflow' % x)
        if abs(X) < Fraction(1, 2 ** 128):
            ctx.count('flt:underflow')
            if G != 0:
                ctx.fail('flt:%s:underflow' % sigil, case, '%r below the smallest MBF number read back as %r' % (x, got))
            return
        nbits = decomp(x)[1].bit_length()           # significant bits of x
        e2 = (abs(X).numerator.bit_length() - abs(X).denominator.bit_length())
        if Fraction(2) ** e2 > abs(X):
            e2 -= 1
        ulp = Fraction(2) ** (e2 - w + 1)
        if nbits <= w:
            ctx.count('flt:representable')
            if G != X:
                ctx.fail('flt:%s:representable-not-exact' % sigil, case,
                         '%r is representable in the type but read back as %r' % (x, got))
        else:
            ctx.count('flt:needs-rounding')
            if not (abs(G - X) < ulp and (G > 0) == (X > 0)):
                ctx.fail('flt:%s:beyond-one-ulp' % sigil, case, '%r read back as %r, more than one ulp away' % (x, got))
            elif decomp(got)[1].bit_length() > w:
                ctx.fail('flt:%s:too-many-bits' % sigil, case, '%r read back as %r: not a value of the type' % (x, got))

    # ---- strings --------------------------------------------------------------------------

    def bytes_case(self, b):
        ctx, s = self.ctx, self.s
        ctx.case(('bytes', b))
        s.set_variable('S$', b'keep')
        try:
            s.set_variable('S$', b)
            got = s.get_variable('S$')
            out = 'ok %s' % (got.hex() or '-')
        except Exception as e:
            got = None
            out = classify_exc(e)
        self.batch.append((b.hex(), out, 'str b %s' % (b.hex() or '-')))
        if len(b) <= 255:
            ctx.count('str:bytes')
            if got != b:
                ctx.fail('str:bytes', {'kind': 'bytes', 'b': b.hex()}, 'bytes %r read back as %s' % (b, out))
            elif len(b) < 40 and b and s.execute(b'PRINT LEN(S$);ASC(S$)').split() != [b'%d' % len(b), b'%d' % b[0]]:
                ctx.fail('str:bytes-basic-view', {'kind': 'bytes', 'b': b.hex()}, 'BASIC sees another string than %r' % b)
        else:
            ctx.count('str:too-long')
            if out != 'err 15' or s.get_variable('S$') != b'keep':
                ctx.fail('str:too-long', {'kind': 'bytes', 'b': b.hex()}, '%d bytes gave %s' % (len(b), out))

    def unicode_case(self, u, in_repertoire):
        ctx, s = self.ctx, self.s
        ctx.case(('unicode', u))
        try:
            s.set_variable('S$', u)
            got = s.get_variable('S$')
            back = s.get_variable('S$', as_type=str)
            out = 'ok %s %s' % (got.hex() or '-', cps(back))
        except Exception as e:
            got = back = None
            out = classify_exc(e)
        self.batch.append((u, out, 'str u %s' % cps(unicodedata.normalize('NFC', u))))
        want = enc_oracle(u)
        if len(want) > 255:
            if out != 'err 15':
                ctx.fail('str:unicode-too-long', {'kind': 'unicode', 'u': u}, 'gave %s' % out)
            return
        ctx.count('str:unicode' if in_repertoire else 'str:unicode-foreign')
        if got != want:
            ctx.fail('str:unicode-encode', {'kind': 'unicode', 'u': u}, '%r stored as %r, expected %r' % (u, got, want))
        elif in_repertoire and back != unicodedata.normalize('NFC', u):
            nu = unicodedata.normalize('NFC', u)
            only_control = len(back) == len(nu) and all(
                a == b_ or (a in PICTURES and PICTURES.index(a) + 1 in CONTROL_KEPT and ord(b_) == PICTURES.index(a) + 1)
                for a, b_ in zip(nu, back))
            ctx.fail('str:unicode-control-picture' if only_control else 'str:unicode-roundtrip',
                     {'kind': 'unicode', 'u': u}, '%r read back as %r' % (u, back))
        elif back != dec_oracle(want):
            ctx.fail('str:unicode-decode', {'kind': 'unicode', 'u': u}, 'bytes %r decoded as %r' % (want, back))

    # ---- lists ----------------------------------------------------------------------------

    def list_case(self, base, dims, data, sigil='%', compare=True, leaf=None):
        """data: nested list of ints (rank 1..3, possibly ragged/empty); leaf maps an int to the Python value
        that is actually sent (default: the int), expect maps it to the value expected back."""
        ctx, s = self.ctx, self.s
        rank = depth(data)
        name = 'L' + sigil + '()'
        send, expect = leaf or ((lambda v: v), (lambda v: v))
        ctx.case(('lst', base, tuple(dims or ()), repr(data), sigil, leaf is not None))
        s.execute(b'CLEAR')
        if base is not None:
            s.execute(b'OPTION BASE %d' % base)
        if dims:
            s.execute(('DIM L%s(%s)' % (sigil, ','.join(map(str, dims)))).encode())
        payload = nmap(send, data)
        try:
            s.set_variable(name, payload)
            status = 'ok'
        except Exception as e:
            status = classify_exc(e)
        try:
            got = s.get_variable(name)
        except Exception as e:
            got = classify_exc(e)
        case = {'kind': 'lst', 'base': base, 'dims': dims, 'data': data, 'sigil': sigil,
                'leaf': getattr(leaf, 'tag', None) if leaf else None}
        if compare and sigil == '%' and leaf is None:
            line = 'lst %s %s %d %s' % ('n' if base is None else base, ','.join(map(str, dims)) if dims else '-',
                                        rank, enc_list(data, rank))
            self.batch.append((case, '%s %s' % (status, show_list(got)), line))
        # ---- oracle
        b = base or 0
        shape = shape_of(data)
        if shape is None:
            ctx.count('lst:empty-or-ragged')
            if has_empty(data):
                if status != 'err 1000':
                    ctx.fail('lst:%s:empty-accepted' % sigil, case, 'an empty (sub)list gave %s' % status)
                return
        arr = list(dims) if dims else [10] * rank
        ext = [d + 1 - b for d in arr]
        fits = len(arr) == rank and all(n <= e for n, e in zip(extent(data), ext))
        if not fits:
            ctx.count('lst:too-large')
            if status != 'err 9':
                ctx.fail('lst:%s:too-large' % sigil, case, 'a list larger than the array gave %s' % status)
            return
        ctx.count('lst:rank%d:%s' % (rank, 'exact' if dims and shape and [n - 1 + b for n in shape] == arr else
                                     ('dim-larger' if dims else 'auto-dim')))
        if status != 'ok':
            ctx.fail('lst:%s:%s' % (sigil, status.replace(' ', '-')), case, 'set_variable raised %s' % status)
            return
        zero = b'' if sigil == '$' else (0 if sigil == '%' else 0.0)
        want = embed(nmap(expect, data), ext, zero)
        if got != want:
            cls = 'exact' if shape and [n - 1 + b for n in shape] == arr else 'embedded'
            ctx.fail('lst:%s:%s-mismatch' % (sigil, cls), case,
                     'list %r (base %s, DIM %s) read back as %r' % (payload, base, dims, trunc(got)))
            return
        # the BASIC side addresses the same elements
        if sigil == '%' and leaf is None:
            idx = first_index(data)
            if idx is not None:
                sub = ','.join(str(i + b) for i in idx)
                v = at(data, idx)
                if s.execute(('PRINT L%%(%s)' % sub).encode()).split() != [b'%d' % v]:
                    ctx.fail('lst:basic-view', case, 'BASIC reads another element at (%s) than the list has' % sub)

    # ---- evaluate versus PRINT ------------------------------------------------------------

    def eval_case(self, expr):
        ctx, s = self.ctx, self.s
        ctx.case(('eval', expr))
        try:
            r = s.evaluate(expr)
        except Exception as e:
            ctx.fail('eval:exc:%s' % type(e).__name__, {'kind': 'eval', 'expr': expr, 'vars': self.vars},
                     'evaluate(%r) raised %r' % (expr, e))
            return
        out = s.execute(b'LOCATE 1,1:PRINT ' + expr.encode('latin-1'))
        lines_ = out.split(b'\r\n')
        while lines_ and lines_[-1] == b'':
            lines_.pop()
        # a hard error ends the statement with a message terminated by 0xFF; the soft float errors print
        # their message (no 0xFF) and continue with the maximum value
        err = [l for l in lines_ if l.endswith(b'\xff')]
        soft = [l for l in lines_ if l in (b'Overflow', b'Division by zero')]
        body = [l for l in lines_ if l not in soft and l not in err]
        case = {'kind': 'eval', 'expr': expr, 'vars': self.vars}
        if r is None:
            ctx.count('eval:error')
            if not err:
                ctx.fail('eval:none-but-printed', case, 'evaluate gave None but PRINT showed %r' % out)
            return
        if err:
            ctx.fail('eval:value-but-error', case, 'evaluate gave %r but PRINT showed %r' % (r, out))
            return
        shown = b'\n'.join(body)
        want_type = EXPR_TYPES.get(expr)
        if want_type is not None and type(r) is not want_type:
            ctx.fail('eval:type', case, 'evaluate(%r) returned a %s, expected %s' % (expr, type(r).__name__,
                                                                                    want_type.__name__))
            return
        if isinstance(r, bytes):
            ctx.count('eval:string')
            if shown != r:
                ctx.fail('eval:string', case, 'evaluate gave %r, PRINT showed %r' % (r, shown))
            return
        t = shown.strip().decode('ascii', 'replace')
        try:
            P = Fraction(Decimal(t.replace('D', 'E')))
        except Exception:
            ctx.fail('eval:unparsed', case, 'evaluate gave %r, PRINT showed %r' % (r, out))
            return
        R = Fraction(r)
        if type(r) is int:
            ctx.count('eval:integer')
            ok = P == R and re.fullmatch(r'-?\d+', t)
        else:
            digits = re.sub(r'[ED].*$', '', t).replace('-', '').replace('.', '').lstrip('0')
            double = 'D' in t or len(digits) > 7
            ctx.count('eval:double' if double else 'eval:single')
            if P == 0 or R == 0:
                ok = abs(P - R) < Fraction(1, 10 ** 38)
            else:
                e10 = math.floor(math.log10(abs(float(P))))
                # two units of the last digit PRINT can show (7 / 16 significant digits): one for PRINT's own
                # decimal rounding (property C07), one for the 56->53 bit rounding of evaluate's IEEE result
                ok = abs(P - R) <= 2 * Fraction(10) ** (e10 - (15 if double else 6))
        if not ok:
            ctx.fail('eval:number', case, 'evaluate(%r) = %r but PRINT shows %r' % (expr, r, t))
        if soft:
            ctx.count('eval:soft-error')

    vars = None


# ---------------------------------------------------------------------------------------------
# nested-list helpers

def depth(l):
    d = 0
    while isinstance(l, list):
        d += 1
        l = l[0] if l else None
    return d


def nmap(f, l):
    return [nmap(f, x) for x in l] if isinstance(l, list) else f(l)


def has_empty(l):
    return isinstance(l, list) and (not l or any(has_empty(x) for x in l))


def shape_of(l):
    """shape of a rectangular nested list, None if ragged or empty somewhere."""
    if not isinstance(l, list):
        return []
    if not l:
        return None
    subs = [shape_of(x) for x in l]
    if any(x is None for x in subs) or any(x != subs[0] for x in subs):
        return None
    return [len(l)] + subs[0]


def extent(l):
    """per-dimension maximum length (bounding box of a possibly ragged list)."""
    if not isinstance(l, list):
        return []
    subs = [extent(x) for x in l]
    inner = [max(col) for col in zip(*subs)] if subs and subs[0] else []
    return [len(l)] + inner


def embed(l, ext, zero):
    """the list l placed at the origin of a zero-filled block of extents ext."""
    if len(ext) == 1:
        return list(l) + [zero] * (ext[0] - len(l))
    rows = [embed(x, ext[1:], zero) for x in l]
    rows += [embed([], ext[1:], zero) for _ in range(ext[0] - len(l))]
    return rows


def first_index(l):
    idx = []
    while isinstance(l, list):
        if not l:
            return None
        idx.append(len(l) - 1)
        l = l[-1]
    return idx


def at(l, idx):
    for i in idx:
        l = l[i]
    return l


def enc_list(l, rank):
    if not l:
        return 'e'
    if rank == 1:
        return ','.join(str(v) for v in l)
    return ('/' if rank == 2 else '|').join(enc_list(x, rank - 1) for x in l)


def show_list(got):
    if isinstance(got, str):
        return got
    if got == []:
        return 'missing'
    r = depth(got)
    return '%d %s' % (r, enc_list(got, r))


def trunc(x):
    t = repr(x)
    return t if len(t) < 300 else t[:300] + '...'


def rand_nested(rng, shape, lo=-32768, hi=32767):
    if len(shape) == 1:
        return [rng.randint(lo, hi) for _ in range(shape[0])]
    return [rand_nested(rng, shape[1:], lo, hi) for _ in range(shape[0])]


# ---------------------------------------------------------------------------------------------
# generators

def int_values(rng, n_random):
    vals = set()
    for c in (0, 32767, -32768, 65535, -65535, 65536, -65536, 255, 256, -255, -256, 2 ** 31, -2 ** 31, 2 ** 15,
              10 ** 10, -10 ** 10):
        for d in (-2, -1, 0, 1, 2):
            vals.add(c + d)
    for k in range(17):
        vals.update((2 ** k, -2 ** k, 2 ** k - 1, -(2 ** k) - 1))
    for _ in range(n_random):
        vals.add(rng.randint(-32768, 32767))
    for _ in range(n_random // 8):
        vals.add(rng.choice((-1, 1)) * rng.randint(32768, 10 ** rng.randint(5, 12)))
    return sorted(vals)


def float_values(rng, n_random):
    vals = []
    specials = [0.0, -0.0, float('inf'), float('-inf'), float('nan'), 5e-324, -5e-324, 2.0 ** -1074, 2.0 ** -1022,
                2.2250738585072014e-308, 1e-300, -1e-300, 1e-310, 1.7976931348623157e308, -1.7976931348623157e308,
                1e300, 1e39, -1e39, 1e38, 1.7014118e38, 1.7014117e38, 1.701411834604692e38, 0.1, 1.1, -1.1, 1 / 3.0,
                2 / 3.0, 123456.789, 1e10, 1e-10, 3.14159265358979, 2.938735877055719e-39, 2.9387358e-39, 1e-38, 1e-39,
                1.4e-45, 16777216.0, 16777217.0, 16777215.0, 33554431.0, 9007199254740991.0, 9007199254740993.0,
                72057594037927936.0, 0.5, 0.25, 0.75, 1.5, 255.0, 256.0, 65535.0, 65536.0, 32768.0, -32768.0]
    vals += specials
    for e in list(range(-135, -120)) + list(range(-30, 31)) + list(range(118, 132)) + [-1000, -1001, -1002, -969, -968,
                                                                                       -967, -1023, 1000, 1023]:
        p = 2.0 ** e
        for m in (1.0, 1 + 2.0 ** -52, 2 - 2.0 ** -52, 1 + 2.0 ** -23, 1 + 2.0 ** -24, 1 + 2.0 ** -22, 2 - 2.0 ** -23,
                  2 - 2.0 ** -24, 1 + 2.0 ** -23 + 2.0 ** -52, 1.5, 1.5 + 2.0 ** -23, 1.75 - 2.0 ** -24):
            try:
                v = p * m
            except OverflowError:
                continue
            vals.append(v)
            vals.append(-v)
        if e > -1022:
            vals.append(math.ldexp(1 - 2.0 ** -53, e))       # one ulp below the power of two
    for _ in range(n_random):
        bits = rng.choice((1, 2, 3, 8, 16, 23, 24, 24, 25, 26, 32, 48, 52, 53, 53, rng.randint(1, 53)))
        man = rng.getrandbits(bits) | (1 << (bits - 1)) | rng.getrandbits(1)
        r = rng.random()
        if r < 0.7:
            e = rng.randint(-20, 24)
        elif r < 0.9:
            e = rng.randint(-132, 130)
        else:
            e = rng.randint(-1074, 1023)
        try:
            v = math.ldexp(man, e - bits + 1)
        except OverflowError:
            continue
        vals.append(-v if rng.random() < 0.4 else v)
    return vals


def unicode_strings(rng, n_random):
    out = []
    box = u'─│┌┐└┘├┤┬┴┼═║╔╗╚╝█░'
    out += [(u'', True), (u'abc', True), (box, True), (PICTURES, True), (u'⌂~}|{', True),
            (u''.join(chr(c) for c in CONTROL_KEPT), True), (u'éèêëÇüßµΩ√²', True),
            (u'éàñ', True),        # NFC composes to single codepage characters
            (u'€中文x', False), (u'aЖb', False), (u'A' * 255, True), (u'B' * 256, True),
            (u'│' * 255, True), (u'│' * 256, True), (u'☺\x07\r\n\t', True)]
    for _ in range(n_random):
        n = rng.choice((1, 2, 3, 5, 8, 13, 40, rng.randint(0, 255)))
        out.append((u''.join(rng.choice(REPERTOIRE) for _ in range(n)), True))
    for _ in range(n_random // 6):
        n = rng.randint(1, 12)
        pool = REPERTOIRE + [u'€', u'Ж', u'中', u'¤', u'œ']
        out.append((u''.join(rng.choice(pool) for _ in range(n)), False))
    return out


def byte_strings(rng, n_random):
    out = [b'', bytes(range(0, 128)), bytes(range(128, 256)), bytes(range(256))[:255], bytes(range(1, 256)),
           b'\x00', b'\x00\x00', b'\xff' * 255, b'x' * 255, b'x' * 256, b'y' * 300, b'"quoted"', b'a\rb\nc', b'\x1a\x00\x1a']
    out += [bytes([b]) for b in range(256)]
    for _ in range(n_random):
        n = rng.choice((1, 2, 3, 7, 31, 100, 254, 255, rng.randint(0, 255)))
        out.append(bytes(rng.getrandbits(8) for _ in range(n)))
    return out


class Leaf(object):
    def __init__(self, tag, send, expect):
        self.tag, self.send, self.expect = tag, send, expect

    def __iter__(self):
        return iter((self.send, self.expect))


def float_leaf(sigil):
    w = TYPES[sigil][1]

    def send(v):
        return v / 8.0 + (2.0 ** -30 if v % 3 == 0 else 0.0)

    def expect(v):
        x = Fraction(send(v))
        if x == 0:
            return 0.0
        n = abs(x).numerator.bit_length() - abs(x).denominator.bit_length()
        if Fraction(2) ** n > abs(x):
            n -= 1
        q = Fraction(2) ** (n - w + 1)
        t = (abs(x) // q) * q
        return float(t if x > 0 else -t)
    return Leaf('float' + sigil, send, expect)


LEAVES = {
    'bool': Leaf('bool', lambda v: bool(v % 2), lambda v: -1 if v % 2 else 0),
    'bytes': Leaf('bytes', lambda v: (b'%d' % v) * (abs(v) % 4), lambda v: (b'%d' % v) * (abs(v) % 4)),
    'unicode': Leaf('unicode', lambda v: u'│%dé' % v, lambda v: b'\xb3%d\x82' % v),
}


def leaf_for(tag):
    if tag is None:
        return None
    if tag.startswith('float'):
        return float_leaf(tag[5:])
    return LEAVES[tag]


# ---------------------------------------------------------------------------------------------
# drivers

def run_ints(ch, ctx, n):
    for v in int_values(ctx.rng, n):
        ch.int_case(v)
    ch.bool_case(True)
    ch.bool_case(False)
    ch.flush('int')


def run_floats(ch, ctx, n):
    for x in float_values(ctx.rng, n):
        for sigil in '!#':
            ch.float_case(x, sigil)
    ch.flush('flt')


def run_strings(ch, ctx, n):
    for b in byte_strings(ctx.rng, n):
        ch.bytes_case(b)
    for u, rep in unicode_strings(ctx.rng, n):
        ch.unicode_case(u, rep)
    ch.flush('str')


def list_cases(rng, n):
    cases = []
    fixed = [
        (None, None, [1, 2, 3]), (0, [2], [1, 2, 3]), (1, [3], [1, 2, 3]), (None, [2], [1, 2, 3]),
        (None, None, [[0, 0, 5], [0, 0, 6]]), (1, [2, 3], [[1, 2, 3], [4, 5, 6]]), (0, [1, 2], [[1, 2, 3], [4, 5, 6]]),
        (1, [2, 2, 2], [[[1, 2], [3, 4]], [[5, 6], [7, 8]]]), (0, [1, 1, 1], [[[1, 2], [3, 4]], [[5, 6], [7, 8]]]),
        (None, None, [[[1]]]), (0, [0], [7]), (1, [1], [7]), (0, [0, 0, 0], [[[9]]]),
        (0, [1], [1, 2, 3]), (1, [2], [1, 2, 3]), (None, None, list(range(11))), (None, None, list(range(12))),
        (1, None, list(range(10))), (1, None, list(range(11))), (0, [3, 3], [[1, 2], [3]]), (None, None, [[1, 2], []]),
        (None, None, []), (0, [2], []), (None, None, [[]]), (0, [2, 2], [1, 2]), (0, [2], [[1, 2], [3, 4]]),
        (0, [1, 1], [[1, 2], [3, 4], [5, 6]]), (0, [1, 1], [[1, 2, 3], [4, 5, 6]]),
        (None, None, [[1] * 11] * 11), (1, None, [[1] * 11] * 2),
    ]
    cases += fixed
    for _ in range(n):
        rank = rng.choice((1, 1, 2, 2, 3))
        base = rng.choice((None, 0, 1))
        b = base or 0
        shape = [rng.choice((1, 1, 2, 3, 4, rng.randint(1, 6))) for _ in range(rank)]
        data = rand_nested(rng, shape, *rng.choice(((-32768, 32767), (-9, 9), (0, 1))))
        mode = rng.random()
        if mode < 0.45:
            dims = [n_ - 1 + b for n_ in shape]
        elif mode < 0.7:
            dims = [n_ - 1 + b + rng.randint(0, 3) for n_ in shape]
        elif mode < 0.9:
            dims = None
        else:
            dims = [max(b, n_ - 1 + b - rng.randint(0, 2)) for n_ in shape]
        if rng.random() < 0.08 and rank > 1:
            # ragged
            data[rng.randrange(len(data))] = data[0][:max(1, len(data[0]) - 1)] if rank == 2 else data[0][:1]
        cases.append((base, dims, data))
    return cases


def run_lists(ch, ctx, n):
    rng = ctx.rng
    for base, dims, data in list_cases(rng, n):
        ch.list_case(base, dims, data)
    ch.flush('lst')
    # other element types, bool / unicode leaves (oracle only; the model's cells are abstract payloads)
    for i, (base, dims, data) in enumerate(list_cases(rng, n // 2)):
        if has_empty(data) or not data:
            continue
        tag = ('float!', 'float#', 'bytes', 'unicode', 'bool')[i % 5]
        sigil = {'float!': '!', 'float#': '#', 'bytes': '$', 'unicode': '$', 'bool': rng.choice('%!#')}[tag]
        small = nmap(lambda v: v % 2000 - 1000, data)
        ch.list_case(base, dims, small, sigil=sigil, compare=False, leaf=leaf_for(tag))


EXPRS = [
    'A%', 'B!', 'C#', 'S$', 'A%+1', 'A%*2', 'A%+B!', 'B!*C#', 'C#/3', '-B!', 'A% MOD 7', 'A%\\3', 'ABS(B!)', 'INT(C#)',
    'FIX(B!)', 'SQR(ABS(B!))', 'LEN(S$)', 'S$+"x"', 'LEFT$(S$,2)', 'MID$(S$,2,3)', 'A%>B!', 'A%=A%', 'CINT(B!/1000)',
    'CSNG(C#)', 'CDBL(B!)', 'VAL("1.5")', '1.5', '1E10', '&H7FFF', '&HFFFF', '1D-3', '1/3', '1/3#', '2^0.5', '10^10',
    '1E38*10', '1/0', '-1/0', '32767+1', 'A%+32767', 'A%*A%', '"a"+1', 'SQR(-1)', 'LOG(0)', 'STR$(B!)', 'HEX$(A% AND 255)',
    'STRING$(3,"@")', 'SPACE$(2)+"|"', 'CHR$(65)+CHR$(66)', 'ASC("A")', 'SGN(B!)', 'A% AND 15', 'NOT A%', 'B!-B!', 'C#-C#',
    'C#*1E20', 'B!/7', 'C#/7', 'EXP(1)', 'SIN(1)', 'ATN(1)*4', '123456789', '1234567', '12345678', '.1', '.1#',
    '100000*100000', '65535', '65536', '-32768', '1E-38/1E10', 'C#+B!', 'CSNG(1/3#)', 'A%/4', 'B!\\2', 'UNDEF%', 'UNDEF!',
    'UNDEF$', 'LA%(1)', 'LA%(0)+LA%(2)', 'LB#(1,1)', 'LS$(1)+LS$(2)',
]


# documented result types: integers come back as int, singles and doubles as float, strings as bytes
EXPR_TYPES = {'A%': int, 'B!': float, 'C#': float, 'S$': bytes, 'A% MOD 7': int, 'A%\\3': int, 'LEN(S$)': int,
              'A% AND 15': int, 'NOT A%': int, '&H7FFF': int, '&HFFFF': int, 'ASC("A")': int, 'A%>B!': int,
              'A%=A%': int, 'CINT(B!/1000)': int, 'CSNG(C#)': float, 'CDBL(B!)': float, '1.5': float, '1/3#': float,
              'S$+"x"': bytes, 'STR$(B!)': bytes, 'UNDEF%': int, 'UNDEF!': float, 'UNDEF$': bytes, 'LA%(1)': int,
              'LB#(1,1)': float, 'LS$(1)+LS$(2)': bytes, '65535': float, 'SGN(B!)': int}


def run_evaluate(ch, ctx, rounds):
    rng = ctx.rng
    s = ch.s
    for _ in range(rounds):
        a = rng.choice((0, 1, -1, 7, 255, 32767, -32768, rng.randint(-32768, 32767)))
        bb = rng.choice((0.0, 1.5, -2.25, 1e10, 1e-10, 123456.7, rng.uniform(-1e6, 1e6), math.ldexp(rng.random(), rng.randint(-60, 60))))
        c = rng.choice((0.0, 0.1, -1 / 3.0, 1e15, 123456789.012345, rng.uniform(-1e9, 1e9), math.ldexp(rng.random(), rng.randint(-100, 100))))
        st = rng.choice((u'', u'abc', u'Hello, world', u'x' * 40, u'q%dz' % rng.randint(0, 9999)))
        la = [rng.randint(-99, 99) for _ in range(3)]
        lb = [[rng.uniform(-10, 10) for _ in range(2)] for _ in range(2)]
        ls = [b'p%d' % rng.randint(0, 99) for _ in range(3)]
        s.execute(b'CLEAR')
        s.set_variable('A%', a)
        s.set_variable('B!', bb)
        s.set_variable('C#', c)
        s.set_variable('S$', st)
        s.set_variable('LA%()', la)
        s.set_variable('LB#()', lb)
        s.set_variable('LS$()', ls)
        ch.vars = {'A%': a, 'B!': bb, 'C#': c, 'S$': st, 'LA%()': la, 'LB#()': lb, 'LS$()': [x.decode() for x in ls]}
        for e in EXPRS:
            ch.eval_case(e)
        # evaluate agrees with get_variable on the variables themselves
        for name in ('A%', 'B!', 'C#', 'S$'):
            if s.evaluate(name) != s.get_variable(name):
                ctx.fail('eval:variable', {'kind': 'eval', 'expr': name, 'vars': ch.vars},
                         'evaluate(%r) differs from get_variable' % name)


def run_history(ch, ctx, steps, ops=None):
    """Random multi-step history: API writes of many variables interleaved with BASIC statements that allocate,
    free and collect strings and create new variables; afterwards every variable reads back its last value."""
    rng = ctx.rng
    s = ch.s
    s.execute(b'NEW')
    s.execute(b'CLEAR')
    expected = {}
    log = []
    names = ['V%d%s' % (i, sg) for i in range(4) for sg in '%!#$']
    if ops is None:
        ops = []
        for _ in range(steps):
            r = rng.random()
            if r < 0.55:
                name = rng.choice(names)
                sg = name[-1]
                if sg == '%':
                    v = rng.choice((0, 32767, -32768, rng.randint(-32768, 32767)))
                elif sg in '!#':
                    v = math.ldexp(rng.getrandbits(24 if sg == '!' else 53) | 1, rng.randint(-60, 40))
                    v = -v if rng.random() < 0.5 else v
                else:
                    v = bytes(rng.getrandbits(8) for _ in range(rng.choice((0, 1, 5, 40, 200, 255)))).hex()
                ops.append(['set', name, v])
            elif r < 0.7:
                ops.append(['get-new', 'W%d%s' % (rng.randint(0, 30), rng.choice('%!#$'))])
            elif r < 0.8:
                ops.append(['basic', rng.choice(('T$=SPACE$(200):T$=""', 'U$=U$+"abcdefgh"', 'X=FRE("")', 'Q!=Q!+1',
                                                 'DIM Z%d(5)' % rng.randint(0, 50), 'T$=STRING$(255,"x")', 'X=FRE(0)'))])
            elif r < 0.9:
                n = rng.randint(1, 4)
                ops.append(['setlist', 'H%s()' % rng.choice('%$'), n, rng.randint(0, 10 ** 6)])
            else:
                ops.append(['get', rng.choice(names)])
    for op in ops:
        try:
            if op[0] == 'set':
                v = bytes.fromhex(op[2]) if op[1].endswith('$') else op[2]
                s.set_variable(op[1], v)
                expected[op[1]] = v
            elif op[0] == 'get-new':
                s.get_variable(op[1])
            elif op[0] == 'basic':
                s.execute(op[1].encode())
            elif op[0] == 'setlist':
                r2 = __import__('random').Random(op[3])
                if op[1][1] == '%':
                    l = [r2.randint(-32768, 32767) for _ in range(op[2])]
                else:
                    l = [bytes(r2.getrandbits(8) for _ in range(r2.randint(0, 60))) for _ in range(op[2])]
                s.set_variable(op[1], l)
                expected[op[1]] = l
            elif op[0] == 'get':
                if op[1] in expected and s.get_variable(op[1]) != expected[op[1]]:
                    ctx.fail('hist:mid-read', {'kind': 'hist', 'ops': ops}, '%s read back wrong in mid-history' % op[1])
                    return
        except Exception as e:
            ctx.fail('hist:exc:%s' % classify_exc(e).replace(' ', '-'), {'kind': 'hist', 'ops': ops},
                     'operation %r raised %r' % (op, e))
            return
        log.append(op)
    ctx.case(('hist', len(ops), repr(ops[:3])))
    ctx.count('hist:histories')
    ctx.count('hist:ops', len(ops))
    for name, v in sorted(expected.items()):
        got = s.get_variable(name)
        if name.endswith('()'):
            ok = got[:len(v)] == v
        else:
            ok = got == v and type(got) is type(v)
        if not ok:
            ctx.fail('hist:final-read', {'kind': 'hist', 'ops': ops},
                     '%s was last set to %s but reads back %s' % (name, trunc(v), trunc(got)))
            return


# ---------------------------------------------------------------------------------------------
# API round trips under memory pressure

SIZES = {'%': 2, '!': 4, '#': 8, '$': 3}


def _rand_name(rng, sigil, used):
    while True:
        n = rng.choice((1, 2, 2, 3, 5, 9, 17, 33, 40))
        name = rng.choice('ABCDEFGHIJKLMNOPQRSTUVW') + ''.join(rng.choice('ABCXYZ0123456789.') for _ in range(n - 1))
        name += sigil
        if name not in used and not name.startswith('FN'):
            return name


def _rand_value(rng, sigil, maxlen=255):
    if sigil == '%':
        return rng.choice((32767, -32768, rng.randint(-32768, 32767), rng.randint(1, 9)))
    if sigil in '!#':
        # at most 24 significant bits: exact in both precisions
        v = math.ldexp(rng.getrandbits(24) | 1, rng.randint(-40, 40))
        return -v if rng.random() < 0.5 else v
    n = min(maxlen, rng.choice((0, 1, 2, 5, 17, 60, 200, 255, rng.randint(0, 255))))
    return bytes(rng.randrange(33, 127) for _ in range(n))


def _default(sigil):
    return {'%': 0, '!': 0.0, '#': 0.0, '$': b''}[sigil]


def pressure_episode(ch, ctx, ep_seed):
    """One API round trip performed with the free memory a few bytes above or below what it needs.

    Prologue (all parameters from a PRNG seeded with ep_seed): variables of every type with known values, string
    garbage ABOVE the live strings (a string variable assigned twice), then memory is filled by DIM of an integer
    array sized by feedback from FRE(0) (which does not collect), so that `leave` bytes stay free, where `leave`
    is drawn around (a) what the operation needs and (b) what it needs once the garbage has been collected.
    Operation: set_variable of a new / existing scalar of any type (also with a long name), set_variable of a
    list into a new or declared array, or evaluate of a string expression that needs temporaries.
    Expected: the exact round trip, or a clean Out of memory / Out of string space with the old value kept;
    afterwards - also after a forced collection - every variable of the session still reads back its value,
    through get_variable and through evaluate.  Never a Python exception, never another string's text."""
    rng = __import__('random').Random(ep_seed)
    s = ch.s
    case = {'kind': 'pressure', 'seed': ep_seed}

    def fail(cls, what):
        ctx.fail('pressure:%s:%s' % (kind, cls), case, 'episode %d (%s): %s' % (ep_seed, descr, what))

    kind, descr = 'setup', 'prologue'
    try:
        s.execute(b'NEW')
        s.execute(b'CLEAR')
        expected = {}

        def put(name, v, api=True):
            if api or not isinstance(v, int):
                s.set_variable(name, v)
            else:
                s.execute(('%s=%d' % (name, v)).encode())
            expected[name] = v

        # garbage first: it has to lie above the strings that are to move
        gname = _rand_name(rng, '$', expected)
        while gname in ('P$', 'Z$'):     # P$ is the harness's own padding variable
            gname = _rand_name(rng, '$', expected)
        lg = rng.choice((0, 4, 10, 30, 100, rng.randint(1, 200)))
        put(gname, bytes([103]) * lg)
        put(gname, _rand_value(rng, '$', 40))
        for sigil in rng.sample('%!#$$$', rng.randint(2, 6)):
            put(_rand_name(rng, sigil, expected), _rand_value(rng, sigil, 80), api=rng.random() < 0.7)
        if rng.random() < 0.5:
            lst = [_rand_value(rng, '$', 30) for _ in range(rng.randint(1, 3))]
            s.execute(b'DIM KS$(%d)' % (len(lst) - 1))
            put('KS$()', lst)
        if rng.random() < 0.3:
            g2 = _rand_name(rng, '$', expected)
            l2 = rng.randint(1, 60)
            put(g2, bytes([104]) * l2)
            put(g2, b'')
            lg += l2
        put('P$', b'')
        # ---- the operation
        kind = rng.choice(('scalar-new', 'scalar-new', 'scalar-new', 'scalar-old', 'list-new', 'list-old', 'eval'))
        sigil = rng.choice('%!#$$$')
        if kind == 'eval':
            sigil = '$'
        old = None
        if kind == 'scalar-new':
            name = _rand_name(rng, sigil, expected)
            value = _rand_value(rng, sigil)
            need = max(3, len(name)) + 1 + SIZES[sigil] + (len(value) if sigil == '$' else 0)
            tail = max(3, len(name)) + 1 + SIZES[sigil]
        elif kind == 'scalar-old':
            name = rng.choice(sorted(n for n in expected if n.endswith(sigil) and not n.endswith('()') and n != 'P$')
                              or [gname])
            sigil = name[-1]
            old = expected.pop(name)
            value = _rand_value(rng, sigil)
            need = len(value) if sigil == '$' else 0
            tail = 0
        elif kind in ('list-new', 'list-old'):
            name = _rand_name(rng, sigil, expected)[:rng.choice((2, 3, 8, 41))].rstrip('%!#$.') + sigil
            while name in expected:
                name = 'L' + name
            rank = rng.choice((1, 1, 1, 2))
            shape = [rng.randint(1, 4) for _ in range(rank)]
            value = [_rand_value(rng, sigil, 40) for _ in range(shape[0])] if rank == 1 else \
                [[_rand_value(rng, sigil, 25) for _ in range(shape[1])] for _ in range(shape[0])]
            strs = sum(len(v) for v in (value if rank == 1 else sum(value, []))) if sigil == '$' else 0
            if kind == 'list-old':
                dims = [n - 1 + rng.randint(0, 2) for n in shape]
                s.execute(('DIM %s(%s)' % (name, ','.join(map(str, dims)))).encode())
                need = tail = strs
                tail = 0
            else:
                dims = [10] * rank
                tail = 1 + max(3, len(name)) + 3 + 2 * rank + (11 ** rank) * SIZES[sigil]
                need = tail + strs
            old = embed([] if rank == 1 else [], [d + 1 for d in dims], _default(sigil))
            name += '()'
        else:
            keep = sorted(n for n in expected if n.endswith('$') and not n.endswith('()') and n != 'P$')
            a, b = rng.choice(keep), rng.choice(keep)
            k = rng.randint(0, 120)
            name, value = rng.choice((
                ('%s+%s' % (a, b), expected[a] + expected[b]),
                ('%s+SPACE$(%d)' % (a, k), expected[a] + b' ' * k),
                ('STRING$(%d,"q")+%s' % (k, b), b'q' * k + expected[b]),
                ('MID$(%s+%s,2)' % (a, b), (expected[a] + expected[b])[1:]),
            ))
            if len(value) > 255:
                value = None
            need = 2 * len(value or b'') + 1
            tail = 0
        descr = '%s %s' % (kind, name)
        # free memory to leave: around the need before collection, or around the need after collection
        centre = rng.choice((need, need, tail, max(0, need - lg), max(0, tail - lg))) if lg else rng.choice((need, tail))
        w = max(3, len(name)) + 6
        leave = max(0, centre + rng.choice((rng.randint(-w, 3), rng.randint(-w, w), rng.randint(-3, 3), 0, 1, -1)))
        f = int(s.evaluate(b'FRE(0)'))
        n = (f - leave - 11) // 2
        if n < 0:
            ctx.count('pressure:skipped')
            return
        s.execute(b'DIM Z%%(%d)' % n)
        f2 = int(s.evaluate(b'FRE(0)'))
        pad = f2 - leave
        if 0 < pad < leave:
            s.set_variable('P$', b'p' * pad)
            expected['P$'] = b'p' * pad
        free = int(s.evaluate(b'FRE(0)'))
        descr += ' with %d bytes free (needs about %d, %d bytes of garbage)' % (free, need, lg)
        case['descr'] = descr
        # ---- act
        status = 'ok'
        if kind == 'eval':
            got = s.evaluate(name)
            if got is None:
                status = 'err'
            elif got != value:
                fail('wrong-value', 'evaluate returned %s, expected %s' % (trunc(got), trunc(value)))
                return
        else:
            try:
                s.set_variable(name, value)
            except Exception as e:
                status = classify_exc(e)
                if status not in ('err 7', 'err 14'):
                    fail(status.replace(' ', '-'), 'set_variable raised %r' % (e,))
                    return
        ctx.case(('pressure', ep_seed))
        ctx.count('pressure:%s:%s' % (kind, 'ok' if status == 'ok' else 'clean-error'))

        # ---- observe: twice, the second time after a forced garbage collection
        def observe(stage):
            for nm, v in sorted(expected.items()):
                got = s.get_variable(nm)
                if nm.endswith('()'):
                    got = got[:len(v)]
                if got != v:
                    fail('other-variable-changed', '%s: %s reads %s, expected %s' % (stage, nm, trunc(got), trunc(v)))
                    return False
                if not nm.endswith('()') and s.evaluate(nm) != v:
                    fail('other-variable-changed', '%s: evaluate(%s) gives %s, expected %s'
                         % (stage, nm, trunc(s.evaluate(nm)), trunc(v)))
                    return False
            if kind == 'eval':
                return True
            got = s.get_variable(name)
            if kind.startswith('scalar'):
                choices = [value] if status == 'ok' else [old if old is not None else _default(sigil)]
                if got not in choices or type(got) is not type(choices[0]):
                    fail('target-wrong', '%s: %s after set_variable (%s) reads %s, expected %s'
                         % (stage, name, status, trunc(got), trunc(choices[0])))
                    return False
                ev = s.evaluate(name)
                if ev != got:
                    fail('target-evaluate', '%s: evaluate(%s) gives %s but get_variable %s'
                         % (stage, name, trunc(ev), trunc(got)))
                    return False
                if sigil == '$' and status == 'ok' and len(value) < 250:
                    out = s.execute(('PRINT LEN(%s);"[";%s;"]"' % (name, name)).encode())
                    # long lines wrap; the PRINT itself may run out of string space (clean error)
                    if b'Out of ' not in out and out.replace(b'\r\n', b'').strip() != b'%d [%s]' % (len(value), value):
                        fail('target-print', '%s: PRINT shows %s' % (stage, trunc(out)))
                        return False
            else:
                if got == [] and status != 'ok':
                    return True
                want = embed(value, extent(got), _default(sigil)) if status == 'ok' else None
                if status == 'ok' and got != want:
                    fail('target-wrong', '%s: %s reads %s, expected %s' % (stage, name, trunc(got), trunc(want)))
                    return False
                if status != 'ok':
                    # a failed list assignment may have stored a prefix: every element is new or default
                    flat_new = embed(value, extent(got), None) if all(
                        a <= b for a, b in zip(extent(value), extent(got))) and len(extent(got)) == rank else None
                    if flat_new is not None:
                        def okelem(g, nw):
                            if isinstance(g, list):
                                return all(okelem(x, y) for x, y in zip(g, nw))
                            return g == _default(sigil) or g == nw
                        if not okelem(got, flat_new):
                            fail('target-wrong', '%s: %s after a failed assignment reads %s' % (stage, name, trunc(got)))
                            return False
            return True

        if not observe('right after'):
            return
        s.evaluate(b'FRE("")')
        observe('after a garbage collection')
    except Exception as e:
        ctx.fail('pressure:%s:exc-%s' % (kind, type(e).__name__), case,
                 'episode %d (%s): %s raised out of the session API: %r' % (ep_seed, descr, type(e).__name__, e))
        ch.fresh()


def run_pressure(ch, ctx, n):
    for _ in range(n):
        pressure_episode(ch, ctx, ctx.rng.getrandbits(40))


# ---------------------------------------------------------------------------------------------
# API histories over several arrays and scalars with storage restructured between the API calls

class Ref(object):
    """Reference dictionary model of the variables of a session, written from the documented behaviour of
    DIM / ERASE / OPTION BASE / CLEAR / implicit dimensioning (0..10 or 1..10) / SWAP.  Errors are numbers."""

    def __init__(self):
        self.clear()

    def clear(self):
        self.base, self.bydim = None, False
        self.arr = {}       # name (with sigil) -> [dims, {index tuple: value}]
        self.sc = {}

    def option_base(self, b):
        if self.base is not None and b != self.base:
            return 10
        self.base = b

    def dim(self, name, dims):
        if name in self.arr:
            return 10
        if any(d < 0 for d in dims):
            return 5
        if self.base is None:
            self.base, self.bydim = 0, True
        elif any(d < self.base for d in dims):
            return 9
        self.arr[name] = [list(dims), {}]

    def erase(self, names):
        for n in names:
            if n not in self.arr:
                return 5
            del self.arr[n]
        if not self.arr and self.bydim:
            self.base, self.bydim = None, False

    def access(self, name, idx):
        """error of an element access; dimensions the array first if it does not exist"""
        if name not in self.arr:
            e = self.dim(name, [10] * len(idx))
            if e:
                return e
        dims = self.arr[name][0]
        if len(idx) != len(dims):
            return 9
        for i, d in zip(idx, dims):
            if i < 0:
                return 5
            if i < self.base or i > d:
                return 9

    def get_elem(self, name, idx):
        return self.arr[name][1].get(tuple(idx), _default(name[-1]))

    def set_elem(self, name, idx, v):
        self.arr[name][1][tuple(idx)] = v

    def from_list(self, name, data, index=()):
        if not data:
            return 1000
        b = self.base or 0
        for i, v in enumerate(data):
            if isinstance(data[0], list):
                e = self.from_list(name, v, index + (i + (self.base or 0),))
            else:
                e = self.access(name, index + (i + (self.base or 0),))
                if not e:
                    self.set_elem(name, index + (i + (self.base or 0),), v)
            if e:
                return e

    def to_list(self, name):
        if name not in self.arr:
            return []
        dims = self.arr[name][0]

        def build(pre, rest):
            if not rest:
                return self.get_elem(name, pre)
            return [build(pre + (i,), rest[1:]) for i in range(self.base or 0, rest[0] + 1)]
        return build((), dims)

    def view(self, ref, empty_err):
        """SWAP's way of finding an operand: a missing scalar is created (and refused as right operand)"""
        if ref[0] == 's':
            if ref[1] not in self.sc:
                self.sc[ref[1]] = _default(ref[1][-1])
                if empty_err:
                    return 5
            return None
        return self.access(ref[1], ref[2])

    def swap(self, x, y):
        if x[1][-1] != y[1][-1]:
            return 13
        e = self.view(x, False) or self.view(y, True)
        if e:
            return e
        rd = lambda r: self.sc[r[1]] if r[0] == 's' else self.get_elem(r[1], r[2])
        wr = lambda r, v: self.sc.__setitem__(r[1], v) if r[0] == 's' else self.set_elem(r[1], r[2], v)
        a, b = rd(x), rd(y)
        wr(x, b)
        wr(y, a)


ARR_NAMES = ['R1', 'R2', 'R3', 'R4']        # model name numbers 1..4 for the % arrays


def _lit(v):
    if isinstance(v, (bytes, str)):
        return '"%s"' % (v.decode('ascii') if isinstance(v, bytes) else v)
    if isinstance(v, float):
        return repr(v) if abs(v) < 1e15 and v == int(v) else ('%r' % v).replace('e', 'E')
    return '%d' % v


def _hval(rng, sigil):
    if sigil == '%':
        return rng.choice((rng.randint(-32768, 32767), rng.randint(1, 99)))
    if sigil in '!#':
        return float(rng.randint(-4000, 4000)) / rng.choice((1, 2, 4, 8))
    # text (JSON-able in a replay); it is sent as str and lives as bytes in the reference
    return ''.join(rng.choice('abcdefgh XYZ019.,') for _ in range(rng.choice((0, 1, 3, 8, 20))))


def _b(v):
    """history value -> the value as it reads back (str -> codepage bytes)"""
    if isinstance(v, list):
        return [_b(x) for x in v]
    return v.encode('ascii') if isinstance(v, str) else v


def _hlist(rng, sigil, shape):
    if len(shape) == 1:
        return [_hval(rng, sigil) for _ in range(shape[0])]
    return [_hlist(rng, sigil, shape[1:]) for _ in range(shape[0])]


def gen_restructure(rng, length, family=None):
    """A history of API calls interleaved with BASIC statements that restructure the storage.  Biased towards
    the neighbourhood of ERASE: the array accessed last (or another) is erased and the name is used again -
    by a list of the same or another rank, DIM with other bounds, an element read/write, SWAP - before or after
    another array has been touched."""
    ops = []
    sig_of = {}
    last = None

    def arrname():
        n = rng.choice(ARR_NAMES)
        sg = sig_of.setdefault(n, rng.choice('%%%!#$'))
        return n + sg

    def shape():
        r = rng.choice((1, 1, 1, 2, 2, 3))
        return [rng.choice((1, 2, 3, 4)) for _ in range(r)]

    def index(rank):
        return [rng.choice((0, 1, 2, 3, 5, 10, 11)) for _ in range(rank)]

    pending = None      # name to re-use right after an ERASE
    for step in range(length):
        r = rng.random()
        if pending and r < 0.7:
            a, pending = pending, None
            k = rng.random()
            if k < 0.45:
                ops.append(['setl', a, _hlist(rng, a[-1], shape())])
            elif k < 0.6:
                ops.append(['dim', a, [rng.choice((0, 1, 2, 5, 12)) for _ in range(rng.choice((1, 2)))]])
            elif k < 0.75:
                ops.append(['ev', a, index(rng.choice((1, 1, 2)))])
            elif k < 0.9:
                ops.append(['lete', a, index(rng.choice((1, 1, 2))), _hval(rng, a[-1])])
            else:
                ops.append(['getl', a])
            last = a
            continue
        if r < 0.2:
            a = arrname()
            ops.append(['setl', a, _hlist(rng, a[-1], shape())])
            last = a
        elif r < 0.32:
            a = arrname()
            ops.append(['getl', a])
        elif r < 0.42:
            a = arrname()
            ops.append(['ev', a, index(rng.choice((1, 1, 2)))])
            last = a
        elif r < 0.5:
            a = arrname()
            ops.append(['lete', a, index(rng.choice((1, 1, 2))), _hval(rng, a[-1])])
            last = a
        elif r < 0.64:
            # ERASE: of the array accessed last, or of another one, or of two
            a = last if (last and rng.random() < 0.6) else arrname()
            names = [a] if rng.random() < 0.85 else [a, arrname()]
            ops.append(['erase', names])
            for n in names:
                if rng.random() < 0.3:
                    sig_of.pop(n[:-1], None)         # the name may come back with another type
            pending = a if a[:-1] in sig_of else None
        elif r < 0.7:
            a = arrname()
            ops.append(['dim', a, [rng.choice((0, 1, 2, 3, 10, 12)) for _ in range(rng.choice((1, 1, 2, 3)))]])
        elif r < 0.74:
            ops.append([rng.choice(('clear', 'clear', 'new'))])
            last = pending = None
        elif r < 0.79:
            ops.append(['ob', rng.choice((0, 1))])
        elif r < 0.87:
            sg = rng.choice('%!#$')
            nm = rng.choice(('SA', 'SB', 'SC')) + sg
            ops.append(rng.choice((['set', nm, _hval(rng, sg)], ['let', nm, _hval(rng, sg)])))
        elif r < 0.92:
            ops.append(['get', rng.choice(('SA', 'SB', 'SC')) + rng.choice('%!#$')])
        else:
            def operand():
                if rng.random() < 0.4:
                    return ['s', rng.choice(('SA', 'SB', 'SC')) + rng.choice('%%$!')]
                a = arrname()
                return ['e', a, index(rng.choice((1, 1, 2)))]
            x, y = operand(), operand()
            if rng.random() < 0.7:
                y[1] = y[1][:-1] + x[1][-1]
                if y[0] == 'e':
                    sig_of.setdefault(y[1][:-1], y[1][-1])
                    y[1] = y[1][:-1] + sig_of[y[1][:-1]]
            ops.append(['swap', x, y])
    # read everything back at the end
    for n in ARR_NAMES:
        if n in sig_of:
            ops.append(['getl', n + sig_of[n]])
    return ops


def family_restructure():
    """Deterministic family: two or three arrays, ERASE of the last accessed / of another one, then the name comes
    back by a list (same or other rank), by DIM with other bounds, by an element access, with or without
    touching another array in between; every element type."""
    out = []
    for sg in '%!#$':
        v = lambda k: _hval(__import__('random').Random(k), sg)
        A, B, C = 'R1' + sg, 'R2' + sg, 'R3' + sg
        for which in ('last', 'other'):
            for back in ('list1', 'list2', 'dim', 'elem', 'read'):
                for between in (False, True):
                    ops = [['setl', B, [v(1), v(2), v(3)]], ['setl', A, [v(4), v(5), v(6)]]]
                    if which == 'other':
                        ops.append(['ev', B, [1]])
                    ops.append(['erase', [A]])
                    if between:
                        ops.append(['getl', B])
                    if back == 'list1':
                        ops.append(['setl', A, [v(7), v(8), v(9), v(10)]])
                    elif back == 'list2':
                        ops.append(['setl', A, [[v(7), v(8)], [v(9), v(10)]]])
                    elif back == 'dim':
                        ops += [['dim', A, [12]], ['lete', A, [12], v(11)]]
                    elif back == 'elem':
                        ops.append(['lete', A, [3], v(12)])
                    else:
                        ops.append(['ev', A, [2]])
                    ops += [['getl', A], ['ev', A, [3]], ['getl', B], ['setl', C, [v(13)]], ['getl', A], ['erase', [A, B]],
                            ['getl', A], ['getl', C]]
                    out.append(ops)
    return out


def run_restructure_history(ch, ctx, ops, label='restruct'):
    """Run one history on the real session and on the reference dictionary model; every API value and every
    status is compared as it is produced.  Histories that only use % arrays also go to the Lean model."""
    s = ch.s
    s.execute(b'NEW')
    s.execute(b'CLEAR')
    ref = Ref()
    table = basic.error_table()
    case = {'kind': 'restruct', 'ops': ops}
    tokens, mline = [], []
    modelled = True

    def fail(cls, i, what):
        ctx.fail('restruct:%s' % cls, case, 'step %d %r: %s' % (i, ops[i], what))

    def status_of(out):
        m = [l[:-1] for l in out.split(b'\r\n') if l.endswith(b'\xff')]
        if not m:
            return None
        return table.get(m[0].split(b' in ')[0], -1)

    def mid(name):
        return ARR_NAMES.index(name[:-1]) + 1 if name[:-1] in ARR_NAMES and name[-1] == '%' else None

    try:
        for i, op in enumerate(ops):
            k = op[0]
            tok = None
            if k in ('clear', 'new'):
                s.execute(k.upper().encode())
                ref.clear()
                mline.append('c')
                tok = 'ok'
            elif k == 'ob':
                got = status_of(s.execute(b'OPTION BASE %d' % op[1]))
                want = ref.option_base(op[1])
                if got != want:
                    return fail('option-base', i, 'gave error %s, expected %s' % (got, want))
                mline.append('ob%d' % op[1])
                tok = 'ok' if got is None else 'e%d' % got
            elif k == 'dim':
                got = status_of(s.execute(('DIM %s(%s)' % (op[1], ','.join(map(str, op[2])))).encode()))
                want = ref.dim(op[1], op[2])
                if got != want:
                    return fail('dim', i, 'gave error %s, expected %s' % (got, want))
                if mid(op[1]):
                    mline.append('d:%d:%s' % (mid(op[1]), ','.join(map(str, op[2]))))
                    tok = 'ok' if got is None else 'e%d' % got
                else:
                    modelled = False
            elif k == 'erase':
                got = status_of(s.execute(('ERASE ' + ','.join(n for n in op[1])).encode()))
                want = ref.erase(op[1])
                if got != want:
                    return fail('erase', i, 'gave error %s, expected %s' % (got, want))
                if all(mid(n) for n in op[1]):
                    mline.append('e:' + ','.join(str(mid(n)) for n in op[1]))
                    tok = 'ok' if got is None else 'e%d' % got
                else:
                    modelled = False
            elif k == 'setl':
                try:
                    s.set_variable(op[1] + '()', op[2])
                    got = None
                except Exception as e:
                    st = classify_exc(e)
                    if not st.startswith('err'):
                        return fail('exc-' + st.split()[-1], i, 'set_variable raised %r' % (e,))
                    got = int(st.split()[1])
                want = ref.from_list(op[1], _b(op[2]))
                if got != want:
                    return fail('set-list-status', i, 'set_variable gave error %s, expected %s' % (got, want))
                if mid(op[1]):
                    r = depth(op[2])
                    mline.append('s%d:%d:%s' % (r, mid(op[1]), enc_list(op[2], r)))
                    tok = 'ok' if got is None else 'e%d' % got
                else:
                    modelled = False
            elif k == 'getl':
                got = s.get_variable(op[1] + '()')
                want = ref.to_list(op[1])
                if got != want:
                    return fail('get-list', i, 'get_variable gave %s, the history says %s' % (trunc(got), trunc(want)))
                if mid(op[1]):
                    mline.append('g:%d' % mid(op[1]))
                    tok = 'gmissing' if got == [] else 'g%d=%s' % (depth(got), enc_list(got, depth(got)))
            elif k == 'ev':
                got = s.evaluate('%s(%s)' % (op[1], ','.join(map(str, op[2]))))
                e = ref.access(op[1], op[2])
                want = None if e else ref.get_elem(op[1], op[2])
                if got != want or (got is not None and type(got) is not type(want)):
                    return fail('evaluate-element', i, 'evaluate gave %r, the history says %r' % (got, want))
                if mid(op[1]):
                    mline.append('r:%d:%s' % (mid(op[1]), ','.join(map(str, op[2]))))
                    tok = 'e%d' % e if e else 'v%d' % got
                else:
                    modelled = False
            elif k == 'lete':
                got = status_of(s.execute(('%s(%s)=%s' % (op[1], ','.join(map(str, op[2])), _lit(op[3]))).encode()))
                want = ref.access(op[1], op[2])
                if not want:
                    ref.set_elem(op[1], op[2], _b(op[3]))
                if got != want:
                    return fail('let-element', i, 'gave error %s, expected %s' % (got, want))
                if mid(op[1]):
                    mline.append('w:%d:%s:%d' % (mid(op[1]), ','.join(map(str, op[2])), op[3]))
                    tok = 'ok' if got is None else 'e%d' % got
                else:
                    modelled = False
            elif k in ('set', 'let'):
                if k == 'set':
                    s.set_variable(op[1], op[2])
                else:
                    s.execute(('%s=%s' % (op[1], _lit(op[2]))).encode())
                ref.sc[op[1]] = _b(op[2])
            elif k == 'get':
                want = ref.sc.get(op[1], _default(op[1][-1]))
                got = s.get_variable(op[1])
                if got != want or type(got) is not type(want) or s.evaluate(op[1]) != want:
                    return fail('scalar', i, 'reads %r, the history says %r' % (got, want))
            elif k == 'swap':
                txt = lambda r: r[1] if r[0] == 's' else '%s(%s)' % (r[1], ','.join(map(str, r[2])))
                got = status_of(s.execute(('SWAP %s,%s' % (txt(op[1]), txt(op[2]))).encode()))
                want = ref.swap(op[1], op[2])
                if got != want:
                    return fail('swap', i, 'gave error %s, expected %s' % (got, want))
                modelled = modelled and op[1][0] == 's' and op[2][0] == 's'
            if tok is not None:
                tokens.append(tok)
        # final sweep: every scalar and array of the reference reads back
        for n, v in sorted(ref.sc.items()):
            if s.get_variable(n) != v:
                return fail('scalar', len(ops) - 1, 'at the end %s reads %r, the history says %r' % (n, s.get_variable(n), v))
        for n in sorted(ref.arr):
            if s.get_variable(n + '()') != ref.to_list(n):
                return fail('get-list', len(ops) - 1, 'at the end %s() reads %s' % (n, trunc(s.get_variable(n + '()'))))
    except Exception as e:
        ctx.fail('restruct:exc-%s' % type(e).__name__, case, 'history raised %r' % (e,))
        ch.fresh()
        return
    ctx.case(('restruct', repr(ops)))
    ctx.count('restruct:histories')
    ctx.count('restruct:ops', len(ops))
    for op in ops:
        ctx.count('restruct:op:' + op[0])
    if modelled and mline:
        ch.batch.append((case, 'ok ' + ';'.join(tokens), 'hist ' + ';'.join(mline)))
        ctx.count('restruct:modelled')


def run_restructure(ch, ctx, n, length):
    for ops in family_restructure():
        run_restructure_history(ch, ctx, ops)
    for i in range(n):
        rng = ctx.rng
        if i % 3 == 0:
            # integer arrays only: the whole history also runs through the Lean model
            ops = [op for op in gen_restructure(rng, length) if op[0] not in ('swap',)]
            ops = [[o if not (isinstance(o, str) and o[:-1] in ARR_NAMES) else o[:-1] + '%' for o in op] for op in ops]
            ops = [op for op in ops if not (op[0] in ('setl', 'lete'))] if False else ops
            ops = _force_int(ops, rng)
        else:
            ops = gen_restructure(rng, length)
        run_restructure_history(ch, ctx, ops)
    ch.flush('hist')


def _force_int(ops, rng):
    out = []
    for op in ops:
        op = list(op)
        if op[0] == 'erase':
            op[1] = [n[:-1] + '%' for n in op[1]]
        elif op[0] in ('setl', 'getl', 'ev', 'lete', 'dim'):
            op[1] = op[1][:-1] + '%'
            if op[0] == 'setl':
                op[2] = nmap(lambda v: rng.randint(-999, 999), op[2])
            if op[0] == 'lete':
                op[3] = rng.randint(-999, 999)
        out.append(op)
    return out


def run(ctx):
    quick = ctx.quick
    ch = Checker(ctx)
    try:
        if quick:
            run_ints(ch, ctx, 1500)
        else:
            for v in range(-32768, 32768):
                ch.int_case(v)
            run_ints(ch, ctx, 4000)
            ctx.notes['integers'] = 'all 65536 in-range integers enumerated'
        ctx.log('ints done')
        run_floats(ch, ctx, 5000 if quick else 60000)
        ctx.log('floats done')
        run_strings(ch, ctx, 500 if quick else 6000)
        ctx.log('strings done')
        ch.fresh()
        run_lists(ch, ctx, 800 if quick else 8000)
        ctx.log('lists done')
        ch.fresh()
        run_evaluate(ch, ctx, 40 if quick else 400)
        ctx.log('evaluate done')
        ch.fresh()
        for _ in range(150 if quick else 2000):
            run_history(ch, ctx, ctx.rng.choice((10, 40, 120)))
        ctx.log('histories done')
        ch.fresh()
        run_pressure(ch, ctx, 400 if quick else 6000)
        ctx.log('memory-pressure episodes done')
        ch.fresh()
        run_restructure(ch, ctx, 180 if quick else 5000, 30)
        ctx.log('restructuring histories done')
    finally:
        ch.close()


def replay(ctx, payload):
    case = payload.get('case', {})
    sub = Sub(ctx)
    ch = Checker(sub)
    try:
        kind = case.get('kind')
        if kind == 'int':
            ch.int_case(case['n'], compare=False)
        elif kind == 'bool':
            ch.bool_case(case['b'])
        elif kind == 'flt':
            x = float('nan') if case['x'] == 'nan' else float.fromhex(case['x'])
            ch.float_case(x, case['sigil'], compare=False)
        elif kind == 'bytes':
            ch.bytes_case(bytes.fromhex(case['b']))
        elif kind == 'unicode':
            ch.unicode_case(case['u'], True)
        elif kind == 'lst':
            ch.list_case(case['base'], case['dims'], case['data'], sigil=case['sigil'], compare=False,
                         leaf=leaf_for(case.get('leaf')))
        elif kind == 'eval':
            s = ch.s
            for name, v in (case.get('vars') or {}).items():
                s.set_variable(name, [x.encode() for x in v] if name == 'LS$()' else v)
            ch.vars = case.get('vars')
            ch.eval_case(case['expr'])
        elif kind == 'hist':
            run_history(ch, sub, 0, ops=case['ops'])
        elif kind == 'pressure':
            pressure_episode(ch, sub, case['seed'])
        elif kind == 'restruct':
            run_restructure_history(ch, sub, case['ops'])
    finally:
        ch.close()
    hits = [f for f in sub.failures if f['key'] == payload.get('key')] or sub.failures
    return hits[0]['what'] if hits else None


class Sub(object):
    """proxy context for replay: same PRNG/model access, separate failure list"""

    def __init__(self, ctx):
        self.__dict__.update(ctx.__dict__)
        self.failures = []
        self.disagreements = []
        self._ctx = ctx

    def fail(self, key, case, what):
        self.failures.append({'key': key, 'case': case, 'what': what})

    def case(self, key):
        pass

    def count(self, key, n=1):
        pass

    def sample(self, *a, **k):
        pass

    def log(self, msg):
        pass

    def compare(self, *a, **k):
        return 0

    def model(self, lines):
        return None
