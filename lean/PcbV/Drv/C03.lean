import PcbV.Drv.MbfCommon
import PcbV.Model.HexOct
namespace PcbV.Drv.C03
open PcbV PcbV.Mbf PcbV.HexOct PcbV.Drv.MbfCommon

def digitChar (d : Nat) : Char := if d < 10 then Char.ofNat (48 + d) else Char.ofNat (55 + d)

def showDigits (ds : List Nat) : String := String.ofList (ds.map digitChar)

def parseDigits (b : Nat) (s : String) : Option (List Nat) :=
  if s == "-" then some [] else
  s.toList.foldr (fun c acc => do
    let a ← acc
    let v ← hexVal c
    if v < b then pure (v :: a) else none) (some [])

/-- an Integer result as its signed value -/
def showI (r : R Nat) : String := showR (fun w => toString (IntOps.toInt w)) r

def handle : List String → String
  | ["hex", n] =>
    match n.toNat? with
    | some w => if w < 65536 then "ok " ++ showDigits (HexOct.toHex w) else "bad-op"
    | none => "bad-op"
  | ["oct", n] =>
    match n.toNat? with
    | some w => if w < 65536 then "ok " ++ showDigits (HexOct.toOct w) else "bad-op"
    | none => "bad-op"
  | ["fromhex", s] =>
    match parseDigits 16 s with
    | some ds => showI (fromHex ds)
    | none => "bad-op"
  | ["fromoct", s] =>
    match parseDigits 8 s with
    | some ds => showI (fromOct ds)
    | none => "bad-op"
  | ["cint", fs, a] =>
    match fmtOf fs with
    | none => "bad-op"
    | some f =>
      match parse f a with
      | some x => showI (cint f x)
      | none => "bad-op"
  | ["cintu", fs, a] =>
    match fmtOf fs with
    | none => "bad-op"
    | some f =>
      match parse f a with
      | some x => showI (cintUnsigned f x)
      | none => "bad-op"
  | ["fromintu", n] =>
    match n.toInt? with
    | some n => showI (fromIntU n)
    | none => "bad-op"
  | ["mki", n] =>
    match n.toNat? with
    | some w => if w < 65536 then "ok " ++ PcbV.toHex (mki w) else "bad-op"
    | none => "bad-op"
  | ["cvi", s] =>
    match ofHex s with
    | some b => showI (cvi b)
    | none => "bad-op"
  | ["mkf", fs, a] =>
    match fmtOf fs with
    | none => "bad-op"
    | some f =>
      match parse f a with
      | some x => "ok " ++ PcbV.toHex (mkf f x)
      | none => "bad-op"
  | ["cvf", fs, s] =>
    match fmtOf fs, ofHex s with
    | some f, some b => showR (fun x => PcbV.toHex (floatBytes f x)) (cvf f b)
    | _, _ => "bad-op"
  | rest => MbfCommon.handle rest

end PcbV.Drv.C03
