import PcbV.Basic
import PcbV.Gen.Errors
import PcbV.Model.Decimal
/-
  PRINT USING: `pcbasic/basic/devices/formatter.py` (`StringField`, `NumberField`, `Formatter._print_using`)
  and the two digit-string producers of `numbers.py` it calls (`Float.to_str_fixed`,
  `Float.to_str_scientific`), on top of the decimal layer of `PcbV.Model.Decimal` (C07).

  Text is `Bytes` (ASCII codes): 43 '+', 45 '-', 36 '$', 42 '*', 35 '#', 46 '.', 44 ',', 94 '^',
  33 '!', 38 '&', 92 '\', 32 ' ', 95 '_', 37 '%', 48 '0'.

  A `CodeStream` positioned somewhere in the format string is modelled by the list of the bytes that
  are still to come; `peek()`/`read(n)` are `head?`/`take n`, reading past the end returns fewer bytes.
  Parsers return the field and the remaining input, or `none` for the `ValueError` (every `ValueError`
  path of the code first seeks back to where it started, so `none` needs no position).
-/
namespace PcbV.Using
open PcbV PcbV.Mbf PcbV.Decimal

/-! ### string fields -/

/-- the `while True` loop of `StringField.__init__` after the opening backslash: blanks up to the
    closing backslash; anything else (also the end of the string) is a `ValueError` -/
def bsLoop : Bytes → Option (Bytes × Bytes)
  | [] => none
  | c :: r =>
    if c = 92 then some ([92], r)
    else if c = 32 then
      match bsLoop r with
      | some (w, rest) => some (32 :: w, rest)
      | none => none
    else none

/-- `StringField.__init__`: `(field text, remaining input)` -/
def parseString : Bytes → Option (Bytes × Bytes)
  | [] => none
  | c :: r =>
    if c = 33 ∨ c = 38 then some ([c], r)
    else if c = 92 then
      match bsLoop r with
      | some (w, rest) => some (92 :: w, rest)
      | none => none
    else none

/-- `s.ljust(n)[:n]` -/
def padCut (s : Bytes) (n : Nat) : Bytes := (s ++ List.replicate (n - s.length) 32).take n

/-- `StringField.format` -/
def formatString (field s : Bytes) : Bytes :=
  if field = [38] then s else padCut s field.length

/-! ### number fields -/

structure NumField where
  tokens : Bytes
  digitsBefore : Nat
  decimals : Nat
  comma : Bool
deriving DecidableEq, Repr

/-- result of the `#`/`,`/`.` loop: text read, digit positions counted, rest of the input -/
structure Run where
  word : Bytes
  before : Nat
  after : Nat
  comma : Bool
  rest : Bytes
deriving DecidableEq, Repr

/-- the `while True` loop of `NumberField.__init__` (`dot`: a decimal point has been read) -/
def numLoop : Bytes → Bool → Run
  | [], _ => ⟨[], 0, 0, false, []⟩
  | c :: r, dot =>
    if dot = false ∧ c = 46 then
      let t := numLoop r true
      { t with word := c :: t.word }
    else if c = 35 ∨ (dot = false ∧ c = 44) then
      let t := numLoop r dot
      { t with word := c :: t.word,
               before := if dot then t.before else t.before + 1,
               after := if dot then t.after + 1 else t.after,
               comma := if dot = false ∧ c = 44 then true else t.comma }
    else ⟨[], 0, 0, false, c :: r⟩

/-- the `$`/`*` prefix: `(text read, digit positions, rest)`; `none` = `ValueError`.
    `fors.read(2)` returns a single byte at the end of the string, which then passes the
    `word[-1:] != c` test: a lone `$` or `*` that ends the format string is accepted. -/
def numPrefix (inp : Bytes) : Option (Bytes × Nat × Bytes) :=
  match inp with
  | [] => some ([], 0, [])
  | c :: _ =>
    if c = 36 ∨ c = 42 then
      let two := inp.take 2
      if two.getLast? ≠ some c then none
      else if c = 42 then
        let r := inp.drop 2
        if r.head? = some 36 then some (two ++ [36], 2, r.drop 1) else some (two, 2, r)
      else some (two, 1, inp.drop 2)
    else some ([], 0, inp)

/-- the digit part after the prefix -/
def numBody (inp : Bytes) : Run :=
  match inp with
  | [] => ⟨[], 0, 0, false, []⟩
  | c :: r =>
    if c = 46 then
      let t := numLoop r true
      { t with word := c :: t.word }
    else if c = 35 then numLoop inp false
    else ⟨[], 0, 0, false, inp⟩

/-- `^^^^` -/
def carets : Bytes := [94, 94, 94, 94]

/-- the post characters: `^^^^`, then a sign unless the field began with `+` -/
def numPost (leadingPlus : Bool) (inp : Bytes) : Bytes × Bytes :=
  let (w1, r1) := if inp.take 4 = carets then (carets, inp.drop 4) else ([], inp)
  match r1 with
  | c :: r2 => if leadingPlus = false ∧ (c = 45 ∨ c = 43) then (w1 ++ [c], r2) else (w1, r1)
  | [] => (w1, r1)

/-- `NumberField.__init__`: `(field, remaining input)` -/
def parseNumber (inp : Bytes) : Option (NumField × Bytes) :=
  let leadingPlus := decide (inp.head? = some 43)
  let w0 : Bytes := if leadingPlus then [43] else []
  let r0 := if leadingPlus then inp.drop 1 else inp
  match numPrefix r0 with
  | none => none
  | some (w1, d1, r1) =>
    let b := numBody r1
    if d1 + b.before + b.after = 0 then none
    else
      let (w3, r3) := numPost leadingPlus b.rest
      some (⟨w0 ++ w1 ++ b.word ++ w3, d1 + b.before, b.after, b.comma⟩, r3)

/-! ### the digit-string producers of `numbers.py` -/

/-- `s.ljust(k, b'0')` -/
def ljust0 (s : Bytes) (k : Nat) : Bytes := s ++ List.replicate (k - s.length) 48

/-- the carry repair in `to_str_scientific`: rounding to `work` digits may give `10^work` -/
def sciCarry (work : Nat) (r : Int × Int) : Int × Int :=
  if work > 0 ∧ r.1.natAbs ≥ 10 ^ work then (pyFloorDiv r.1 10, r.2 + 1) else r

/-- `Float.to_str_scientific(digits_before_radix, digits_after_radix, always_show_radix)` over a given
    post-processing of `to_decimal`'s answer (`sciCarry` = current code, `id` = before the repair) -/
def toStrScientificWith (post : Nat → Int × Int → Int × Int) (nf : NumFmt) (x : F)
    (before after : Nat) (forceDot : Bool) : Option Bytes :=
  if x.isZero then
    if forceDot then some ([46] ++ List.replicate after 48 ++ [nf.expSign] ++ [43, 48, 48])
    else if nf.expSign = 69 then some [69, 43, 48, 48]
    else some [48, 68, 43, 48, 48]
  else
    let requested := before + after
    let work := min nf.fmt.digits requested
    match toDecimal nf.fmt x work with
    | none => none
    | some r =>
      let (mantissa, exponent) := post work r
      let radix : Int := exponent + work
      let ds := ((ljust0 (getDigits mantissa work) requested).take requested)
      some (scientificNotation nf ds (radix - 1) before forceDot)

def toStrScientific := toStrScientificWith sciCarry
/-- before the repair: a carry into an extra digit lost a factor ten (`9.999` in `#.##^^^^` → `0.10E+01`) -/
def toStrScientificOld := toStrScientificWith (fun _ r => r)

/-- a number just below a power of ten is rounded up to it by both conversions, the first of which then
    reports one digit less after the point; the second answer then has one decimal too many: drop it -/
def fixedTrim (nDecimals : Nat) (r : Int × Int) : Int × Int :=
  if -r.2 > (nDecimals : Int) then
    (pyFloorDiv r.1 (10 ^ (-r.2 - (nDecimals : Int)).toNat), -(nDecimals : Int))
  else r

/-- the second conversion of `to_str_fixed` (working precision `n_work`), current code: with no
    significant digit left of the last decimal shown the answer is 0 or 1 unit of that decimal -/
def fixedRework (f : Fmt) (x : F) (mantissa nAfter : Int) (nDecimals : Nat) : Option (Int × Int) :=
  let nWork : Int := f.digits - (nAfter - nDecimals)
  let r : Option (Int × Int) :=
    if nWork > 0 then toDecimal f x nWork
    else some ((if 2 * (mantissa.natAbs : Int) ≥ 10 ^ (nAfter - nDecimals).toNat then 1 else 0), -(nDecimals : Int))
  r.map (fixedTrim nDecimals)

/-- before the repairs: `to_decimal(n_work)` also for `n_work ≤ 0`, which does not scale the number at all
    (`0.006` in `.##` → `%0.00`), and no trimming (`9999999.999999999#` in `########.###` → `%10000000.0000`) -/
def fixedReworkOld (f : Fmt) (x : F) (_mantissa nAfter : Int) (nDecimals : Nat) : Option (Int × Int) :=
  toDecimal f x (f.digits - (nAfter - nDecimals))

/-- `Float.to_str_fixed(n_decimals, force_dot, group_thousands)` -/
def toStrFixedWith (rework : Fmt → F → Int → Int → Nat → Option (Int × Int)) (nf : NumFmt) (x : F)
    (nDecimals : Nat) (forceDot group : Bool) : Option Bytes :=
  if x.isZero then
    if forceDot then some (46 :: List.replicate nDecimals 48)
    else if nDecimals ≠ 0 then some (List.replicate nDecimals 48)
    else some [48]
  else
    match toDecimal nf.fmt x nf.fmt.digits with
    | none => none
    | some (m0, e0) =>
      let r := if -e0 > (nDecimals : Int) then rework nf.fmt x m0 (-e0) nDecimals else some (m0, e0)
      match r with
      | none => none
      | some (mantissa, exp10) =>
        let nAfter : Int := -exp10
        let ds := decStr mantissa.natAbs
        let nBefore : Int := ds.length - nAfter
        let ds := ljust0 ds ((nDecimals : Int) + nBefore).toNat
        some (decimalNotation nf ds (nBefore - 1) false forceDot group)

def toStrFixed := toStrFixedWith fixedRework
def toStrFixedOld := toStrFixedWith fixedReworkOld

/-! ### `NumberField.format` -/

/-- `value.to_float()`: integers become Singles -/
def toFloat : Num → NumFmt × F
  | .int w => (sng, unFR (fromInt single (s16 w)))
  | .sgl x => (sng, x)
  | .dbl x => (dbl, x)

/-- where the sign goes -/
inductive SignMode where
  | leading        -- field starts with `+`
  | trailingPlus   -- field ends with `+`
  | trailingMinus  -- field ends with `-`
  | floating       -- no sign character: `-` in front of negative numbers only
deriving DecidableEq, Repr

def signMode (tokens : Bytes) : SignMode :=
  if tokens.head? = some 43 then .leading
  else if tokens.getLast? = some 43 then .trailingPlus
  else if tokens.getLast? = some 45 then .trailingMinus
  else .floating

/-- characters put in front of the `$`/digits -/
def signPrefix (mode : SignMode) (neg : Bool) : Bytes :=
  match mode with
  | .leading => [if neg then 45 else 43]
  | .floating => if neg then [45] else []
  | _ => []

/-- characters put behind the digits -/
def signSuffix (mode : SignMode) (neg : Bool) : Bytes :=
  match mode with
  | .trailingPlus => [if neg then 45 else 43]
  | .trailingMinus => [if neg then 45 else 32]
  | _ => []

/-- "add leading zero before radix if there's space" -/
def leadZero (v : Bytes) : Bytes :=
  match v with
  | 46 :: _ => 48 :: v
  | 43 :: 46 :: r => 43 :: 48 :: 46 :: r
  | 45 :: 46 :: r => 45 :: 48 :: 46 :: r
  | _ => v

/-- `s.rjust(n, fill)` -/
def rjust (s : Bytes) (n fill : Nat) : Bytes := List.replicate (n - s.length) fill ++ s

/-- digit positions handed to `to_str_scientific`: one is taken for the sign when the field has
    neither a sign character nor a `$` -/
def sciBefore (fld : NumField) : Nat :=
  if signMode fld.tokens = .floating ∧ ¬ fld.tokens.contains 36 then fld.digitsBefore - 1 else fld.digitsBefore

/-- the digits of the absolute value (without sign, `$`, fill) -/
def bodyWith (sci : NumFmt → F → Nat → Nat → Bool → Option Bytes)
    (fix : NumFmt → F → Nat → Bool → Bool → Option Bytes) (fld : NumField) (v : Num) : Option Bytes :=
  let (nf, x) := toFloat v
  let ax := iabs nf.fmt x
  let forceDot := fld.tokens.contains 46
  if fld.tokens.contains 94 then sci nf ax (sciBefore fld) fld.decimals forceDot
  else fix nf ax fld.decimals forceDot fld.comma

/-- the full representation (`valstr` before the `%`/fill step), given the digits -/
def represent (fld : NumField) (v : Num) (body : Bytes) : Bytes :=
  let (nf, x) := toFloat v
  let neg := isNeg nf.fmt x
  let mode := signMode fld.tokens
  let valstr := signPrefix mode neg ++ (if fld.tokens.contains 36 then [36] else []) ++ body ++ signSuffix mode neg
  if valstr.length < fld.tokens.length then leadZero valstr else valstr

/-- the `%` rule and the fill -/
def fit (tokens valstr : Bytes) : Bytes :=
  if valstr.length > tokens.length then 37 :: valstr
  else rjust valstr tokens.length (if tokens.contains 42 then 42 else 32)

/-- `NumberField.format` for a numeric value: `none` = the model's `to_decimal` ran out of fuel -/
def formatNumberWith (sci : NumFmt → F → Nat → Nat → Bool → Option Bytes)
    (fix : NumFmt → F → Nat → Bool → Bool → Option Bytes) (fld : NumField) (v : Num) : Option (R Bytes) :=
  if fld.digitsBefore + fld.decimals > 24 then some (.error PcbV.Gen.E.ifc)
  else
    match bodyWith sci fix fld v with
    | none => none
    | some body => some (.ok (fit fld.tokens (represent fld v body)))

def formatNumber := formatNumberWith toStrScientific toStrFixed
def formatNumberOld := formatNumberWith toStrScientificOld toStrFixedOld

/-! ### `Formatter._print_using` -/

inductive Arg where
  | str (s : Bytes)
  | num (v : Num)
deriving DecidableEq, Repr

inductive Field where
  | str (w : Bytes)
  | num (f : NumField)
deriving DecidableEq, Repr

/-- `StringField(fors)`, and `NumberField(fors)` if that raises -/
def parseField (inp : Bytes) : Option (Field × Bytes) :=
  match parseString inp with
  | some (w, rest) => some (.str w, rest)
  | none =>
    match parseNumber inp with
    | some (f, rest) => some (.num f, rest)
    | none => none

/-- `format_field.format(value)` with the type checks `pass_string` / `pass_number` -/
def formatField (fld : Field) (a : Arg) : Option (R Bytes) :=
  match fld, a with
  | .str w, .str s => some (.ok (formatString w s))
  | .num f, .num v => formatNumber f v
  | _, _ => some (.error PcbV.Gen.E.type_mismatch)

/-- what `_print_using` did: the bytes written, and either the `newline` flag it returns or the error raised -/
structure Printed where
  out : Bytes
  res : R Bool
deriving DecidableEq, Repr

structure LoopSt where
  cur : Bytes             -- format string from the read position on
  args : List Arg
  startCycle : Bool
  initial : Bytes         -- `initial_literal`
  formatChars : Bool
  out : Bytes

/-- after the loop -/
def finishUsing (s : LoopSt) (newline : Bool) : Printed :=
  if s.formatChars then ⟨s.out, .ok newline⟩ else ⟨s.out ++ s.initial, .error PcbV.Gen.E.ifc⟩

/-- a literal character: kept back while no field of this cycle has been printed -/
def putLiteral (s : LoopSt) (c : Nat) (rest : Bytes) : LoopSt :=
  if s.startCycle then { s with cur := rest, initial := s.initial ++ [c] }
  else { s with cur := rest, out := s.out ++ [c] }

/-- the `while True` loop; `trailing`: the argument list ends in `;` or `,` (then `next(args)` yields
    `None` after the last value, otherwise it raises `StopIteration`) -/
def usingLoop (fmt : Bytes) (trailing : Bool) : Nat → LoopSt → Option Printed
  | 0, _ => none
  | fuel + 1, s =>
    match s.cur with
    | [] =>
      if s.formatChars = false then some (finishUsing s true)
      else usingLoop fmt trailing fuel { s with cur := fmt, startCycle := true, initial := [] }
    | c :: r =>
      if c = 95 then
        -- `fors.read(2)[-1:]`: the escaped character, or `_` itself at the end of the string
        usingLoop fmt trailing fuel (putLiteral s (match r with | [] => 95 | d :: _ => d) (r.drop 1))
      else
        match parseField s.cur with
        | none => usingLoop fmt trailing fuel (putLiteral s c r)
        | some (fld, rest) =>
          match s.args with
          | [] => some (finishUsing { s with formatChars := true } (!trailing))
          | a :: more =>
            let out := if s.startCycle then s.out ++ s.initial else s.out
            match formatField fld a with
            | none => none
            | some (.error e) => some ⟨out, .error e⟩
            | some (.ok text) =>
              usingLoop fmt trailing fuel
                { cur := rest, args := more, startCycle := false, initial := s.initial,
                  formatChars := true, out := out ++ text }

/-- `_print_using` with the format string and the evaluated arguments (`none`: out of fuel) -/
def printUsing (fmt : Bytes) (args : List Arg) (trailing : Bool) : Option Printed :=
  if fmt = [] then some ⟨[], .error PcbV.Gen.E.ifc⟩
  else
    usingLoop fmt trailing ((fmt.length + 2) * (args.length + 2))
      { cur := fmt, args := args, startCycle := true, initial := [], formatChars := false, out := [] }

end PcbV.Using
