import PcbV.Lemmas.Arrays
/-
  C12 — Array subscripts address distinct elements within declared bounds.

  Property theorems about `PcbV.Arrays` (transcription of pcbasic/basic/memory/arrays.py).
  `InBounds b idx dims` : same rank and `b ≤ idx[k] ≤ dims[k]` everywhere (`dims` holds the
  maximum subscripts, as `Arrays._dims` does); `size b dims = ∏ (d + 1 - b)`;
  `WF st` is the invariant of all reachable states (theorem `wf_reachable`).
  Not modelled: Out of memory (`check_free`), the memory map (`_array_memory`, property C11).
-/
namespace PcbV.C12
open PcbV PcbV.Arrays PcbV.Gen

/-! ### the flat index -/

/-- `flat_length` (= `index(dims, dims) + 1` in the code) is the product of the extents. -/
theorem flatLength_eq_prod (b : Int) (dims : List Int) :
    flatLength b dims = size b dims ∧
    size b [] = 1 ∧ ∀ d ds, size b (d :: ds) = (d + 1 - b) * size b ds :=
  ⟨flatLength_eq_size b dims, rfl, fun _ _ => rfl⟩

/-- every in-bounds subscript tuple addresses a cell inside the buffer -/
theorem index_lt_flatLength (b : Int) (idx dims : List Int) (h : InBounds b idx dims) :
    0 ≤ index b idx dims ∧ index b idx dims < flatLength b dims := by
  rw [index_eq_horner, flatLength_eq_size]; exact horner_bounds h

/-- for every shape and base: two in-bounds subscript tuples with the same flat index are equal -/
theorem index_injective (b : Int) (dims i1 i2 : List Int)
    (h1 : InBounds b i1 dims) (h2 : InBounds b i2 dims)
    (he : index b i1 dims = index b i2 dims) : i1 = i2 := by
  rw [index_eq_horner, index_eq_horner] at he
  exact horner_injective h1 h2 he

/-- … and every cell of the buffer is addressed by some in-bounds tuple (so in-bounds tuples
    and buffer cells are in bijection) -/
theorem index_surjective (b : Int) (dims : List Int) (hd : ∀ d ∈ dims, b ≤ d)
    (k : Int) (h0 : 0 ≤ k) (h1 : k < flatLength b dims) :
    ∃ idx, InBounds b idx dims ∧ index b idx dims = k := by
  rw [flatLength_eq_size] at h1
  suffices ∃ idx, InBounds b idx dims ∧ horner b idx dims = k by
    obtain ⟨idx, hi, he⟩ := this; exact ⟨idx, hi, by rw [index_eq_horner]; exact he⟩
  induction dims generalizing k with
  | nil =>
    simp only [size] at h1
    exact ⟨[], .nil, by simp [horner]; omega⟩
  | cons d ds ih =>
    simp only [size] at h1
    have hb : b ≤ d := hd d (by simp)
    have hn : 0 < d + 1 - b := by omega
    have hq0 : 0 ≤ k / (d + 1 - b) := Int.ediv_nonneg h0 (by omega)
    have hq1 : k / (d + 1 - b) < size b ds := by
      apply Int.ediv_lt_of_lt_mul hn
      rw [Int.mul_comm]; exact h1
    obtain ⟨is, hi, he⟩ := ih (fun x hx => hd x (by simp [hx])) _ hq0 hq1
    have hr0 := Int.emod_nonneg k (show d + 1 - b ≠ 0 by omega)
    have hr1 := Int.emod_lt_of_pos k hn
    refine ⟨(b + k % (d + 1 - b)) :: is, .cons (by omega) (by omega) hi, ?_⟩
    simp only [horner]; rw [he]
    have := Int.emod_add_mul_ediv k (d + 1 - b)
    omega

/-! ### bounds and rank checking (`check_dim`) -/

/-- a subscript tuple passes the check exactly when it is within the declared bounds -/
theorem bounds_ok_iff (b : Int) (hb : 0 ≤ b) (idx dims : List Int) :
    checkBounds b idx dims = none ↔ InBounds b idx dims :=
  checkBounds_none_iff hb idx dims

/-- wrong number of subscripts: Subscript out of range, whatever the subscripts are -/
theorem bounds_spec_rank (b : Int) (idx dims : List Int) (h : idx.length ≠ dims.length) :
    checkBounds b idx dims = some E.subscript_out_of_range := by
  simp [checkBounds, h]

/-- right number of subscripts: the FIRST subscript that is outside its bounds decides;
    a negative one gives Illegal function call, any other one Subscript out of range. -/
theorem bounds_spec_first_bad (b : Int) (hb : 0 ≤ b) (pre dpre post dpost : List Int) (i d : Int)
    (hpre : InBounds b pre dpre) (hlen : post.length = dpost.length) (hbad : ¬ (b ≤ i ∧ i ≤ d)) :
    checkBounds b (pre ++ i :: post) (dpre ++ d :: dpost) =
      some (if i < 0 then E.ifc else E.subscript_out_of_range) := by
  have hl : (pre ++ i :: post).length = (dpre ++ d :: dpost).length := by
    simp [hpre.length_eq, hlen]
  simp only [checkBounds, hl, ne_eq, not_true_eq_false, if_false]
  clear hl
  induction hpre with
  | nil =>
    simp only [List.nil_append, checkLoop]
    by_cases c : i < 0
    · simp [c]
    · have : i < b ∨ i > d := by omega
      simp [c, this]
  | @cons j e js es h1 h2 _ ih =>
    have c1 : ¬ j < 0 := by omega
    have c2 : ¬ (j < b ∨ j > e) := by omega
    simp only [List.cons_append, checkLoop, c1, c2, if_false]
    exact ih

/-- the kind of error: only IFC or Subscript out of range; IFC only if the rank is right and
    some subscript is negative; never IFC when all subscripts are non-negative -/
theorem bounds_spec_error_kind (b : Int) (idx dims : List Int) (e : Nat)
    (h : checkBounds b idx dims = some e) :
    (e = E.ifc ∨ e = E.subscript_out_of_range) ∧
    (e = E.ifc → idx.length = dims.length ∧ ∃ i ∈ idx, i < 0) ∧
    ((∀ i ∈ idx, 0 ≤ i) → e = E.subscript_out_of_range) := by
  have key : ∀ (idx dims : List Int), checkLoop b idx dims = some e →
      (e = E.ifc ∨ e = E.subscript_out_of_range) ∧ (e = E.ifc → ∃ i ∈ idx, i < 0) := by
    intro idx
    induction idx with
    | nil => intro dims h; simp [checkLoop] at h
    | cons i is ih =>
      intro dims h
      cases dims with
      | nil => simp [checkLoop] at h
      | cons d ds =>
        simp only [checkLoop] at h
        split at h
        · next c => cases h; exact ⟨Or.inl rfl, fun _ => ⟨i, by simp, c⟩⟩
        · split at h
          · cases h; exact ⟨Or.inr rfl, fun h => by simp [E.ifc, E.subscript_out_of_range] at h⟩
          · obtain ⟨k1, k2⟩ := ih ds h
            exact ⟨k1, fun he => by obtain ⟨x, hx, hx2⟩ := k2 he; exact ⟨x, by simp [hx], hx2⟩⟩
  unfold checkBounds at h
  split at h
  · cases h
    exact ⟨Or.inr rfl, fun h => by simp [E.ifc, E.subscript_out_of_range] at h, fun _ => rfl⟩
  · next hl =>
    obtain ⟨k1, k2⟩ := key idx dims h
    refine ⟨k1, fun he => ⟨by simpa using hl, k2 he⟩, fun hall => ?_⟩
    rcases k1 with k1 | k1
    · obtain ⟨x, hx, hx2⟩ := k2 k1
      have := hall x hx; omega
    · exact k1

/-- an access to a declared array that fails the check raises that error and changes nothing:
    the whole state (every element of every array, the base) is the same afterwards -/
theorem bounds_error_changes_nothing (st : State) (name : Nat) (a : Arr)
    (hf : find name st.arrs = some a) (idx : List Int) (v : Int) (e : Nat)
    (h : checkBounds st.b idx a.dims = some e) :
    get st name idx = (st, .error e) ∧ set st name idx v = (st, some e) := by
  rw [get_existing hf, set_existing hf, h]
  exact ⟨rfl, rfl⟩

/-- reading never changes a declared array's state at all -/
theorem get_declared_pure (st : State) (name : Nat) (a : Arr)
    (hf : find name st.arrs = some a) (idx : List Int) : (get st name idx).1 = st := by
  rw [get_existing hf]

/-- each in-bounds subscript tuple addresses its own element: after a successful assignment the
    element reads back the new value, every other element of the array reads what it read
    before, every other array, the base and the dimensions are untouched -/
theorem set_get_spec (st : State) (hw : WF st) (name : Nat) (a : Arr)
    (hf : find name st.arrs = some a) (idx : List Int) (hin : InBounds st.b idx a.dims) (v : Int) :
    ∃ st', set st name idx v = (st', none) ∧ st'.base = st.base ∧ st'.byDim = st.byDim ∧
      (∀ n, n ≠ name → find n st'.arrs = find n st.arrs) ∧
      (∃ a', find name st'.arrs = some a' ∧ a'.dims = a.dims) ∧
      get st' name idx = (st', .ok v) ∧
      (∀ idx', InBounds st.b idx' a.dims → idx' ≠ idx →
        get st' name idx' = (st', (get st name idx').2)) := by
  have hb0 : 0 ≤ st.b := by rcases hw.b01 with e | e <;> omega
  have hcb := (checkBounds_none_iff hb0 idx a.dims).2 hin
  have ok := hw.arrOK name a hf
  obtain ⟨hk0, hk1⟩ := horner_bounds hin
  rw [← index_eq_horner] at hk0 hk1
  let a' : Arr := ⟨a.dims, a.cells.set (index st.b idx a.dims).toNat v⟩
  let st' : State := { st with arrs := update name a' st.arrs }
  have hset : set st name idx v = (st', none) := by rw [set_existing hf, hcb]
  have hf' : find name st'.arrs = some a' := find_update_same hf
  have hb' : st'.b = st.b := rfl
  refine ⟨st', hset, rfl, rfl, ?_, ⟨a', hf', rfl⟩, ?_, ?_⟩
  · intro n hn; exact find_update_other _ _ hn
  · rw [get_existing hf', hb']
    show (_, (match checkBounds st.b idx a.dims with | some e => _ | none => _)) = _
    rw [hcb]
    simp only
    congr 2
    have : (index st.b idx a.dims).toNat < a.cells.length := by rw [ok.len]; omega
    simp [a', List.getD_eq_getElem?_getD, this]
  · intro idx' hin' hne
    have hcb' := (checkBounds_none_iff hb0 idx' a.dims).2 hin'
    rw [get_existing hf', get_existing hf, hb']
    show (_, (match checkBounds st.b idx' a.dims with | some e => _ | none => _)) = _
    rw [hcb']
    simp only
    congr 2
    obtain ⟨hj0, _⟩ := horner_bounds hin'
    rw [← index_eq_horner] at hj0
    have hdiff : (index st.b idx a.dims).toNat ≠ (index st.b idx' a.dims).toNat := by
      intro he
      have : index st.b idx a.dims = index st.b idx' a.dims := by omega
      exact hne (index_injective st.b a.dims idx idx' hin hin' this).symm
    simp [a', List.getD_eq_getElem?_getD, List.getElem?_set_ne hdiff]

/-! ### DIM, auto-dimensioning, re-DIM, ERASE -/

/-- the state after array `name` with maximum subscripts `dims` has been created in `st`:
    zero-filled buffer of `∏ (d+1-base)` cells; an unset base becomes 0 "set by DIM" -/
def withArray (st : State) (name : Nat) (dims : List Int) : State :=
  ⟨st.arrs ++ [(name, ⟨dims, List.replicate (size st.b dims).toNat 0⟩)], some st.b,
   st.base.isNone || st.byDim⟩

/-- DIM of an undeclared array: a negative bound is Illegal function call (and does not fix the
    base), a bound below the base (0 under OPTION BASE 1) is Subscript out of range, otherwise
    the array is created zero-filled; errors leave the state untouched -/
theorem dim_fresh_spec (st : State) (name : Nat) (hf : find name st.arrs = none)
    (dims : List Int) (hne : dims ≠ []) :
    ((∃ d ∈ dims, d < 0) → allocate st name dims = (st, some E.ifc)) ∧
    ((∀ d ∈ dims, 0 ≤ d) → (∃ d ∈ dims, d < st.b) →
        allocate st name dims = (st, some E.subscript_out_of_range)) ∧
    ((∀ d ∈ dims, 0 ≤ d ∧ st.b ≤ d) → allocate st name dims = (withArray st name dims, none)) := by
  have hneg : anyLt 0 dims = true ↔ ∃ d ∈ dims, d < 0 := by
    rw [← Bool.not_eq_false, anyLt_false_iff]
    constructor
    · intro h; by_contra hc; exact h (fun d hd => by by_contra hlt; exact hc ⟨d, hd, by omega⟩)
    · rintro ⟨d, hd, hlt⟩ h; have := h d hd; omega
  refine ⟨?_, ?_, ?_⟩
  · intro h
    simp [allocate, hne, hf, hneg.2 h]
  · intro h0 hb
    have n0 : anyLt 0 dims = false := (anyLt_false_iff 0 dims).2 h0
    cases hbase : st.base with
    | none =>
      obtain ⟨d, hd, hlt⟩ := hb
      have := h0 d hd
      simp [State.b, hbase] at hlt; omega
    | some b =>
      have hbt : anyLt b dims = true := by
        rw [← Bool.not_eq_false, anyLt_false_iff]
        intro h
        obtain ⟨d, hd, hlt⟩ := hb
        have := h d hd
        simp [State.b, hbase] at hlt; omega
      simp [allocate, hne, hf, n0, hbase, hbt]
  · intro h
    have n0 : anyLt 0 dims = false := (anyLt_false_iff 0 dims).2 (fun d hd => (h d hd).1)
    cases hbase : st.base with
    | none =>
      simp [allocate, hne, hf, n0, hbase, addArray, withArray, State.b, flatLength_eq_size]
    | some b =>
      have nb : anyLt b dims = false := (anyLt_false_iff b dims).2 (fun d hd => by
        have := (h d hd).2; simpa [State.b, hbase] using this)
      simp [allocate, hne, hf, n0, hbase, nb, addArray, withArray, State.b, flatLength_eq_size]

/-- `DIM A` without subscripts does nothing -/
theorem dim_no_subscripts (st : State) (name : Nat) : allocate st name [] = (st, none) := by
  simp [allocate]

/-- redimensioning a declared array raises Duplicate definition (before any look at the new
    bounds) and changes nothing; the rest of the DIM statement is not executed -/
theorem redim_dupdef (st : State) (name : Nat) (a : Arr) (hf : find name st.arrs = some a)
    (dims : List Int) (hne : dims ≠ []) (rest : List (Nat × List Int)) :
    allocate st name dims = (st, some E.duplicate_definition) ∧
    dim st ((name, dims) :: rest) = (st, some E.duplicate_definition) := by
  have h : allocate st name dims = (st, some E.duplicate_definition) := by
    simp [allocate, hne, hf]
  exact ⟨h, by simp [dim, h]⟩

/-- the array that first use creates: rank = number of subscripts used, maximum subscript 10 -/
def autoDims (rank : Nat) : List Int := List.replicate rank 10

theorem autodim_size (b : Int) (rank : Nat) : size b (autoDims rank) = (11 - b) ^ rank := by
  induction rank with
  | zero => simp [autoDims, size]
  | succ n ih =>
    simp only [autoDims, List.replicate_succ, size] at ih ⊢
    rw [ih]; ring

/-- first use of an undeclared array dimensions it `base..10` in every dimension — also when that
    very access is out of range or has a negative subscript — then applies the ordinary bounds
    check; no other array is touched (they are still found, unchanged, in `withArray …`). -/
theorem autodim_spec (st : State) (hw : WF st) (name : Nat) (hf : find name st.arrs = none)
    (idx : List Int) (hne : idx ≠ []) (v : Int) :
    let st' := withArray st name (autoDims idx.length)
    find name st'.arrs = some ⟨autoDims idx.length, List.replicate ((11 - st.b) ^ idx.length).toNat 0⟩ ∧
    (∀ n x, find n st.arrs = some x → find n st'.arrs = some x) ∧
    st'.b = st.b ∧
    (∀ e, checkBounds st.b idx (autoDims idx.length) = some e →
        get st name idx = (st', .error e) ∧ set st name idx v = (st', some e)) ∧
    (InBounds st.b idx (autoDims idx.length) →
        get st name idx = (st', .ok 0) ∧
        ∃ st'', set st name idx v = (st'', none) ∧ get st'' name idx = (st'', .ok v)) := by
  intro st'
  have hb01 := hw.b01
  have hb0 : 0 ≤ st.b := by rcases hb01 with e | e <;> omega
  have hmap : idx.map (fun _ => (10 : Int)) = autoDims idx.length := by
    simp [autoDims, List.map_const']
  have hdne : autoDims idx.length ≠ [] := by
    cases idx with
    | nil => exact absurd rfl hne
    | cons i is => simp [autoDims, List.replicate_succ]
  have hall : ∀ d ∈ autoDims idx.length, 0 ≤ d ∧ st.b ≤ d := by
    intro d hd
    have : d = 10 := List.eq_of_mem_replicate hd
    rcases hb01 with e | e <;> omega
  have halloc := (dim_fresh_spec st name hf _ hdne).2.2 hall
  have hfind : find name (withArray st name (autoDims idx.length)).arrs =
      some ⟨autoDims idx.length, List.replicate (size st.b (autoDims idx.length)).toNat 0⟩ :=
    find_append_new _ hf
  have hb' : (withArray st name (autoDims idx.length)).b = st.b := rfl
  have hcd : checkDim st name idx = (st', match checkBounds st.b idx (autoDims idx.length) with
      | some e => .error e
      | none => .ok ⟨autoDims idx.length, List.replicate (size st.b (autoDims idx.length)).toNat 0⟩) := by
    unfold checkDim
    rw [hf]
    simp only [hmap, halloc, hfind, hb']
    cases checkBounds st.b idx (autoDims idx.length) <;> rfl
  refine ⟨by rw [hfind, autodim_size], fun n x hx => find_append_old _ hx, hb', ?_, ?_⟩
  · intro e he
    unfold Arrays.get Arrays.set
    rw [hcd, he]
    exact ⟨rfl, rfl⟩
  · intro hin
    have hcb := (checkBounds_none_iff hb0 idx _).2 hin
    constructor
    · unfold Arrays.get
      rw [hcd, hcb]
      simp [List.getD_eq_getElem?_getD, List.getElem?_replicate]
      split <;> rfl
    · have hw' : WF st' := by
        have := wf_allocate hw name (autoDims idx.length)
        rw [halloc] at this; exact this
      have hset : set st name idx v = set st' name idx v := by
        rw [set_existing hfind, hb', hcb]
        unfold Arrays.set
        rw [hcd, hcb]
        rfl
      obtain ⟨st'', h1, _, _, _, _, h2, _⟩ :=
        set_get_spec st' hw' name _ hfind idx (by rw [hb']; exact hin) v
      exact ⟨st'', by rw [hset]; exact h1, h2⟩

/-- ERASE of an undeclared array: Illegal function call, nothing changes (arrays named earlier
    in the same statement stay erased, and the implicit base is then not reset) -/
theorem erase_missing (st : State) (name : Nat) (hf : find name st.arrs = none) (rest : List Nat) :
    erase st (name :: rest) = (st, some E.ifc) := by
  simp [erase, eraseLoop, hf]

/-- ERASE removes the array (all others stay as they are) so that it can be dimensioned again,
    with any legal bounds, getting a fresh zero-filled buffer -/
theorem erase_then_dim (st : State) (hw : WF st) (name : Nat) (a : Arr)
    (hf : find name st.arrs = some a) :
    ∃ st', erase st [name] = (st', none) ∧ WF st' ∧ find name st'.arrs = none ∧
      (∀ n, n ≠ name → find n st'.arrs = find n st.arrs) ∧
      (∀ dims, dims ≠ [] → (∀ d ∈ dims, 0 ≤ d ∧ st'.b ≤ d) →
        allocate st' name dims = (withArray st' name dims, none) ∧
        find name (withArray st' name dims).arrs =
          some ⟨dims, List.replicate (size st'.b dims).toNat 0⟩) := by
  have hwe := wf_erase hw [name]
  have key : ∀ st', erase st [name] = (st', none) → find name st'.arrs = none →
      (∀ dims, dims ≠ [] → (∀ d ∈ dims, 0 ≤ d ∧ st'.b ≤ d) →
        allocate st' name dims = (withArray st' name dims, none) ∧
        find name (withArray st' name dims).arrs =
          some ⟨dims, List.replicate (size st'.b dims).toNat 0⟩) := by
    intro st' _ hn dims hne hall
    exact ⟨(dim_fresh_spec st' name hn dims hne).2.2 hall, find_append_new _ hn⟩
  by_cases hc : (remove name st.arrs).isEmpty && st.byDim
  · have he : erase st [name] = (clearBase { st with arrs := remove name st.arrs }, none) := by
      simp only [erase, eraseLoop, hf]
      simp only [hc, if_true]
    rw [he] at hwe
    refine ⟨_, he, hwe, find_remove_same _ _, fun n hn => find_remove_other _ hn, key _ he ?_⟩
    exact find_remove_same _ _
  · have he : erase st [name] = ({ st with arrs := remove name st.arrs }, none) := by
      simp only [erase, eraseLoop, hf]
      simp only [hc]
      rfl
    rw [he] at hwe
    refine ⟨_, he, hwe, find_remove_same _ _, fun n hn => find_remove_other _ hn, key _ he ?_⟩
    exact find_remove_same _ _

/-! ### OPTION BASE -/

/-- OPTION BASE b succeeds exactly when no base is in effect or the same one; otherwise
    Duplicate definition, nothing changes -/
theorem optionBase_spec (st : State) (b : Int) :
    ((st.base = none ∨ st.base = some b) → optionBase st b = ({ st with base := some b }, none)) ∧
    (∀ c, st.base = some c → c ≠ b → optionBase st b = (st, some E.duplicate_definition)) := by
  constructor
  · rintro (h | h) <;> simp [optionBase, h]
  · intro c h hne
    have : ¬ b = c := fun e => hne e.symm
    simp [optionBase, h, this]

/-- the base becomes fixed implicitly (0, flagged "by DIM") by the first array created while no
    base is set — by DIM or by first use — and a DIM that raises an error does not fix it -/
theorem implicit_base (st : State) (hb : st.base = none) (name : Nat) (dims : List Int) :
    ((allocate st name dims).2 = none → dims ≠ [] →
        (allocate st name dims).1.base = some 0 ∧ (allocate st name dims).1.byDim = true) ∧
    (∀ e, (allocate st name dims).2 = some e → (allocate st name dims).1 = st) := by
  unfold allocate
  constructor
  · intro h hne
    simp only [hne, if_false] at h ⊢
    split at h
    · cases h
    · split at h
      · cases h
      · next h1 h2 => simp [h1, h2, hb, addArray]
  · intro e h
    split
    · rfl
    · split
      · rfl
      · split
        · rfl
        · next h0 h1 h2 =>
          simp only [h0, h1, h2, hb, if_false] at h
          cases h

/-- after a successful ERASE: if no array is left and the base had been fixed implicitly, the base
    is unset again (so OPTION BASE 1 is possible); in every other case base and flag are kept -/
theorem erase_base_rule (st st' : State) (names : List Nat) (h : erase st names = (st', none)) :
    (st'.arrs = [] → st.byDim = true → st'.base = none ∧ st'.byDim = false) ∧
    (¬ (st'.arrs = [] ∧ st.byDim = true) → st'.base = st.base ∧ st'.byDim = st.byDim) := by
  obtain ⟨e1, e2⟩ := eraseLoop_base st names
  unfold erase at h
  split at h
  · cases h
  · next s he =>
    rw [he] at e1 e2
    simp only at e1 e2
    split at h
    · next hc =>
      simp only [Bool.and_eq_true, List.isEmpty_iff] at hc
      cases h
      refine ⟨fun _ _ => ⟨rfl, rfl⟩, fun hn => absurd ⟨?_, ?_⟩ hn⟩
      · simpa [clearBase] using hc.1
      · rw [← e2]; exact hc.2
    · next hc =>
      cases h
      simp only [Bool.and_eq_true, List.isEmpty_iff, not_and] at hc
      refine ⟨fun h1 h2 => ?_, fun _ => ⟨e1, e2⟩⟩
      rw [← e2] at h2
      exact absurd h2 (hc h1)

/-- an ERASE that raises an error (undeclared name) never resets the base -/
theorem erase_error_keeps_base (st st' : State) (names : List Nat) (e : Nat)
    (h : erase st names = (st', some e)) :
    e = E.ifc ∧ st'.base = st.base ∧ st'.byDim = st.byDim := by
  have hl : ∀ (l : List Nat) (s : State), (eraseLoop s l).2 = none ∨ (eraseLoop s l).2 = some E.ifc := by
    intro l
    induction l with
    | nil => intro s; exact Or.inl rfl
    | cons n ns ih =>
      intro s
      unfold eraseLoop
      split
      · exact Or.inr rfl
      · exact ih _
  obtain ⟨e1, e2⟩ := eraseLoop_base st names
  unfold erase at h
  split at h
  · next s e' he =>
    cases h
    rw [he] at e1 e2
    refine ⟨?_, e1, e2⟩
    rcases hl names st with k | k <;> rw [he] at k <;> simp at k
    exact k
  · split at h <;> cases h

/-- CLEAR (also NEW, RUN) removes all arrays and unsets the base -/
theorem clear_resets (st : State) : step st .clear = (State.init, .done) := rfl

/-! ### histories -/

/-- every state reachable by any history of OPTION BASE / DIM / ERASE / read / assign / CLEAR
    satisfies the invariant `WF` (in particular: arrays exist only while a base is set, so the
    arithmetic on `_base` in `index`/`check_dim` never meets `None`; every buffer has exactly
    `∏ (d+1-base)` cells) -/
theorem wf_step (st : State) (hw : WF st) (op : Op) : WF (step st op).1 := by
  cases op with
  | optionBase one => exact wf_optionBase hw _ (by cases one <;> simp)
  | dim l => exact wf_dim hw l
  | erase l => exact wf_erase hw l
  | get n idx =>
    have := wf_get hw n idx
    simp only [step]
    split <;> next he => rw [he] at this; exact this
  | set n idx v => exact wf_set hw n idx v
  | clear => exact wf_init

theorem wf_run (st : State) (hw : WF st) (ops : List Op) : WF (run st ops).1 := by
  induction ops generalizing st with
  | nil => exact hw
  | cons op ops ih => exact ih _ (wf_step st hw op)

theorem wf_reachable (ops : List Op) : WF (run State.init ops).1 := wf_run _ wf_init ops

/-- does the operation name array `n` as the target of an assignment, an ERASE, or is it CLEAR? -/
def touches (n : Nat) : Op → Bool
  | .set m _ _ => m == n
  | .erase l => l.contains n
  | .clear => true
  | _ => false

/-- no element changes unless it is addressed: an operation that is not an assignment to array
    `n`, an ERASE naming it, or CLEAR leaves array `n` (dimensions and every element) as it was —
    whether the operation succeeds, raises an error, or auto-dimensions another array -/
theorem step_frame (st : State) (n : Nat) (a : Arr) (hf : find n st.arrs = some a) (op : Op)
    (ht : touches n op = false) : find n (step st op).1.arrs = some a := by
  cases op with
  | optionBase one =>
    simp only [step, optionBase_arrs]; exact hf
  | dim l =>
    simp only [step]; exact dim_keeps st l n a hf
  | erase l =>
    simp only [touches] at ht
    have hl : find n (eraseLoop st l).1.arrs = some a := by
      induction l generalizing st with
      | nil => exact hf
      | cons m ms ih =>
        simp only [List.contains_cons, Bool.or_eq_false_iff, beq_eq_false_iff_ne, ne_eq] at ht
        unfold eraseLoop
        split
        · exact hf
        · apply ih
          · simp only; rw [find_remove_other _ ht.1]; exact hf
          · exact ht.2
    simp only [step, erase]
    split
    · next he => rw [he] at hl; exact hl
    · next he =>
      rw [he] at hl
      split
      · exact hl
      · exact hl
  | get m idx =>
    rw [step_get_state, get_state]
    exact checkDim_keeps st m idx n a hf
  | set m idx v =>
    simp only [touches, beq_eq_false_iff_ne, ne_eq] at ht
    have hk := checkDim_keeps st m idx n a hf
    simp only [step, Arrays.set]
    split
    · next he => rw [he] at hk; exact hk
    · next he =>
      rw [he] at hk
      simp only
      rw [find_update_other _ _ (fun e => ht e.symm)]
      exact hk
  | clear => simp [touches] at ht

/-- a base set explicitly by OPTION BASE (not flagged "by DIM") stays in force through every
    history without CLEAR: no DIM, ERASE (even of the last array), access, error or further
    OPTION BASE changes it -/
theorem explicit_base_persists (st : State) (b : Int) (hb : st.base = some b) (hd : st.byDim = false)
    (ops : List Op) (hn : ∀ op ∈ ops, isClear op = false) :
    (run st ops).1.base = some b ∧ (run st ops).1.byDim = false := by
  induction ops generalizing st with
  | nil => exact ⟨hb, hd⟩
  | cons op ops ih =>
    obtain ⟨k1, k2⟩ := step_base_keep st b hb hd op (hn op (by simp))
    exact ih _ k1 k2 (fun o ho => hn o (by simp [ho]))

/-- in every reachable state the lower bound is 0 or 1, a base flagged "set by DIM" is 0, and
    arrays exist only while a base is set -/
theorem reachable_base (ops : List Op) :
    let st := (run State.init ops).1
    (st.b = 0 ∨ st.b = 1) ∧ (st.byDim = true → st.base = some 0) ∧ (st.arrs ≠ [] → st.base ≠ none) :=
  let hw := wf_reachable ops
  ⟨hw.b01, hw.byDim0, hw.baseSome⟩

/-! ### the OPTION BASE state machine: unset / implied by the first array / explicit -/

/-- the "set by DIM" flag is never left standing while the base is unset (in particular not after
    ERASE of the last array has dropped an implied base): the next OPTION BASE is an explicit one -/
theorem base_unset_flag_clear (ops : List Op) :
    (run State.init ops).1.base = none → (run State.init ops).1.byDim = false := by
  intro h
  have hw := wf_reachable ops
  cases hd : (run State.init ops).1.byDim with
  | false => rfl
  | true => have := hw.byDim0 hd; rw [h] at this; cases this

/-- once a base is in force, an operation other than CLEAR/NEW/RUN either keeps it, or it is an
    ERASE that removes the last array while the base was only implied (then the base is unset and
    the flag cleared).  In particular the base never changes while an array exists. -/
theorem base_fixed_while_arrays (st : State) (b : Int) (hb : st.base = some b) (op : Op)
    (hc : isClear op = false) :
    (step st op).1.base = some b ∨
    ((∃ l, op = .erase l) ∧ st.byDim = true ∧ (step st op).1.arrs = [] ∧
      (step st op).1.base = none ∧ (step st op).1.byDim = false) := by
  cases op with
  | optionBase one => exact Or.inl (by simp only [step]; exact optionBase_base_some st _ b hb)
  | dim l => exact Or.inl (by simp only [step]; exact dim_base_some st l b hb)
  | get m idx =>
    exact Or.inl (by rw [step_get_state, get_state]; exact checkDim_base_some st m idx b hb)
  | set m idx v =>
    have hk := checkDim_base_some st m idx b hb
    refine Or.inl ?_
    simp only [step, Arrays.set]
    split
    · next he => rw [he] at hk; exact hk
    · next he => rw [he] at hk; exact hk
  | clear => simp [isClear] at hc
  | erase l =>
    obtain ⟨e1, e2⟩ := eraseLoop_base st l
    simp only [step, erase]
    split
    · next he => rw [he] at e1; exact Or.inl (by rw [e1]; exact hb)
    · next s he =>
      rw [he] at e1 e2
      simp only at e1 e2
      split
      · next hcnd =>
        simp only [Bool.and_eq_true, List.isEmpty_iff] at hcnd
        exact Or.inr ⟨⟨l, rfl⟩, by rw [← e2]; exact hcnd.2, by simpa [clearBase] using hcnd.1, rfl, rfl⟩
      · exact Or.inl (by rw [e1]; exact hb)

/-- an implied base (flag set) is dropped by a successful ERASE exactly when no array is left -/
theorem implied_base_dropped_iff (st st' : State) (hw : WF st) (hd : st.byDim = true)
    (names : List Nat) (h : erase st names = (st', none)) :
    (st'.base = none ↔ st'.arrs = []) := by
  have hr := erase_base_rule st st' names h
  constructor
  · intro hn
    by_contra hne
    have := (hr.2 (fun c => hne c.1)).1
    rw [hn, hw.byDim0 hd] at this; cases this
  · intro he; exact (hr.1 he hd).1

/-- an explicit OPTION BASE — one executed in a reachable state whose base is unset, whatever was
    dimensioned, used and erased before — holds through every later history without CLEAR/NEW/RUN:
    ERASE of all arrays, however often, never drops it; subscript checks keep using it. -/
theorem explicit_option_base_permanent (pre : List Op) (b : Int)
    (hu : (run State.init pre).1.base = none) (ops : List Op) (hn : ∀ op ∈ ops, isClear op = false) :
    let st := (optionBase (run State.init pre).1 b).1
    (run st ops).1.base = some b ∧ (run st ops).1.byDim = false := by
  intro st
  have hd := base_unset_flag_clear pre hu
  have e : optionBase (run State.init pre).1 b = ({ (run State.init pre).1 with base := some b }, none) :=
    (optionBase_spec _ b).1 (Or.inl hu)
  exact explicit_base_persists st b (by simp [st, e]) (by simp [st, e, hd]) ops hn

/-! ### which use comes first in a statement with several array references -/

/-- first use of an undeclared array leaves exactly `withArray …` as the state, whether the access
    itself passes the bounds check or not -/
theorem checkDim_fresh_state (st : State) (hw : WF st) (name : Nat) (hf : find name st.arrs = none)
    (idx : List Int) (hne : idx ≠ []) :
    (checkDim st name idx).1 = withArray st name (autoDims idx.length) := by
  have h := autodim_spec st hw name hf idx hne 0
  simp only at h
  obtain ⟨_, _, _, herr, hok⟩ := h
  rw [← get_state]
  cases hc : checkBounds st.b idx (autoDims idx.length) with
  | some e => rw [(herr e hc).1]
  | none =>
    have hb0 : 0 ≤ st.b := by rcases hw.b01 with e | e <;> omega
    rw [(hok ((bounds_ok_iff st.b hb0 idx _).1 hc)).1]

/-- in `target(idx) = <right-hand side>` the target is the first use: an undeclared target array
    exists afterwards with the rank of the left-hand side and maximum subscript 10 — whatever the
    right-hand side does (raises an error, mentions the same array with another number of
    subscripts, auto-dimensions other arrays) and whether or not the assignment succeeds -/
theorem letFrom_target_first (st : State) (hw : WF st) (n : Nat) (hf : find n st.arrs = none)
    (idx : List Int) (hne : idx ≠ []) (srcs : List (Nat × List Int)) (c : Int) (fail : Option Nat) :
    ∃ a, find n (letFrom st n idx srcs c fail).1.arrs = some a ∧ a.dims = autoDims idx.length := by
  have hs := checkDim_fresh_state st hw n hf idx hne
  have h0 := (autodim_spec st hw n hf idx hne 0).1
  unfold letFrom
  split
  · next st1 e he => rw [he] at hs; simp only at hs; rw [hs]; exact ⟨_, h0, rfl⟩
  · next st1 a0 he =>
    rw [he] at hs; simp only at hs
    have h1 := h0
    rw [← hs] at h1
    have h2 := evalSrcs_keeps srcs st1 n _ h1
    split
    · next he2 => rw [he2] at h2; exact ⟨_, h2, rfl⟩
    · next st2 v he2 =>
      rw [he2] at h2
      split
      · exact ⟨_, h2, rfl⟩
      · exact set_keeps_dims st2 n idx (v + c) n _ h2

/-- same for SWAP: its first operand is used first -/
theorem swap_first_operand_first (st : State) (hw : WF st) (n : Nat) (hf : find n st.arrs = none)
    (idx : List Int) (hne : idx ≠ []) (m : Nat) (idx2 : List Int) :
    ∃ a, find n (swap st n idx m idx2).1.arrs = some a ∧ a.dims = autoDims idx.length := by
  have hs := checkDim_fresh_state st hw n hf idx hne
  have h0 := (autodim_spec st hw n hf idx hne 0).1
  unfold swap
  split
  · next st1 e he => rw [he] at hs; simp only at hs; rw [hs]; exact ⟨_, h0, rfl⟩
  · next st1 a0 he =>
    rw [he] at hs; simp only at hs
    have h1 := h0
    rw [← hs] at h1
    have h2 := checkDim_keeps st1 m idx2 n _ h1
    split
    · next he2 => rw [he2] at h2; exact ⟨_, h2, rfl⟩
    · next st2 b0 he2 =>
      rw [he2] at h2
      split
      · next va vb _ _ =>
        obtain ⟨a1, k1, d1⟩ := set_keeps_dims st2 n idx vb n _ h2
        obtain ⟨a2, k2, d2⟩ := set_keeps_dims _ m idx2 va n a1 k1
        exact ⟨a2, k2, by rw [d2, d1]⟩
      · exact ⟨_, h2, rfl⟩

/-! ### non-vacuity: the hypotheses used above are satisfiable, the model computes -/

example : InBounds 1 [1, 4] [3, 4] := .cons (by omega) (by omega) (.cons (by omega) (by omega) .nil)
example : index 1 [3, 4] [3, 4] = 11 ∧ flatLength 1 [3, 4] = 12 := by decide
example : index 0 [3, 4] [3, 4] = 19 ∧ flatLength 0 [3, 4] = 20 := by decide
example : (run State.init [.dim [(0, [2, 1])], .set 0 [1, 1] 7, .get 0 [1, 1], .get 0 [2, 0],
      .get 0 [3, 0], .get 0 [-1, 5], .get 0 [5, -1], .get 0 [1], .dim [(0, [2, 1])]]).2 =
    [.done, .done, .val 7, .val 0, .err 9, .err 5, .err 9, .err 9, .err 10] := by decide
example : (run State.init [.get 3 [11, 2], .dim [(3, [11, 2])], .get 3 [10, 10]]).2 =
    [.err 9, .err 10, .val 0] := by decide
example : (run State.init [.dim [(0, [3])], .optionBase true, .erase [0], .optionBase true,
      .dim [(0, [0])], .dim [(0, [3])], .get 0 [0], .get 0 [1]]).2 =
    [.done, .err 10, .done, .done, .err 9, .done, .err 9, .val 0] := by decide
example : (run State.init [.dim [(0, [3])], .erase [0], .optionBase true, .dim [(0, [3])], .erase [0],
      .dim [(0, [3])], .set 0 [0] 5, .dim [(1, [0])], .optionBase false]).2 =
    [.done, .done, .done, .done, .done, .done, .err 9, .err 9, .err 10] := by decide
example : (letFrom State.init 0 [3] [(1, [11])] 0 none).2 = some 9 ∧
    (allocate (letFrom State.init 0 [3] [(1, [11])] 0 none).1 0 [20]).2 = some 10 ∧
    (letFrom State.init 2 [1] [(2, [1, 1])] 0 none).2 = some 9 := by decide
example : ∃ st, WF st ∧ st.base = some 1 ∧ st.byDim = false ∧ st.arrs ≠ [] :=
  ⟨(run State.init [.optionBase true, .dim [(0, [3])]]).1, wf_reachable _, by decide, by decide, by decide⟩

end PcbV.C12
