#!/bin/sh
# MANIFEST.setup_cmd: build the framework offline from files on disk only.
set -e
here="$(cd "$(dirname "$0")" && pwd)"
cd "$here"
PYTHONPATH="${PCBV_REPO:-/repo}:$here" /venv/bin/python gen/gen_tables.py
python3 tools/mkdrv.py
cd lean
lake build 2>&1 | grep -v '^✔\|^⚠\|^ℹ\|Replayed\|^warning\|^$\|^Note:\|^Hint:\|^  \[apply\]\|linter' | tail -40 || true
lake build pcbvdriver PcbV >/dev/null
test -x .lake/build/bin/pcbvdriver
echo "setup ok"
