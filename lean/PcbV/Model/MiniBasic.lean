import PcbV.Basic
import PcbV.Gen.Errors
/-
  PcbV.Model.MiniBasic — control-flow core of `pcbasic/basic/interpreter.py`
  (for_, _find_next, iterate_loop / next_, while_, _find_wend, _check_while_condition, wend_,
   jump, jump_sub, gosub_, return_, if_, on_jump_) and of the parts of
  `parser/statements.py` (_parse_for/_parse_next/_parse_if/_parse_on_jump) and
  `base/codestream.py` (skip_block) that decide which statement runs next.

  Three layers:
    (a) a small statement AST organised as numbered lines of statements (`Stmt`, `Line`, `Instr`);
    (b) `Mech`  — the interpreter's mechanism: program positions, the for / while / gosub stacks with
        their position-based matching, the scan-ahead for NEXT / WEND / ELSE exactly as coded;
    (c) `Spec`  — structured reference semantics (big-step with fuel) of a structured AST `SStmt`
        and its compilation to the flat statement list.

  Values: every variable is a 16-bit integer variable (`V%`), values are `Int` with the range check
  that `values.to_type('%', …)` / `Integer.iadd` perform (Overflow, error 6).  The relation to the byte
  level model `PcbV.IntOps` (property C02) is stated in `PcbV.C19.counter_step_agrees_with_IntOps`.
  Expressions are + − and the six comparisons on integers (and fractional constants n/d in the places where
  the value is converted to an integer at once, see `Expr.eval`); the implementation evaluates them in single
  precision, which is exact below 2^24 (the generator keeps expression depth ≤ 3, so |value| < 2^19).

  Positions: a program is flattened to a list of `Instr` (statement + "first statement of line n"
  marker).  A position is the index of a statement.  The only mid-statement positions the code ever
  stores are inside `NEXT v1, v2, …` ("just after variable k"), represented as the pair (index, k).
-/
namespace PcbV.MiniBasic

open PcbV.Gen

/-! ## (a) syntax -/

inductive BinOp | add | sub | lt | le | eq | ne | gt | ge
  deriving DecidableEq, Repr

inductive Expr
  | lit (n : Int)
  | var (v : Nat)
  | bin (op : BinOp) (a b : Expr)
  | frac (n : Int) (d : Nat)       -- the fractional constant n/d, only where the value goes into an integer
  deriving DecidableEq, Repr

inductive Stmt
  | print (e : Expr)
  | let_ (v : Nat) (e : Expr)
  | for_ (v : Nat) (a b : Expr) (c : Option Expr)
  | next (vs : List Nat)                       -- NEXT / NEXT v1, v2, …
  | while_ (c : Expr)
  | wend
  | gosub (n : Nat)
  | ret
  | goto (n : Nat)
  | ifThen (c : Expr) (tgt : Option Nat)       -- IF c THEN [line]; the THEN clause follows in the same line
  | else_ (tgt : Option Nat)                   -- :ELSE [line]
  | on_ (e : Expr) (sub : Bool) (tgts : List Nat)
  | end_
  deriving DecidableEq, Repr

structure Line where
  num : Nat
  stmts : List Stmt
  deriving Repr

structure Instr where
  line : Option Nat      -- `some n`: this is the first statement of line n
  stmt : Stmt
  deriving Repr

def flattenLine (l : Line) : List Instr :=
  match l.stmts with
  | [] => []
  | s :: rest => ⟨some l.num, s⟩ :: rest.map (fun t => ⟨none, t⟩)

def flatten (p : List Line) : List Instr := p.flatMap flattenLine

/-! ## values -/

abbrev Env := Nat → Int

def Env.set (env : Env) (v : Nat) (n : Int) : Env := fun w => if w = v then n else env w

def InRange (n : Int) : Prop := -32768 ≤ n ∧ n ≤ 32767
instance (n : Int) : Decidable (InRange n) := by unfold InRange; infer_instance

def boolVal (b : Bool) : Int := if b then -1 else 0

def BinOp.apply : BinOp → Int → Int → Int
  | .add, x, y => x + y
  | .sub, x, y => x - y
  | .lt, x, y => boolVal (decide (x < y))
  | .le, x, y => boolVal (decide (x ≤ y))
  | .eq, x, y => boolVal (decide (x = y))
  | .ne, x, y => boolVal (decide (x ≠ y))
  | .gt, x, y => boolVal (decide (x > y))
  | .ge, x, y => boolVal (decide (x ≥ y))

/-- conversion of the rational n/d to the integer type (`values.to_type('%', …)`, CINT): nearest integer,
    halves away from zero -/
def cintLit (n : Int) (d : Nat) : Int :=
  let q : Int := ((2 * n.natAbs + d) / (2 * d) : Nat)
  if n < 0 then -q else q

/-- value of an expression.  A fractional constant stands only where the implementation converts the
    value to an integer at once — FOR start / stop / step of an integer counter (`for_` converts all three
    BEFORE it takes the step's sign and tests for an empty loop), LET to an integer variable, ON — so its
    value is the converted one; it is never an operand, a PRINT argument or a condition. -/
def Expr.eval (env : Env) : Expr → Int
  | .lit n => n
  | .var v => env v
  | .bin op a b => op.apply (a.eval env) (b.eval env)
  | .frac n d => cintLit n d

/-- `Integer.sign()` -/
def sign (n : Int) : Int := if n < 0 then -1 else if n = 0 then 0 else 1

/-! ## (b) Mech -/

/-- record pushed by `for_`: (varname, stop, step, step.sign(), forpos, nextpos) -/
structure ForRec where
  var : Nat
  stop : Int
  step : Int
  sgn : Int
  forpos : Nat
  nextpos : Nat × Nat
  deriving DecidableEq, Repr

structure St where
  pc : Nat
  env : Env
  fors : List ForRec
  whiles : List (Nat × Nat)     -- (whilepos, wendpos) as statement indices
  gosubs : List Nat             -- return positions (the statement after the calling one)
  out : List Int                -- printed values, most recent first

inductive Res
  | running (s : St)
  | done (s : St)
  | error (e : Nat) (s : St)

/-- `Program.line_numbers[n]` -/
def lineIndexFrom : List Instr → Nat → Nat → Option Nat
  | [], _, _ => none
  | ins :: rest, i, n => if ins.line = some n then some i else lineIndexFrom rest (i + 1) n

def lineIndex (code : List Instr) (n : Nat) : Option Nat := lineIndexFrom code 0 n

/-- index of the first statement of the next line (`skip_to(END_LINE)`) -/
def skipLine : List Instr → Nat → Nat
  | [], i => i
  | ins :: rest, i => if ins.line.isSome then i else skipLine rest (i + 1)

def nextLine (code : List Instr) (pc : Nat) : Nat := skipLine (code.drop (pc + 1)) (pc + 1)

/-- `skip_block(FOR, NEXT, allow_comma=True)` followed by the reading of the variable in `_find_next`:
    walk over the statements after the FOR (THEN and ELSE clauses are statement starts too);
    `stack` counts the FORs passed.  A `NEXT` with m variables met at stack s ≥ 1 closes
    min(s, max(m,1)) loops; if it has more variables the (s)-th one (0-based) is ours.
    Result: (index of the NEXT, index of the variable, the variable if there is one). -/
def scanNext : List Stmt → Nat → Nat → Option (Nat × Nat × Option Nat)
  | [], _, _ => none
  | st :: rest, i, stack =>
    match st with
    | .for_ _ _ _ _ => scanNext rest (i + 1) (stack + 1)
    | .next vs =>
      if stack = 0 then some (i, 0, vs[0]?)
      else if max vs.length 1 > stack then some (i, stack, vs[stack]?)
      else scanNext rest (i + 1) (stack - max vs.length 1)
    | _ => scanNext rest (i + 1) stack

/-- the statements after position pc (line structure is irrelevant to `skip_block`) -/
def stmtsAfter (code : List Instr) (pc : Nat) : List Stmt := (code.drop (pc + 1)).map (·.stmt)

/-- `_find_next` -/
def findNext (code : List Instr) (pc v : Nat) : R (Nat × Nat) :=
  match scanNext (stmtsAfter code pc) (pc + 1) 0 with
  | none => .error E.for_without_next
  | some (i, k, none) => if k = 0 then .ok (i, k) else .error E.next_without_for
  | some (i, k, some v2) => if v2 = v then .ok (i, k) else .error E.next_without_for

/-- `skip_block(WHILE, WEND)`: index of the matching WEND -/
def scanWend : List Stmt → Nat → Nat → Option Nat
  | [], _, _ => none
  | st :: rest, i, stack =>
    match st with
    | .while_ _ => scanWend rest (i + 1) (stack + 1)
    | .wend => if stack = 0 then some i else scanWend rest (i + 1) (stack - 1)
    | _ => scanWend rest (i + 1) stack

inductive ElseRes
  | found (j : Nat) (tgt : Option Nat)
  | eol (j : Nat)

/-- the ELSE search of `_parse_if` (condition false): nested IFs of the same line are counted -/
def scanElse : List Instr → Nat → Nat → ElseRes
  | [], i, _ => .eol i
  | ins :: rest, i, nest =>
    if ins.line.isSome then .eol i else
    match ins.stmt with
    | .ifThen _ _ => scanElse rest (i + 1) (nest + 1)
    | .else_ tgt => if nest = 0 then .found i tgt else scanElse rest (i + 1) (nest - 1)
    | _ => scanElse rest (i + 1) nest

/-- the search of `iterate_loop`: innermost record whose `nextpos` is the current position;
    the records above it are dropped -/
def findRec (pos : Nat × Nat) : List ForRec → Option (ForRec × List ForRec)
  | [] => none
  | r :: rs => if r.nextpos = pos then some (r, rs) else findRec pos rs

/-- the end test of `iterate_loop`: `counter.gt(stop) if sgn > 0 else stop.gt(counter)` -/
def loopEnds (sgn c stop : Int) : Bool := if sgn > 0 then decide (c > stop) else decide (stop > c)

/-- `iterate_loop(varname)` at position `pos`; `true` = the loop goes on (jumped to forpos) -/
def iterate (s : St) (pos : Nat × Nat) (vn : Option Nat) : Except (Nat × St) (St × Bool) :=
  match findRec pos s.fors with
  | none => .error (E.next_without_for, s)
  | some (r, below) =>
    if vn.isSome ∧ vn ≠ some r.var then .error (E.next_without_for, s) else
    let c := s.env r.var + r.step
    if ¬ InRange c then .error (E.overflow, { s with fors := r :: below }) else
    let env' := s.env.set r.var c
    if loopEnds r.sgn c r.stop then .ok ({ s with env := env', fors := below }, false)
    else .ok ({ s with env := env', fors := r :: below, pc := r.forpos }, true)

/-- `next_`: the variables of `NEXT v_k, v_{k+1}, …` from index k on -/
def nextVars (s : St) (idx : Nat) : Nat → List Nat → Res
  | _, [] => .running { s with pc := idx + 1 }
  | k, v :: vs =>
    match iterate s (idx, k) (some v) with
    | .error (e, s') => .error e s'
    | .ok (s', true) => .running s'
    | .ok (s', false) => nextVars s' idx (k + 1) vs

def jumpTo (code : List Instr) (s : St) (n : Nat) : Res :=
  match lineIndex code n with
  | some j => .running { s with pc := j }
  | none => .error E.undefined_line_number s

/-- `jump_sub`: the line is looked up first, then the return position is pushed -/
def jumpSub (code : List Instr) (s : St) (n : Nat) : Res :=
  match lineIndex code n with
  | some j => .running { s with pc := j, gosubs := (s.pc + 1) :: s.gosubs }
  | none => .error E.undefined_line_number s

/-- `wend_`: drop records until the top one belongs to this WEND -/
def popWhile (pos : Nat) : List (Nat × Nat) → Option (Nat × List (Nat × Nat))
  | [] => none
  | (wh, w) :: rest => if w = pos then some (wh, rest) else popWhile pos rest

def stmtAt (code : List Instr) (i : Nat) : Option Stmt := (code[i]?).map (·.stmt)

/-- the variables of the NEXT statement at index i -/
def nextVarsAt (code : List Instr) (i : Nat) : List Nat :=
  match stmtAt code i with
  | some (.next vs) => vs
  | _ => []

/-- second half of `for_` (the bounds have been evaluated and converted): find the NEXT, set the counter,
    push the record, and take the empty-loop path if the start is already past the end.
    `fixed = true` is the repaired code (after the empty-loop jump the remaining variables of
    `NEXT J, I` are processed as NEXT does); `fixed = false` is the code before the repair, where the
    interpreter found itself in front of the comma and raised Syntax error. -/
def forEnter (fixed : Bool) (code : List Instr) (s : St) (v : Nat) (start stop step : Int) : Res :=
  match findNext code s.pc v with
  | .error e => .error e s
  | .ok np =>
    let r : ForRec := ⟨v, stop, step, sign step, s.pc + 1, np⟩
    let s1 : St := { s with env := s.env.set v start, fors := r :: s.fors }
    if (if sign step ≥ 0 then decide (start > stop) else decide (stop > start)) then
      match iterate { s1 with pc := np.1 } np none with
      | .error (e, s') => .error e s'
      | .ok (s2, true) => .running s2
      | .ok (s2, false) =>
        let vs := nextVarsAt code np.1
        if fixed then nextVars s2 np.1 (np.2 + 1) (vs.drop (np.2 + 1))
        else if np.2 + 1 < vs.length then .error E.stx s2
        else .running { s2 with pc := np.1 + 1 }
    else .running { s1 with pc := s.pc + 1 }

def stepValue (env : Env) : Option Expr → Int
  | none => 1
  | some e => e.eval env

/-- `for_`: start, stop and step are evaluated and converted to the counter's type in this order -/
def execFor (fixed : Bool) (code : List Instr) (s : St) (v : Nat) (a b : Expr) (c : Option Expr) : Res :=
  if ¬ InRange (a.eval s.env) then .error E.overflow s
  else if ¬ InRange (b.eval s.env) then .error E.overflow s
  else if ¬ InRange (stepValue s.env c) then .error E.overflow s
  else forEnter fixed code s v (a.eval s.env) (b.eval s.env) (stepValue s.env c)

/-- one statement of the interpreter loop -/
def stepWith (fixed : Bool) (code : List Instr) (s : St) : Res :=
  match stmtAt code s.pc with
  | none => .done s
  | some st =>
    match st with
    | .print e => .running { s with pc := s.pc + 1, out := e.eval s.env :: s.out }
    | .let_ v e =>
      let n := e.eval s.env
      if InRange n then .running { s with pc := s.pc + 1, env := s.env.set v n } else .error E.overflow s
    | .for_ v a b c => execFor fixed code s v a b c
    | .next vs =>
      match vs with
      | [] =>
        match iterate s (s.pc, 0) none with
        | .error (e, s') => .error e s'
        | .ok (s', true) => .running s'
        | .ok (s', false) => .running { s' with pc := s.pc + 1 }
      | _ => nextVars s s.pc 0 vs
    | .while_ c =>
      match scanWend (stmtsAfter code s.pc) (s.pc + 1) 0 with
      | none => .error E.while_without_wend s
      | some w =>
        if c.eval s.env ≠ 0 then .running { s with pc := s.pc + 1, whiles := (s.pc, w) :: s.whiles }
        else .running { s with pc := w + 1 }
    | .wend =>
      match popWhile s.pc s.whiles with
      | none => .error E.wend_without_while { s with whiles := [] }
      | some (wh, rest) =>
        match stmtAt code wh with
        | some (.while_ c) =>
          if c.eval s.env ≠ 0 then .running { s with pc := wh + 1, whiles := (wh, s.pc) :: rest }
          else .running { s with pc := s.pc + 1, whiles := rest }
        | _ => .error E.stx s
    | .gosub n => jumpSub code s n
    | .ret =>
      match s.gosubs with
      | [] => .error E.return_without_gosub s
      | r :: gs => .running { s with pc := r, gosubs := gs }
    | .goto n => jumpTo code s n
    | .ifThen c tgt =>
      if c.eval s.env ≠ 0 then
        match tgt with
        | none => .running { s with pc := s.pc + 1 }
        | some n => jumpTo code s n
      else
        match scanElse (code.drop (s.pc + 1)) (s.pc + 1) 0 with
        | .eol j => .running { s with pc := j }
        | .found j none => .running { s with pc := j + 1 }
        | .found _ (some n) => jumpTo code s n
    | .else_ _ => .running { s with pc := nextLine code s.pc }
    | .on_ e sub tgts =>
      let n := e.eval s.env
      if ¬ InRange n then .error E.overflow s
      else if n < 0 ∨ n > 255 then .error E.illegal_function_call s
      else
        match (if n = 0 then none else tgts[n.toNat - 1]?) with
        | none => .running { s with pc := s.pc + 1 }
        | some t => if sub then jumpSub code s t else jumpTo code s t
    | .end_ => .done s

def step := stepWith true
def stepOld := stepWith false

inductive Status | ended | err (e : Nat) | fuel
  deriving DecidableEq, Repr

def runWith (fixed : Bool) (code : List Instr) : Nat → St → St × Status
  | 0, s => (s, .fuel)
  | f + 1, s =>
    match stepWith fixed code s with
    | .running s' => runWith fixed code f s'
    | .done s' => (s', .ended)
    | .error e s' => (s', .err e)

def run := runWith true

def St.init : St := ⟨0, fun _ => 0, [], [], [], []⟩

/-- the observable of a RUN: printed values in order, and how the program stopped -/
def trace (fixed : Bool) (p : List Line) (fuel : Nat) : List Int × Status :=
  let (s, st) := runWith fixed (flatten p) fuel St.init
  (s.out.reverse, st)

/-! ## (c) Spec: structured programs -/

inductive SStmt
  | skip
  | seq (a b : SStmt)
  | print (e : Expr)
  | let_ (v : Nat) (e : Expr)
  | for_ (v : Nat) (a b : Expr) (c : Option Expr) (named : Bool) (body : SStmt)   -- named: NEXT v / NEXT
  | while_ (c : Expr) (body : SStmt)
  deriving Repr

/-- a piece of work of the reference semantics: a statement, or a loop that has reached its NEXT / WEND -/
inductive Task
  | stmt (p : SStmt)
  | forNext (v : Nat) (stop step sgn : Int) (body : SStmt)
  | whileWend (c : Expr) (body : SStmt)

structure SSt where
  env : Env
  out : List Int

inductive SRes
  | ok (s : SSt)
  | err (e : Nat) (s : SSt)
  | fuel

def SRes.bind (r : SRes) (k : SSt → SRes) : SRes :=
  match r with
  | .ok s => k s
  | .err e s => .err e s
  | .fuel => .fuel

/-- reference semantics.  FOR: the body runs for start, start+step, … while the counter has not passed
    stop in the step's direction (`loopEnds`); an empty loop goes straight to its NEXT, which — as in the
    code — performs one increment and test.  Errors: Overflow of the converted bounds / of the counter. -/
def exec : Nat → Task → SSt → SRes
  | 0, _, _ => .fuel
  | _ + 1, .stmt .skip, s => .ok s
  | f + 1, .stmt (.seq a b), s => (exec f (.stmt a) s).bind (fun s' => exec f (.stmt b) s')
  | _ + 1, .stmt (.print e), s => .ok { s with out := e.eval s.env :: s.out }
  | _ + 1, .stmt (.let_ v e), s =>
    if InRange (e.eval s.env) then .ok { s with env := s.env.set v (e.eval s.env) } else .err E.overflow s
  | f + 1, .stmt (.for_ v a b c _ body), s =>
    let start := a.eval s.env
    let stop := b.eval s.env
    let step := stepValue s.env c
    if ¬ InRange start then .err E.overflow s
    else if ¬ InRange stop then .err E.overflow s
    else if ¬ InRange step then .err E.overflow s
    else
      let s1 : SSt := { s with env := s.env.set v start }
      if (if sign step ≥ 0 then decide (start > stop) else decide (stop > start)) then
        exec f (.forNext v stop step (sign step) body) s1
      else
        (exec f (.stmt body) s1).bind (fun s2 => exec f (.forNext v stop step (sign step) body) s2)
  | f + 1, .forNext v stop step sgn body, s =>
    let c := s.env v + step
    if ¬ InRange c then .err E.overflow s else
    let s1 : SSt := { s with env := s.env.set v c }
    if loopEnds sgn c stop then .ok s1
    else (exec f (.stmt body) s1).bind (fun s2 => exec f (.forNext v stop step sgn body) s2)
  | f + 1, .stmt (.while_ c body), s =>
    if c.eval s.env ≠ 0 then
      (exec f (.stmt body) s).bind (fun s2 => exec f (.whileWend c body) s2)
    else .ok s
  | f + 1, .whileWend c body, s =>
    if c.eval s.env ≠ 0 then
      (exec f (.stmt body) s).bind (fun s2 => exec f (.whileWend c body) s2)
    else .ok s

/-- compilation of a structured program to the flat statement list -/
def compile : SStmt → List Stmt
  | .skip => []
  | .seq a b => compile a ++ compile b
  | .print e => [.print e]
  | .let_ v e => [.let_ v e]
  | .for_ v a b c named body =>
    .for_ v a b c :: (compile body ++ [.next (if named then [v] else [])])
  | .while_ c body => .while_ c :: (compile body ++ [.wend])

end PcbV.MiniBasic
