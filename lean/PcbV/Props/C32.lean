import PcbV.Lemmas.Paint
import PcbV.Lemmas.PaintView
import PcbV.Lemmas.PaintTerm
/-
  C32 — PAINT fills exactly the enclosed region.

  Property theorems about `PcbV.Model.Paint` (`Graphics._flood_fill`, `_scanline_until`, `_check_scanline`
  as coded, with fuel).  The specification is `Region B g b sx sy`: the 4-connected component of non-border
  pixels of the initial picture `g` that contains the seed `(sx, sy)` and lies inside the viewport bounds `B`
  (inductive reachability; empty when the seed is outside the bounds or on a border pixel).
  All theorems quantify over every picture, every bounds rectangle, every seed, every pair of attributes
  and every fuel.
-/
namespace PcbV.C32
open PcbV PcbV.Paint

/-! ### the specification is what the statement says -/

/-- region pixels lie inside the viewport and are not border pixels -/
theorem region_in_bounds_nonborder (B : Bounds) (g : Grid) (b : Nat) (sx sy x y : Int)
    (h : Region B g b sx sy x y) : B.has x y ∧ g x y ≠ b := ⟨h.has, h.nonborder⟩

/-- the region is empty when the seed is outside the viewport or on a border pixel -/
theorem region_empty (B : Bounds) (g : Grid) (b : Nat) (sx sy : Int)
    (h : ¬ B.has sx sy ∨ g sx sy = b) (x y : Int) : ¬ Region B g b sx sy x y := by
  intro hR
  induction hR with
  | seed h1 h2 => rcases h with h | h; exact h h1; exact h2 h
  | step _ _ _ _ ih => exact ih

/-- the region is closed under stepping to a non-border 4-neighbour inside the viewport, and contains the
    seed when that is a non-border pixel inside the viewport (so it is the whole component) -/
theorem region_is_component (B : Bounds) (g : Grid) (b : Nat) (sx sy : Int) :
    (B.has sx sy → g sx sy ≠ b → Region B g b sx sy sx sy) ∧
    (∀ x y x' y', Region B g b sx sy x y → Adj x y x' y' → B.has x' y' → g x' y' ≠ b →
      Region B g b sx sy x' y') :=
  ⟨Region.seed, fun _ _ _ _ h a hb hn => Region.step h a hb hn⟩

/-! ### soundness -/

/-- Flood fill with any pattern (`Fill`: solid or tiled), any fuel: every pixel that differs from the
    initial picture lies in the region and shows the attribute the pattern prescribes there. -/
theorem flood_fill_sound (B : Bounds) (F : Fill) (b fuel : Nat) (g : Grid) (sx sy x y : Int)
    (h : (floodFill B F b fuel g sx sy).grid x y ≠ g x y) :
    Region B g b sx sy x y ∧ (floodFill B F b fuel g sx sy).grid x y = F.val x y := by
  unfold floodFill at h ⊢
  by_cases h1 : sx < B.x0 ∨ sx > B.x1 ∨ sy < B.y0 ∨ sy > B.y1
  · rw [if_pos h1] at h; exact absurd rfl h
  · rw [if_neg h1] at h ⊢
    by_cases h2 : g sx sy = b
    · rw [if_pos h2] at h; exact absurd rfl h
    · rw [if_neg h2] at h ⊢
      have hI : SInv B F g b sx sy g [⟨sx, sx, sy, 0⟩] := by
        constructor
        · intro x y hne; exact absurd rfl hne
        · intro e he
          simp only [List.mem_singleton] at he
          subst he
          refine ⟨Int.le_refl _, Or.inl rfl, ?_⟩
          intro x hx1 hx2
          have : x = sx := by
            have a : sx ≤ x := hx1
            have c : x ≤ sx := hx2
            omega
          subst this
          exact Region.seed (by unfold Bounds.has; omega) h2
      exact loop_sound fuel g _ hI x y h

/-- **paint_sound.**  A solid PAINT, for any fuel: every changed pixel lies in the 4-connected region of
    non-border pixels containing the seed inside the viewport, and has been set to the fill attribute. -/
theorem paint_sound (B : Bounds) (fill b fuel : Nat) (g : Grid) (sx sy x y : Int)
    (h : (paint B fill b fuel g sx sy).grid x y ≠ g x y) :
    Region B g b sx sy x y ∧ (paint B fill b fuel g sx sy).grid x y = fill :=
  flood_fill_sound B (solidFill fill) b fuel g sx sy x y h

/-- nothing changes when the seed is outside the viewport or on a border pixel (and the loop is not even
    entered) -/
theorem paint_nothing (B : Bounds) (fill b fuel : Nat) (g : Grid) (sx sy : Int)
    (h : ¬ B.has sx sy ∨ g sx sy = b) :
    (paint B fill b fuel g sx sy).grid = g ∧ (paint B fill b fuel g sx sy).ops = [] ∧
      (paint B fill b fuel g sx sy).finished = true := by
  unfold paint floodFill
  by_cases h1 : sx < B.x0 ∨ sx > B.x1 ∨ sy < B.y0 ∨ sy > B.y1
  · rw [if_pos h1]; exact ⟨rfl, rfl, rfl⟩
  · rw [if_neg h1]
    rcases h with h | h
    · exact absurd (by unfold Bounds.has; omega) h
    · rw [if_pos h]; exact ⟨rfl, rfl, rfl⟩

/-- pixels outside the viewport and border pixels are never changed -/
theorem paint_keeps_borders_and_outside (B : Bounds) (fill b fuel : Nat) (g : Grid) (sx sy x y : Int)
    (h : ¬ B.has x y ∨ g x y = b) : (paint B fill b fuel g sx sy).grid x y = g x y := by
  by_cases hc : (paint B fill b fuel g sx sy).grid x y = g x y
  · exact hc
  · have hR := (paint_sound B fill b fuel g sx sy x y hc).1
    rcases h with h | h
    · exact absurd hR.has h
    · exact absurd h hR.nonborder

/-! ### the inner loop's fuel is sufficient -/

/-- `_check_scanline`: the `while x <= x_stop` loop is given `x_stop - x_start + 1` iterations; any larger
    fuel gives the same result, i.e. the fuel never cuts the loop short. -/
theorem check_scanline_fuel_sufficient (B : Bounds) (F : Fill) (g : Grid) (b : Nat) (y xstop d : Int) :
    ∀ (n m : Nat) (x : Int) (st : List Iv), (xstop + 1 - x).toNat ≤ n → (xstop + 1 - x).toNat ≤ m →
      checkLoop B F g b y xstop d n x st = checkLoop B F g b y xstop d m x st
  | 0, 0, _, _, _, _ => rfl
  | 0, m + 1, x, st, h, _ => by
    unfold checkLoop
    rw [if_neg (by omega)]
  | n + 1, 0, x, st, _, h => by
    unfold checkLoop
    rw [if_neg (by omega)]
  | n + 1, m + 1, x, st, hn, hm => by
    unfold checkLoop
    by_cases hle : x ≤ xstop
    · rw [if_pos hle, if_pos hle]
      exact check_scanline_fuel_sufficient B F g b y xstop d n m _ _ (by omega) (by omega)
    · rw [if_neg hle, if_neg hle]

/-! ### completeness -/

/-- The full completeness statement: if the region contains no pixel that already shows the fill attribute,
    the loop terminates within an explicit fuel bound and every region pixel is filled.
    Proved below as `paint_complete`. -/
def PaintComplete : Prop :=
  ∀ (B : Bounds) (fill b : Nat) (g : Grid) (sx sy : Int),
    (∀ x y, Region B g b sx sy x y → g x y ≠ fill) →
    ∀ fuel, fuel ≥ 2 * ((B.x1 - B.x0 + 1) * (B.y1 - B.y0 + 1) * (B.x1 - B.x0 + 3)).toNat + 1 →
      (paint B fill b fuel g sx sy).finished = true ∧
      ∀ x y, Region B g b sx sy x y → (paint B fill b fuel g sx sy).grid x y = fill

/-- **Termination.**  For EVERY picture (pre-filled pixels or not), every seed and every pair of attributes the
    main loop of a solid PAINT runs empty within the explicit fuel bound `2*W*H*(W+2) + 1` (`W`, `H` the size of
    the viewport).  Measure: `2*K*U + L + (K if the top of the stack contains no unfilled pixel)`, with `U` the
    number of pixels inside the bounds not showing the fill attribute, `L` the stack length and `K = W+1` the
    largest number of intervals one iteration pushes: an interval is pushed only if it contains an unfilled
    pixel, the write of that iteration is in another row, so after an iteration that pushed something the top
    is live; popping a live interval fills at least one new pixel; writes never un-fill a pixel. -/
theorem paint_terminates (B : Bounds) (fill b : Nat) (g : Grid) (sx sy : Int) (fuel : Nat)
    (h : fuel ≥ 2 * ((B.x1 - B.x0 + 1) * (B.y1 - B.y0 + 1) * (B.x1 - B.x0 + 3)).toNat + 1) :
    (paint B fill b fuel g sx sy).finished = true :=
  floodFill_finishes B fill b g sx sy fuel h

/-- **paint_complete (conditional form, kept from the first delivery).**  If the region contains no pixel
    already in the fill attribute, then whenever the loop has run to completion every pixel of the region shows
    the fill attribute — for every region shape (coverage invariant of the scanline algorithm: every region
    neighbour of a filled region pixel is filled or lies in a stacked interval, and the row behind a directed
    interval is filled over that interval).  The hypothesis `hfin` is discharged by `paint_terminates`; the
    full statement is `paint_complete` below. -/
theorem paint_complete_partial (B : Bounds) (fill b fuel : Nat) (g : Grid) (sx sy : Int)
    (hpre : ∀ x y, Region B g b sx sy x y → g x y ≠ fill)
    (hfin : (paint B fill b fuel g sx sy).finished = true) :
    ∀ x y, Region B g b sx sy x y → (paint B fill b fuel g sx sy).grid x y = fill := by
  intro x y hR
  have hseed : B.has sx sy ∧ g sx sy ≠ b := by
    by_cases h : ¬ B.has sx sy ∨ g sx sy = b
    · exact absurd hR (region_empty B g b sx sy h x y)
    · constructor
      · exact Classical.byContradiction fun h1 => h (Or.inl h1)
      · exact fun h2 => h (Or.inr h2)
  obtain ⟨hb, hnb⟩ := hseed
  have hb' := hb
  unfold Bounds.has at hb'
  unfold paint floodFill at hfin ⊢
  rw [if_neg (by omega), if_neg hnb] at hfin ⊢
  have hC : CInv B fill g b sx sy g [⟨sx, sx, sy, 0⟩] := by
    refine ⟨?_, ?_, ?_, ?_⟩
    · constructor
      · intro x y hne; exact absurd rfl hne
      · intro e he
        simp only [List.mem_singleton] at he
        subst he
        refine ⟨Int.le_refl _, Or.inl rfl, ?_⟩
        intro x hx1 hx2
        have : x = sx := by
          have a : sx ≤ x := hx1
          have c : x ≤ sx := hx2
          omega
        subst this
        exact Region.seed hb hnb
    · exact Or.inr ⟨_, List.mem_singleton.mpr rfl, rfl, Int.le_refl _, Int.le_refl _⟩
    · intro x y x' y' hR1 hf _ _
      exact absurd hf (hpre x y hR1)
    · intro e he hd
      simp only [List.mem_singleton] at he
      subst he
      exact absurd rfl hd
  exact loop_complete fuel g _ hC hfin x y hR

/-- **paint_complete.**  The full completeness statement `PaintComplete`: when the region contains no pixel
    already in the fill attribute, then for every fuel above the explicit bound the loop has terminated and
    every pixel of the region shows the fill attribute. -/
theorem paint_complete : PaintComplete := by
  intro B fill b g sx sy hpre fuel hfuel
  have hfin := paint_terminates B fill b g sx sy fuel hfuel
  exact ⟨hfin, paint_complete_partial B fill b fuel g sx sy hpre hfin⟩

/-- **PAINT fills exactly the enclosed region**: with enough fuel and no pre-filled pixel in the region, the
    resulting picture is "region := fill attribute, everything else unchanged". -/
theorem paint_exact (B : Bounds) (fill b : Nat) (g : Grid) (sx sy : Int)
    (hpre : ∀ x y, Region B g b sx sy x y → g x y ≠ fill) (fuel : Nat)
    (hfuel : fuel ≥ 2 * ((B.x1 - B.x0 + 1) * (B.y1 - B.y0 + 1) * (B.x1 - B.x0 + 3)).toNat + 1) (x y : Int) :
    (Region B g b sx sy x y → (paint B fill b fuel g sx sy).grid x y = fill) ∧
    (¬ Region B g b sx sy x y → (paint B fill b fuel g sx sy).grid x y = g x y) := by
  refine ⟨(paint_complete B fill b g sx sy hpre fuel hfuel).2 x y, ?_⟩
  intro hn
  by_cases hc : (paint B fill b fuel g sx sy).grid x y = g x y
  · exact hc
  · exact absurd (paint_sound B fill b fuel g sx sy x y hc).1 hn

/-- corollary: on completion the picture is exactly "region := fill, everything else unchanged" -/
theorem paint_exact_on_completion (B : Bounds) (fill b fuel : Nat) (g : Grid) (sx sy : Int)
    (hpre : ∀ x y, Region B g b sx sy x y → g x y ≠ fill)
    (hfin : (paint B fill b fuel g sx sy).finished = true) (x y : Int) :
    (Region B g b sx sy x y → (paint B fill b fuel g sx sy).grid x y = fill) ∧
    (¬ Region B g b sx sy x y → (paint B fill b fuel g sx sy).grid x y = g x y) := by
  refine ⟨paint_complete_partial B fill b fuel g sx sy hpre hfin x y, ?_⟩
  intro hn
  by_cases hc : (paint B fill b fuel g sx sy).grid x y = g x y
  · exact hc
  · exact absurd (paint_sound B fill b fuel g sx sy x y hc).1 hn

/-! ### through the viewport of C30 -/

/-- The interval writes of a solid PAINT, issued through `GraphicsViewPort.__setitem__` (C30's model of the
    clipping and of the Python slice semantics) on the page behind any well-formed viewport, give in viewport
    coordinates exactly the picture computed by the flood-fill model. -/
theorem paint_page_eq (v : Viewport.View) (hv : v.wf) (fill b fuel : Nat) (pg : Draw.Page) (sx sy : Int) :
    viewGrid v (paintPage v fill b fuel pg sx sy) =
      (paint (viewBounds v) fill b fuel (viewGrid v pg) sx sy).grid := by
  have hin : ∀ op ∈ (paint (viewBounds v) fill b fuel (viewGrid v pg) sx sy).ops, OpIn (viewBounds v) op := by
    unfold paint floodFill
    by_cases h1 : sx < (viewBounds v).x0 ∨ sx > (viewBounds v).x1 ∨ sy < (viewBounds v).y0 ∨ sy > (viewBounds v).y1
    · rw [if_pos h1]; intro op h; cases h
    · rw [if_neg h1]
      by_cases h2 : viewGrid v pg sx sy = b
      · rw [if_pos h2]; intro op h; cases h
      · rw [if_neg h2]
        refine loop_ops_in (g0 := viewGrid v pg) (sx := sx) (sy := sy) fuel _ _ ?_
        constructor
        · intro x y hne; exact absurd rfl hne
        · intro e he
          simp only [List.mem_singleton] at he
          subst he
          refine ⟨Int.le_refl _, Or.inl rfl, ?_⟩
          intro x hx1 hx2
          have : x = sx := by
            have a : sx ≤ x := hx1
            have c : x ≤ sx := hx2
            omega
          subst this
          exact Region.seed (by unfold Bounds.has; omega) h2
  unfold paintPage
  rw [applyOps_replay v hv fill _ pg hin]
  unfold paint floodFill
  by_cases h1 : sx < (viewBounds v).x0 ∨ sx > (viewBounds v).x1 ∨ sy < (viewBounds v).y0 ∨ sy > (viewBounds v).y1
  · rw [if_pos h1]; rfl
  · rw [if_neg h1]
    by_cases h2 : viewGrid v pg sx sy = b
    · rw [if_pos h2]; rfl
    · rw [if_neg h2]
      exact (loop_grid_replay (viewBounds v) fill b fuel _ _).symm

/-- **paint_sound on the pixel matrix.**  Every cell of the page that a solid PAINT changes lies in the
    viewport rectangle, corresponds to a pixel of the region (in viewport coordinates), and holds the fill
    attribute. -/
theorem paint_page_sound (v : Viewport.View) (hv : v.wf) (fill b fuel : Nat) (pg : Draw.Page)
    (sx sy cx cy : Int) (h : paintPage v fill b fuel pg sx sy cx cy ≠ pg cx cy) :
    v.inRect cx cy ∧
    Region (viewBounds v) (viewGrid v pg) b sx sy (cx - v.offX) (cy - v.offY) ∧
    paintPage v fill b fuel pg sx sy cx cy = fill := by
  have e := congrFun (congrFun (paint_page_eq v hv fill b fuel pg sx sy) (cx - v.offX)) (cy - v.offY)
  have ex : cx - v.offX + v.offX = cx := by omega
  have ey : cy - v.offY + v.offY = cy := by omega
  have e1 : viewGrid v (paintPage v fill b fuel pg sx sy) (cx - v.offX) (cy - v.offY) =
      paintPage v fill b fuel pg sx sy cx cy := by
    unfold viewGrid; rw [ex, ey]
  have e2 : viewGrid v pg (cx - v.offX) (cy - v.offY) = pg cx cy := by
    unfold viewGrid; rw [ex, ey]
  rw [e1] at e
  have hne : (paint (viewBounds v) fill b fuel (viewGrid v pg) sx sy).grid (cx - v.offX) (cy - v.offY) ≠
      viewGrid v pg (cx - v.offX) (cy - v.offY) := by
    rw [← e, e2]; exact h
  obtain ⟨hR, hf⟩ := paint_sound (viewBounds v) fill b fuel (viewGrid v pg) sx sy _ _ hne
  refine ⟨?_, hR, by rw [e]; exact hf⟩
  have hh := hR.has
  have := ViewportLemmas.xmin_off v; have := ViewportLemmas.xmax_off v
  have := ViewportLemmas.ymin_off v; have := ViewportLemmas.ymax_off v
  unfold Bounds.has viewBounds at hh
  simp only [] at hh
  unfold Viewport.View.inRect
  omega

/-! ### non-vacuity -/

/-- a 5x3 viewport: border attribute 3 in column 2 of rows 0 and 2 (a wall with a gap in row 1) -/
def demo : Grid := fun x y => if x = 2 ∧ (y = 0 ∨ y = 2) then 3 else 0

def demoB : Bounds := ⟨0, 0, 4, 2⟩

/-- the fill passes through the gap, finishes, and fills all 13 non-border pixels -/
example : (paint demoB 1 3 100 demo 0 0).finished = true := by decide
example : (paint demoB 1 3 100 demo 0 0).grid 4 2 = 1 := by decide
example : (paint demoB 1 3 100 demo 0 0).grid 2 0 = 3 := by decide
example : (paint demoB 1 3 100 demo 0 0).ops.length = 5 := by decide
/-- the hypothesis of `paint_complete_partial` is satisfiable: here the region has no pre-filled pixel -/
example : ∀ x y, Region demoB demo 3 0 0 x y → demo x y ≠ 1 := by
  intro x y _; unfold demo; split <;> omega
example : Region demoB demo 3 0 0 1 0 :=
  Region.step (Region.seed (by simp [Bounds.has, demoB]) (by decide))
    (Or.inl ⟨rfl, Or.inl rfl⟩) (by simp [Bounds.has, demoB]) (by decide)
/-- seed on the border: nothing happens -/
example : (paint demoB 1 3 100 demo 2 0).ops = [] := by decide
/-- the fuel bound of `paint_terminates` for this 5x3 viewport is 2*5*3*7+1 = 211 -/
example : (paint demoB 1 3 211 demo 0 0).finished = true :=
  paint_terminates demoB 1 3 demo 0 0 211 (by decide)
example : (paint demoB 1 3 211 demo 0 0).grid 4 2 = 1 :=
  (paint_complete demoB 1 3 demo 0 0 (by intro x y _; unfold demo; split <;> omega) 211 (by decide)).2 4 2
    (by
      -- (4,2) is reached from (0,0): along row 0 to x=1, down to row 1, along row 1 to x=4, down to row 2
      have s0 : Region demoB demo 3 0 0 0 0 := Region.seed (by simp [Bounds.has, demoB]) (by decide)
      have st : ∀ {x y x' y'}, Region demoB demo 3 0 0 x y → Adj x y x' y' → demoB.has x' y' → demo x' y' ≠ 3 →
          Region demoB demo 3 0 0 x' y' := fun h a hb hn => Region.step h a hb hn
      have r01 := st s0 (x' := 0) (y' := 1) (Or.inr ⟨rfl, Or.inl rfl⟩) (by simp [Bounds.has, demoB]) (by decide)
      have r11 := st r01 (x' := 1) (y' := 1) (Or.inl ⟨rfl, Or.inl rfl⟩) (by simp [Bounds.has, demoB]) (by decide)
      have r21 := st r11 (x' := 2) (y' := 1) (Or.inl ⟨rfl, Or.inl rfl⟩) (by simp [Bounds.has, demoB]) (by decide)
      have r31 := st r21 (x' := 3) (y' := 1) (Or.inl ⟨rfl, Or.inl rfl⟩) (by simp [Bounds.has, demoB]) (by decide)
      have r41 := st r31 (x' := 4) (y' := 1) (Or.inl ⟨rfl, Or.inl rfl⟩) (by simp [Bounds.has, demoB]) (by decide)
      exact st r41 (x' := 4) (y' := 2) (Or.inr ⟨rfl, Or.inl rfl⟩) (by simp [Bounds.has, demoB]) (by decide))
/-- with too little fuel the loop is cut short (`finished = false`), soundness still applies -/
example : (paint demoB 1 3 2 demo 0 0).finished = false := by decide
/-- through a relative viewport VIEW (2,1)-(6,3) on a 10x6 page: the cell (6,3) = viewport pixel (4,2) is filled,
    the page outside the viewport is untouched -/
example : paintPage ⟨10, 6, 2, 1, 6, 3, false, true⟩ 1 3 100 (fun x y => demo (x - 2) (y - 1)) 0 0 6 3 = 1 := by decide
example : paintPage ⟨10, 6, 2, 1, 6, 3, false, true⟩ 1 3 100 (fun x y => demo (x - 2) (y - 1)) 0 0 7 3 = 0 := by decide
/-- a pre-filled row stops the fill (the statement does not demand completeness there): rows 0..2 of a
    1-column viewport, the middle pixel already in the fill attribute -/
example : (paint ⟨0, 0, 0, 2⟩ 1 3 100 (fun _ y => if y = 1 then 1 else 0) 0 0).grid 0 2 = 0 := by decide

end PcbV.C32
