import PcbV.Model.Draw
/-
  Lemmas about `PcbV.Model.Viewport` / `PcbV.Model.Draw` used by the C30 property theorems
  (Python slice normalisation, one axis of `_convert_slice`, primitives that issue only single-pixel writes).
-/
namespace PcbV.ViewportLemmas
open PcbV PcbV.Viewport PcbV.Draw

/-- the stop bound of an index expression, shifted to absolute coordinates, is not negative -/
def stopOk (off : Int) : Ix → Prop
  | .int i => 0 ≤ i + 1 + off
  | .slice _ (some b) => 0 ≤ b + off
  | .slice _ none => True

theorem pyNorm_of_range (len b : Int) (h0 : 0 ≤ b) (h1 : b ≤ len) : pyNorm len b = b := by
  unfold pyNorm; simp only []; split <;> split <;> (try split) <;> omega

theorem pyNorm_lo (len b : Int) (h0 : 0 ≤ b) : b ≤ pyNorm len b ∨ pyNorm len b = len := by
  unfold pyNorm; simp only []; split <;> split <;> (try split) <;> omega

/-- core of the axis argument: start `s` clipped below, stop `e` clipped above, stop not wrapped -/
theorem axis_core (len a0 a1 bmin bmax off s e k : Int)
    (h0 : 0 ≤ a0) (h1 : a0 ≤ a1) (h2 : a1 < len)
    (hmin : bmin + off = a0) (hmax : bmax + off = a1) (hs : 0 ≤ e + off)
    (hk : pyNorm len (max s bmin + off) ≤ k ∧ k < pyNorm len (min e (bmax + 1) + off)) :
    a0 ≤ k ∧ k ≤ a1 := by
  have e1 : pyNorm len (min e (bmax + 1) + off) = min e (bmax + 1) + off :=
    pyNorm_of_range _ _ (by omega) (by omega)
  rw [e1] at hk
  rcases pyNorm_lo len (max s bmin + off) (by omega) with h | h <;> omega

/-- the same, keeping the clipped bounds themselves -/
theorem axis_tight (len a0 a1 bmin bmax off s e k : Int)
    (h0 : 0 ≤ a0) (h1 : a0 ≤ a1) (h2 : a1 < len)
    (hmin : bmin + off = a0) (hmax : bmax + off = a1) (hs : 0 ≤ e + off)
    (hk : pyNorm len (max s bmin + off) ≤ k ∧ k < pyNorm len (min e (bmax + 1) + off)) :
    max s bmin + off ≤ k ∧ k < min e (bmax + 1) + off := by
  have e1 : pyNorm len (min e (bmax + 1) + off) = min e (bmax + 1) + off :=
    pyNorm_of_range _ _ (by omega) (by omega)
  rw [e1] at hk
  rcases pyNorm_lo len (max s bmin + off) (by omega) with h | h <;> omega

/-- a closed slice `s:e`: the selected positions lie between the clipped bounds -/
theorem clipAxis_sel_tight (len a0 a1 bmin bmax off s e k : Int)
    (h0 : 0 ≤ a0) (h1 : a0 ≤ a1) (h2 : a1 < len)
    (hmin : bmin + off = a0) (hmax : bmax + off = a1) (hs : 0 ≤ e + off)
    (hk : (View.clipAxis (.slice (some s) (some e)) bmin bmax off).sel len k = true) :
    max s bmin + off ≤ k ∧ k < min e (bmax + 1) + off := by
  unfold Ix.sel at hk
  simp only [decide_eq_true_eq] at hk
  simp only [View.clipAxis, View.asSlice, Option.getD_some, Ix.range, pySlice] at hk
  exact axis_tight len a0 a1 bmin bmax off s e k h0 h1 h2 hmin hmax hs hk

/-- one axis: the positions selected by the clipped, converted slice lie in `a0..a1` -/
theorem clipAxis_sel (ix : Ix) (len a0 a1 bmin bmax off k : Int)
    (h0 : 0 ≤ a0) (h1 : a0 ≤ a1) (h2 : a1 < len)
    (hmin : bmin + off = a0) (hmax : bmax + off = a1)
    (hs : stopOk off ix)
    (hk : (View.clipAxis ix bmin bmax off).sel len k = true) : a0 ≤ k ∧ k ≤ a1 := by
  unfold Ix.sel at hk
  simp only [decide_eq_true_eq] at hk
  match ix, hs, hk with
  | .int i, hs, hk =>
    simp only [View.clipAxis, View.asSlice, Option.getD_some, Ix.range, pySlice] at hk
    exact axis_core len a0 a1 bmin bmax off i (i + 1) k h0 h1 h2 hmin hmax (by simpa [stopOk] using hs) hk
  | .slice none none, _, hk =>
    simp only [View.clipAxis, View.asSlice, Option.getD_none, Ix.range, pySlice] at hk
    exact axis_core len a0 a1 bmin bmax off bmin bmax k h0 h1 h2 hmin hmax (by omega) hk
  | .slice (some a) none, _, hk =>
    simp only [View.clipAxis, View.asSlice, Option.getD_none, Option.getD_some, Ix.range, pySlice] at hk
    exact axis_core len a0 a1 bmin bmax off a bmax k h0 h1 h2 hmin hmax (by omega) hk
  | .slice none (some b), hs, hk =>
    simp only [View.clipAxis, View.asSlice, Option.getD_none, Option.getD_some, Ix.range, pySlice] at hk
    exact axis_core len a0 a1 bmin bmax off bmin b k h0 h1 h2 hmin hmax (by simpa [stopOk] using hs) hk
  | .slice (some a) (some b), hs, hk =>
    simp only [View.clipAxis, View.asSlice, Option.getD_some, Ix.range, pySlice] at hk
    exact axis_core len a0 a1 bmin bmax off a b k h0 h1 h2 hmin hmax (by simpa [stopOk] using hs) hk


theorem xmin_off (v : View) : v.xmin + v.offX = v.x0 := by
  unfold View.xmin View.offX; cases v.absolute <;> simp
theorem ymin_off (v : View) : v.ymin + v.offY = v.y0 := by
  unfold View.ymin View.offY; cases v.absolute <;> simp
theorem xmax_off (v : View) : v.xmax + v.offX = v.x1 := by
  unfold View.xmax View.offX View.width; cases v.absolute <;> simp <;> omega
theorem ymax_off (v : View) : v.ymax + v.offY = v.y1 := by
  unfold View.ymax View.offY View.height; cases v.absolute <;> simp <;> omega

theorem pyIndex_of_range (len i : Int) (h0 : 0 ≤ i) (h1 : i < len) : pyIndex len i = some i := by
  unfold pyIndex; simp only []; split <;> split <;> first | rfl | omega

theorem sel_int (len i k : Int) (h0 : 0 ≤ i) (h1 : i < len) :
    (Ix.int i).sel len k = true ↔ k = i := by
  have e : (Ix.int i).range len = (i, i + 1) := by
    simp only [Ix.range, pyIndex_of_range len i h0 h1]
  unfold Ix.sel
  rw [e]
  simp only [decide_eq_true_eq]
  omega

theorem sel_empty (len k : Int) : (Ix.slice (some 0) (some 0)).sel len k = false := by
  have e : (Ix.slice (some 0) (some 0)).range len = (pyNorm len 0, pyNorm len 0) := rfl
  unfold Ix.sel
  rw [e]
  simp only [decide_eq_false_iff_not]
  omega

theorem convertSlice_int (v : View) (x y : Int) :
    v.convertSlice (.int y) (.int x) =
      if v.contains x y then (.int (y + v.offY), .int (x + v.offX))
      else (.slice (some 0) (some 0), .slice (some 0) (some 0)) := rfl

/-- a single-pixel assignment writes exactly the cell `(x + offX, y + offY)` if the viewport contains the
    point, and nothing otherwise -/
theorem pixel_written (v : View) (hv : v.wf) (x y cx cy : Int) :
    v.written (.int y) (.int x) cx cy = true ↔
      (v.contains x y = true ∧ cx = x + v.offX ∧ cy = y + v.offY) := by
  obtain ⟨h0, h1, h2, h3, h4, h5⟩ := hv
  have ex0 := xmin_off v; have ex1 := xmax_off v; have ey0 := ymin_off v; have ey1 := ymax_off v
  unfold View.written
  rw [convertSlice_int]
  by_cases hc : v.contains x y = true
  · have hc' := hc
    unfold View.contains at hc'
    simp only [decide_eq_true_eq] at hc'
    rw [if_pos hc]
    simp only [Bool.and_eq_true]
    rw [sel_int v.H (y + v.offY) cy (by omega) (by omega), sel_int v.W (x + v.offX) cx (by omega) (by omega)]
    constructor
    · intro h; exact ⟨hc, h.2, h.1⟩
    · intro h; exact ⟨h.2.2, h.2.1⟩
  · rw [if_neg hc]
    simp only [sel_empty, Bool.and_false]
    constructor
    · intro h; exact absurd h (by simp)
    · intro h; exact absurd h.1 hc

/-! ### primitives that issue only single-pixel assignments -/

/-- every op of the list is a single-pixel assignment `graph_view[y, x] = attr` -/
def AllPixels (ops : Ops) : Prop := ∀ op ∈ ops, op.isPixel = true

theorem allPixels_nil : AllPixels [] := by intro op h; cases h

theorem allPixels_append {a b : Ops} (ha : AllPixels a) (hb : AllPixels b) : AllPixels (a ++ b) := by
  intro op h
  rcases List.mem_append.mp h with h | h
  · exact ha op h
  · exact hb op h

theorem allPixels_cons {a : SetItem} {b : Ops} (ha : a.isPixel = true) (hb : AllPixels b) :
    AllPixels (a :: b) := by
  intro op h
  rcases List.mem_cons.mp h with h | h
  · rw [h]; exact ha
  · exact hb op h

theorem allPixels_ite (c : Prop) [Decidable c] {a b : Ops} (ha : AllPixels a) (hb : AllPixels b) :
    AllPixels (if c then a else b) := by
  split <;> assumption

theorem isPixel_pixel (x y : Int) : (SetItem.pixel x y).isPixel = true := rfl

theorem allPixels_opt (c : Bool) (a : SetItem) (ha : a.isPixel = true) :
    AllPixels (if c then [a] else []) := by
  cases c
  · exact allPixels_nil
  · exact allPixels_cons ha allPixels_nil

theorem lineLoop_pixels (steep : Bool) (pattern : Nat) (sx sy dx dy : Int) (n : Nat) :
    ∀ (x y : Int) (mask : Nat) (err : Int), AllPixels (lineLoop steep pattern sx sy dx dy n x y mask err) := by
  induction n with
  | zero => intro x y mask err; exact allPixels_nil
  | succ n ih =>
    intro x y mask err
    unfold lineLoop
    apply allPixels_append
    · apply allPixels_opt
      cases steep <;> exact isPixel_pixel _ _
    · exact ih _ _ _ _

theorem drawLine_pixels (v : View) (x0 y0 x1 y1 : Int) (pattern : Nat) :
    AllPixels (drawLine v x0 y0 x1 y1 pattern) := by
  unfold drawLine
  exact lineLoop_pixels _ _ _ _ _ _ _ _ _ _ _

theorem straightLoop_pixels (dirX : Bool) (pattern : Nat) (q sp : Int) (n : Nat) :
    ∀ (p : Int) (mask : Nat), AllPixels (straightLoop dirX pattern q sp n p mask).1 := by
  induction n with
  | zero => intro p mask; exact allPixels_nil
  | succ n ih =>
    intro p mask
    unfold straightLoop
    apply allPixels_append
    · apply allPixels_opt
      cases dirX <;> exact isPixel_pixel _ _
    · exact ih _ _

theorem drawStraight_pixels (x0 y0 x1 y1 : Int) (pattern mask : Nat) :
    AllPixels (drawStraight x0 y0 x1 y1 pattern mask).1 := by
  unfold drawStraight
  exact straightLoop_pixels _ _ _ _ _ _ _

theorem drawBox_pixels (v : View) (x0 y0 x1 y1 : Int) (pattern : Nat) :
    AllPixels (drawBox v x0 y0 x1 y1 pattern) := by
  unfold drawBox
  exact allPixels_append (allPixels_append (allPixels_append (drawStraight_pixels _ _ _ _ _ _)
    (drawStraight_pixels _ _ _ _ _ _)) (drawStraight_pixels _ _ _ _ _ _)) (drawStraight_pixels _ _ _ _ _ _)

theorem octantPixels_pixels (x0 y0 x y : Int) : AllPixels (octantPixels x0 y0 x y) := by
  intro op h
  simp only [octantPixels, List.mem_cons, List.not_mem_nil, or_false] at h
  rcases h with h | h | h | h | h | h | h | h <;> rw [h] <;> rfl

theorem circleLoop_pixels (x0 y0 : Int) (fuel : Nat) :
    ∀ (x y e : Int), AllPixels (circleLoop x0 y0 fuel x y e) := by
  induction fuel with
  | zero => intro x y e; exact allPixels_nil
  | succ n ih =>
    intro x y e
    unfold circleLoop
    split
    · exact allPixels_append (octantPixels_pixels _ _ _ _) (ih _ _ _)
    · exact allPixels_nil

theorem drawCircle_pixels (x0 y0 r : Int) : AllPixels (drawCircle x0 y0 r) := by
  unfold drawCircle; exact circleLoop_pixels _ _ _ _ _ _

theorem quadrantPixels_pixels (cx cy x y : Int) : AllPixels (quadrantPixels cx cy x y) := by
  intro op h
  simp only [quadrantPixels, List.mem_cons, List.not_mem_nil, or_false] at h
  rcases h with h | h | h | h <;> rw [h] <;> rfl

theorem ellipseLoop_pixels (cx cy ddx ddy : Int) (fuel : Nat) :
    ∀ (x y dx dy err : Int), AllPixels (ellipseLoop cx cy ddx ddy fuel x y dx dy err).1 := by
  induction fuel with
  | zero => intro x y dx dy err; exact allPixels_nil
  | succ n ih =>
    intro x y dx dy err
    unfold ellipseLoop
    simp only []
    rw [apply_ite Prod.fst]
    exact allPixels_ite _ (quadrantPixels_pixels _ _ _ _)
      (allPixels_append (quadrantPixels_pixels _ _ _ _) (ih _ _ _ _ _))

theorem tipLoop_pixels (cx cy ry : Int) (n : Nat) : ∀ (y : Int), AllPixels (tipLoop cx cy ry n y) := by
  induction n with
  | zero => intro y; exact allPixels_nil
  | succ n ih =>
    intro y
    unfold tipLoop
    split
    · exact allPixels_cons (isPixel_pixel _ _) (allPixels_cons (isPixel_pixel _ _) (ih _))
    · exact allPixels_nil

theorem drawEllipse_pixels (cx cy rx ry : Int) (fuel : Nat) (ops : Ops)
    (h : drawEllipse cx cy rx ry fuel = some ops) : AllPixels ops := by
  unfold drawEllipse at h
  simp only [] at h
  split at h
  · cases h
  · injection h with h
    rw [← h]
    exact allPixels_append (ellipseLoop_pixels _ _ _ _ _ _ _ _ _ _) (tipLoop_pixels _ _ _ _ _)

/-! ### written cells of op lists, the unset viewport, page updates -/

/-- the cell (column `cx`, row `cy`) is assigned by one of the `graph_view[...] = …` calls -/
def writes (v : View) (ops : Ops) (cx cy : Int) : Prop :=
  ∃ op ∈ ops, v.written op.yi op.xi cx cy = true

instance (v : View) (ops : Ops) (cx cy : Int) : Decidable (writes v ops cx cy) :=
  inferInstanceAs (Decidable (∃ op ∈ ops, v.written op.yi op.xi cx cy = true))

/-- the cell lies on the page -/
def onScreen (v : View) (cx cy : Int) : Prop := 0 ≤ cx ∧ cx < v.W ∧ 0 ≤ cy ∧ cy < v.H

theorem clip_case (v : View) (hv : v.wf) (yi xi : Ix) (cx cy : Int)
    (he : v.convertSlice yi xi =
      (View.clipAxis yi v.ymin v.ymax v.offY, View.clipAxis xi v.xmin v.xmax v.offX))
    (hy : stopOk v.offY yi) (hx : stopOk v.offX xi)
    (hw : v.written yi xi cx cy = true) : v.inRect cx cy := by
  obtain ⟨h0, h1, h2, h3, h4, h5⟩ := hv
  unfold View.written at hw
  rw [he] at hw
  simp only [Bool.and_eq_true] at hw
  have a := clipAxis_sel yi v.H v.y0 v.y1 v.ymin v.ymax v.offY cy h3 h4 h5 (ymin_off v) (ymax_off v) hy hw.1
  have b := clipAxis_sel xi v.W v.x0 v.x1 v.xmin v.xmax v.offX cx h0 h1 h2 (xmin_off v) (xmax_off v) hx hw.2
  exact ⟨b.1, b.2, a.1, a.2⟩

theorem full_wf (W H : Int) (hW : 1 ≤ W) (hH : 1 ≤ H) : (View.full W H).wf := by
  simp only [View.wf, View.full]; omega

theorem cutoff_full_id (W H x y : Int) (hx : 0 ≤ x ∧ x ≤ W - 1) (hy : 0 ≤ y ∧ y ≤ H - 1) :
    (View.full W H).cutoffCoord x y = (x, y) := by
  simp only [View.cutoffCoord, View.convertCoords, View.full, View.offX, View.offY, Bool.false_eq_true,
    if_false, Prod.mk.injEq]
  omega

/-- LINE …,BF on the unset viewport with corners on the screen fills exactly within the ordered corners -/
theorem box_filled_full_bbox (W H x0 y0 x1 y1 cx cy : Int)
    (hx0 : 0 ≤ x0 ∧ x0 ≤ W - 1) (hx1 : 0 ≤ x1 ∧ x1 ≤ W - 1)
    (hy0 : 0 ≤ y0 ∧ y0 ≤ H - 1) (hy1 : 0 ≤ y1 ∧ y1 ≤ H - 1)
    (hw : writes (View.full W H) (drawBoxFilled (View.full W H) x0 y0 x1 y1) cx cy) :
    min x0 x1 ≤ cx ∧ cx ≤ max x0 x1 ∧ min y0 y1 ≤ cy ∧ cy ≤ max y0 y1 := by
  have hu := full_wf W H (by omega) (by omega)
  obtain ⟨u0, u1, u2, u3, u4, u5⟩ := hu
  have ox : (View.full W H).offX = 0 := by simp [View.offX, View.full]
  have oy : (View.full W H).offY = 0 := by simp [View.offY, View.full]
  have mx := xmin_off (View.full W H); have my := ymin_off (View.full W H)
  have Mx := xmax_off (View.full W H); have My := ymax_off (View.full W H)
  have fx0 : (View.full W H).x0 = 0 := rfl
  have fy0 : (View.full W H).y0 = 0 := rfl
  have fx1 : (View.full W H).x1 = W - 1 := rfl
  have fy1 : (View.full W H).y1 = H - 1 := rfl
  obtain ⟨op, hm, hw⟩ := hw
  unfold drawBoxFilled at hm
  rw [cutoff_full_id W H x0 y0 hx0 hy0, cutoff_full_id W H x1 y1 hx1 hy1] at hm
  simp only [List.mem_singleton] at hm
  subst hm
  unfold View.written at hw
  simp only [View.convertSlice, Bool.and_eq_true] at hw
  obtain ⟨hwy, hwx⟩ := hw
  have a := clipAxis_sel_tight (View.full W H).H _ _ _ _ _ _ _ cy u3 u4 u5 my My
    (by rw [oy]; split <;> omega) hwy
  have b := clipAxis_sel_tight (View.full W H).W _ _ _ _ _ _ _ cx u0 u1 u2 mx Mx
    (by rw [ox]; split <;> omega) hwx
  rw [oy] at a my My; rw [ox] at b mx Mx
  revert a b
  split <;> split <;> intro a b <;> simp only [] at a b <;> omega

theorem applyOps_frame (v : View) (attr : Nat) (ops : Ops) :
    ∀ (pg : Page) (x y : Int), ¬ writes v ops x y → applyOps v attr pg ops x y = pg x y := by
  induction ops with
  | nil => intro pg x y _; rfl
  | cons op rest ih =>
    intro pg x y hn
    have h1 : ¬ writes v rest x y := fun ⟨o, hm, hw⟩ => hn ⟨o, List.mem_cons_of_mem _ hm, hw⟩
    have h2 : v.written op.yi op.xi x y ≠ true := fun hw => hn ⟨op, List.mem_cons_self, hw⟩
    show applyOps v attr (applyOp v attr pg op) rest x y = pg x y
    rw [ih _ x y h1]
    simp [applyOp, h2]

theorem drawTo_other (s : Screen) (v : View) (attr : Nat) (ops : Ops) (i : Nat) (h : i ≠ s.gvPage) :
    drawTo s v attr ops i = s.pages i := by
  simp only [drawTo, setPg, h, if_false]

theorem drawTo_same (s : Screen) (v : View) (attr : Nat) (ops : Ops) :
    drawTo s v attr ops s.gvPage = applyOps v attr (s.pages s.gvPage) ops := by
  simp only [drawTo, setPg, if_true]


theorem setPg_setPg (pages : Nat → Page) (g : Nat) (p q : Page) :
    setPg (setPg pages g p) g q = setPg pages g q := by
  funext i; simp only [setPg]; split <;> rfl

theorem setPg_self (pages : Nat → Page) (g : Nat) : setPg pages g (pages g) = pages := by
  funext i; simp only [setPg]; split
  · rename_i h; rw [h]
  · rfl

/-- a closed slice that lies within the bounds is converted to exactly the shifted range -/
theorem clipAxis_range_exact (len a0 a1 bmin bmax off s e : Int)
    (h0 : 0 ≤ a0) (h2 : a1 < len) (hmin : bmin + off = a0) (hmax : bmax + off = a1)
    (hs : bmin ≤ s) (he : e ≤ bmax + 1) (hse : s ≤ e) :
    (View.clipAxis (.slice (some s) (some e)) bmin bmax off).range len = (s + off, e + off) := by
  simp only [View.clipAxis, View.asSlice, Option.getD_some, Ix.range, pySlice]
  rw [pyNorm_of_range len (max s bmin + off) (by omega) (by omega),
      pyNorm_of_range len (min e (bmax + 1) + off) (by omega) (by omega)]
  simp only [Prod.mk.injEq]
  omega

end PcbV.ViewportLemmas
