import PcbV.Model.VideoMem
/-
  Arithmetic of the video memory walk (C34): inside a run, `_get_coords` moves by one unit to the right.
-/
namespace PcbV.VideoMem
open PcbV.Gen.Modes

theorem nat_div_add (a b d : Nat) (hb : 0 < b) (h : a % b + d < b) :
    (a + d) / b = a / b ∧ (a + d) % b = a % b + d := by
  apply (Nat.div_mod_unique hb).mpr
  refine ⟨?_, h⟩
  have := Nat.mod_add_div a b
  omega

theorem int_div_add (r : Int) (P : Nat) (d a : Nat) (hP : 0 < P) (ha : (a : Int) = r % (P : Int)) (h : a + d < P) :
    (r + (d : Int)) / (P : Int) = r / (P : Int) ∧ ((r + (d : Int)) % (P : Int)).toNat = a + d := by
  have hP' : (0 : Int) < (P : Int) := by omega
  have h1 := Int.emod_add_mul_ediv r (P : Int)
  have key : (r + (d : Int)) / (P : Int) = r / (P : Int) ∧ (r + (d : Int)) % (P : Int) = ((a + d : Nat) : Int) := by
    apply (Int.ediv_emod_unique hP').mpr
    refine ⟨?_, by omega, by omega⟩
    rw [← ha] at h1
    push_cast
    omega
  refine ⟨key.1, ?_⟩
  rw [key.2]
  exact Int.toNat_natCast _

theorem unit_bound_row (f R' off j : Nat) (hf : 0 < f)
    (hj : j < R' - (off / f) % R') : off % (f * R') + j * f < f * R' := by
  have e : (off / f) % R' = off % (f * R') / f := (Nat.mod_mul_right_div_self off f R').symm
  rw [e] at hj
  generalize off % (f * R') = s at *
  have h1 := Nat.div_add_mod s f
  have h2 := Nat.mod_lt s hf
  have h3 : f * (s / f + j + 1) ≤ f * R' := Nat.mul_le_mul_left f (by omega)
  have h4 : f * (s / f + j + 1) = f * (s / f) + j * f + f := by
    rw [Nat.mul_add, Nat.mul_add, Nat.mul_one, Nat.mul_comm f j]
  omega

theorem unit_bound_bank (f B' off j : Nat) (hf : 0 < f)
    (hj : j < B' - off / f) : off + j * f < f * B' := by
  have h1 := Nat.div_add_mod off f
  have h2 := Nat.mod_lt off hf
  have h3 : f * (off / f + j + 1) ≤ f * B' := Nat.mul_le_mul_left f (by omega)
  have h4 : f * (off / f + j + 1) = f * (off / f) + j * f + f := by
    rw [Nat.mul_add, Nat.mul_add, Nat.mul_one, Nat.mul_comm f j]
  omega

/-- the nested divmod of all three graphics `_get_coords`, for a relative address -/
structure Decomp where
  page : Int
  bank : Nat
  row : Nat
  col : Nat
deriving DecidableEq

def decomp (P B R : Nat) (r : Int) : Decomp :=
  let a := (r % (P : Int)).toNat
  ⟨r / (P : Int), a / B, a % B / R, a % B % R⟩

/-- offset in the bank as the walk computes it -/
theorem bank_offset (P B il : Nat) (hB : 0 < B) (hil : 0 < il) (hP : P = il * B) (r : Int) :
    (r % (B : Int)).toNat = (r % (P : Int)).toNat % B := by
  have hP0 : (0 : Int) < (P : Int) := by
    have : 0 < P := by rw [hP]; exact Nat.mul_pos hil hB
    omega
  have hdvd : (B : Int) ∣ (P : Int) := by
    refine ⟨(il : Int), ?_⟩
    rw [hP]; push_cast; exact Int.mul_comm _ _
  have h1 : r % (P : Int) % (B : Int) = r % (B : Int) := Int.emod_emod_of_dvd r hdvd
  have hnn : 0 ≤ r % (P : Int) := Int.emod_nonneg r (by omega)
  obtain ⟨a, ha⟩ := Int.eq_ofNat_of_zero_le hnn
  rw [← h1, ha]
  rw [Int.toNat_natCast]
  have : ((a : Int) % (B : Int)) = ((a % B : Nat) : Int) := by push_cast; rfl
  rw [this, Int.toNat_natCast]

theorem decomp_step (P B R il : Nat) (hB : 0 < B) (hR : 0 < R) (hil : 0 < il) (hP : P = il * B)
    (r : Int) (d : Nat)
    (h1 : (r % (B : Int)).toNat % R + d < R) (h2 : (r % (B : Int)).toNat + d < B) :
    decomp P B R (r + (d : Int)) =
      ⟨(decomp P B R r).page, (decomp P B R r).bank, (decomp P B R r).row, (decomp P B R r).col + d⟩ := by
  have hPpos : 0 < P := by rw [hP]; exact Nat.mul_pos hil hB
  have hnn : 0 ≤ r % (P : Int) := Int.emod_nonneg r (by omega)
  obtain ⟨a, ha⟩ := Int.eq_ofNat_of_zero_le hnn
  have hoff := bank_offset P B il hB hil hP r
  rw [ha, Int.toNat_natCast] at hoff
  rw [hoff] at h1 h2
  have haP : a < P := by
    have := Int.emod_lt_of_pos r (show (0 : Int) < (P : Int) by omega)
    omega
  -- a + d stays in the page
  have hq : a / B < il := by
    apply (Nat.div_lt_iff_lt_mul hB).mpr
    rw [← hP]; exact haP
  have hdm := Nat.div_add_mod a B
  have hmul : B * (a / B + 1) ≤ B * il := Nat.mul_le_mul_left B hq
  have hexp : B * (a / B + 1) = B * (a / B) + B := by rw [Nat.mul_add, Nat.mul_one]
  have hPc : B * il = P := by rw [hP, Nat.mul_comm]
  have hadP : a + d < P := by omega
  obtain ⟨e1, e2⟩ := int_div_add r P d a hPpos ha.symm hadP
  obtain ⟨e3, e4⟩ := nat_div_add a B d hB h2
  obtain ⟨e5, e6⟩ := nat_div_add (a % B) R d hR h1
  unfold decomp
  simp only [e1, e2, e3, e4, e5, e6, ha, Int.toNat_natCast]


def xOf (m : Mode) (col : Nat) : Nat :=
  if m.kind = 1 then col * 8 / m.bpp else if m.kind = 3 then col / 2 * 8 else col * 8
def ilOf (m : Mode) : Nat := if m.kind = 3 then 4 else m.interleave

theorem wf_basic (m : Mode) (hw : wfMode m = true) :
    0 < m.bytesPerRow ∧ 0 < m.bankSize ∧ 0 < m.interleave ∧ m.pageSize = m.interleave * m.bankSize := by
  unfold wfMode at hw
  simp only [Bool.and_eq_true, decide_eq_true_eq] at hw
  exact ⟨hw.1.1.1.1, hw.1.1.1.2, hw.1.1.2, hw.1.2⟩

theorem wf_kind1 (m : Mode) (hw : wfMode m = true) (hk : m.kind = 1) :
    m.bpp * m.ppb = 8 ∧ m.width = m.bytesPerRow * m.ppb := by
  simp [wfMode, hk] at hw
  exact ⟨hw.2.1, hw.2.2⟩

theorem wf_kind2 (m : Mode) (hw : wfMode m = true) (hk : m.kind = 2) :
    m.interleave = 1 ∧ m.width = m.bytesPerRow * 8 ∧ m.masterMask < 256 := by
  simp [wfMode, hk] at hw
  exact ⟨hw.2.1.1, hw.2.1.2, hw.2.2⟩

theorem wf_kind3 (m : Mode) (hw : wfMode m = true) (hk : m.kind = 3) :
    m.bytesPerRow % 2 = 0 ∧ m.bankSize % 2 = 0 ∧ m.width = m.bytesPerRow / 2 * 8 := by
  simp [wfMode, hk] at hw
  exact ⟨hw.2.1.1, hw.2.1.2, hw.2.2⟩

theorem getCoords_decomp (m : Mode) (hw : wfMode m = true) (hg : isGraphics m = true) (addr : Nat) :
    getCoords m addr =
      ⟨(decomp m.pageSize m.bankSize m.bytesPerRow (rel m addr)).page,
       xOf m (decomp m.pageSize m.bankSize m.bytesPerRow (rel m addr)).col,
       (decomp m.pageSize m.bankSize m.bytesPerRow (rel m addr)).bank +
         ilOf m * (decomp m.pageSize m.bankSize m.bytesPerRow (rel m addr)).row⟩ := by
  obtain ⟨hR, hB, hil, hP⟩ := wf_basic m hw
  unfold isGraphics at hg
  simp only [Bool.or_eq_true, decide_eq_true_eq] at hg
  rcases hg with (hk | hk) | hk
  · simp only [getCoords, coordsCGA, decomp, xOf, ilOf, hk, if_true]
    simp
  · obtain ⟨h1, _⟩ := wf_kind2 m hw hk
    have hPB : m.pageSize = m.bankSize := by rw [hP, h1, Nat.one_mul]
    have hlt : (rel m addr % (m.pageSize : Int)).toNat < m.bankSize := by
      have hpos : (0 : Int) < (m.pageSize : Int) := by omega
      have := Int.emod_lt_of_pos (rel m addr) hpos
      have := Int.emod_nonneg (rel m addr) (show (m.pageSize : Int) ≠ 0 by omega)
      omega
    simp only [getCoords, coordsEGA, decomp, xOf, ilOf, hk]
    simp [Nat.div_eq_of_lt hlt, Nat.mod_eq_of_lt hlt, h1]
  · simp only [getCoords, coordsTandy6, decomp, xOf, ilOf, hk]
    simp

theorem rel_add (m : Mode) (addr k : Nat) : rel m (addr + k) = rel m addr + (k : Int) := by
  unfold rel; push_cast; omega

theorem factor_pos (m : Mode) : 0 < factorOf m := by unfold factorOf; split <;> omega

theorem factor_dvd (m : Mode) (hw : wfMode m = true) :
    factorOf m * (m.bytesPerRow / factorOf m) = m.bytesPerRow ∧
    factorOf m * (m.bankSize / factorOf m) = m.bankSize := by
  unfold factorOf
  split
  · next hk =>
    obtain ⟨h1, h2, _⟩ := wf_kind3 m hw hk
    omega
  · simp

theorem xOf_step (m : Mode) (hw : wfMode m = true) (hg : isGraphics m = true) (col j : Nat) :
    xOf m (col + j * factorOf m) = xOf m col + j * ppuOf m := by
  unfold isGraphics at hg
  simp only [Bool.or_eq_true, decide_eq_true_eq] at hg
  rcases hg with (hk | hk) | hk
  · obtain ⟨h1, _⟩ := wf_kind1 m hw hk
    have hb : 0 < m.bpp := by
      rcases Nat.eq_zero_or_pos m.bpp with h | h
      · rw [h] at h1; omega
      · exact h
    simp only [xOf, factorOf, ppuOf, hk, if_true]
    simp only [show ¬ ((1 : Nat) = 3) by omega, if_false, Nat.mul_one]
    rw [← h1]
    have e1 : (col + j) * (m.bpp * m.ppb) = m.bpp * ((col + j) * m.ppb) := by
      rw [Nat.mul_left_comm]
    have e2 : col * (m.bpp * m.ppb) = m.bpp * (col * m.ppb) := by
      rw [Nat.mul_left_comm]
    rw [e1, e2, Nat.mul_div_cancel_left _ hb, Nat.mul_div_cancel_left _ hb, Nat.add_mul]
  · simp only [xOf, factorOf, ppuOf, hk]
    simp
    omega
  · simp only [xOf, factorOf, ppuOf, hk]
    simp
    omega

theorem xOf_lt (m : Mode) (hw : wfMode m = true) (hg : isGraphics m = true) (col : Nat)
    (h : col < m.bytesPerRow) : xOf m col < m.width := by
  unfold isGraphics at hg
  simp only [Bool.or_eq_true, decide_eq_true_eq] at hg
  rcases hg with (hk | hk) | hk
  · obtain ⟨h1, h2⟩ := wf_kind1 m hw hk
    have hb : 0 < m.bpp := by
      rcases Nat.eq_zero_or_pos m.bpp with h | h
      · rw [h] at h1; omega
      · exact h
    have hp : 0 < m.ppb := by
      rcases Nat.eq_zero_or_pos m.ppb with h | h
      · rw [h] at h1; omega
      · exact h
    simp only [xOf, hk, if_true]
    rw [h2, ← h1]
    have e2 : col * (m.bpp * m.ppb) = m.bpp * (col * m.ppb) := by
      rw [Nat.mul_left_comm]
    rw [e2, Nat.mul_div_cancel_left _ hb]
    exact Nat.mul_lt_mul_of_pos_right h hp
  · obtain ⟨_, h2, _⟩ := wf_kind2 m hw hk
    simp only [xOf, hk]
    simp
    omega
  · obtain ⟨h1, _, h2⟩ := wf_kind3 m hw hk
    simp only [xOf, hk]
    simp
    omega

theorem run_step (m : Mode) (hw : wfMode m = true) (hg : isGraphics m = true) (ua rem j : Nat)
    (hj : j < runLen m ua (factorOf m) rem) :
    getCoords m (ua + j * factorOf m) =
      ⟨(getCoords m ua).page, (getCoords m ua).x + j * ppuOf m, (getCoords m ua).y⟩ ∧
    (getCoords m ua).x + j * ppuOf m < m.width := by
  obtain ⟨hR, hB, hil, hP⟩ := wf_basic m hw
  obtain ⟨hfR, hfB⟩ := factor_dvd m hw
  have hf := factor_pos m
  unfold runLen at hj
  simp only [Nat.lt_min] at hj
  obtain ⟨⟨hj1, hj2⟩, _⟩ := hj
  have b1 := unit_bound_row (factorOf m) (m.bytesPerRow / factorOf m) _ j hf hj1
  have b2 := unit_bound_bank (factorOf m) (m.bankSize / factorOf m) _ j hf hj2
  rw [hfR] at b1
  rw [hfB] at b2
  have hd := decomp_step m.pageSize m.bankSize m.bytesPerRow m.interleave hB hR hil hP (rel m ua)
    (j * factorOf m) b1 b2
  have hcol : (decomp m.pageSize m.bankSize m.bytesPerRow (rel m ua)).col + j * factorOf m < m.bytesPerRow := by
    have hb := bank_offset m.pageSize m.bankSize m.interleave hB hil hP (rel m ua)
    rw [hb] at b1
    exact b1
  rw [getCoords_decomp m hw hg, getCoords_decomp m hw hg, rel_add, hd]
  simp only
  rw [xOf_step m hw hg]
  refine ⟨rfl, ?_⟩
  rw [← xOf_step m hw hg]
  exact xOf_lt m hw hg _ hcol



theorem filterMap_congr' {α β : Type} {f g : α → Option β} {l : List α} (h : ∀ x ∈ l, f x = g x) :
    l.filterMap f = l.filterMap g := by
  induction l with
  | nil => rfl
  | cons a t ih =>
    have ha := h a (List.mem_cons_self ..)
    have ht := ih (fun x hx => h x (List.mem_cons_of_mem _ hx))
    simp only [List.filterMap_cons, ha, ht]

theorem runLen_pos (m : Mode) (hw : wfMode m = true) (ua rem : Nat) (hrem : 0 < rem) :
    0 < runLen m ua (factorOf m) rem := by
  obtain ⟨hR, hB, hil, hP⟩ := wf_basic m hw
  obtain ⟨hfR, hfB⟩ := factor_dvd m hw
  have hf := factor_pos m
  unfold runLen
  simp only [Nat.lt_min]
  have hR' : 0 < m.bytesPerRow / factorOf m := by
    rcases Nat.eq_zero_or_pos (m.bytesPerRow / factorOf m) with h | h
    · rw [h] at hfR; omega
    · exact h
  have hoff : (rel m ua % (m.bankSize : Int)).toNat < m.bankSize := by
    have hpos : (0 : Int) < (m.bankSize : Int) := by omega
    have := Int.emod_lt_of_pos (rel m ua) hpos
    have := Int.emod_nonneg (rel m ua) (show (m.bankSize : Int) ≠ 0 by omega)
    omega
  have hbo : (rel m ua % (m.bankSize : Int)).toNat / factorOf m < m.bankSize / factorOf m := by
    apply Nat.div_lt_of_lt_mul
    rw [hfB]; exact hoff
  have hro := Nat.mod_lt ((rel m ua % (m.bankSize : Int)).toNat / factorOf m) hR'
  refine ⟨⟨by omega, by omega⟩, hrem⟩

theorem runLen_le (m : Mode) (ua f rem : Nat) : runLen m ua f rem ≤ rem := by
  unfold runLen; exact Nat.min_le_right _ _

/-- what the byte-by-byte access sees at unit `i` of a block -/
def sel (m : Mode) (np addr : Nat) (i : Nat) : Option (Nat × Coord) :=
  let c := getCoords m (addr + i * factorOf m)
  if coordOk m np c then some (i, c) else none

theorem unitsOf_cons (ppu : Nat) (r : Run) (rs : List Run) :
    unitsOf ppu (r :: rs) =
      ((List.range r.len).map fun j => (r.ofs + j, (⟨r.page, r.x + j * ppu, r.y⟩ : Coord))) ++ unitsOf ppu rs := by
  simp [unitsOf]

theorem walkAux_units (m : Mode) (hw : wfMode m = true) (hg : isGraphics m = true) (np addr n : Nat) :
    ∀ fuel offset, n - offset ≤ fuel →
      unitsOf (ppuOf m) (walkAux m np addr n (factorOf m) fuel offset) =
        (List.range' offset (n - offset)).filterMap (sel m np addr) := by
  intro fuel
  induction fuel with
  | zero =>
    intro offset h
    have : n - offset = 0 := by omega
    simp [walkAux, unitsOf, this]
  | succ fuel ih =>
    intro offset h
    unfold walkAux
    split
    · next hlt =>
      have hpos := runLen_pos m hw (unitAddr addr offset (factorOf m)) (n - offset) (by omega)
      have hle := runLen_le m (unitAddr addr offset (factorOf m)) (factorOf m) (n - offset)
      generalize hlen : runLen m (unitAddr addr offset (factorOf m)) (factorOf m) (n - offset) = len at *
      have hsplit : List.range' offset (n - offset) =
          List.range' offset len ++ List.range' (offset + len) (n - (offset + len)) := by
        have : n - offset = len + (n - (offset + len)) := by omega
        rw [this, ← List.range'_append_1]
      have hfirst : (List.range' offset len).filterMap (sel m np addr) =
          if coordOk m np (getCoords m (unitAddr addr offset (factorOf m))) then
            (List.range len).map fun j => (offset + j,
              (⟨(getCoords m (unitAddr addr offset (factorOf m))).page,
                (getCoords m (unitAddr addr offset (factorOf m))).x + j * ppuOf m,
                (getCoords m (unitAddr addr offset (factorOf m))).y⟩ : Coord))
          else [] := by
        rw [List.range'_eq_map_range, List.filterMap_map]
        have hc : ∀ j ∈ List.range len, (sel m np addr ∘ fun x => offset + x) j =
            if coordOk m np (getCoords m (unitAddr addr offset (factorOf m))) then
              some (offset + j,
                (⟨(getCoords m (unitAddr addr offset (factorOf m))).page,
                  (getCoords m (unitAddr addr offset (factorOf m))).x + j * ppuOf m,
                  (getCoords m (unitAddr addr offset (factorOf m))).y⟩ : Coord))
            else none := by
          intro j hj
          have hj' : j < len := List.mem_range.mp hj
          have hs := run_step m hw hg (unitAddr addr offset (factorOf m)) (n - offset) j (by rw [hlen]; exact hj')
          have hx0 := (run_step m hw hg (unitAddr addr offset (factorOf m)) (n - offset) 0 (by rw [hlen]; exact hpos)).2
          have ea : addr + (offset + j) * factorOf m = unitAddr addr offset (factorOf m) + j * factorOf m := by
            unfold unitAddr; rw [Nat.add_mul]; omega
          simp only [Function.comp, sel, ea, hs.1]
          have hok : coordOk m np ⟨(getCoords m (unitAddr addr offset (factorOf m))).page,
              (getCoords m (unitAddr addr offset (factorOf m))).x + j * ppuOf m,
              (getCoords m (unitAddr addr offset (factorOf m))).y⟩ =
              coordOk m np (getCoords m (unitAddr addr offset (factorOf m))) := by
            have h2 := hs.2
            simp only [Nat.zero_mul, Nat.add_zero] at hx0
            simp [coordOk, h2, hx0]
          rw [hok]
        rw [filterMap_congr' hc]
        split
        · simp
        · simp
      rw [hsplit, List.filterMap_append, hfirst, ← ih (offset + len) (by omega)]
      simp only
      split
      · rw [unitsOf_cons]
        simp [*]
      · simp [*]
    · next hge =>
      have : n - offset = 0 := by omega
      simp [unitsOf, this]



theorem place_append (arr : List Nat) (u1 u2 : List (Nat × Nat)) :
    place arr (u1 ++ u2) = place (place arr u1) u2 := by
  simp [place, List.foldl_append]

theorem place_length (us : List (Nat × Nat)) : ∀ arr : List Nat, (place arr us).length = arr.length := by
  induction us with
  | nil => intro arr; rfl
  | cons u t ih =>
    intro arr
    show (place (arr.set u.1 u.2) t).length = arr.length
    rw [ih]; simp

theorem place_append_left (us : List (Nat × Nat)) :
    ∀ (A B : List Nat), (∀ u ∈ us, u.1 < A.length) → place (A ++ B) us = place A us ++ B := by
  induction us with
  | nil => intro A B _; rfl
  | cons u t ih =>
    intro A B h
    have hu : u.1 < A.length := h u (List.mem_cons_self ..)
    show place ((A ++ B).set u.1 u.2) t = place (A.set u.1 u.2) t ++ B
    rw [List.set_append_left _ _ hu]
    apply ih
    intro v hv
    rw [List.length_set]
    exact h v (List.mem_cons_of_mem _ hv)

/-- placing the values of the selected indices of `range n` into n zeros = mapping over `range n` -/
theorem place_filterMap (h : Nat → Option Nat) (n : Nat) :
    place (List.replicate n 0) ((List.range n).filterMap fun i => (h i).map fun v => (i, v)) =
      (List.range n).map fun i => (h i).getD 0 := by
  induction n with
  | zero => rfl
  | succ n ih =>
    rw [List.range_succ, List.filterMap_append, List.map_append, place_append, List.replicate_succ']
    rw [place_append_left, ih]
    · cases hn : h n with
      | none => simp [place, hn]
      | some v =>
        simp only [List.filterMap_cons, List.filterMap_nil, hn, Option.map_some, List.map_cons, List.map_nil,
          Option.getD_some]
        show ((List.map (fun i => (h i).getD 0) (List.range n)) ++ [0]).set n v = _
        rw [List.set_append_right _ _ (by simp)]
        simp
    · intro u hu
      simp only [List.mem_filterMap, List.mem_range] at hu
      obtain ⟨i, hi, hiu⟩ := hu
      cases hh : h i with
      | none => simp [hh] at hiu
      | some v =>
        simp [hh] at hiu
        rw [← hiu]; simpa using hi



theorem walk_units (m : Mode) (hw : wfMode m = true) (hg : isGraphics m = true) (np addr n : Nat) :
    unitsOf (ppuOf m) (walk m np addr n (factorOf m)) = (List.range n).filterMap (sel m np addr) := by
  unfold walk
  rw [walkAux_units m hw hg np addr n n 0 (by omega), List.range_eq_range']
  simp

/-- reading through the walk = reading every unit on its own coordinates -/
theorem units_read (m : Mode) (hw : wfMode m = true) (hg : isGraphics m = true) (np addr n : Nat)
    (rd : Coord → Nat) :
    place (List.replicate n 0)
        ((unitsOf (ppuOf m) (walk m np addr n (factorOf m))).map fun u => (u.1, rd u.2)) =
      (List.range n).map fun i =>
        if coordOk m np (getCoords m (addr + i * factorOf m)) then rd (getCoords m (addr + i * factorOf m)) else 0 := by
  rw [walk_units m hw hg, List.map_filterMap]
  have e : (fun i => Option.map (fun u : Nat × Coord => (u.1, rd u.2)) (sel m np addr i)) =
      fun i => (if coordOk m np (getCoords m (addr + i * factorOf m)) then
        some (rd (getCoords m (addr + i * factorOf m))) else none).map fun v => (i, v) := by
    funext i
    unfold sel
    simp only
    split <;> simp
  rw [e, place_filterMap]
  apply List.map_congr_left
  intro i _
  split <;> simp

theorem factor_one (m : Mode) (hk : m.kind ≠ 3) : factorOf m = 1 := by simp [factorOf, hk]

theorem getCGA_eq (m : Mode) (hw : wfMode m = true) (hk : m.kind = 1) (np : Nat) (s : St) (addr n : Nat) :
    getCGA m np s addr n = (List.range n).map fun i =>
      if coordOk m np (getCoords m (addr + i)) then readCGA m s.pix (getCoords m (addr + i)) else 0 := by
  have hg : isGraphics m = true := by simp [isGraphics, hk]
  have hf : factorOf m = 1 := factor_one m (by omega)
  have hp : ppuOf m = m.ppb := by simp [ppuOf, hk]
  have := units_read m hw hg np addr n (readCGA m s.pix)
  rw [hf, hp] at this
  simpa [getCGA] using this

theorem getEGA_eq (m : Mode) (hw : wfMode m = true) (hk : m.kind = 2) (np : Nat) (s : St) (addr n : Nat) :
    getEGA m np s addr n = (List.range n).map fun i =>
      if planeUsed m (egaPlane m s) ∧ coordOk m np (getCoords m (addr + i)) then
        readPlane s.pix (getCoords m (addr + i)) (egaPlane m s) else 0 := by
  have hg : isGraphics m = true := by simp [isGraphics, hk]
  have hf : factorOf m = 1 := factor_one m (by omega)
  have hp : ppuOf m = 8 := by simp [ppuOf, hk]
  have := units_read m hw hg np addr n (fun c => readPlane s.pix c (egaPlane m s))
  rw [hf, hp] at this
  unfold getEGA
  simp only
  split
  · next h => simpa [h] using this
  · next h =>
    simp [h]
    exact (List.eq_replicate_iff.mpr ⟨by simp, by simp⟩).symm



theorem peek_cga (m : Mode) (hw : wfMode m = true) (hk : m.kind = 1) (np : Nat) (s : St) (a : Nat) :
    peek m np s a = if coordOk m np (getCoords m a) then readCGA m s.pix (getCoords m a) else 0 := by
  unfold peek getMemory
  rw [if_pos hk, getCGA_eq m hw hk]
  simp

theorem peek_ega (m : Mode) (hw : wfMode m = true) (hk : m.kind = 2) (np : Nat) (s : St) (a : Nat) :
    peek m np s a = if planeUsed m (egaPlane m s) ∧ coordOk m np (getCoords m a) then
        readPlane s.pix (getCoords m a) (egaPlane m s) else 0 := by
  unfold peek getMemory
  rw [if_neg (by omega), if_pos hk, getEGA_eq m hw hk]
  simp

theorem peek_text (m : Mode) (hk : m.kind = 0) (np : Nat) (s : St) (a : Nat) :
    peek m np s a = if coordOk m np (getCoords m a) then
      s.pix (getCoords m a).page (getCoords m a).y (getCoords m a).x else 0 := by
  unfold peek getMemory
  rw [if_neg (by omega), if_neg (by omega), if_neg (by omega)]
  simp [getText, getCoords, hk]

theorem block_read_cga (m : Mode) (hw : wfMode m = true) (hk : m.kind = 1) (np : Nat) (s : St) (addr n : Nat) :
    getMemory m np s addr n = bytewiseGet m np s addr n := by
  unfold bytewiseGet
  simp only [peek_cga m hw hk]
  unfold getMemory
  rw [if_pos hk, getCGA_eq m hw hk]

theorem block_read_ega (m : Mode) (hw : wfMode m = true) (hk : m.kind = 2) (np : Nat) (s : St) (addr n : Nat) :
    getMemory m np s addr n = bytewiseGet m np s addr n := by
  unfold bytewiseGet
  simp only [peek_ega m hw hk]
  unfold getMemory
  rw [if_neg (by omega), if_pos hk, getEGA_eq m hw hk]

theorem block_read_text (m : Mode) (hk : m.kind = 0) (np : Nat) (s : St) (addr n : Nat) :
    getMemory m np s addr n = bytewiseGet m np s addr n := by
  unfold bytewiseGet
  simp only [peek_text m hk]
  unfold getMemory
  rw [if_neg (by omega), if_neg (by omega), if_neg (by omega)]
  simp [getText, getCoords, hk]

/-! writes -/

theorem foldl_filterMap' {α β γ : Type} (f : α → Option β) (g : γ → β → γ) (l : List α) :
    ∀ init : γ, (l.filterMap f).foldl g init =
      l.foldl (fun acc x => match f x with | some y => g acc y | none => acc) init := by
  induction l with
  | nil => intro init; rfl
  | cons a t ih =>
    intro init
    simp only [List.filterMap_cons, List.foldl_cons]
    cases h : f a with
    | none => simp only [ih]
    | some y => simp only [List.foldl_cons, ih]

/-- writing through the walk = writing every unit on its own coordinates -/
theorem units_write (m : Mode) (hw : wfMode m = true) (hg : isGraphics m = true) (np addr n : Nat)
    (wr : Scr → Coord → Nat → Scr) (p : Scr) :
    (unitsOf (ppuOf m) (walk m np addr n (factorOf m))).foldl (fun p u => wr p u.2 u.1) p =
      (List.range n).foldl (fun p i =>
        if coordOk m np (getCoords m (addr + i * factorOf m)) then wr p (getCoords m (addr + i * factorOf m)) i
        else p) p := by
  rw [walk_units m hw hg, foldl_filterMap']
  congr 1
  funext p i
  unfold sel
  by_cases h : coordOk m np (getCoords m (addr + i * factorOf m)) = true <;> simp [h]

/-- a fold of pokes only touches the pixel function -/
theorem foldl_pix (step : Scr → Nat → Scr) (l : List Nat) :
    ∀ s : St, l.foldl (fun s i => ({ s with pix := step s.pix i } : St)) s =
      { s with pix := l.foldl step s.pix } := by
  induction l with
  | nil => intro s; rfl
  | cons a t ih => intro s; simp only [List.foldl_cons]; rw [ih]

theorem poke_cga (m : Mode) (hw : wfMode m = true) (hk : m.kind = 1) (np : Nat) (s : St) (a v : Nat) :
    poke m np s a v = { s with pix :=
      (if coordOk m np (getCoords m a) then writeCGA m s.pix (getCoords m a) v else s.pix) } := by
  have hg : isGraphics m = true := by simp [isGraphics, hk]
  have hf : factorOf m = 1 := factor_one m (by omega)
  have hp : ppuOf m = m.ppb := by simp [ppuOf, hk]
  have := units_write m hw hg np a 1 (fun p c i => writeCGA m p c ([v].getD i 0)) s.pix
  rw [hf, hp] at this
  unfold poke setMemory
  rw [if_pos hk]
  unfold setCGA
  simp only [List.length_singleton]
  rw [this]
  simp

theorem block_write_cga (m : Mode) (hw : wfMode m = true) (hk : m.kind = 1) (np : Nat) (s : St) (addr : Nat)
    (bytes : List Nat) : setMemory m np s addr bytes = bytewiseSet m np s addr bytes := by
  have hg : isGraphics m = true := by simp [isGraphics, hk]
  have hf : factorOf m = 1 := factor_one m (by omega)
  have hp : ppuOf m = m.ppb := by simp [ppuOf, hk]
  have := units_write m hw hg np addr bytes.length (fun p c i => writeCGA m p c (bytes.getD i 0)) s.pix
  rw [hf, hp] at this
  unfold bytewiseSet
  simp only [poke_cga m hw hk]
  rw [foldl_pix (fun p i => if coordOk m np (getCoords m (addr + i)) then
    writeCGA m p (getCoords m (addr + i)) (bytes.getD i 0) else p)]
  unfold setMemory
  rw [if_pos hk]
  unfold setCGA
  simp only
  rw [this]
  simp



theorem foldl_pix_mask (step : Nat → Scr → Nat → Scr) (l : List Nat) :
    ∀ s : St, l.foldl (fun s i => ({ s with pix := step s.mask s.pix i } : St)) s =
      { s with pix := l.foldl (step s.mask) s.pix } := by
  induction l with
  | nil => intro s; rfl
  | cons a t ih => intro s; simp only [List.foldl_cons]; rw [ih]

theorem poke_ega (m : Mode) (hw : wfMode m = true) (hk : m.kind = 2) (np : Nat) (s : St) (a v : Nat) :
    poke m np s a v = { s with pix :=
      (if s.mask &&& m.masterMask = 0 then s.pix
       else if coordOk m np (getCoords m a) then writeMask s.pix (getCoords m a) (s.mask &&& m.masterMask) v
       else s.pix) } := by
  have hg : isGraphics m = true := by simp [isGraphics, hk]
  have hf : factorOf m = 1 := factor_one m (by omega)
  have hp : ppuOf m = 8 := by simp [ppuOf, hk]
  have := units_write m hw hg np a 1 (fun p c i => writeMask p c (s.mask &&& m.masterMask) ([v].getD i 0)) s.pix
  rw [hf, hp] at this
  unfold poke setMemory
  rw [if_neg (by omega), if_pos hk]
  unfold setEGA
  simp only [List.length_singleton]
  split
  · rfl
  · rw [this]; simp

theorem block_write_ega (m : Mode) (hw : wfMode m = true) (hk : m.kind = 2) (np : Nat) (s : St) (addr : Nat)
    (bytes : List Nat) : setMemory m np s addr bytes = bytewiseSet m np s addr bytes := by
  have hg : isGraphics m = true := by simp [isGraphics, hk]
  have hf : factorOf m = 1 := factor_one m (by omega)
  have hp : ppuOf m = 8 := by simp [ppuOf, hk]
  have := units_write m hw hg np addr bytes.length
    (fun p c i => writeMask p c (s.mask &&& m.masterMask) (bytes.getD i 0)) s.pix
  rw [hf, hp] at this
  unfold bytewiseSet
  simp only [poke_ega m hw hk]
  rw [foldl_pix_mask (fun mask p i => if mask &&& m.masterMask = 0 then p
    else if coordOk m np (getCoords m (addr + i)) then
      writeMask p (getCoords m (addr + i)) (mask &&& m.masterMask) (bytes.getD i 0) else p)]
  unfold setMemory
  rw [if_neg (by omega), if_pos hk]
  unfold setEGA
  simp only
  split
  · next h =>
    have : ∀ (l : List Nat) (p : Scr), l.foldl (fun p _ => p) p = p := by
      intro l; induction l with
      | nil => intro p; rfl
      | cons a t ih => intro p; simpa using ih p
    rw [this]
  · next h =>
    rw [this]
    simp

theorem poke_text (m : Mode) (hk : m.kind = 0) (np : Nat) (s : St) (a v : Nat) :
    poke m np s a v = { s with pix :=
      (if coordOk m np (getCoords m a) then
        setPix s.pix (getCoords m a).page (getCoords m a).y (getCoords m a).x v else s.pix) } := by
  unfold poke setMemory
  rw [if_neg (by omega), if_neg (by omega), if_neg (by omega)]
  simp [setText, getCoords, hk]

theorem block_write_text (m : Mode) (hk : m.kind = 0) (np : Nat) (s : St) (addr : Nat)
    (bytes : List Nat) : setMemory m np s addr bytes = bytewiseSet m np s addr bytes := by
  unfold bytewiseSet
  simp only [poke_text m hk]
  rw [foldl_pix (fun p i => if coordOk m np (getCoords m (addr + i)) then
    setPix p (getCoords m (addr + i)).page (getCoords m (addr + i)).y (getCoords m (addr + i)).x (bytes.getD i 0)
    else p)]
  unfold setMemory
  rw [if_neg (by omega), if_neg (by omega), if_neg (by omega)]
  simp [setText, getCoords, hk]



theorem foldl_congr_mem {α β : Type} (f f' : β → α → β) (l : List α)
    (h : ∀ acc, ∀ x ∈ l, f acc x = f' acc x) : ∀ init, l.foldl f init = l.foldl f' init := by
  induction l with
  | nil => intro init; rfl
  | cons a t ih =>
    intro init
    simp only [List.foldl_cons]
    rw [h init a (List.mem_cons_self ..)]
    exact ih (fun acc x hx => h acc x (List.mem_cons_of_mem _ hx)) _

theorem packByte_congr (bpp ppb : Nat) (g g' : Nat → Nat) (h : ∀ t < ppb, g t = g' t) :
    packByte bpp ppb g = packByte bpp ppb g' := by
  unfold packByte
  apply foldl_congr_mem
  intro acc x hx
  rw [h x (List.mem_range.mp hx)]

theorem bpp_cases' (b p : Nat) (h : b * p = 8) :
    (b = 1 ∧ p = 8) ∨ (b = 2 ∧ p = 4) ∨ (b = 4 ∧ p = 2) ∨ (b = 8 ∧ p = 1) := by
  have hb : b ≤ 8 := by
    rcases Nat.eq_zero_or_pos p with hp | hp
    · rw [hp] at h; omega
    · exact Nat.le_of_mul_le_mul_right (by omega : b * p ≤ 8 * p) hp
  have : b = 0 ∨ b = 1 ∨ b = 2 ∨ b = 3 ∨ b = 4 ∨ b = 5 ∨ b = 6 ∨ b = 7 ∨ b = 8 := by omega
  rcases this with rfl | rfl | rfl | rfl | rfl | rfl | rfl | rfl | rfl <;> omega

theorem pack_unpack_18 : ∀ v < 256, packByte 1 8 (unpackPix 1 8 v) = v := by decide +kernel
theorem pack_unpack_24 : ∀ v < 256, packByte 2 4 (unpackPix 2 4 v) = v := by decide +kernel
theorem pack_unpack_42 : ∀ v < 256, packByte 4 2 (unpackPix 4 2 v) = v := by decide +kernel
theorem pack_unpack_81 : ∀ v < 256, packByte 8 1 (unpackPix 8 1 v) = v := by decide +kernel

theorem pack_unpack (bpp ppb : Nat) (h : bpp * ppb = 8) (v : Nat) (hv : v < 256) :
    packByte bpp ppb (unpackPix bpp ppb v) = v := by
  rcases bpp_cases' bpp ppb h with ⟨rfl, rfl⟩ | ⟨rfl, rfl⟩ | ⟨rfl, rfl⟩ | ⟨rfl, rfl⟩
  · exact pack_unpack_18 v hv
  · exact pack_unpack_24 v hv
  · exact pack_unpack_42 v hv
  · exact pack_unpack_81 v hv

theorem unpack_pack (bpp ppb : Nat) (h : bpp * ppb = 8) (g : Nat → Nat) (t : Nat) (ht : t < ppb) :
    unpackPix bpp ppb (packByte bpp ppb g) t = g t % 2 ^ bpp := by
  rcases bpp_cases' bpp ppb h with ⟨rfl, rfl⟩ | ⟨rfl, rfl⟩ | ⟨rfl, rfl⟩ | ⟨rfl, rfl⟩
  · simp only [packByte, unpackPix, List.range, List.range.loop, List.foldl]
    have : t = 0 ∨ t = 1 ∨ t = 2 ∨ t = 3 ∨ t = 4 ∨ t = 5 ∨ t = 6 ∨ t = 7 := by omega
    rcases this with rfl | rfl | rfl | rfl | rfl | rfl | rfl | rfl <;> simp <;> omega
  · simp only [packByte, unpackPix, List.range, List.range.loop, List.foldl]
    have : t = 0 ∨ t = 1 ∨ t = 2 ∨ t = 3 := by omega
    rcases this with rfl | rfl | rfl | rfl <;> simp <;> omega
  · simp only [packByte, unpackPix, List.range, List.range.loop, List.foldl]
    have : t = 0 ∨ t = 1 := by omega
    rcases this with rfl | rfl <;> simp <;> omega
  · simp only [packByte, unpackPix, List.range, List.range.loop, List.foldl]
    have : t = 0 := by omega
    subst this; simp



theorem packByte_congr_mod (bpp ppb : Nat) (g g' : Nat → Nat) (h : ∀ t < ppb, g t % 2 ^ bpp = g' t % 2 ^ bpp) :
    packByte bpp ppb g = packByte bpp ppb g' := by
  unfold packByte
  apply foldl_congr_mem
  intro acc x hx
  rw [h x (List.mem_range.mp hx)]

theorem setGroup_in (s : Scr) (page : Int) (y x k : Nat) (g : Nat → Nat → Nat) (t : Nat) (ht : t < k) :
    setGroup s page y x k g page y (x + t) = g t (s page y (x + t)) := by
  unfold setGroup
  have : x + t - x = t := by omega
  simp [this, ht]

theorem setGroup_out (s : Scr) (page : Int) (y x k : Nat) (g : Nat → Nat → Nat) (p' : Int) (y' x' : Nat)
    (h : ¬ (p' = page ∧ y' = y ∧ x ≤ x' ∧ x' < x + k)) :
    setGroup s page y x k g p' y' x' = s p' y' x' := by
  unfold setGroup
  rw [if_neg h]

theorem poke_then_peek_cga (m : Mode) (hw : wfMode m = true) (hk : m.kind = 1) (np : Nat) (s : St) (a v : Nat)
    (hv : v < 256) (hok : coordOk m np (getCoords m a) = true) :
    peek m np (poke m np s a v) a = v := by
  obtain ⟨h8, _⟩ := wf_kind1 m hw hk
  rw [peek_cga m hw hk, poke_cga m hw hk]
  simp only [hok, if_true]
  unfold readCGA writeCGA
  rw [packByte_congr m.bpp m.ppb _ (unpackPix m.bpp m.ppb v)]
  · exact pack_unpack m.bpp m.ppb h8 v hv
  · intro t ht
    rw [setGroup_in _ _ _ _ _ _ t ht]

theorem bit_not_mask : ∀ mask < 256, ∀ p < 8, mask.testBit p = true → (255 - mask).testBit p = false := by
  decide +kernel

theorem div_mod_testBit (x p : Nat) : x / 2 ^ p % 2 = if x.testBit p then 1 else 0 := by
  rw [Nat.testBit_eq_decide_div_mod_eq]
  have := Nat.mod_two_eq_zero_or_one (x / 2 ^ p)
  rcases this with h | h <;> simp [h]

theorem masked_bit (mask old p b : Nat) (hm : mask < 256) (hp : mask.testBit p = true) :
    (((if b = 0 then 0 else mask) &&& mask) ||| (old &&& (255 - mask))) / 2 ^ p % 2 = if b = 0 then 0 else 1 := by
  have hp8 : p < 8 := by
    rcases Nat.lt_or_ge p 8 with h | h
    · exact h
    · have : mask < 2 ^ p := Nat.lt_of_lt_of_le hm (by
        calc 256 = 2 ^ 8 := by decide
          _ ≤ 2 ^ p := Nat.pow_le_pow_right (by omega) h)
      rw [Nat.testBit_lt_two_pow this] at hp
      cases hp
  have hn := bit_not_mask mask hm p hp8 hp
  rw [div_mod_testBit, Nat.testBit_or, Nat.testBit_and, Nat.testBit_and, hn]
  by_cases hb : b = 0
  · simp [hb]
  · simp [hb, hp]

theorem poke_then_peek_ega (m : Mode) (hw : wfMode m = true) (hk : m.kind = 2) (np : Nat) (s : St) (a v : Nat)
    (hv : v < 256) (hok : coordOk m np (getCoords m a) = true)
    (hused : planeUsed m (egaPlane m s) = true)
    (hwr : (s.mask &&& m.masterMask).testBit (egaPlane m s) = true) :
    peek m np (poke m np s a v) a = v := by
  obtain ⟨_, _, hmm⟩ := wf_kind2 m hw hk
  have hmask : s.mask &&& m.masterMask < 256 := Nat.lt_of_le_of_lt Nat.and_le_right hmm
  have hne : s.mask &&& m.masterMask ≠ 0 := by
    intro h0; rw [h0] at hwr; simp at hwr
  rw [peek_ega m hw hk, poke_ega m hw hk]
  have e1 : ∀ q : Scr, egaPlane m ⟨q, s.plane, s.mask⟩ = egaPlane m s := fun _ => rfl
  simp only [e1, hused, hok, hne, if_true, if_false, and_self]
  unfold readPlane writeMask
  rw [packByte_congr_mod 1 8 _ (unpackPix 1 8 v)]
  · exact pack_unpack 1 8 (by decide) v hv
  · intro t ht
    rw [setGroup_in _ _ _ _ _ _ t ht]
    simp only [Nat.pow_one]
    rw [masked_bit _ _ _ _ hmask hwr]
    unfold unpackPix
    simp only [Nat.pow_one]
    split <;> omega



theorem xOf_le (m : Mode) (hw : wfMode m = true) (hg : isGraphics m = true) (col : Nat)
    (h : col < m.bytesPerRow) : xOf m col + ppuOf m ≤ m.width := by
  unfold isGraphics at hg
  simp only [Bool.or_eq_true, decide_eq_true_eq] at hg
  rcases hg with (hk | hk) | hk
  · obtain ⟨h1, h2⟩ := wf_kind1 m hw hk
    have hb : 0 < m.bpp := by
      rcases Nat.eq_zero_or_pos m.bpp with h | h
      · rw [h] at h1; omega
      · exact h
    simp only [xOf, ppuOf, hk, if_true]
    rw [h2, ← h1]
    have e2 : col * (m.bpp * m.ppb) = m.bpp * (col * m.ppb) := by
      rw [Nat.mul_left_comm]
    rw [e2, Nat.mul_div_cancel_left _ hb]
    have : (col + 1) * m.ppb ≤ m.bytesPerRow * m.ppb := Nat.mul_le_mul_right _ h
    rw [Nat.add_mul, Nat.one_mul] at this
    exact this
  · obtain ⟨_, h2, _⟩ := wf_kind2 m hw hk
    simp only [xOf, ppuOf, hk]
    simp
    omega
  · obtain ⟨h1, _, h2⟩ := wf_kind3 m hw hk
    simp only [xOf, ppuOf, hk]
    simp
    omega

/-- the last pixel of unit j of a run is still inside the scan line -/
theorem run_step_le (m : Mode) (hw : wfMode m = true) (hg : isGraphics m = true) (ua rem j : Nat)
    (hj : j < runLen m ua (factorOf m) rem) :
    (getCoords m ua).x + j * ppuOf m + ppuOf m ≤ m.width := by
  obtain ⟨hR, hB, hil, hP⟩ := wf_basic m hw
  obtain ⟨hfR, hfB⟩ := factor_dvd m hw
  have hf := factor_pos m
  unfold runLen at hj
  simp only [Nat.lt_min] at hj
  obtain ⟨⟨hj1, hj2⟩, _⟩ := hj
  have b1 := unit_bound_row (factorOf m) (m.bytesPerRow / factorOf m) _ j hf hj1
  rw [hfR] at b1
  have hb := bank_offset m.pageSize m.bankSize m.interleave hB hil hP (rel m ua)
  rw [hb] at b1
  rw [getCoords_decomp m hw hg]
  simp only
  rw [← xOf_step m hw hg]
  exact xOf_le m hw hg _ b1

theorem mem_walkAux (m : Mode) (np addr n f : Nat) (r : Run) :
    ∀ fuel offset, r ∈ walkAux m np addr n f fuel offset →
      ∃ o, o < n ∧ r.x = (getCoords m (unitAddr addr o f)).x ∧ r.len = runLen m (unitAddr addr o f) f (n - o) := by
  intro fuel
  induction fuel with
  | zero => intro offset h; simp [walkAux] at h
  | succ fuel ih =>
    intro offset h
    unfold walkAux at h
    split at h
    · next hlt =>
      simp only at h
      split at h
      · rcases List.mem_cons.mp h with h | h
        · exact ⟨offset, hlt, by rw [h], by rw [h]⟩
        · exact ih _ h
      · exact ih _ h
    · simp at h

theorem run_in_row_lemma (m : Mode) (hw : wfMode m = true) (hg : isGraphics m = true) (np addr n : Nat)
    (r : Run) (hr : r ∈ walk m np addr n (factorOf m)) :
    0 < r.len ∧ r.x + r.len * ppuOf m ≤ m.width := by
  obtain ⟨o, ho, hx, hl⟩ := mem_walkAux m np addr n (factorOf m) r n 0 hr
  have hpos := runLen_pos m hw (unitAddr addr o (factorOf m)) (n - o) (by omega)
  rw [← hl] at hpos
  refine ⟨hpos, ?_⟩
  have := run_step_le m hw hg (unitAddr addr o (factorOf m)) (n - o) (r.len - 1) (by rw [← hl]; omega)
  rw [← hx] at this
  have e : r.len * ppuOf m = (r.len - 1) * ppuOf m + ppuOf m := by
    obtain ⟨k, hk⟩ : ∃ k, r.len = k + 1 := ⟨r.len - 1, by omega⟩
    rw [hk, Nat.add_sub_cancel, Nat.add_mul, Nat.one_mul]
  rw [e]; omega

theorem poke_then_peek_text (m : Mode) (hk : m.kind = 0) (np : Nat) (s : St) (a v : Nat)
    (hok : coordOk m np (getCoords m a) = true) :
    peek m np (poke m np s a v) a = v := by
  rw [peek_text m hk, poke_text m hk]
  simp [hok, setPix]


end PcbV.VideoMem
