"""C42 — PLAY emits the notes its music string specifies."""
import math
import signal
from fractions import Fraction

from vlib import basic

LEVEL = 'proof'
RULE = ('one case = one PLAY statement of a history run in a real Session in background mode with a recording audio '
        'queue; histories are 1-5 statements after CLEAR sharing one set of variables (integers, single, double, array, '
        'four MML strings); structured histories are rendered from command tokens (notes with #/+/-, length suffix, '
        'dots; N, P, L, T, O, <, >, MN/ML/MS/MF/MB, X substrings nested up to 4 deep, =var; and =arr(i); references, '
        'a catalogue of malformed commands) with random case, blanks and semicolons; fuzz histories are random byte '
        'strings over the MML alphabet; non-trivial = the statement emits at least one tone or raises an error')
EXPLANATION = ('theorems (PcbV.Props.C42): one tone per note in order, duration and gap formulas, pauses, octave clamping '
               'and table bound over all strings, N = letter note, malformed commands raise Illegal function call, '
               'self-inserting substrings end in Out of memory; correspondence: tone tuples, status and final play '
               'state of every statement compared with the compiled Lean model; oracle: expected tones computed from '
               'the command tokens by the formulas of the statement (exact fractions), independent of any parser')
TRUSTED_BASE = ['models PcbV.Model.Mml / PcbV.Model.Play are hand transcriptions of mlparser.py and Sound.play_/emit_tone '
                '(single voice, default syntax); NOTES, NOTE_FREQ shape, PlayState defaults and the nesting limit are '
                'regenerated into PcbV.Gen.Notes',
                'the float frequency table is compared numerically (1e-9 relative) with 440*2^((i-33)/12) for the 0-based '
                'table index i; float durations are identified with the nearest fraction of denominator <= 2*10^6']
ASSUMPTIONS = ['Tandy/PCjr three-voice PLAY, the V command and VARPTR$ references (byte <= 8 after = or X) are not driven',
               'variables referenced from MML hold integer values (to_int rounding belongs to the number properties)',
               'queue timing (MF waits, background buffer of 32) is not compared; statements are kept below 31 queue items']

S3_KEY = 'S3:frequency-index-is-note-number-minus-1'
SEMI = {'C': 0, 'D': 2, 'E': 4, 'F': 5, 'G': 7, 'A': 9, 'B': 11}
MAX_ITEMS = 30


class Hang(BaseException):
    """raised by the watchdogs; BaseException so that no `except Exception` swallows it"""


class RecordingQueue(object):
    """Queue interface of eventcycle.NullQueue, but remembers what is put."""

    def __init__(self):
        self.items = []

    def qsize(self):
        return 0

    def empty(self):
        return True

    def full(self):
        return False

    def put(self, item, block=False, timeout=False):
        self.items.append(item)

    put_nowait = put

    def get(self, block=False, timeout=False):
        try:
            import queue
        except ImportError:  # pragma: no cover
            import Queue as queue
        raise queue.Empty

    def task_done(self):
        pass

    def join(self):
        pass


class Impl(object):
    """A real Session with a recording audio queue; PLAY runs through Session.execute."""

    CPU_LIMIT = 4.0

    def __init__(self):
        self.errors = basic.error_table()
        self.session = None
        self.fresh()

    def fresh(self):
        if self.session is not None:
            try:
                self.session.close()
            except BaseException:  # noqa
                pass
        self.session = basic.new_session()
        self.q = RecordingQueue()
        queues = self.session._impl.queues
        queues.audio = self.q
        self.waits = 0
        orig_wait = queues.wait

        def wait():
            # a PLAY that waits for the queue to drain would make the check depend on real time
            self.waits += 1
            if self.waits > 100:
                raise Hang('queue wait')
            return orig_wait()
        queues.wait = wait

    def close(self):
        try:
            self.session.close()
        except BaseException:  # noqa
            pass

    def _on_timer(self, signum, frame):
        raise Hang('cpu')

    def execute(self, line):
        """(output bytes | None, 'ok' | 'exc:<name>' | 'hang')"""
        self.waits = 0
        old = signal.signal(signal.SIGVTALRM, self._on_timer)
        signal.setitimer(signal.ITIMER_VIRTUAL, self.CPU_LIMIT)
        try:
            try:
                out = self.session.execute(line)
            finally:
                signal.setitimer(signal.ITIMER_VIRTUAL, 0)
            return out, 'ok'
        except Hang:
            self.fresh()
            return None, 'hang'
        except Exception as e:
            name = type(e).__name__
            self.fresh()
            return None, 'exc:' + name
        finally:
            signal.signal(signal.SIGVTALRM, old)

    def drain(self):
        out = []
        for e in self.q.items:
            if getattr(e, 'event_type', None) == 'tone':
                out.append(tuple(e.params))
        del self.q.items[:]
        return out

    def status_of(self, out, how):
        if how != 'ok':
            return how
        text = out.replace(b'\xff', b'').strip()
        if not text:
            return 'ok'
        msg = text.split(b'\r')[0].strip()
        for m, n in self.errors.items():
            mb = m if isinstance(m, bytes) else m.encode('latin-1')
            if msg == mb:
                return 'err%d' % n
        return 'out:%r' % text[:40]

    def play_state(self):
        """final PlayState of voice 0 as the model prints it (None if the internals moved)"""
        try:
            snd = self.session._impl.sound
            st = snd._state[0]
            length = Fraction(st.length).limit_denominator(4096)
            tempo = Fraction(st.tempo).limit_denominator(4096)
            fill = Fraction(st.fill).limit_denominator(64)
            return '%d,%s,%s,%s,%d,%d' % (st.octave, 1 / length, 240 / tempo, fill * 8, st.volume,
                                          1 if snd._foreground else 0)
        except Exception:  # noqa
            return None

    def run_history(self, hist):
        """hist: dict(vars=[(name, kind, value)], stmts=[bytes]) -> list of (status, [tone tuples]), state"""
        s = self.session
        out, how = self.execute(b'CLEAR')
        self.drain()
        if how != 'ok':
            return [(how, [])] * len(hist['stmts']), None
        for name, kind, val in hist['vars']:
            if kind == 's':
                s.set_variable(name, bytes(val))
            elif kind == 'n':
                self.execute(name + b'=' + str(val).encode())
            else:
                self.execute(b'DIM ' + name[:-1] + b'(%d)' % (len(val) - 1))
                for i, v in enumerate(val):
                    if v:
                        self.execute(name[:-1] + b'(%d)=%d' % (i, v))
        res = []
        dead = False
        for mml in hist['stmts']:
            if dead:
                res.append(('skipped', []))
                continue
            s.set_variable(b'ZZP$', bytes(mml))
            self.drain()
            out, how = self.execute(b'PLAY ZZP$')
            tones = self.drain() if how == 'ok' else []
            res.append((self.status_of(out, how), tones))
            if how != 'ok':
                dead = True     # the session was replaced; the rest of the history has lost its state
                continue
            self.execute(b'SOUND 100,0')
        state = None if dead else self.play_state()
        return res, state


# --------------------------------------------------------------------------------------------------------------
# canonical form of tone tuples (the model's reply format)

def freq_index(f):
    """0-based index i with f = 440*2^((i-33)/12) within 1e-9 relative, else None"""
    if f <= 0:
        return None
    i = int(round(12 * math.log(f / 440.0, 2))) + 33
    exp = 440.0 * 2.0 ** ((i - 33) / 12.0)
    return i if abs(f - exp) <= 1e-9 * exp else None


def canon_tone(t):
    voice, freq, dur, loop, vol = t
    if freq == 0:
        note = 'r'
    else:
        i = freq_index(freq)
        note = 'i%d' % i if i is not None else 'f%r' % (freq,)
    fr = Fraction(dur).limit_denominator(2000000)
    if abs(float(fr) - dur) > 1e-9 * max(abs(dur), 1e-12):
        d = 'd%r' % (dur,)
    else:
        d = '%d/%d' % (fr.numerator, fr.denominator)
    extra = '' if (voice == 0 and not loop) else ':v%r:l%r' % (voice, loop)
    return '%s:%s:%d%s' % (note, d, vol, extra)


def canon_stmt(status, tones):
    return '/'.join([status] + [canon_tone(t) for t in tones])


def hx(b):
    b = bytes(b)
    return b.hex() if b else '-'


def model_line(hist, fuel=1500):
    binds = []
    for name, kind, val in hist['vars']:
        if kind == 's':
            binds.append('%s:s:%s' % (hx(name), hx(val)))
        elif kind == 'n':
            binds.append('%s:n:%d' % (hx(name), val))
        else:
            binds.append('%s:a:%s' % (hx(name), ','.join(str(v) for v in val)))
    return 'play %d %s %s' % (fuel, ';'.join(binds) or '-', ','.join(hx(m) for m in hist['stmts']))


# --------------------------------------------------------------------------------------------------------------
# structured generator: command tokens with a meaning, rendered with random spelling

NUM_POOL = [0, 1, 2, 3, 4, 5, 6, 7, 8, 12, 16, 24, 31, 32, 33, 34, 35, 45, 46, 48, 60, 63, 64, 65, 83, 84, 85,
            100, 120, 200, 254, 255, 256]

# malformed commands, each starting with a command letter so that it cannot merge with what precedes it;
# every one must raise Illegal function call
BAD = [b'H', b'Z', b'Q', b'R', b'U', b'W', b'Y', b'I', b'J', b'K', b'V10', b'V', b'MX', b'MM', b'M1', b'M;',
       b'N85', b'N-1', b'N100', b'N255', b'N', b'N;', b'N.', b'N- 5', b'N+ 5',
       b'L0', b'L65', b'L100', b'L', b'L-4', b'LC', b'T31', b'T0', b'T256', b'T', b'T-32', b'T1000',
       b'O7', b'O8', b'O-1', b'O', b'O>',
       b'E#', b'E+', b'B#', b'B+', b'C-', b'F-', b'P#4', b'P-4', b'P+4',
       b'P', b'P.', b'P65', b'P100', b'P0.', b'C65', b'G99', b'A100', b'C1 0 0',
       b'MN1', b'ML#', b'MS.', b'MN+', b'MN-', b'MN=', b'MN4', b'MB,', b'MF:', b'MN!', b'MN@', b'MN(', b'MN\x0b',
       b'MN\xff', b'MN\t', b'MN$', b'MN%', b'MN&', b'MN*', b'MN/', b'MN?', b'MN[', b'MN_', b'MN~', b'MN{',
       b'N=;', b'L=;', b'N=5;', b'X;', b'X1;', b'N==', b';;C']


def sp(rng):
    r = rng.random()
    return b'' if r < 0.75 else (b' ' if r < 0.95 else b'   ')


def cs(rng, b):
    return bytes(bytearray((c ^ 0x20) if (65 <= c <= 90 and rng.random() < 0.3) else c for c in bytearray(b)))


def lit(rng, k):
    """decimal literal with optional leading zeros and blanks between the digits"""
    s = str(k)
    if rng.random() < 0.1:
        s = '0' * rng.randint(1, 3) + s
    out = b''
    for ch in s:
        out += ch.encode() + (b' ' if rng.random() < 0.05 else b'')
    return out


class Gen(object):
    def __init__(self, rng):
        self.rng = rng
        rng = self.rng
        self.nums = {b'I%': rng.choice(NUM_POOL), b'J%': rng.randint(0, 6), b'K!': rng.choice(NUM_POOL),
                     b'Q#': rng.choice(NUM_POOL), b'LEN.GTH%': rng.choice([1, 2, 4, 8, 16, 32, 64]),
                     b'N': rng.randint(0, 90)}
        self.arr = [rng.choice(NUM_POOL) for _ in range(6)]
        self.subs = {}      # index -> (tokens, rendered bytes)

    # ---- numbers: (value, rendered bytes)
    def number(self, pool):
        rng = self.rng
        r = rng.random()
        if r < 0.72:
            k = rng.choice(pool)
            sign = b'+' if rng.random() < 0.08 else b''
            return k, sp(rng) + sign + lit(rng, k)
        if r < 0.90:
            name = rng.choice(sorted(self.nums))
            k = self.nums[name]
            ref = name if name != b'N' or rng.random() < 0.5 else b'N!'
            return k, sp(rng) + b'=' + sp(rng) + cs(rng, ref) + sp(rng) + b';'
        i = rng.randint(0, 5)
        k = self.arr[i]
        op, cl = rng.choice([(b'(', b')'), (b'[', b']'), (b'(', b']'), (b'[', b')')])
        if rng.random() < 0.4 and 0 <= self.nums[b'J%'] <= 5:
            i = self.nums[b'J%']
            k = self.arr[i]
            idx = cs(rng, b'J%')
        else:
            idx = lit(rng, i)
        return k, sp(rng) + b'=' + cs(rng, b'R') + sp(rng) + op + sp(rng) + idx + sp(rng) + cl + sp(rng) + b';'

    def dots(self):
        rng = self.rng
        n = rng.choice([0, 0, 0, 0, 1, 1, 2, 3])
        return n, b''.join(sp(rng) + b'.' for _ in range(n))

    def token(self, depth, allow_x):
        """-> (tok tuple, rendered bytes)"""
        rng = self.rng
        r = rng.random()
        if r < 0.34:
            letter = rng.choice('CDEFGAB')
            acc = rng.choice(['', '', '', '#', '+', '-'])
            text = cs(rng, letter.encode())
            if acc:
                text += sp(rng) + acc.encode()
            ln = None
            if rng.random() < 0.5:
                ln = rng.choice([0, 1, 2, 3, 4, 8, 16, 32, 63, 64, 5, 7, 12])
                text += sp(rng) + lit(rng, ln)
            nd, dt = self.dots()
            return ('note', letter, acc, ln, nd), text + dt
        if r < 0.42:
            k, text = self.number([0, 1, 2, 12, 13, 33, 34, 35, 48, 83, 84] + list(range(1, 85, 7)))
            nd, dt = self.dots()
            return ('N', k, nd), cs(rng, b'N') + text + dt
        if r < 0.49:
            ln = rng.choice([1, 2, 4, 8, 16, 32, 64, 3, 63, 0])
            nd, dt = self.dots() if ln else (0, b'')
            return ('P', ln, nd), cs(rng, b'P') + sp(rng) + lit(rng, ln) + dt
        if r < 0.57:
            k, text = self.number([1, 2, 3, 4, 8, 16, 32, 63, 64])
            return ('L', k), cs(rng, b'L') + text
        if r < 0.64:
            k, text = self.number([32, 33, 60, 100, 120, 180, 254, 255])
            return ('T', k), cs(rng, b'T') + text
        if r < 0.72:
            k, text = self.number([0, 1, 2, 3, 4, 5, 6])
            return ('O', k), cs(rng, b'O') + text
        if r < 0.80:
            c = rng.choice([b'>', b'<'])
            return (c.decode(),), c
        if r < 0.88:
            m = rng.choice('NLS')
            return ('M' + m,), cs(rng, b'M') + sp(rng) + cs(rng, m.encode())
        if r < 0.90:
            # foreground only in the middle of a string: MF ... MB (a final MF would wait for real time)
            return ('MFMB',), cs(rng, b'MF') + sp(rng) + cs(rng, b'MB')
        if r < 0.97 and allow_x and depth < 4:
            j = rng.randint(depth, 3)
            self.make_sub(j)
            return ('X', j), cs(rng, b'X') + sp(rng) + cs(rng, b'S%d$' % j) + sp(rng) + b';'
        if r < 0.985:
            b = rng.choice(BAD)
            text = cs(rng, b) if rng.random() < 0.5 else b
            head = b[:2].decode('latin-1')
            if head in ('MN', 'ML', 'MS', 'MB', 'MF') and len(b) > 2:
                # the mode command takes effect, then the rest is the malformed command
                return [(head if head not in ('MB', 'MF') else 'MB',), ('bad', b[2:].decode('latin-1'))], text
            return [('bad', b.decode('latin-1'))], text
        return ('MB',), cs(rng, b'M') + sp(rng) + cs(rng, b'B')

    def sequence(self, n, depth, allow_x=True):
        rng = self.rng
        toks, text = [], b''
        for i in range(n):
            t, b = self.token(depth, allow_x)
            if isinstance(t, list):
                toks.extend(t)
            else:
                toks.append(t)
            if i:
                r = rng.random()
                text += b'' if r < 0.6 else (b' ' if r < 0.8 else (b';' if r < 0.93 else b' ; '))
            text += b
        return toks, text

    def make_sub(self, j):
        """S<j>$ may only insert S<k>$ with k > j: no recursion in the structured part"""
        if j not in self.subs:
            self.subs[j] = None     # placeholder
            n = self.rng.choice([0, 1, 1, 2, 3, 4])
            self.subs[j] = self.sequence(n, j + 1)

    def history(self):
        rng = self.rng
        stmts = []
        for _ in range(rng.choice([1, 2, 2, 3, 4, 5])):
            toks, text = self.sequence(rng.choice([1, 2, 3, 4, 6, 8, 10]), 0)
            lead = rng.choice([b'MB', b'mb', b' M B ', b'MB;'])
            stmts.append(([('MB',)] + toks, lead + text))
        variables = [(n, 'n', v) for n, v in sorted(self.nums.items()) if n != b'N']
        variables.append((b'N!', 'n', self.nums[b'N']))
        variables.append((b'R!', 'a', list(self.arr)))
        for j in range(4):
            self.make_sub(j)
            variables.append((b'S%d$' % j, 's', self.subs[j][1]))
        return {'vars': variables, 'stmts': [t for _, t in stmts]}, [t for t, _ in stmts]


# --------------------------------------------------------------------------------------------------------------
# the oracle: expected tones from the command tokens, by the formulas of the property statement

class Expect(object):
    """state and expectations per the statement; never looks at the rendered text"""

    def __init__(self):
        self.octave, self.L, self.T, self.gap = 4, 4, 120, Fraction(1, 8)

    def dur(self, L, dots):
        return Fraction(60 * 4, self.T) / L * Fraction(3, 2) ** dots

    def run(self, toks, subs, out):
        """appends ('note', n, D, gap) / ('rest', D) to out; returns None or the error number expected"""
        for t in toks:
            k = t[0]
            if k == 'note':
                _, letter, acc, ln, nd = t
                semi = SEMI[letter] + (1 if acc in ('#', '+') else (-1 if acc == '-' else 0))
                if (letter, acc) in (('E', '#'), ('E', '+'), ('B', '#'), ('B', '+'), ('C', '-'), ('F', '-')):
                    return 5
                if ln is not None and not 0 <= ln <= 64:
                    return 5
                L = ln if ln else self.L
                out.append(('note', self.octave * 12 + semi + 1, self.dur(L, nd), self.gap))
            elif k == 'N':
                _, n, nd = t
                if not 0 <= n <= 84:
                    return 5
                if n == 0:
                    out.append(('rest', self.dur(self.L, nd)))
                else:
                    out.append(('note', n, self.dur(self.L, nd), self.gap))
            elif k == 'P':
                _, ln, nd = t
                if not 0 <= ln <= 64:
                    return 5
                if ln:
                    out.append(('rest', self.dur(ln, nd)))
            elif k == 'L':
                if not 1 <= t[1] <= 64:
                    return 5
                self.L = t[1]
            elif k == 'T':
                if not 32 <= t[1] <= 255:
                    return 5
                self.T = t[1]
            elif k == 'O':
                if not 0 <= t[1] <= 6:
                    return 5
                self.octave = t[1]
            elif k == '>':
                self.octave = min(6, self.octave + 1)
            elif k == '<':
                self.octave = max(0, self.octave - 1)
            elif k == 'MN':
                self.gap = Fraction(1, 8)
            elif k == 'ML':
                self.gap = Fraction(0)
            elif k == 'MS':
                self.gap = Fraction(1, 4)
            elif k in ('MB', 'MFMB'):
                pass
            elif k == 'X':
                e = self.run(subs[t[1]][0], subs, out)
                if e:
                    return e
            elif k == 'bad':
                return 5
            else:
                raise ValueError(k)
        return None


def close(a, b):
    return abs(a - b) <= 1e-9 * max(abs(b), 1e-300)


def stmt_freq(n):
    """the statement's formula for note number n"""
    return 440.0 * 2.0 ** ((n - 33) / 12.0)


def check_stmt(ctx, state, tag, case, exp, exp_err, status, tones):
    """compare one statement's observation with the expectation; returns True if it agreed (S3 aside)"""
    def fail(what, detail):
        ctx.fail('%s:%s' % (what, tag), case, detail)
        return False

    if status.startswith('exc:'):
        return fail('host-exception', 'PLAY let %s escape' % status[4:])
    if status == 'hang':
        return fail('hang', 'PLAY did not return (CPU watchdog or endless queue wait)')
    want = 'ok' if exp_err is None else 'err%d' % exp_err
    if status != want:
        return fail('status', 'expected %s, got %s' % (want, status))
    # regroup the observed signals: a note is a tone (freq > 0) followed, unless legato, by a silent gap
    pos = 0
    for idx, e in enumerate(exp):
        if pos >= len(tones):
            return fail('count', 'expected %d notes/pauses, the queue has fewer signals (%d)' % (len(exp), len(tones)))
        voice, freq, dur, loop, vol = tones[pos]
        pos += 1
        if voice != 0 or loop:
            return fail('signal', 'tone %d on voice %r loop %r' % (idx, voice, loop))
        if e[0] == 'rest':
            if freq != 0:
                return fail('pause', 'pause %d was emitted with frequency %r' % (idx, freq))
            if not close(dur, float(e[1])):
                return fail('pause-duration', 'pause %d lasts %r, expected %s' % (idx, dur, e[1]))
            continue
        _, n, D, gap = e
        if freq <= 0:
            return fail('count', 'note %d (number %d) was emitted as silence' % (idx, n))
        if close(freq, stmt_freq(n)):
            pass
        elif close(freq, stmt_freq(n - 1)):
            if not state.get('s3'):
                state['s3'] = True
                ctx.fail(S3_KEY, case, 'note number %d is played at %r Hz = 440*2^((n-34)/12); the statement\'s formula '
                         '440*2^((n-33)/12) gives %r' % (n, freq, stmt_freq(n)))
            ctx.count('S3 notes one table index below the statement')
        else:
            return fail('frequency', 'note %d (number %d) has frequency %r, expected %r' % (idx, n, freq, stmt_freq(n)))
        if vol <= 0:
            return fail('volume', 'note %d is emitted with volume %r' % (idx, vol))
        if not close(dur, float(D * (1 - gap))):
            return fail('duration', 'note %d sounds for %r, expected %s*(1-%s)' % (idx, dur, D, gap))
        if gap:
            if pos >= len(tones):
                return fail('gap', 'note %d is not followed by its gap' % idx)
            gvoice, gfreq, gdur, gloop, gvol = tones[pos]
            pos += 1
            if gfreq != 0 or gvoice != 0 or gloop:
                return fail('gap', 'note %d is followed by %r instead of a silent gap' % (idx, tones[pos - 1]))
            if not close(gdur, float(D * gap)):
                return fail('gap', 'gap after note %d lasts %r, expected %s*%s' % (idx, gdur, D, gap))
    if pos != len(tones):
        return fail('count', 'expected %d notes/pauses, the queue has %d more signals' % (len(exp), len(tones) - pos))
    return True


def last_kind(toks, subs):
    """tag for failure keys: the kinds of commands in the statement (order-free, short)"""
    kinds = set()

    def walk(ts, d):
        for t in ts:
            kinds.add(t[0] if t[0] != 'bad' else 'bad(%s)' % t[1])
            if t[0] == 'X' and d < 6:
                walk(subs[t[1]][0], d + 1)
    walk(toks, 0)
    return '+'.join(sorted(kinds))


def jsonable(hist):
    return {'vars': [[n.decode('latin-1'), k, (v.decode('latin-1') if k == 's' else v)] for n, k, v in hist['vars']],
            'stmts': [m.decode('latin-1') for m in hist['stmts']]}


def unjson(h):
    return {'vars': [(n.encode('latin-1'), k, (v.encode('latin-1') if k == 's' else v)) for n, k, v in h['vars']],
            'stmts': [m.encode('latin-1') for m in h['stmts']]}


PENDING = []


def compare_model(ctx, hist, res, state, label):
    """queue one history for the comparison with the model (one driver call per batch)"""
    PENDING.append((hist, res, state, label))
    if len(PENDING) >= 400:
        flush_model(ctx)


def flush_model(ctx):
    batch = list(PENDING)
    del PENDING[:]
    if not batch:
        return
    lines = [model_line(h) for h, _, _, _ in batch]
    mouts = ctx.model(lines)
    if mouts is None:
        return
    for (hist, res, state, label), line, m in zip(batch, lines, mouts):
        compare_one(ctx, hist, res, state, label, line, m)


def compare_one(ctx, hist, res, state, label, line, m):
    impl = 'ok ' + ';'.join(canon_stmt(st, tones) for st, tones in res)
    if state is None or any(st in ('skipped',) or st.startswith('exc') or st == 'hang' for st, _ in res):
        m_cmp = m.rsplit(' ', 1)[0]       # no state to compare
    else:
        impl += ' ' + state
        m_cmp = m
    if impl != m_cmp:
        ctx.disagree({'label': label, 'input': jsonable(hist), 'line': line[:2000]}, impl[:2000], m_cmp[:2000])


def structured(ctx, impl, n_hist, state):
    for _ in range(n_hist):
        g = Gen(ctx.rng)
        hist, toklists = g.history()
        # expectations first: keep every statement below the background buffer
        ex = Expect()
        plans = []
        too_long = False
        for toks in toklists:
            out = []
            err = ex.run(toks, g.subs, out)
            plans.append((out, err))
            if sum(2 if e[0] == 'note' else 1 for e in out) > MAX_ITEMS:
                too_long = True
        if too_long:
            ctx.count('structured: regenerated (too many tones for the background buffer)')
            continue
        res, st = impl.run_history(hist)
        compare_model(ctx, hist, res, st, 'structured')
        for i, ((out, err), (status, tones)) in enumerate(zip(plans, res)):
            if status == 'skipped':
                continue
            ctx.case(('s', hist['stmts'][i], tuple(sorted((n, repr(v)) for n, _, v in hist['vars']))))
            ctx.count('stmt:' + ('ok' if err is None else 'err%d' % err))
            ctx.count('tones expected', len(out))
            for t in toklists[i]:
                ctx.count('tok:' + t[0])
            case = {'kind': 'structured', 'hist': jsonable(hist), 'stmt': i,
                    'tokens': [[list(t) for t in tl] for tl in toklists],
                    'subs': {str(j): [list(t) for t in v[0]] for j, v in g.subs.items()}}
            check_stmt(ctx, state, last_kind(toklists[i], g.subs), case, out, err, status, tones)
        if len(ctx.samples) < 4:
            ctx.sample({'stmts': [m.decode('latin-1') for m in hist['stmts']],
                        'impl': [canon_stmt(s_, t_) for s_, t_ in res]})


FUZZ_ALPHABET = (b'CDEFGABcdefgab' * 3 + b'NLTOPMXnltopmx' * 2 + b'0123456789' * 3 + b'#+-..  ;;<>=' * 2
                 + b'SIJKRQ$%!()[],' + b'HZVWY*&@\x09\x80\xff:')   # no bytes <= 8: after = / X they start a VARPTR$ reference (not driven)


def fuzz(ctx, impl, n_hist, state):
    rng = ctx.rng
    hists = []
    for _ in range(n_hist):
        nums = {b'I%': rng.choice(NUM_POOL), b'J%': rng.randint(0, 6), b'K!': rng.choice(NUM_POOL),
                b'Q#': rng.choice(NUM_POOL)}
        arr = [rng.choice(NUM_POOL) for _ in range(6)]

        def rnd_string(maxlen):
            n = rng.choice([0, 1, 2, 3, 5, 8, 12, 20, maxlen])
            s = bytearray(rng.choice(bytearray(FUZZ_ALPHABET)) for _ in range(n))
            # sprinkle well-formed references so that the variable paths are reached
            for _ in range(rng.choice([0, 0, 1, 2])):
                ref = rng.choice([b'XS0$;', b'XS1$;', b'xs2$;', b'X S3$ ;', b'=I%;', b'=J%;', b'=K!;', b'= q# ;',
                                  b'=R(2);', b'=R(J%);', b'=R(S0$);', b'=R(9);', b'=R(1,1);', b'=S0$;', b'XI%;',
                                  b'=R(R(J%));', b'=R(2;', b'=UNSET;', b'XUNSET$;', b'=R(;', b'=R();', b'=%;'])
                p = rng.randint(0, len(s))
                s[p:p] = ref
            # never end in foreground mode (the statement would wait for real time)
            return bytes(s) + b' MB'
        variables = [(n, 'n', v) for n, v in sorted(nums.items())]
        variables.append((b'R!', 'a', arr))
        for j in range(4):
            variables.append((b'S%d$' % j, 's', rnd_string(10)))
        hists.append({'vars': variables,
                      'stmts': [b'MB' + rnd_string(30) for _ in range(rng.choice([1, 2, 3]))]})
    # the model predicts how many signals a statement queues; skip what would block on the buffer
    lines = [model_line(h) for h in hists]
    pres = ctx.model(lines)
    if pres is None:
        return
    for hist, line, pre in zip(hists, lines, pres):
        body = pre.split(' ')[1] if pre.startswith('ok ') else ''
        if not body or 'hang' in body or any(len(st.split('/')) - 1 > MAX_ITEMS for st in body.split(';')):
            ctx.count('fuzz: skipped (too many tones for the background buffer)')
            continue
        res, st = impl.run_history(hist)
        compare_one(ctx, hist, res, st, 'fuzz', line, pre)
        uses_vars = lambda m: (b'=' in m or b'X' in m.upper())
        for i, (status, tones) in enumerate(res):
            if status == 'skipped':
                continue
            ctx.case(('f', hist['stmts'][i], tuple(sorted((n, repr(v)) for n, _, v in hist['vars']))))
            ctx.count('fuzz:' + status.split(':')[0])
            case = {'kind': 'fuzz', 'hist': jsonable(hist), 'stmt': i}
            if status.startswith('exc:'):
                ctx.fail('host-exception:fuzz', case, 'PLAY %r let %s escape' % (hist['stmts'][i], status[4:]))
            elif status == 'hang':
                ctx.fail('hang:fuzz', case, 'PLAY %r did not return' % (hist['stmts'][i],))
            elif status.startswith('out:'):
                ctx.fail('output:fuzz', case, 'PLAY %r printed %s' % (hist['stmts'][i], status))
            elif status not in ('ok', 'err5') and not uses_vars(hist['stmts'][i]):
                ctx.fail('error-kind:fuzz', case, 'a string without variable references raised %s, not Illegal '
                         'function call' % status)
            # whatever the string, every signal is a table tone or silence, on voice 0, with a positive duration
            for t in tones:
                if t[0] != 0 or t[3] or not (t[1] == 0 or freq_index(t[1]) in range(0, 84)) or not t[2] > 0:
                    ctx.fail('signal:fuzz', case, 'PLAY %r queued %r' % (hist['stmts'][i], t))
                    break


RECURSIVE = [
    # (variables, statement): substrings that insert themselves, directly or in a cycle
    ([(b'A$', b'XA$;')], b'MBXA$;'),
    ([(b'A$', b'CXA$;')], b'MBT255L64XA$;'),
    ([(b'A$', b'XA$;C')], b'MBXA$;'),
    ([(b'A$', b'XB$;'), (b'B$', b'XA$;')], b'MBXA$;'),
    ([(b'A$', b'L64XB$;D'), (b'B$', b'T255 E XC$;'), (b'C$', b'xa$;')], b'MB T255 L64 C XA$; G'),
    ([(b'A$', b'X')], b'MBXA$;A$;'),
]


def recursion(ctx, impl, state):
    """substrings that insert themselves must end in a BASIC error, not hang or crash"""
    for variables, mml in RECURSIVE:
        hist = {'vars': [(n, 's', v) for n, v in variables], 'stmts': [mml]}
        res, st = impl.run_history(hist)
        status, tones = res[0]
        ctx.case(('r', mml, tuple(variables)))
        ctx.count('recursive:' + status.split(':')[0])
        case = {'kind': 'recursive', 'hist': jsonable(hist), 'stmt': 0}
        compare_model(ctx, hist, res, st, 'recursive')
        if status == 'hang':
            ctx.fail('hang:recursive-X', case, 'PLAY %r with %r does not return' % (mml, variables))
        elif status.startswith('exc:'):
            ctx.fail('host-exception:recursive-X', case, 'PLAY %r let %s escape' % (mml, status[4:]))
        elif not status.startswith('err'):
            ctx.fail('status:recursive-X', case, 'expected a BASIC error, got %s' % status)
    # deep but finite nesting plays to the end: S0$ inserts S1$ ... 20 levels
    names = [b'N%d$' % i for i in range(20)]
    variables = [(names[i], 's', b'C' + (b'X' + names[i + 1] + b';' if i + 1 < 20 else b'')) for i in range(20)]
    hist = {'vars': variables, 'stmts': [b'MBT255L64MLXN0$;']}
    res, st = impl.run_history(hist)
    compare_model(ctx, hist, res, st, 'nested')
    status, tones = res[0]
    ctx.case(('nested', 20))
    if status != 'ok' or len(tones) != 20:
        ctx.fail('nested-20:X', {'kind': 'nested', 'hist': jsonable(hist), 'stmt': 0},
                 '20 nested (non-recursive) substrings: status %s, %d tones' % (status, len(tones)))


def index_type(ctx, impl):
    """=ARR(S$); – a string variable as array index is a Type mismatch, not a host exception"""
    for mml in (b'MBN=R(S0$);', b'MBL=R(1,S0$);', b'MBXS1$;'):
        hist = {'vars': [(b'R!', 'a', [1, 2, 3]), (b'S0$', 's', b'C'), (b'S1$', 's', b'N=R(S0$);')], 'stmts': [mml]}
        res, st = impl.run_history(hist)
        compare_model(ctx, hist, res, st, 'index-type')
        status, _ = res[0]
        ctx.case(('index', mml))
        ctx.count('index-type:' + status.split(':')[0])
        if not status.startswith('err'):
            ctx.fail('string-array-index:' + ('host-exception' if status.startswith('exc') else 'status'),
                     {'kind': 'index', 'hist': jsonable(hist), 'stmt': 0},
                     'PLAY %r: expected a BASIC error, got %s' % (mml, status))


def table_check(ctx, impl, state):
    """every N and every octave/letter, one by one (exhaustive over the note table)"""
    letters = [('C', 0), ('C#', 1), ('D-', 1), ('D', 2), ('D+', 3), ('E-', 3), ('E', 4), ('F', 5), ('F#', 6), ('G-', 6),
               ('G', 7), ('G+', 8), ('A-', 8), ('A', 9), ('A#', 10), ('B-', 10), ('B', 11)]
    for o in range(7):
        stmts, toks = [], []
        for name, semi in letters:
            n = o * 12 + semi + 1
            stmts.append(b'MBT255L64O%d%sN%d' % (o, name.encode(), n))
            toks.append((n, name))
        hist = {'vars': [], 'stmts': stmts}
        res, st = impl.run_history(hist)
        compare_model(ctx, hist, res, st, 'table')
        for (n, name), (status, tones) in zip(toks, res):
            ctx.case(('table', o, name))
            D = Fraction(240, 255) / 64
            exp = [('note', n, D, Fraction(1, 8)), ('note', n, D, Fraction(1, 8))]
            case = {'kind': 'table', 'hist': jsonable(hist), 'octave': o, 'note': name}
            if check_stmt(ctx, state, 'table', case, exp, None, status, tones):
                # N n and the letter note are the same tone
                if tones[0][1] != tones[2][1]:
                    ctx.fail('n-vs-letter:O%d%s' % (o, name), case, 'O%d%s plays %r, N%d plays %r'
                             % (o, name, tones[0][1], n, tones[2][1]))
    ctx.count('table: octave x note name pairs', 7 * len(letters))


def run(ctx):
    impl = Impl()
    state = {}
    try:
        recursion(ctx, impl, state)
        index_type(ctx, impl)
        table_check(ctx, impl, state)
        structured(ctx, impl, 700 if ctx.quick else 6000, state)
        flush_model(ctx)
        fuzz(ctx, impl, 500 if ctx.quick else 5000, state)
    finally:
        flush_model(ctx)
        impl.close()
    ctx.notes['frequency_reference'] = '440*2^((i-33)/12) for the 0-based NOTE_FREQ index i, 1e-9 relative'


def replay(ctx, payload):
    case = payload.get('case', {})
    key = payload.get('key')
    sub = Ctx2(ctx)
    impl = Impl()
    state = {}
    try:
        kind = case.get('kind')
        if kind == 'structured':
            hist = unjson(case['hist'])
            toklists = [[tuple(t) for t in tl] for tl in case['tokens']]
            subs = {int(j): ([tuple(t) for t in v], b'') for j, v in case['subs'].items()}
            ex = Expect()
            res, st = impl.run_history(hist)
            for i, toks in enumerate(toklists):
                out = []
                err = ex.run(toks, subs, out)
                if res[i][0] != 'skipped':
                    check_stmt(sub, state, last_kind(toks, subs), case, out, err, res[i][0], res[i][1])
        elif kind == 'table':
            table_check(sub, impl, state)
        elif kind == 'recursive' or kind == 'nested':
            recursion(sub, impl, state)
        elif kind == 'index':
            index_type(sub, impl)
        elif kind == 'fuzz':
            hist = unjson(case['hist'])
            res, st = impl.run_history(hist)
            for status, tones in res:
                if status.startswith('exc:') or status == 'hang' or status.startswith('out:'):
                    return 'PLAY still ends with %s' % status
                for t in tones:
                    if t[0] != 0 or t[3] or not (t[1] == 0 or freq_index(t[1]) in range(0, 84)) or not t[2] > 0:
                        return 'PLAY still queues %r' % (t,)
                if key == 'error-kind:fuzz' and status not in ('ok', 'err5'):
                    return 'still raises %s' % status
            return None
        else:
            import random
            sub.rng = random.Random(payload.get('seed', 0))
            run(sub)
    finally:
        impl.close()
    hits = [f for f in sub.failures if f['key'] == key]
    return hits[0]['what'] if hits else None


class Ctx2(object):
    """thin proxy so replay can reuse the checks without touching the outer evidence"""
    def __init__(self, ctx):
        self.__dict__.update(ctx.__dict__)
        self._ctx = ctx
        self.failures = []
        self.disagreements = []

    def __getattr__(self, name):
        return getattr(self._ctx.__class__, name).__get__(self)
