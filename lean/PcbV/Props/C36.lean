import PcbV.Lemmas.TextScreenClosed
/-
  C36 — the text cursor and the screen content stay consistent.

  Subject: PcbV.Model.TextScreen (transcription of textscreen.py / console.py / SCRNFile.write / PRINT of
  one string / SCREEN, WIDTH, CLS, VIEW PRINT, LOCATE, CSRLIN, POS, SCREEN()), REPAIRED code
  (pending_fixes/C36-*.diff).  Histories are arbitrary lists of `Op` run from a fresh session (`init`);
  `Inv` (PcbV.Lemmas.TextScreen) is the representation invariant they maintain.
-/
namespace PcbV.C36
open PcbV PcbV.TextScreen

/-- the generated constants are the ones the model and the proofs use -/
theorem constants_match :
    Gen.TextModes.height = height ∧ Gen.TextModes.textWidths = [40, 80] ∧
    (∀ p ∈ Gen.TextModes.graphicsWidth, p.2 = 40 ∨ p.2 = 80) ∧ Gen.E.ifc = 5 := by decide

/-! ### cursor_in_screen -/

/-- After every history the cursor is inside the screen, and so is the position CSRLIN/POS report. -/
theorem cursor_in_screen (ops : List Op) :
    let s := run init ops
    1 ≤ s.row ∧ s.row ≤ 25 ∧ 1 ≤ s.col ∧ s.col ≤ s.width ∧ (s.width = 40 ∨ s.width = 80) ∧
    1 ≤ csrlin s ∧ csrlin s ≤ 25 ∧ 1 ≤ pos s ∧ pos s ≤ s.width := by
  intro s
  have i : Inv s := inv_run inv_init ops
  have h1 := i.top1; have h2 := i.tb; have h3 := i.b24; have c1 := i.col1; have c2 := i.colw; have hw := i.w
  have hr : 1 ≤ s.row ∧ s.row ≤ 25 := by rcases i.rowok with h | h <;> omega
  refine ⟨hr.1, hr.2, c1, c2, hw, ?_, ?_, ?_, ?_⟩
  · unfold csrlin; split <;> omega
  · unfold csrlin; split <;> omega
  · unfold pos; split <;> omega
  · unfold pos; split <;> omega

/-- the invariant behind it, for every history from every well-formed state -/
theorem invariant_preserved {s : St} (i : Inv s) (ops : List Op) : Inv (run s ops) := inv_run i ops

/-! ### csrlin_pos_report -/

/-- CSRLIN and POS report the cursor; right after a write to the last column (wrap pending) they report
    the cell the next character goes to: column 1 of the next row, or of the same row when that is the last
    row of the scroll window (the window scrolls first). -/
theorem csrlin_pos_report (ops : List Op) :
    let s := run init ops
    (s.overflow = false → csrlin s = s.row ∧ pos s = s.col) ∧
    (s.overflow = true → s.col = s.width ∧ pos s = 1 ∧
      csrlin s = if s.row < s.bottom then s.row + 1 else s.row) := by
  intro s
  have i : Inv s := inv_run inv_init ops
  constructor
  · intro h; simp [csrlin, pos, h]
  · intro h
    have := i.ovf h
    simp [csrlin, pos, h, this]

/-! ### locate_spec -/

/-- the arguments `LOCATE r,c` accepts -/
def locateValid (s : St) (r c : Int) : Prop :=
  (if s.active then (s.top : Int) ≤ r ∧ r ≤ s.bottom else 1 ≤ r ∧ r ≤ 25) ∧ 1 ≤ c ∧ c ≤ s.width

instance (s : St) (r c : Int) : Decidable (locateValid s r c) := by unfold locateValid; infer_instance

/-- LOCATE r,c moves the cursor exactly to (r,c) — CSRLIN and POS then report r and c, no wrap is pending,
    the text is untouched — when r is inside the screen (inside the VIEW PRINT window if one is set) and c is
    a column of the screen; otherwise it raises Illegal function call (and, being an `Except`, changes nothing). -/
theorem locate_spec {s : St} (i : Inv s) (r c : Int) :
    (locateValid s r c → ∃ t, locate s (some r) (some c) = .ok t ∧ MovedTo s t r.toNat c.toNat) ∧
    (¬ locateValid s r c → locate s (some r) (some c) = .error 5) := by
  have h1 := i.top1; have h2 := i.tb; have h3 := i.b24; have hw := i.w
  have hact := i.act
  constructor
  · intro hv
    obtain ⟨hr, hc1, hc2⟩ := hv
    have hrow : (if s.active = true then inRange ↑s.top ↑s.bottom r else inRange 1 ↑height r) = true := by
      split at hr <;> rename_i ha
      · simp [ha, inRange_iff, hr]
      · simp [ha, inRange_iff, height, hr]
    have hcol : inRange 1 ↑s.width c = true := by simp [inRange_iff, hc1, hc2]
    unfold locate
    simp only [Option.getD_some, Option.isSome_some, true_or, if_true]
    rw [if_neg (by simp [hrow]), if_neg (by simp [hcol])]
    refine ⟨_, rfl, ?_⟩
    by_cases h25 : r = (height : Int)
    · -- the bottom row: `_bottom_row_allowed`
      have e25 : r.toNat = 25 := by simp [h25, height]
      rw [if_pos h25, e25]
      have := setPos_row25 (u := { { s with bottomAllowed := true } with overflow := false }) (c := c.toNat)
        rfl rfl (by omega) (by simp only []; omega)
      unfold MovedTo at this ⊢
      exact this
    · -- inside the window
      have hin : s.top ≤ r.toNat ∧ r.toNat ≤ s.bottom := by
        split at hr <;> rename_i ha
        · omega
        · have := hact (by simpa using ha); simp only [height] at h25; omega
      rw [if_neg h25]
      have := setPos_in_window (u := { s with overflow := false }) (r := r.toNat) (c := c.toNat) rfl (by omega)
        (by simp only []; omega) hin.1 hin.2 h3
      unfold MovedTo at this ⊢
      exact this
  · intro hv
    unfold locate
    simp only [Option.getD_some]
    by_cases hrow : (if s.active = true then inRange ↑s.top ↑s.bottom r else inRange 1 ↑height r) = true
    · rw [if_neg (by simp [hrow])]
      by_cases hcol : inRange 1 ↑s.width c = true
      · exfalso
        apply hv
        rw [inRange_iff] at hcol
        refine ⟨?_, hcol.1, hcol.2⟩
        split at hrow <;> rename_i ha
        · rw [inRange_iff] at hrow; rw [if_pos ha]; exact hrow
        · rw [inRange_iff] at hrow; rw [if_neg ha]; simp only [height] at hrow; exact ⟨hrow.1, by omega⟩
      · rw [if_pos (by simp [hcol])]; rfl
    · rw [if_pos (by simp [hrow])]; rfl

/-- `set_pos` to the current cell changes nothing -/
theorem setPos_self {s : St} (i : Inv s) : setPos s s.row s.col false = s := by
  have c1 := i.col1; have c2 := i.colw; have hw := i.w
  have e0 : (if s.col < s.width then { s with overflow := false } else s) = s := by
    split
    · rename_i hlt
      have : s.overflow = false := by
        cases h : s.overflow
        · rfl
        · have := i.ovf h; omega
      cases s; simp_all
    · rfl
  unfold setPos
  simp only []
  rw [e0]
  show wrapAround s false = s
  rcases i.rowok with h | h
  · exact wrapAround_id false h.2.2 c1 c2 h.1 h.2.1
  · rw [wrapAround_eq, if_pos ⟨h.2, by rw [h.1]; rfl⟩]
    have : min s.width s.col = s.col := by omega
    rw [this, if_neg (by omega)]

/-- **LOCATE with omitted arguments.**  An omitted row or column stands for the current one
    (`current_row` / `current_col`; with a wrap pending that is the last column of the row the cursor is still
    on, not the cell CSRLIN/POS announce).  With the completed pair `(row, col)`:
    * valid and at least one argument given: the cursor is exactly at `(row, col)`, CSRLIN/POS report it, no wrap
      is pending, text and window untouched (`MovedTo`);
    * valid and both omitted (`LOCATE`, `LOCATE ,`): nothing changes at all, a pending wrap included;
    * invalid: Illegal function call.
    `locate_spec` is the case of two given arguments. -/
theorem locate_spec_omitted {s : St} (i : Inv s) (r c : Option Int) :
    let row : Int := r.getD s.row
    let col : Int := c.getD s.col
    (locateValid s row col → ∃ t, locate s r c = .ok t ∧
        ((r.isSome ∨ c.isSome) → MovedTo s t row.toNat col.toNat) ∧ (r = none ∧ c = none → t = s)) ∧
    (¬ locateValid s row col → locate s r c = .error 5) ∧
    (c = none → (1 : Int) ≤ col ∧ col ≤ s.width) ∧
    (r = none → (s.active = false ∨ s.row ≤ s.bottom) →
      (if s.active then (s.top : Int) ≤ row ∧ row ≤ s.bottom else 1 ≤ row ∧ row ≤ 25)) := by
  intro row col
  have er' : r.getD ↑s.row = row := rfl
  have ec' : c.getD ↑s.col = col := rfl
  have h1 := i.top1; have h2 := i.tb; have h3 := i.b24; have hw := i.w
  have hact := i.act
  have c1 := i.col1; have c2 := i.colw
  have hrow25 : 1 ≤ s.row ∧ s.row ≤ 25 := by rcases i.rowok with h | h <;> omega
  refine ⟨?_, ?_, ?_, ?_⟩
  · intro hv
    obtain ⟨hr, hc1, hc2⟩ := hv
    have hrow : (if s.active = true then inRange ↑s.top ↑s.bottom row else inRange 1 ↑height row) = true := by
      split at hr <;> rename_i ha
      · simp [ha, inRange_iff, hr]
      · simp [ha, inRange_iff, height, hr]
    have hcol : inRange 1 ↑s.width col = true := by simp [inRange_iff, hc1, hc2]
    unfold locate
    simp only [er', ec']
    rw [if_neg (by simp [hrow]), if_neg (by simp [hcol])]
    refine ⟨_, rfl, ?_, ?_⟩
    · intro hsome
      rw [if_pos hsome]
      by_cases h25 : row = (height : Int)
      · have e25 : row.toNat = 25 := by simp [h25, height]
        rw [if_pos h25, e25]
        have := setPos_row25 (u := { { s with bottomAllowed := true } with overflow := false }) (c := col.toNat)
          rfl rfl (by omega) (by simp only []; omega)
        unfold MovedTo at this ⊢
        exact this
      · have hin : s.top ≤ row.toNat ∧ row.toNat ≤ s.bottom := by
          split at hr <;> rename_i ha
          · omega
          · have := hact (by simpa using ha); simp only [height] at h25; omega
        rw [if_neg h25]
        have := setPos_in_window (u := { s with overflow := false }) (r := row.toNat) (c := col.toNat) rfl
          (by omega) (by simp only []; omega) hin.1 hin.2 h3
        unfold MovedTo at this ⊢
        exact this
    · intro ⟨hr0, hc0⟩
      subst hr0 hc0
      have er : row = (s.row : Int) := rfl
      have ec : col = (s.col : Int) := rfl
      simp only [Option.isSome_none, Bool.false_eq_true, or_self, if_false]
      rw [er, ec, Int.toNat_natCast, Int.toNat_natCast]
      have e1 : (if (s.row : Int) = (height : Int) then { s with bottomAllowed := true } else s) = s := by
        split
        · rename_i h25
          have : s.row = 25 := by simp only [height] at h25; omega
          rcases i.rowok with h | h
          · omega
          · cases s; simp_all
        · rfl
      rw [e1]
      exact setPos_self i
  · intro hv
    unfold locate
    simp only [er', ec']
    by_cases hrow : (if s.active = true then inRange ↑s.top ↑s.bottom row else inRange 1 ↑height row) = true
    · rw [if_neg (by simp [hrow])]
      by_cases hcol : inRange 1 ↑s.width col = true
      · exfalso
        apply hv
        rw [inRange_iff] at hcol
        refine ⟨?_, hcol.1, hcol.2⟩
        split at hrow <;> rename_i ha
        · rw [inRange_iff] at hrow; rw [if_pos ha]; exact hrow
        · rw [inRange_iff] at hrow; rw [if_neg ha]; simp only [height] at hrow; exact ⟨hrow.1, by omega⟩
      · rw [if_pos (by simp [hcol])]; rfl
    · rw [if_pos (by simp [hrow])]; rfl
  · intro hc0
    subst hc0
    have ec : col = (s.col : Int) := rfl
    rw [ec]; omega
  · intro hr0 hwin
    subst hr0
    have er : row = (s.row : Int) := rfl
    rw [er]
    split
    · rename_i ha
      rcases hwin with h | h
      · rw [h] at ha; cases ha
      · rcases i.rowok with x | x
        · omega
        · omega
    · omega

/-! ### screen_fn_reads_last_written -/

/-- a character written to a cell of the screen is what the buffer holds there -/
theorem cell_putCell_same {ch : List (List Nat)} {w r c : Nat} (v : Nat) (hl : ∀ x ∈ ch, x.length = w)
    (r1 : 1 ≤ r) (r2 : r ≤ ch.length) (c1 : 1 ≤ c) (c2 : c ≤ w) : cell (putCell ch r c v) r c = v := by
  rw [cell_eq, getElem?_putCell, if_pos rfl]
  have hr : r - 1 < ch.length := by omega
  rw [List.getElem?_eq_getElem hr]
  have := hl _ (List.getElem_mem hr)
  simp only [Option.map_some, Option.getD_some]
  rw [List.getD_eq_getElem?_getD, List.getElem?_set_self (by omega)]
  rfl

/-- … and every other cell keeps its character -/
theorem cell_putCell_other (ch : List (List Nat)) (r c v r' c' : Nat) (r1 : 1 ≤ r) (c1 : 1 ≤ c) (r1' : 1 ≤ r')
    (c1' : 1 ≤ c') (h : r' ≠ r ∨ c' ≠ c) : cell (putCell ch r c v) r' c' = cell ch r' c' := by
  rw [cell_eq, cell_eq, getElem?_putCell]
  split
  · rename_i e
    have hc : c' ≠ c := by rcases h with h | h <;> omega
    cases hx : ch[r' - 1]? with
    | none => rfl
    | some x =>
      simp only [Option.map_some, Option.getD_some]
      rw [List.getD_eq_getElem?_getD, List.getD_eq_getElem?_getD, List.getElem?_set_ne (by omega)]
  · rfl

/-- scrolling moves the rows of the window up by one and blanks its last row -/
theorem cell_scroll {s : St} (g : Geo s) (r c : Nat) (r1 : 1 ≤ r) (c1 : 1 ≤ c) (c2 : c ≤ s.width) :
    cell (scroll s).chars r c =
      if s.top ≤ r ∧ r < s.bottom then cell s.chars (r + 1) c
      else if r = s.bottom then 32 else cell s.chars r c := by
  have h1 := g.top1; have h2 := g.tb; have h3 := g.b24; have hl := g.clen
  have e : (scroll s).chars = scrollUpChars s.width s.chars s.top s.bottom := by
    unfold scroll; simp only []; split <;> rfl
  rw [e, cell_eq]
  unfold scrollUpChars
  rw [getElem?_pyDel, getElem?_pyInsert _ _ _ (by omega)]
  by_cases ha : s.top ≤ r ∧ r < s.bottom
  · rw [if_pos ha, if_neg (by omega), getElem?_pyInsert _ _ _ (by omega), if_pos (by omega), cell_eq]
    congr 3; omega
  · rw [if_neg ha]
    by_cases hb : r = s.bottom
    · rw [if_pos hb, if_neg (by omega), getElem?_pyInsert _ _ _ (by omega), if_neg (by omega), if_pos (by omega)]
      simp only [Option.getD_some, blankRow]
      rw [List.getD_eq_getElem?_getD, List.getElem?_replicate, if_pos (by omega)]
      rfl
    · rw [if_neg hb, cell_eq]
      by_cases hc : r < s.top
      · rw [if_pos (by omega), if_pos (by omega)]
      · rw [if_neg (by omega), getElem?_pyInsert _ _ _ (by omega), if_neg (by omega), if_neg (by omega)]
        congr 3

/-- SCREEN(r,c) returns the byte of the text buffer at (r,c) for every cell of the screen (of the VIEW PRINT
    window when one is set; 0 stands for 1), and raises Illegal function call elsewhere.  Together with
    `cell_putCell_same/other` (a write changes exactly its cell) and `cell_scroll` (rows move up together):
    SCREEN(r,c) is the character last written at the cell, displaced by the scrolls since. -/
theorem screen_fn_reads_last_written (s : St) (r c : Int) :
    let r' := if r = 0 then 1 else r
    let c' := if c = 0 then 1 else c
    let valid := 0 ≤ r ∧ r ≤ 25 ∧ 0 ≤ c ∧ c ≤ s.width ∧ ¬ (r = 0 ∧ c = 0) ∧
      (s.active = true → (s.top : Int) ≤ r' ∧ r' ≤ s.bottom)
    (valid → screenFn s r c = .ok (cell s.chars r'.toNat c'.toNat)) ∧ (¬ valid → screenFn s r c = .error 5) := by
  intro r' c' valid
  unfold screenFn
  simp only [inRange_iff, height]
  constructor
  · intro ⟨a1, a2, a3, a4, a5, a6⟩
    rw [if_neg (fun h => h ⟨by omega, by omega⟩), if_neg (fun h => h ⟨by omega, by omega⟩), if_neg a5]
    rw [if_neg]
    intro ⟨ha, hb⟩
    exact hb (a6 ha)
  · intro hv
    by_cases a1 : 0 ≤ r ∧ r ≤ ((25 : Nat) : Int)
    · rw [if_neg (fun h => h a1)]
      by_cases a3 : 0 ≤ c ∧ c ≤ (s.width : Int)
      · rw [if_neg (fun h => h a3)]
        by_cases a5 : r = 0 ∧ c = 0
        · rw [if_pos a5]; rfl
        · rw [if_neg a5]
          rw [if_pos]
          · rfl
          · by_cases ha : s.active = true
            · exact ⟨ha, fun hb => hv ⟨a1.1, by omega, a3.1, a3.2, a5, fun _ => hb⟩⟩
            · exact absurd ⟨a1.1, by omega, a3.1, a3.2, a5, fun h => absurd h ha⟩ hv
      · rw [if_pos a3]; rfl
    · rw [if_pos a1]; rfl

/-- right after a character was put at the cursor cell, SCREEN(row, col) returns it -/
theorem screen_fn_after_put {s : St} (i : Inv s) (v : Nat)
    (hwin : s.active = true → s.top ≤ s.row ∧ s.row ≤ s.bottom) :
    screenFn { s with chars := putCell s.chars s.row s.col v } s.row s.col = .ok v := by
  have c1 := i.col1; have c2 := i.colw; have h1 := i.top1; have h3 := i.b24
  have hr : 1 ≤ s.row ∧ s.row ≤ 25 := by rcases i.rowok with h | h <;> omega
  have := (screen_fn_reads_last_written { s with chars := putCell s.chars s.row s.col v } s.row s.col).1
    ⟨by omega, by omega, by omega, by simp only []; omega, by omega, by
      intro ha
      have := hwin ha
      simp only []
      rw [if_neg (by omega)]
      omega⟩
  rw [this]
  simp only []
  rw [if_neg (by omega), if_neg (by omega)]
  simp only [Int.toNat_natCast]
  rw [cell_putCell_same v i.rlen hr.1 (by rw [i.clen]; exact hr.2) c1 c2]

/-! ### scroll_only_in_window -/

/-- a history of output only: PRINT statements with arbitrary bytes (control characters included) -/
def OutputOnly (ops : List Op) : Prop := ∀ op ∈ ops, ∃ l nl, op = Op.print l nl

/-- the cursor is inside the scroll window (not parked on row 25 by `LOCATE 25,c`) -/
theorem in_window_iff {s : St} (i : Inv s) : s.bottomAllowed = false ↔ s.row ≤ s.bottom := by
  have := i.b24
  rcases i.rowok with h | h
  · simp [h.2.2, h.2.1]
  · simp [h.2]; omega

/-- Any amount of output — any bytes, any number of PRINT statements, with or without newline — while the
    cursor is inside the VIEW PRINT window (rows 1..24 when none is set) leaves every row outside the window
    exactly as it was, keeps the cursor inside the window, and does not touch width or window. -/
theorem scroll_only_in_window {s : St} (i : Inv s) (hin : s.row ≤ s.bottom) (ops : List Op) (ho : OutputOnly ops) :
    let t := run s ops
    (∀ r, 1 ≤ r → (r < s.top ∨ s.bottom < r) → t.chars[r - 1]? = s.chars[r - 1]?) ∧
    (∀ r c, 1 ≤ r → (r < s.top ∨ s.bottom < r) → cell t.chars r c = cell s.chars r c) ∧
    s.top ≤ t.row ∧ t.row ≤ s.bottom ∧ t.top = s.top ∧ t.bottom = s.bottom ∧ t.width = s.width := by
  have hb := (in_window_iff i).mpr hin
  have key : ∀ (ops : List Op) (s : St), Inv s → s.bottomAllowed = false → OutputOnly ops →
      Win s (run s ops) ∧ Inv (run s ops) := by
    intro ops
    induction ops with
    | nil => intro s i hb _; exact ⟨Win.refl hb, i⟩
    | cons op rest ih =>
      intro s i hb ho
      obtain ⟨l, nl, e⟩ := ho op (List.mem_cons_self)
      have w1 : Win s (step s op) := by rw [e]; exact win_printStr i hb l nl
      have i1 := inv_step i op
      obtain ⟨w2, i2⟩ := ih (step s op) i1 w1.ba (fun o h => ho o (List.mem_cons_of_mem _ h))
      exact ⟨w1.trans w2, i2⟩
  obtain ⟨w, j⟩ := key ops s i hb ho
  intro t
  have ht : t = run s ops := rfl
  clear_value t
  subst ht
  have hout : ∀ r, 1 ≤ r → (r < s.top ∨ s.bottom < r) → (run s ops).chars[r - 1]? = s.chars[r - 1]? := by
    intro r r1 h
    exact w.out (r - 1) (by omega)
  refine ⟨hout, ?_, ?_, ?_, w.top, w.bottom, w.width⟩
  · intro r c r1 h
    rw [cell_eq, cell_eq, hout r r1 h]
  · rcases j.rowok with h | h
    · have := w.top; omega
    · rw [w.ba] at h; exact absurd h.2 (by simp)
  · rcases j.rowok with h | h
    · have := w.bottom; omega
    · rw [w.ba] at h; exact absurd h.2 (by simp)

/-! ### the reference typewriter and `typewriter_refinement`
  `TW` (PcbV.Lemmas.TextScreenWrite) is the reference: a typewriter with `W` columns on the rows
  `[top, bottom]`; `c = W+1` means the carriage is past the last column.  `Sim s t`: the screen `s` shows the
  typewriter `t` (same text, same row, `t.c = s.col`, or `W+1` when a wrap is pending), the cursor is inside
  the window and no row from the cursor row to the end of the window is marked as continued. -/

/-- One character: the screen does what the typewriter does.  (This is `write_char` on the PRINT path for a
    cursor inside the window, with no continued row at or below the cursor.) -/
theorem sim_writeChar {s : St} {t : TW} (h : Sim s t) (ch : Nat) :
    Sim (writeChar s ch false) (t.put s.width s.top s.bottom ch) ∧
    (writeChar s ch false).width = s.width ∧ (writeChar s ch false).top = s.top ∧
    (writeChar s ch false).bottom = s.bottom := by
  have i := h.inv
  have hb := h.win
  have c1 := i.col1; have c2 := i.colw; have h1 := i.top1; have h2 := i.tb; have h3 := i.b24; have hw := i.w
  have hrow : s.top ≤ s.row ∧ s.row ≤ s.bottom := by
    rcases i.rowok with x | x
    · exact ⟨x.1, x.2.1⟩
    · rw [hb] at x; exact absurd x.2 (by simp)
  have i' := inv_writeChar i ch
  have w' := win_writeChar i hb ch
  refine ⟨?_, w'.width, w'.top, w'.bottom⟩
  by_cases ho : s.overflow = true
  · -- wrap pending
    have hc := i.ovf ho
    have tc := h.pend ho
    have hwr := h.nw s.row (Nat.le_refl _) hrow.2
    by_cases hlast : s.row < s.bottom
    · -- next row of the window
      have hpw : pendWraps s = s.wraps.set (pyRow s.wraps.length s.row) true := by
        unfold pendWraps; rw [if_neg (by simp [hwr])]
      have e := writeChar_pend_next ch hb ho hc (by omega) hrow.1 hlast h3
      rw [hpw] at e
      rw [e] at i' ⊢
      have et : t.put s.width s.top s.bottom ch =
          { rows := putCell t.rows (t.r + 1) 1 ch, r := t.r + 1, c := 2 } := by
        unfold TW.put TW.nextRow
        simp only [tc, if_true]
        rw [if_pos (by rw [← h.r]; exact hlast)]
      rw [et]
      refine ⟨i', hb, by simp only []; rw [h.rows, h.r], by simp only []; rw [h.r], by simp, by simp, ?_⟩
      intro r hr1 hr2
      simp only [] at hr1 hr2
      rw [getWrap_set_ne (s := s) r s.row true rfl (by omega) (by omega) (by omega)]
      exact h.nw r (by omega) hr2
    · -- last row of the window: it scrolls
      have hrb : s.row = s.bottom := by omega
      have hpw : pendWraps s = s.wraps.set (pyRow s.wraps.length s.row) true := by
        unfold pendWraps; rw [if_neg (by simp [hwr])]
      have e := writeChar_pend_scroll ch hb ho hc (by omega) h2 hrb h3
      rw [hpw] at e
      rw [e] at i' ⊢
      have et : t.put s.width s.top s.bottom ch =
          { rows := putCell (scrollUpChars s.width t.rows s.top s.bottom) s.bottom 1 ch, r := s.bottom, c := 2 } := by
        unfold TW.put TW.nextRow
        simp only [tc, if_true]
        rw [if_neg (by rw [← h.r]; exact hlast)]
      rw [et]
      refine ⟨i', hb, by simp only []; rw [h.rows], rfl, by simp, by simp, ?_⟩
      intro r hr1 hr2
      simp only [] at hr1 hr2
      have : r = s.bottom := by omega
      subst this
      unfold getWrap
      simp only []
      have hlen : (scrollUpWraps (s.wraps.set (pyRow s.wraps.length s.row) true) s.top s.bottom).length = 25 := by
        rw [length_scrollUpWraps, List.length_set, i.wlen]
        rw [List.length_set, i.wlen]; omega
      rw [hlen]
      have hp : pyRow 25 s.bottom = s.bottom - 1 := by unfold pyRow; exact if_neg (by omega)
      rw [hp]
      exact scrollUpWraps_bottom _ _ _ h1 h2 (by rw [List.length_set, i.wlen]; omega)
  · -- a definite position
    have ho' : s.overflow = false := by simpa using ho
    have tc := h.def_ ho'
    have et : t.put s.width s.top s.bottom ch =
        { rows := putCell t.rows t.r t.c ch, r := t.r, c := t.c + 1 } := by
      unfold TW.put
      simp only []
      rw [if_neg (by omega)]
    rw [et]
    by_cases hcw : s.col < s.width
    · have e := writeChar_mid ch hb ho' c1 hcw hrow.1 hrow.2
      rw [e] at i' ⊢
      exact ⟨i', hb, by simp only []; rw [h.rows, h.r, tc], h.r, by simp [ho'], by simp [tc],
        fun r hr1 hr2 => h.nw r hr1 hr2⟩
    · have hcw' : s.col = s.width := by omega
      have hwr := h.nw s.row (Nat.le_refl _) hrow.2
      have e := writeChar_last ch hb ho' hcw' c1 hrow.1 hrow.2 hwr
      rw [e] at i' ⊢
      exact ⟨i', hb, by simp only []; rw [h.rows, h.r, tc], h.r, by simp [tc, hcw'], by simp,
        fun r hr1 hr2 => h.nw r hr1 hr2⟩

theorem sim_writeChars {s : St} {t : TW} (h : Sim s t) (l : List Nat) :
    Sim (writeChars s l false) (t.type s.width s.top s.bottom l) := by
  unfold writeChars TW.type
  induction l generalizing s t with
  | nil => exact h
  | cons c cs ih =>
    obtain ⟨h', e1, e2, e3⟩ := sim_writeChar h c
    have := ih h'
    rw [e1, e2, e3] at this
    exact this

theorem sim_reported {s : St} {t : TW} (h : Sim s t) : (csrlin s, pos s) = t.reported s.width s.bottom := by
  have c2 := h.inv.colw
  unfold TW.reported csrlin pos
  cases ho : s.overflow
  · have := h.def_ ho
    simp only [Bool.false_eq_true, false_and, and_false, if_false]
    rw [if_neg (by omega), h.r, this]
  · have := h.pend ho
    have hc := h.inv.ovf ho
    rw [if_pos this, ← h.r]
    simp only [hc, true_and, and_true, if_true]

/-- **typewriter_refinement.**  Printing plain text (any bytes except the ten control codes) with the cursor
    at a definite cell inside the scroll window, when no row from the cursor row to the end of the window is a
    continued row (in particular: on a cleared window, `cleared_ready`), puts every character where the
    reference typewriter `TW` puts it — left to right, wrapping after column `width`, moving the window up one
    row when the text passes its last row — and CSRLIN/POS report the typewriter's carriage position.
    The closed form of `TW` (k-th character in row `top + k / W − scrolls`, column `k % W + 1`) is
    `typewriter_machine_closed_form`; composed with this theorem it is `typewriter_closed_form` (about
    `Console.write`), `print_on_cleared_window` / `typewriter_no_scroll` (about the PRINT statement) and
    `closed_form_after_any_history`. -/
theorem typewriter_refinement {s : St} (i : Inv s) (hin : s.row ≤ s.bottom) (ho : s.overflow = false)
    (hnw : NoWrapBelow s) (txt : List Nat) (hp : Plain txt) :
    let t := TW.type s.width s.top s.bottom ⟨s.chars, s.row, s.col⟩ txt
    let s' := consoleWrite s txt
    s'.chars = t.rows ∧ s'.row = t.r ∧ (csrlin s', pos s') = t.reported s.width s.bottom ∧
    s'.width = s.width ∧ s'.top = s.top ∧ s'.bottom = s.bottom := by
  have hb := (in_window_iff i).mpr hin
  have h0 : Sim s ⟨s.chars, s.row, s.col⟩ :=
    ⟨i, hb, rfl, rfl, (fun h => by rw [ho] at h; cases h), fun _ => rfl, hnw⟩
  intro t s'
  rcases consoleWrite_plain s txt hp with e | ⟨e1, e2⟩
  · have h1 : Sim (setWrap s s.row false) ⟨s.chars, s.row, s.col⟩ :=
      ⟨inv_setWrap i _ _, hb, rfl, rfl,
       (fun h => by rw [show (setWrap s s.row false).overflow = s.overflow from rfl, ho] at h; cases h),
       fun _ => rfl, fun r hr1 hr2 => getWrap_setWrap_false s r s.row (hnw r hr1 hr2)⟩
    have h2 := sim_writeChars h1 txt
    have w := win_writeChars (inv_setWrap i s.row false) hb txt
    have hs' : s' = writeChars (setWrap s s.row false) txt false := e
    have ht : t = TW.type s.width s.top s.bottom ⟨s.chars, s.row, s.col⟩ txt := rfl
    rw [hs', ht]
    refine ⟨h2.rows, h2.r, ?_, w.width, w.top, w.bottom⟩
    have := sim_reported h2
    rw [w.width, w.bottom] at this
    exact this
  · have hs' : s' = s := e2
    have ht : t = ⟨s.chars, s.row, s.col⟩ := by
      show TW.type s.width s.top s.bottom ⟨s.chars, s.row, s.col⟩ txt = _
      rw [e1]; rfl
    rw [hs', ht]
    exact ⟨rfl, rfl, sim_reported h0, rfl, rfl, rfl⟩

/-! ### report_is_where_next_char_lands -/

/-- The cell CSRLIN/POS report is the cell the next printed character is stored in (pending wrap included:
    the reported cell is column 1 of the next row, after the window scrolled if it was on its last row), and
    the reported position then advances by one column.  Stated for a reported column left of the last one;
    SCREEN(CSRLIN, POS) read back afterwards is that character. -/
theorem report_is_where_next_char_lands {s : St} (i : Inv s) (hin : s.row ≤ s.bottom) (hp : pos s < s.width)
    (ch : Nat) :
    let s' := writeChar s ch false
    cell s'.chars (csrlin s) (pos s) = ch ∧ csrlin s' = csrlin s ∧ pos s' = pos s + 1 ∧
    screenFn s' (csrlin s) (pos s) = .ok ch := by
  have hb := (in_window_iff i).mpr hin
  have c1 := i.col1; have c2 := i.colw; have h1 := i.top1; have h2 := i.tb; have h3 := i.b24; have hw := i.w
  have hrow : s.top ≤ s.row ∧ s.row ≤ s.bottom := by
    rcases i.rowok with x | x
    · exact ⟨x.1, x.2.1⟩
    · rw [hb] at x; exact absurd x.2 (by simp)
  have key : ∀ (s' : St) (R C : Nat), s'.chars.length = 25 → (∀ x ∈ s'.chars, x.length = s.width) →
      s'.width = s.width → s'.top = s.top → s'.bottom = s.bottom → s'.active = s.active →
      s.top ≤ R → R ≤ s.bottom → 1 ≤ C → C < s.width → s'.row = R → s'.col = C + 1 → s'.overflow = false →
      (∃ base, s'.chars = putCell base R C ch ∧ base.length = 25 ∧ ∀ x ∈ base, x.length = s.width) →
      cell s'.chars R C = ch ∧ csrlin s' = R ∧ pos s' = C + 1 ∧ screenFn s' R C = .ok ch := by
    intro s' R C hl hrl hw' ht hbm hact r1 r2 cc1 cc2 hr hc ho ⟨base, hbase, bl, brl⟩
    have hcell : cell s'.chars R C = ch := by
      rw [hbase]; exact cell_putCell_same ch brl (by omega) (by omega) cc1 (by omega)
    refine ⟨hcell, by simp [csrlin, ho, hr], by simp [pos, ho, hc], ?_⟩
    have := (screen_fn_reads_last_written s' R C).1
      ⟨by omega, by omega, by omega, by rw [hw']; omega, by omega, by
        intro _; rw [if_neg (by omega), ht, hbm]; omega⟩
    rw [this]
    rw [if_neg (by omega), if_neg (by omega)]
    simp only [Int.toNat_natCast]
    rw [hcell]
  intro s'
  cases ho : s.overflow
  · have hc : pos s = s.col := by simp [pos, ho]
    have hr : csrlin s = s.row := by simp [csrlin, ho]
    rw [hc] at hp ⊢
    rw [hr]
    have e : s' = { s with chars := putCell s.chars s.row s.col ch, col := s.col + 1 } :=
      writeChar_mid ch hb ho c1 hp hrow.1 hrow.2
    rw [e]
    exact key _ s.row s.col (by simp [length_putCell, i.clen]) (rlen_putCell i.rlen _ _ _) rfl rfl rfl rfl hrow.1
      hrow.2 c1 hp rfl rfl ho ⟨s.chars, rfl, i.clen, i.rlen⟩
  · have hcw := i.ovf ho
    have hc : pos s = 1 := by simp [pos, ho, hcw]
    rw [hc]
    by_cases hlast : s.row < s.bottom
    · have hr : csrlin s = s.row + 1 := by simp [csrlin, ho, hcw, hlast]
      rw [hr]
      have e : s' = _ := writeChar_pend_next ch hb ho hcw (by omega) hrow.1 hlast h3
      rw [e]
      exact key _ (s.row + 1) 1 (by simp [length_putCell, i.clen]) (rlen_putCell i.rlen _ _ _) rfl rfl rfl rfl
        (by omega) (by omega) (by omega) (by omega) rfl rfl rfl ⟨s.chars, rfl, i.clen, i.rlen⟩
    · have hrb : s.row = s.bottom := by omega
      have hr : csrlin s = s.bottom := by simp [csrlin, ho, hcw, hlast, hrb]
      rw [hr]
      have e : s' = _ := writeChar_pend_scroll ch hb ho hcw (by omega) h2 hrb h3
      rw [e]
      have gs := geo_scroll i.toGeo
      have es : (scroll s).chars = scrollUpChars s.width s.chars s.top s.bottom := by
        unfold scroll; simp only []; split <;> rfl
      have sl : (scrollUpChars s.width s.chars s.top s.bottom).length = 25 := es ▸ gs.clen
      have srl : ∀ x ∈ scrollUpChars s.width s.chars s.top s.bottom, x.length = s.width := by
        have := gs.rlen; rw [es, scroll_width] at this; exact this
      exact key _ s.bottom 1 (by simp [length_putCell, sl]) (rlen_putCell srl _ _ _) rfl rfl rfl rfl
        (by omega) (by omega) (by omega) (by omega) rfl rfl rfl ⟨_, rfl, sl, srl⟩

/-! ### a cleared window satisfies the hypotheses of `typewriter_refinement` -/

/-- CLS with a VIEW PRINT window set, and CHR$(12) in any output (`clear_view`): the window is blank, the cursor
    is at its first cell, nothing is pending, no row of the window is a continued row; window and width stay. -/
theorem cleared_ready {s : St} (i : Inv s) :
    Ready (clearView s) ∧ (clearView s).top = s.top ∧ (clearView s).bottom = s.bottom ∧
    (clearView s).width = s.width := by
  have h1 := i.top1; have h2 := i.tb; have h3 := i.b24; have hw := i.w
  have e : clearView s = { clearRows s s.top s.bottom with row := s.top, col := 1, overflow := false,
                                                             bottomAllowed := false } := by
    unfold clearView
    exact setPos_home (u := clearRows s s.top s.bottom) s.top true (by show 1 < s.width; omega) (Nat.le_refl _) h2 h3
  have iv := inv_clearView i.toGeo
  rw [e] at iv ⊢
  refine ⟨⟨iv, ⟨rfl, rfl⟩, h2, rfl, ?_, ?_⟩, rfl, rfl, rfl⟩
  · intro r hr1 hr2
    simp only [] at hr1 hr2
    unfold getWrap
    simp only [clearRows, length_clearRowsWraps, i.wlen]
    have hr1' : s.top ≤ r := hr1
    have hr2' : r ≤ s.bottom := hr2
    have hp : pyRow 25 r = r - 1 := by unfold pyRow; exact if_neg (by omega)
    rw [hp]
    exact getD_clearRowsWraps_in _ _ _ _ (by omega) (by omega)
  · intro r c hr1 hr2
    have hr1' : s.top ≤ r := hr1
    have hr2' : r ≤ s.bottom := hr2
    simp only [clearRows]
    exact cell_blank_of_row _ s.width r c (getElem?_clearRowsChars_in _ _ _ _ _ (by omega) (by omega))

/-- `typewriter_refinement` applies to CLS-then-PRINT: the hypotheses are those of `Ready` -/
theorem typewriter_after_clear {s : St} (i : Inv s) (txt : List Nat) (hp : Plain txt) :
    let u := clearView s
    let t := TW.type s.width s.top s.bottom ⟨u.chars, s.top, 1⟩ txt
    (consoleWrite u txt).chars = t.rows ∧
    (csrlin (consoleWrite u txt), pos (consoleWrite u txt)) = t.reported s.width s.bottom := by
  obtain ⟨rd, e1, e2, e3⟩ := cleared_ready i
  have := typewriter_refinement rd.inv rd.inwin rd.definite rd.nowrap txt hp
  simp only [e1, e2, e3, rd.home.1, rd.home.2] at this
  exact ⟨this.1, this.2.2.1⟩

/-! ### typewriter_closed_form: where the k-th character is -/

/-- The closed form of the reference typewriter.  `n` characters typed from the first cell of a window
    `[top, bottom]` (`h` rows of `W` columns) that is blank on the sheet `rows0`: the window has scrolled
    `sc = (n−1)/W + 1 − h` times (0 while the text fits); character `k` is in row `top + k/W − sc`, column
    `k % W + 1` unless its line has scrolled out (`k < sc·W`); all other cells of the window are blank; the rows
    outside the window are those of `rows0`; the carriage is behind the last character. -/
theorem typewriter_machine_closed_form {W top bottom : Nat} {rows0 : List (List Nat)} (txt : List Nat)
    (hW : W = 40 ∨ W = 80) (h1 : 1 ≤ top) (h2 : top ≤ bottom) (h3 : bottom ≤ 25)
    (l0 : rows0.length = 25) (rl0 : ∀ x ∈ rows0, x.length = W)
    (blank : ∀ ρ γ, top ≤ ρ → ρ ≤ bottom → cell rows0 ρ γ = 32) :
    let t := TW.type W top bottom ⟨rows0, top, 1⟩ txt
    let n := txt.length
    let sc := twScrolls W (bottom - top + 1) n
    (∀ k, k < n → sc * W ≤ k → top + k / W - sc ≤ bottom ∧ cell t.rows (top + k / W - sc) (k % W + 1) = txt.getD k 32) ∧
    (∀ ρ γ, top ≤ ρ → ρ ≤ bottom → 1 ≤ γ → γ ≤ W → n ≤ (ρ - top + sc) * W + (γ - 1) → cell t.rows ρ γ = 32) ∧
    (∀ r c, 1 ≤ r → (r < top ∨ bottom < r) → cell t.rows r c = cell rows0 r c) ∧
    (n = 0 → t.r = top ∧ t.c = 1) ∧
    (0 < n → t.r = top + (n - 1) / W - sc ∧ t.c = (n - 1) % W + 2) := by
  intro t n sc
  have inv : TWInv W top bottom rows0 txt n t := by
    have := twInv_type txt hW h1 h2 h3 l0 rl0 blank txt.length (Nat.le_refl _)
    rw [List.take_length] at this
    exact this
  have hsc : sc = twScrolls W (bottom - top + 1) n := rfl
  refine ⟨?_, ?_, ?_, inv.pos0, inv.pos⟩
  · intro k hk hs
    have hn : n ≠ 0 := by omega
    have hsc' : sc = ((n - 1) / W + 1) - (bottom - top + 1) := by rw [hsc]; unfold twScrolls; rw [if_neg hn]
    have hb : top + k / W - sc ≤ bottom := by rcases hW with rfl | rfl <;> omega
    refine ⟨hb, ?_⟩
    have := inv.cells (top + k / W - sc) (k % W + 1) (by rcases hW with rfl | rfl <;> omega) hb (by omega)
      (by rcases hW with rfl | rfl <;> omega)
    rw [this, ← hsc]
    have e : (top + k / W - sc - top + sc) * W + (k % W + 1 - 1) = k := by rcases hW with rfl | rfl <;> omega
    rw [e, if_pos hk]
  · intro ρ γ p1 p2 g1 g2 hq
    rw [inv.cells ρ γ p1 p2 g1 g2, ← hsc, if_neg (by omega)]
  · intro r c r1 hr
    rw [cell_eq, cell_eq, inv.out (r - 1) (by omega)]

/-- **typewriter_closed_form** — the same, directly about the model's `Console.write` on a cleared window
    (`Ready u`: `clear_view`/CLS just ran, see `cleared_ready`), for plain text `txt` of any length:
    with `W = u.width`, `h = u.bottom − u.top + 1`, `sc = (n−1)/W + 1 − h` scrolls,
    * character `k` (0-based) is stored in row `top + k/W − sc`, column `k % W + 1` (for `k ≥ sc·W`; earlier
      characters have scrolled out of the window);
    * every cell of the window past the text is blank;
    * every row outside the window is unchanged;
    * CSRLIN/POS report the cell behind the last character (column 1 of the following row when the text ends
      on the last column; the same row if that is the last row of the window). -/
theorem typewriter_closed_form {u : St} (rd : Ready u) (txt : List Nat) (hp : Plain txt) :
    let s' := consoleWrite u txt
    let W := u.width
    let n := txt.length
    let sc := twScrolls W (u.bottom - u.top + 1) n
    (∀ k, k < n → sc * W ≤ k →
      u.top + k / W - sc ≤ u.bottom ∧ cell s'.chars (u.top + k / W - sc) (k % W + 1) = txt.getD k 32) ∧
    (∀ ρ γ, u.top ≤ ρ → ρ ≤ u.bottom → 1 ≤ γ → γ ≤ W → n ≤ (ρ - u.top + sc) * W + (γ - 1) →
      cell s'.chars ρ γ = 32) ∧
    (∀ r c, 1 ≤ r → (r < u.top ∨ u.bottom < r) → cell s'.chars r c = cell u.chars r c) ∧
    (0 < n → (csrlin s', pos s') =
      TW.reported W u.bottom ⟨[], u.top + (n - 1) / W - sc, (n - 1) % W + 2⟩) ∧
    (n = 0 → s' = u) := by
  intro s' W n sc
  have i := rd.inv
  obtain ⟨e1, _, e3, _, _, _⟩ := typewriter_refinement i rd.inwin rd.definite rd.nowrap txt hp
  rw [rd.home.1, rd.home.2] at e1 e3
  obtain ⟨m1, m2, m3, _, m5⟩ := typewriter_machine_closed_form (W := u.width) (top := u.top) (bottom := u.bottom)
    (rows0 := u.chars) txt i.w i.top1 i.tb (Nat.le_succ_of_le i.b24) i.clen i.rlen (fun ρ γ a b => rd.blank ρ γ a b)
  have hs' : s' = consoleWrite u txt := rfl
  refine ⟨?_, ?_, ?_, ?_, ?_⟩
  · intro k hk hs; rw [hs', e1]; exact m1 k hk hs
  · intro ρ γ a b c d e; rw [hs', e1]; exact m2 ρ γ a b c d e
  · intro r c a b; rw [hs', e1]; exact m3 r c a b
  · intro hn
    rw [hs', e3]
    obtain ⟨p1, p2⟩ := m5 hn
    unfold TW.reported
    simp only []
    rw [p1, p2]
  · intro hn
    have : txt = [] := List.eq_nil_of_length_eq_zero hn
    rw [hs', this]; rfl

/-- … and about the statement `PRINT A$;` itself (SCRN: file → `Console.write`): on a cleared window it is
    the `Console.write` of `typewriter_closed_form`. -/
theorem print_on_cleared_window {u : St} (rd : Ready u) (txt : List Nat) (hp : Plain txt) :
    step u (Op.print txt false) = consoleWrite u txt := by
  have := rd.inv.w
  exact printStr_plain_home u rd.home.2 (by omega) txt hp

/-- The text fits in the window (`n ≤ h·W`): no scroll; character `k` is in row `top + k / W`, column
    `k % W + 1`. -/
theorem typewriter_no_scroll {u : St} (rd : Ready u) (txt : List Nat) (hp : Plain txt)
    (hfit : txt.length ≤ (u.bottom - u.top + 1) * u.width) :
    ∀ k, k < txt.length →
      u.top + k / u.width ≤ u.bottom ∧
      cell (step u (Op.print txt false)).chars (u.top + k / u.width) (k % u.width + 1) = txt.getD k 32 := by
  intro k hk
  rw [print_on_cleared_window rd txt hp]
  have hw := rd.inv.w
  have hsc : twScrolls u.width (u.bottom - u.top + 1) txt.length = 0 := by
    unfold twScrolls
    rw [if_neg (by omega)]
    rcases hw with e | e <;> rw [e] at hfit ⊢ <;> omega
  have := (typewriter_closed_form rd txt hp).1 k hk (by rw [hsc]; omega)
  rw [hsc] at this
  exact this

/-- Once the text is longer than the window, each further line costs exactly one scroll:
    the scroll count after `j+1` characters exceeds the one after `j` characters by one exactly when character
    `j` starts a new line (`j % W = 0`) below the window (`j / W ≥ h`), and is unchanged otherwise. -/
theorem scrolls_one_row_per_line (W h j : Nat) (hW : W = 40 ∨ W = 80) (hh : 1 ≤ h) :
    twScrolls W h (j + 1) = twScrolls W h j + (if j % W = 0 ∧ h ≤ j / W then 1 else 0) := by
  rw [twScrolls_succ]
  unfold twScrolls
  by_cases hj : j = 0
  · subst hj
    have h0 : ¬ h = 0 := by omega
    rcases hW with rfl | rfl <;> simp [h0] <;> omega
  · rw [if_neg hj]
    rcases hW with rfl | rfl <;> split <;> omega

/-- Over all histories: whatever was done before, after the window has been cleared (`clear_view`: CLS with a
    VIEW PRINT window, or CHR$(12)) printing plain text `txt` with `PRINT txt;` puts character `k` in row
    `top + k/W − sc`, column `k % W + 1` (`sc` = scrolls, 0 while the text fits the window), leaves the rest of
    the window blank and every row outside the window as the history left it. -/
theorem closed_form_after_any_history (ops : List Op) (txt : List Nat) (hp : Plain txt) :
    let u := clearView (run init ops)
    let s' := step u (Op.print txt false)
    let sc := twScrolls u.width (u.bottom - u.top + 1) txt.length
    (∀ k, k < txt.length → sc * u.width ≤ k →
      u.top + k / u.width - sc ≤ u.bottom ∧
      cell s'.chars (u.top + k / u.width - sc) (k % u.width + 1) = txt.getD k 32) ∧
    (∀ ρ γ, u.top ≤ ρ → ρ ≤ u.bottom → 1 ≤ γ → γ ≤ u.width →
      txt.length ≤ (ρ - u.top + sc) * u.width + (γ - 1) → cell s'.chars ρ γ = 32) ∧
    (∀ r c, 1 ≤ r → (r < u.top ∨ u.bottom < r) → cell s'.chars r c = cell (run init ops).chars r c) := by
  intro u s' sc
  have i := inv_run inv_init ops
  obtain ⟨rd, e1, e2, _⟩ := cleared_ready i
  have hs' : s' = consoleWrite u txt := print_on_cleared_window rd txt hp
  obtain ⟨a, b, c, _, _⟩ := typewriter_closed_form rd txt hp
  rw [hs']
  refine ⟨a, b, ?_⟩
  intro r col r1 hr
  rw [c r col r1 hr]
  -- `clear_view` itself only touches the window
  have hout := clearRows_outside (run init ops).width (run init ops).chars (run init ops).top (run init ops).bottom
    i.top1 i.tb (by have := i.b24; have := i.clen; omega)
  have ec : u.chars = clearRowsChars (run init ops).width (run init ops).chars (run init ops).top (run init ops).bottom := by
    show (clearView (run init ops)).chars = _
    unfold clearView
    rw [setPos_home (u := clearRows (run init ops) (run init ops).top (run init ops).bottom) (run init ops).top true
      (by show 1 < (run init ops).width; have := i.w; omega) (Nat.le_refl _) i.tb i.b24]
    rfl
  rw [cell_eq, cell_eq, ec, hout (r - 1) (by rw [e1, e2] at hr; omega)]

/-! ### Tandy/PCjr: the scroll window may include row 25

  The invariant `Inv` (and with it the history theorems above) is about the adapters whose VIEW PRINT stops at
  row 24 (`tandy = false`).  The model itself also runs the Tandy/PCjr configuration (`initTandy`; it is compared
  with real `video='tandy'`/`'pcjr'` sessions on every run), the reference typewriter and its closed form
  (`typewriter_machine_closed_form`) cover windows up to row 25, and the following are proved of the model. -/

/-- which adapters accept `VIEW PRINT t TO 25`: exactly Tandy/PCjr; the window then ends on row 25, the cursor
    goes to its first cell and a `LOCATE 25` permission is dropped -/
theorem view_print_to_row25 (s : St) (t : Int) (h1 : 1 ≤ t) (h2 : t ≤ 25) :
    (s.tandy = true → ∃ u, viewPrint s (some (t, 25)) = .ok u ∧ u.top = t.toNat ∧ u.bottom = 25 ∧ u.active = true ∧
        u.row = t.toNat ∧ u.col = 1 ∧ u.overflow = false ∧ u.bottomAllowed = false ∧ u.chars = s.chars) ∧
    (s.tandy = false → viewPrint s (some (t, 25)) = .error 5) := by
  constructor
  · intro ht
    unfold viewPrint
    simp only [ht, if_true]
    rw [if_neg (by simp [inRange_iff]; omega), if_neg (by omega)]
    exact ⟨_, rfl, rfl, rfl, rfl, rfl, rfl, rfl, rfl, rfl⟩
  · intro ht
    unfold viewPrint
    simp only [ht, Bool.false_eq_true, if_false]
    rw [if_pos (by simp [inRange_iff])]
    rfl

/-- a window that ends on row 25 survives SCREEN/WIDTH changes as `VIEW PRINT 1 TO 25`; any other is dropped -/
theorem mode_change_keeps_row25_window (s : St) (m w : Nat) :
    (s.bottom = 25 → (resetMode s m w).top = 1 ∧ (resetMode s m w).bottom = 25 ∧ (resetMode s m w).active = true) ∧
    (s.bottom ≠ 25 → (resetMode s m w).top = 1 ∧ (resetMode s m w).bottom = 24 ∧ (resetMode s m w).active = false) := by
  have key : ∀ u : St, (setPos u u.top 1 true).top = u.top ∧ (setPos u u.top 1 true).bottom = u.bottom ∧
      (setPos u u.top 1 true).active = u.active := by
    intro u
    have e : ∀ (v : St) (ok : Bool), (wrapAround v ok).top = v.top ∧ (wrapAround v ok).bottom = v.bottom ∧
        (wrapAround v ok).active = v.active := by
      intro v ok
      rw [wrapAround_eq]
      split
      · exact ⟨rfl, rfl, rfl⟩
      · unfold wrapRow wrapCol
        simp only []
        repeat' split
        all_goals simp
    unfold setPos
    simp only []
    split <;> exact e _ _
  constructor
  · intro hb
    unfold resetMode
    simp only [hb, height, decide_true, if_true]
    exact key _
  · intro hb
    unfold resetMode
    have : decide (s.bottom = height) = false := by simp [height, hb]
    simp only [this, Bool.false_eq_true, if_false]
    exact key _

/-- an instance on the model's Tandy machine: `VIEW PRINT 24 TO 25`, a line above the window, three short lines
    with newline — the two-row window scrolls twice as a whole (row 25 included), the row above is untouched,
    the cursor waits on row 25 -/
theorem tandy_window_scrolls_row25 :
    let s := run initTandy [.print [88] false, .viewPrint (some (24, 25)), .print [65] true, .print [66] true,
                            .print [67] true]
    cell s.chars 1 1 = 88 ∧ cell s.chars 24 1 = 67 ∧ cell s.chars 25 1 = 32 ∧ (csrlin s, pos s) = (25, 1) ∧
    (s.top, s.bottom) = (24, 25) := by
  decide +kernel

/-! ### the unrepaired code: counterexamples -/

/-- the state after `PRINT STRING$(80,"A");` on a fresh screen: cursor on column 80, wrap pending -/
def pendingState : St := { init with chars := putCell init.chars 1 80 65, col := 80, overflow := true }

/-- it is where the model gets by writing 80 characters (old and new code agree up to here) -/
theorem pendingState_reached :
    let s := writeChars init (List.replicate 80 65) false
    s.row = 1 ∧ s.col = 80 ∧ s.overflow = true ∧ s.bottomAllowed = false := by decide +kernel

/-- Defect 1 (unrepaired `locate_`): with a wrap pending, `LOCATE 5,80` is accepted but CSRLIN/POS then report
    (6,1) and the next character goes to row 6; the repaired code reports (5,80). -/
theorem locate_last_column_counterexample :
    ((Old.locate pendingState (some 5) (some 80)).map fun t => (csrlin t, pos t)) = .ok (6, 1) ∧
    ((locate pendingState (some 5) (some 80)).map fun t => (csrlin t, pos t)) = .ok (5, 80) := by
  decide +kernel

/-- Defect 2 (unrepaired `_wrap_around_and_scroll_as_needed`): cursor-right (CHR$(28)) out of the pending
    position leaves the flag set on column 1 of the next row: POS reports 1, the next character is stored in
    column 2.  Repaired: it is stored in column 1, where POS said. -/
theorem cursor_right_counterexample :
    let o := Old.setPos pendingState 1 81 false
    let n := setPos pendingState 1 81 false
    (csrlin o, pos o) = (2, 1) ∧ cell (Old.writeChar o 66).chars 2 1 = 32 ∧ cell (Old.writeChar o 66).chars 2 2 = 66 ∧
    (csrlin n, pos n) = (2, 1) ∧ cell (writeChar n 66 false).chars 2 1 = 66 := by
  decide +kernel

/-- Defect 3 (unrepaired `view_print_`): `LOCATE 25,1 : VIEW PRINT 24 TO 24 : PRINT` — the permission to stay
    on row 25 survives VIEW PRINT, the newline leaves the window and later output lands on row 25.  Repaired:
    the cursor stays on row 24. -/
theorem view_print_counterexample :
    let s25 : St := { init with row := 25, bottomAllowed := true }
    ((Old.viewPrint s25 (some (24, 24))).map fun t => (Old.newline t).row) = .ok 25 ∧
    ((viewPrint s25 (some (24, 24))).map fun t => (newline t false).row) = .ok 24 := by
  decide +kernel

/-! ### non-vacuity -/

example : Inv init := inv_init
example : locateValid init 5 80 := by decide
example : ¬ locateValid init 26 1 := by decide
example : Ready (clearView init) := (cleared_ready inv_init).1
example : OutputOnly [Op.print [65, 13, 12, 28] true, Op.print [] false] := by
  intro op h
  simp only [List.mem_cons, List.mem_nil_iff, or_false] at h
  rcases h with h | h <;> exact ⟨_, _, h⟩
example : Plain [65, 66, 8, 0, 255] := by unfold Plain; decide
example : init.row ≤ init.bottom := by decide
/-- the typewriter wraps after column W and scrolls a one-row window -/
example : ((TW.type 3 1 1 ⟨[[32, 32, 32], [1, 2, 3]], 1, 1⟩ [65, 66, 67, 68]).rows, 
           (TW.type 3 1 1 ⟨[[32, 32, 32], [1, 2, 3]], 1, 1⟩ [65, 66, 67, 68]).reported 3 1) =
    ([[68, 32, 32], [1, 2, 3]], (1, 2)) := by decide

end PcbV.C36
