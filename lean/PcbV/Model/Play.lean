import PcbV.Basic
import PcbV.Gen.Errors
import PcbV.Gen.Notes
import PcbV.Model.Mml
/-
  PcbV.Model.Play — executable model of `Sound.play_` / `Sound.emit_tone` / `PlayState`
  (pcbasic/basic/sound.py) for the single-voice PLAY of the default (non-Tandy/PCjr) syntax.

  One pass of the `while True` loop = `parseCmd` (what the command letter and its arguments are;
  all stream handling, on `PcbV.Model.Mml`) followed by `apply` (range checks, state change, tone).
  Neither has a side effect before its last possible error, so the split is exact.

  Durations are exact rationals `num/den` seconds: `dur * tempo` with `dur = 1/L * 1.5^dots`,
  `tempo = 240/T` is `240*3^dots / (T*L*2^dots)`.  `fill` is kept in eighths (7, 8, 6 for MN, ML, MS).
  A tone is identified by its index into `NOTE_FREQ`.
-/
namespace PcbV.Play
open PcbV PcbV.Gen PcbV.Mml

/-- the three values `vstate.fill` can take: 7/8 (MN), 1 (ML), 3/4 (MS) -/
inductive Fill where
  | normal
  | legato
  | staccato
  deriving DecidableEq, Repr

/-- `fill` in eighths -/
def Fill.eighths : Fill → Nat
  | .normal => 7
  | .legato => 8
  | .staccato => 6

def Fill.ofEighths (n : Nat) : Fill := if n == 8 then .legato else if n == 6 then .staccato else .normal

/-- `PlayState` (+ `Sound._foreground`, which MF/MB set) -/
structure PlayState where
  octave : Nat
  length : Nat      -- `length = 1/length`
  tempo : Nat       -- `tempo = 240/tempo`
  fill : Fill
  volume : Nat
  foreground : Bool
  deriving DecidableEq, Repr

/-- `PlayState.__init__`, `Sound.reset_play` -/
def initState : PlayState :=
  { octave := Notes.defOctave, length := Notes.defLength, tempo := Notes.defTempo,
    fill := Fill.ofEighths Notes.defFill8, volume := Notes.defVolume, foreground := true }

/-- one call of `emit_tone(freq, dur*tempo, fill, False, voice, volume)`:
    `note = some i` is `NOTE_FREQ[i]`, `none` is frequency 0 (a pause) -/
structure Ev where
  voice : Nat
  note : Option Nat
  num : Nat
  den : Nat
  fill : Fill
  volume : Nat
  deriving DecidableEq, Repr

/-- what `emit_tone` puts on the audio queue: (voice, note, num, den, loop = False, volume);
    a separate gap event (frequency 0, volume 0) unless `fill == 1` -/
structure Raw where
  voice : Nat
  note : Option Nat
  num : Nat
  den : Nat
  volume : Nat
  deriving DecidableEq, Repr

def flatten (e : Ev) : List Raw :=
  let tone : Raw := ⟨e.voice, e.note, e.num * e.fill.eighths, e.den * 8, e.volume⟩
  if e.fill = .legato then [tone]
  else [tone, ⟨e.voice, none, e.num * (8 - e.fill.eighths), e.den * 8, 0⟩]

/-- the commands of the PLAY macro language after parsing -/
inductive Cmd where
  | sub (s : Bytes)                 -- X: substring to insert
  | n (k : Int) (dots : Nat)        -- N
  | len (k : Int)                   -- L
  | tempo (k : Int)                 -- T
  | oct (k : Int)                   -- O
  | up                              -- >
  | down                            -- <
  | note (letter acc : Nat) (len : Option Nat) (dots : Nat)   -- A..G, P; acc = 35 (#,+), 45 (-), 0
  | fill (f : Fill)                 -- MN, ML, MS
  | fg (b : Bool)                   -- MF, MB
  | vol (k : Int)                   -- V (Tandy/PCjr sound only)
  deriving DecidableEq, Repr

/-- optional accidental after a note letter:
    `if skip_blank_read_if((b'#', b'+')) … elif skip_blank_read_if((b'-',))` -/
def accidental (s : Bytes) : Nat × Bytes :=
  match skipBlank s with
  | 35 :: r => (35, r)
  | 43 :: r => (35, r)
  | 45 :: r => (45, r)
  | s' => (0, s')

/-- optional literal length after a note (`skip_blank_read_if(DIGITS)` + digit loop) -/
def noteLength (s : Bytes) : Option Nat × Bytes :=
  match skipBlank s with
  | [] => (none, [])
  | c :: r => if isDigit c then let (v, r') := literal 0 (c :: r); (some v, r') else (none, c :: r)

def isNoteLetter (c : Nat) : Bool := (decide (65 ≤ c) && decide (c ≤ 71)) || c == 80

/-- the command whose (upper-cased) letter `c` has just been read; `r` follows it -/
def parseLetter (env : Env) (c : Nat) (r : Bytes) : R (Cmd × Bytes) :=
  if c == 88 then (parseString env r).map (fun (s, r') => (.sub s, r'))
  else if c == 78 then
    (parseNumber env none r).map (fun (k, r1) => let (d, r2) := dots r1; (.n k d, r2))
  else if c == 76 then (parseNumber env none r).map (fun (k, r1) => (.len k, r1))
  else if c == 84 then (parseNumber env none r).map (fun (k, r1) => (.tempo k, r1))
  else if c == 79 then (parseNumber env none r).map (fun (k, r1) => (.oct k, r1))
  else if c == 62 then .ok (.up, r)
  else if c == 60 then .ok (.down, r)
  else if isNoteLetter c then
    let (a, r1) := accidental r
    let (l, r2) := noteLength r1
    -- error.range_check(0, 64, length) comes before the dots are read
    if (match l with | some v => decide (v > 64) | none => false) then .error E.ifc else
    let (d, r3) := dots r2
    .ok (.note c a l d, r3)
  else if c == 77 then
    match skipBlank r with
    | [] => .error E.ifc
    | m :: r1 =>
      let m := upper m
      if m == 78 then .ok (.fill .normal, r1)
      else if m == 76 then .ok (.fill .legato, r1)
      else if m == 83 then .ok (.fill .staccato, r1)
      else if m == 70 then .ok (.fg true, r1)
      else if m == 66 then .ok (.fg false, r1)
      else .error E.ifc
  -- V is accepted only with Tandy/PCjr sound; everything else is an error
  else if c == 86 && env.volumeCmd then (parseNumber env none r).map (fun (k, r1) => (.vol k, r1))
  else .error E.ifc

/-- read one command; `none` at the end of the string.  One (and only one) `;` before a command
    is absorbed; a `;` at the very end then meets the empty letter, which is an error. -/
def parseCmd (env : Env) (s : Bytes) : R (Option (Cmd × Bytes)) :=
  match skipBlank s with
  | [] => .ok none
  | c :: r =>
    if c == 59 then
      match skipBlank r with
      | [] => .error E.ifc
      | c1 :: r1 => (parseLetter env (upper c1) r1).map some
    else (parseLetter env (upper c) r).map some

/-- `NOTES[letter + accidental]` -/
def semitone (letter acc : Nat) : Option Nat :=
  (Notes.notes.find? (fun (l, a, _) => l == letter && a == acc)).map (fun (_, _, s) => s)

def rangeNat (lo hi : Nat) (k : Int) : R Nat :=
  if (lo : Int) ≤ k ∧ k ≤ (hi : Int) then .ok k.toNat else .error E.ifc

def mkEv (ps : PlayState) (note : Option Nat) (len dots : Nat) (fill : Fill) : Ev :=
  { voice := 0, note := note, num := 240 * 3 ^ dots, den := ps.tempo * len * 2 ^ dots,
    fill := fill, volume := ps.volume }

/-- `dur = 1/length` only for a length suffix > 0; no suffix or 0 means the current L -/
def effLen (ps : PlayState) : Option Nat → Nat
  | some v => if v > 0 then v else ps.length
  | none => ps.length

/-- state change and emitted tones of one command (`X` is handled by the loop) -/
def apply (ps : PlayState) : Cmd → R (PlayState × List Ev)
  | .sub _ => .ok (ps, [])
  | .n k d =>
    (rangeNat 0 84 k).map (fun n =>
      if n == 0 then (ps, [mkEv ps none ps.length d .legato])
      else (ps, [mkEv ps (some (n - 1)) ps.length d ps.fill]))
  | .len k => (rangeNat 1 64 k).map (fun n => ({ ps with length := n }, []))
  | .tempo k => (rangeNat 32 255 k).map (fun n => ({ ps with tempo := n }, []))
  | .oct k => (rangeNat 0 6 k).map (fun n => ({ ps with octave := n }, []))
  | .up => .ok ({ ps with octave := if ps.octave + 1 > 6 then 6 else ps.octave + 1 }, [])
  | .down => .ok ({ ps with octave := ps.octave - 1 }, [])
  | .note letter acc l d =>
    let len := effLen ps l
    if letter == 80 && acc == 0 then
      match l with
      | none => .error E.ifc                       -- the length of a pause must be given
      | some 0 => if d > 0 then .error E.ifc else .ok (ps, [])     -- "P0" does nothing, "P0." is an error
      | some _ => .ok (ps, [mkEv ps none len d .legato])
    else
      match semitone letter acc with
      | none => .error E.ifc                       -- KeyError → Illegal function call
      | some s => .ok (ps, [mkEv ps (some (ps.octave * 12 + s)) len d ps.fill])
  | .fill f => .ok ({ ps with fill := f }, [])
  | .fg b => .ok ({ ps with foreground := b }, [])
  | .vol k =>
    -- error.range_check(-1, 15, vol); -1 means the default 15
    if -1 ≤ k ∧ k ≤ 15 then .ok ({ ps with volume := if k = -1 then 15 else k.toNat }, [])
    else .error E.ifc

/-- limit on the nesting of X substrings (0 = none: the unrepaired code) -/
structure Limits where
  maxNesting : Nat

/-- the limit of the current source -/
def limits : Limits := ⟨Notes.maxNesting⟩
/-- the unrepaired code: no limit -/
def oldLimits : Limits := ⟨0⟩

/-- configuration of the loop: play state, rest of the stream, and (repaired code) for each
    substring being played the number of bytes of the stream that follow it -/
structure Cfg where
  ps : PlayState
  rest : Bytes
  levels : List Nat
  deriving DecidableEq, Repr

inductive Step where
  | done
  | fail (e : Nat)
  | cont (c : Cfg) (evs : List Ev)
  deriving DecidableEq, Repr

def step (lim : Limits) (env : Env) (c : Cfg) : Step :=
  match parseCmd env c.rest with
  | .error e => .fail e
  | .ok none => .done
  | .ok (some (.sub s, r)) =>
    -- substrings that ended before this X command are no longer being played
    let lv := c.levels.filter (fun n => decide (n ≤ r.length))
    if lim.maxNesting ≠ 0 ∧ lv.length ≥ lim.maxNesting then .fail E.out_of_memory
    else .cont { c with rest := s ++ r, levels := r.length :: lv } []
  | .ok (some (cmd, r)) =>
    match apply c.ps cmd with
    | .error e => .fail e
    | .ok (ps', evs) => .cont { c with ps := ps', rest := r } evs

inductive Status where
  | ok
  | err (e : Nat)
  | outOfFuel
  deriving DecidableEq, Repr

structure Outcome where
  ps : PlayState
  evs : List Ev
  status : Status
  deriving DecidableEq, Repr

/-- the `while True` loop of `play_` for one voice; tones emitted and state changes made before an
    error stay (they are in the queue / in `self._state`) -/
def run (lim : Limits) (env : Env) : Nat → Cfg → Outcome
  | 0, c => ⟨c.ps, [], .outOfFuel⟩
  | f + 1, c =>
    match step lim env c with
    | .done => ⟨c.ps, [], .ok⟩
    | .fail e => ⟨c.ps, [], .err e⟩
    | .cont c' evs => let o := run lim env f c'; { o with evs := evs ++ o.evs }

/-- `PLAY s` from state `ps` -/
def play (lim : Limits) (env : Env) (fuel : Nat) (ps : PlayState) (s : Bytes) : Outcome :=
  run lim env fuel ⟨ps, s, []⟩

end PcbV.Play
