import PcbV.Model.DataRead
/-
  Structured view of a tokenised program (statements with their separators, DATA items with their
  blank padding) and the lemmas that relate the byte-level scanner of `PcbV.DataRead` to it.
-/
namespace PcbV.DataRead
open PcbV PcbV.Gen.DataTokens

/-! ### character facts (from the generated tables) -/

theorem blank_cases {c : Nat} (h : isBlank c = true) : c = 32 ∨ c = 9 ∨ c = 10 := by
  simpa [isBlank, blanks] using h

theorem endStmt_cases {c : Nat} (h : isEndStmt c = true) : c = 0 ∨ c = 58 := by
  simpa [isEndStmt, endStatement] using h

theorem digit_cases {c : Nat} (h : isDigit c = true) :
    c = 48 ∨ c = 49 ∨ c = 50 ∨ c = 51 ∨ c = 52 ∨ c = 53 ∨ c = 54 ∨ c = 55 ∨ c = 56 ∨ c = 57 := by
  simpa [isDigit, digits] using h

theorem endStmt_not_blank {c : Nat} (h : isEndStmt c = true) : isBlank c = false := by
  rcases endStmt_cases h with rfl | rfl <;> decide

/-! ### list helpers -/

theorem dropWhile_append_all (p : Nat → Bool) (a b : Bytes) (h : ∀ c ∈ a, p c = true) :
    (a ++ b).dropWhile p = b.dropWhile p := by
  induction a with
  | nil => rfl
  | cons x a ih =>
    have hx := h x (by simp)
    simp [List.dropWhile, hx]
    exact ih (fun c hc => h c (by simp [hc]))

theorem dropWhile_head_false (p : Nat → Bool) (l : Bytes)
    (h : match l with | [] => True | c :: _ => p c = false) : l.dropWhile p = l := by
  cases l with
  | nil => rfl
  | cons c t => simp at h; simp [List.dropWhile, h]

theorem dropBlanks_append_blank (a b : Bytes) (h : ∀ c ∈ a, isBlank c = true) :
    dropBlanks (a ++ b) = dropBlanks b := by
  induction a with
  | nil => rfl
  | cons x a ih =>
    have hx := h x (by simp)
    simp [dropBlanks, hx]
    exact ih (fun c hc => h c (by simp [hc]))

theorem dropBlanks_head (c : Nat) (t : Bytes) (h : isBlank c = false) : dropBlanks (c :: t) = c :: t := by
  simp [dropBlanks, h]

theorem readTo_append (stop : Nat → Bool) (a b : Bytes) (h : ∀ c ∈ a, stop c = false) :
    readTo stop (a ++ b) = (a ++ (readTo stop b).1, (readTo stop b).2) := by
  induction a with
  | nil => rfl
  | cons x a ih =>
    have hx := h x (by simp)
    have := ih (fun c hc => h c (by simp [hc]))
    simp [readTo, hx, this]

theorem readTo_stop (stop : Nat → Bool) (c : Nat) (t : Bytes) (h : stop c = true) :
    readTo stop (c :: t) = ([], c :: t) := by
  simp [readTo, h]

theorem suffix_drop (code s : Bytes) (h : s <:+ code) : code.drop (posOf code s) = s := by
  obtain ⟨t, rfl⟩ := h
  simp [posOf]

/-! ### DATA items -/

/-- one DATA item as written: blank padding around the payload.
    `unq`: unquoted text (its own trim), `quo`: text between double quotes. -/
inductive Item
  | unq (lead text trail : Bytes)
  | quo (lead text trail : Bytes)
  | opn (lead text : Bytes)     -- quoted without closing quote: runs to the end of the line
  deriving DecidableEq, Repr

def allBlank (l : Bytes) : Bool := l.all isBlank

/-- byte allowed in unquoted text: not a comma, quote, colon or NUL -/
def uchar (c : Nat) : Bool := !(c == COMMA || c == QUOTE || isEndStmt c)

def headNonBlank : Bytes → Bool
  | [] => true
  | c :: _ => !isBlank c

def Item.render : Item → Bytes
  | .unq l t r => l ++ (t ++ r)
  | .quo l t r => l ++ (QUOTE :: (t ++ (QUOTE :: r)))
  | .opn l t => l ++ (QUOTE :: t)

def Item.wf : Item → Bool
  | .unq l t r => allBlank l && allBlank r && t.all uchar && headNonBlank t && headNonBlank t.reverse
  | .quo l t r => allBlank l && allBlank r && t.all (fun c => !(c == QUOTE || isEndLine c))
  | .opn l t => allBlank l && t.all (fun c => !(c == QUOTE || isEndLine c))

def Item.isOpen : Item → Bool
  | .opn _ _ => true
  | _ => false

/-- the string the item denotes (the spec: quotes stripped / unquoted text trimmed) -/
def Item.sval : Item → Bytes
  | .unq _ t _ => t
  | .quo _ t _ => t
  | .opn _ t => t

/-- what follows an item: a comma, a colon, a NUL -/
def Delim : Bytes → Prop
  | [] => False
  | d :: _ => d = COMMA ∨ isEndStmt d = true

theorem delim_dropBlanks {D : Bytes} (h : Delim D) : dropBlanks D = D := by
  cases D with
  | nil => exact h.elim
  | cons d t =>
    apply dropBlanks_head
    rcases h with rfl | h
    · decide
    · exact endStmt_not_blank h

theorem delim_endOrComma {D : Bytes} (h : Delim D) : endOrComma D = true := by
  cases D with
  | nil => rfl
  | cons d t =>
    rcases h with rfl | h
    · show (isEndStmt COMMA || COMMA == COMMA) = true
      decide
    · simp [endOrComma, h]

theorem allBlank_mem {l : Bytes} (h : allBlank l = true) : ∀ c ∈ l, isBlank c = true := by
  simpa [allBlank] using h

theorem stripR_text_trail (t r : Bytes) (hr : allBlank r = true) (ht : headNonBlank t.reverse = true) :
    stripR isBlank (t ++ r) = t := by
  unfold stripR
  rw [List.reverse_append, dropWhile_append_all _ _ _ (by
    intro c hc; exact allBlank_mem hr c (by simpa using hc))]
  rw [dropWhile_head_false]
  · simp
  · cases h : t.reverse with
    | nil => trivial
    | cons c u => rw [h] at ht; simpa [headNonBlank] using ht

theorem dropWhile_noquote (t : Bytes) (hq : ∀ c ∈ t, (c == QUOTE) = false) :
    t.dropWhile (fun x => x == QUOTE) = t := by
  apply dropWhile_head_false
  cases t with
  | nil => trivial
  | cons c u => exact hq c (by simp)

theorem stripR_noquote (t : Bytes) (hq : ∀ c ∈ t, (c == QUOTE) = false) :
    stripR (fun x => x == QUOTE) t = t := by
  unfold stripR
  rw [dropWhile_noquote _ (fun c hc => hq c (by simpa using hc))]
  simp

/-- string READ of a well-formed item; an unclosed quoted item must be followed by the end of the line -/
theorem readItem_str (fixed : Bool) (code : Bytes) (pos : Nat) (it : Item) (D : Bytes)
    (hwf : it.wf = true) (hD : Delim D) (hfit : it.isOpen = true → ∃ T : Bytes, D = 0 :: T) :
    readItem fixed code pos (it.render ++ D) true = .ok (.str it.sval) (posOf code D) := by
  obtain ⟨d, D', rfl⟩ : ∃ d D', D = d :: D' := by
    cases D with
    | nil => exact hD.elim
    | cons d t => exact ⟨d, t, rfl⟩
  have hstopd : (fun x => x == COMMA || x == QUOTE || isEndStmt x) d = true := by
    rcases hD with rfl | h
    · decide
    · simp [h]
  have hdq : (d == QUOTE) = false := by
    rcases hD with rfl | h
    · decide
    · rcases endStmt_cases h with rfl | rfl <;> decide
  cases it with
  | unq l t r =>
    simp only [Item.wf, Bool.and_eq_true] at hwf
    obtain ⟨⟨⟨⟨hl, hr⟩, ht⟩, hh⟩, hrev⟩ := hwf
    have hstop : ∀ c ∈ t ++ r, (fun x => x == COMMA || x == QUOTE || isEndStmt x) c = false := by
      intro c hc
      rcases List.mem_append.mp hc with hc | hc
      · have := (List.all_eq_true.mp ht) c hc
        simpa [uchar] using this
      · rcases blank_cases (allBlank_mem hr c hc) with rfl | rfl | rfl <;> decide
    cases t with
    | nil =>
      have hs3 : dropBlanks (Item.render (.unq l [] r) ++ d :: D') = d :: D' := by
        simp only [Item.render, List.append_assoc, List.nil_append]
        rw [dropBlanks_append_blank _ _ (allBlank_mem hl), dropBlanks_append_blank _ _ (allBlank_mem hr)]
        exact delim_dropBlanks hD
      unfold readItem
      simp only [if_true]
      rw [hs3, readTo_stop _ _ _ hstopd]
      simp only [hdq]
      rfl
    | cons c t' =>
      have hs3 : dropBlanks (Item.render (.unq l (c :: t') r) ++ d :: D') = (c :: t') ++ r ++ d :: D' := by
        simp only [Item.render, List.append_assoc]
        rw [dropBlanks_append_blank _ _ (allBlank_mem hl)]
        simp only [List.cons_append]
        apply dropBlanks_head
        simpa [headNonBlank] using hh
      unfold readItem
      simp only [if_true]
      rw [hs3, readTo_append _ _ _ hstop, readTo_stop _ _ _ hstopd]
      simp only [hdq, List.append_nil]
      have : stripBoth isBlank ((c :: t') ++ r) = c :: t' := by
        unfold stripBoth
        rw [dropWhile_head_false isBlank ((c :: t') ++ r) (by simpa [headNonBlank] using hh)]
        exact stripR_text_trail _ _ hr hrev
      rw [List.cons_append] at this
      simp [this, Item.sval]
  | quo l t r =>
    simp only [Item.wf, Bool.and_eq_true] at hwf
    obtain ⟨⟨hl, hr⟩, ht⟩ := hwf
    have ht' : ∀ c ∈ t, (fun x => x == QUOTE || isEndLine x) c = false := by
      intro c hc
      have := (List.all_eq_true.mp ht) c hc
      simpa using this
    have hs3 : dropBlanks (Item.render (.quo l t r) ++ d :: D') = QUOTE :: (t ++ QUOTE :: (r ++ d :: D')) := by
      simp only [Item.render, List.append_assoc, List.cons_append]
      rw [dropBlanks_append_blank _ _ (allBlank_mem hl)]
      apply dropBlanks_head
      decide
    unfold readItem
    simp only [if_true]
    rw [hs3, readTo_stop _ _ _ (by decide)]
    simp only [readString, show (QUOTE == QUOTE) = true from rfl, if_true]
    rw [readTo_append _ _ _ ht', readTo_stop _ _ _ (by decide)]
    simp only [List.append_nil, show (QUOTE == QUOTE) = true from rfl, if_true, List.isEmpty_nil]
    rw [dropBlanks_append_blank _ _ (allBlank_mem hr), delim_dropBlanks hD, delim_endOrComma hD]
    have hq : ∀ c ∈ t, (c == QUOTE) = false := by
      intro c hc
      have := ht' c hc
      simp only [Bool.or_eq_false_iff] at this
      exact this.1
    have : stripBoth (fun x => x == QUOTE) (QUOTE :: (t ++ [QUOTE])) = t := by
      unfold stripBoth stripR
      have h1 : (QUOTE :: (t ++ [QUOTE])).dropWhile (fun x => x == QUOTE) = (t ++ [QUOTE]).dropWhile (fun x => x == QUOTE) := by
        simp [List.dropWhile]
      rw [h1]
      cases t with
      | nil => simp [List.dropWhile]
      | cons c t' =>
        have hc := hq c (by simp)
        have h3 : (c :: t' ++ [QUOTE]).dropWhile (fun x => x == QUOTE) = c :: t' ++ [QUOTE] :=
          dropWhile_head_false _ _ (by simpa using hc)
        rw [h3, List.reverse_append]
        simp only [List.reverse_cons, List.reverse_nil, List.nil_append, List.singleton_append]
        have h2 : (QUOTE :: (t'.reverse ++ [c])).dropWhile (fun x => x == QUOTE) = (t'.reverse ++ [c]).dropWhile (fun x => x == QUOTE) := by
          simp [List.dropWhile]
        rw [h2, dropWhile_head_false]
        · simp
        · cases h : t'.reverse ++ [c] with
          | nil => trivial
          | cons x u =>
            have hx : x ∈ c :: t' := by
              have : x ∈ t'.reverse ++ [c] := by rw [h]; simp
              simpa [or_comm] using this
            simpa using hq x hx
    simp [this, Item.sval]
  | opn l t =>
    obtain ⟨T, hR⟩ := hfit rfl
    have hd : d = 0 := (List.cons.inj hR).1
    subst hd
    clear hR T
    simp only [Item.wf, Bool.and_eq_true] at hwf
    obtain ⟨hl, ht⟩ := hwf
    have ht' : ∀ c ∈ t, (fun x => x == QUOTE || isEndLine x) c = false := by
      intro c hc
      have := (List.all_eq_true.mp ht) c hc
      simpa using this
    have hq : ∀ c ∈ t, (c == QUOTE) = false := by
      intro c hc
      have := ht' c hc
      simp only [Bool.or_eq_false_iff] at this
      exact this.1
    have hs3 : dropBlanks (Item.render (.opn l t) ++ 0 :: D') = QUOTE :: (t ++ 0 :: D') := by
      simp only [Item.render, List.append_assoc, List.cons_append]
      rw [dropBlanks_append_blank _ _ (allBlank_mem hl)]
      apply dropBlanks_head
      decide
    unfold readItem
    simp only [if_true]
    rw [hs3, readTo_stop _ _ _ (by decide)]
    simp only [readString, show (QUOTE == QUOTE) = true from rfl, if_true]
    rw [readTo_append _ _ _ ht', readTo_stop _ _ _ (by decide)]
    simp only [List.append_nil, show ((0 : Nat) == QUOTE) = false from rfl, List.isEmpty_nil,
      Bool.false_eq_true, if_false, if_true]
    rw [delim_dropBlanks hD, delim_endOrComma hD]
    have : stripBoth (fun x => x == QUOTE) (QUOTE :: t) = t := by
      unfold stripBoth
      have h1 : (QUOTE :: t).dropWhile (fun x => x == QUOTE) = t.dropWhile (fun x => x == QUOTE) := by
        simp [List.dropWhile]
      rw [h1, dropWhile_noquote _ hq, stripR_noquote _ hq]
    simp [this, Item.sval]

/-! ### numeric READ -/

/-- unquoted item whose text is a (possibly empty) string of decimal digits -/
def Item.isNum : Item → Bool
  | .unq _ t _ => t.all isDigit
  | .quo _ _ _ => false
  | .opn _ _ => false

/-- item that cannot start a number: quoted, or unquoted text starting with something else than
    a digit, `.`, `+`, `-`, `&` -/
def Item.nonNum : Item → Bool
  | .quo _ _ _ => true
  | .opn _ _ => true
  | .unq _ (c :: _) _ => !(c == 38 || isDigit c || c == 46 || c == 43 || c == 45)
  | .unq _ [] _ => false

theorem readDecLoop_step (he hp : Bool) (w : Bytes) (c : Nat) (t : Bytes)
    (hc : isDigit c = true ∨ isBlank c = true) :
    readDecLoop he hp w (c :: t) = readDecLoop he hp (w ++ [c]) t := by
  rcases hc with hc | hc
  · rcases digit_cases hc with rfl | rfl | rfl | rfl | rfl | rfl | rfl | rfl | rfl | rfl <;>
      simp [readDecLoop, upper, isDigit, digits]
  · rcases blank_cases hc with rfl | rfl | rfl <;>
      simp [readDecLoop, upper, isDigit, digits, isBlank, blanks]

theorem readDecLoop_run (he hp : Bool) (w a s : Bytes)
    (ha : ∀ c ∈ a, isDigit c = true ∨ isBlank c = true) :
    readDecLoop he hp w (a ++ s) = readDecLoop he hp (w ++ a) s := by
  induction a generalizing w with
  | nil => simp
  | cons x a ih =>
    rw [List.cons_append, readDecLoop_step _ _ _ _ _ (ha x (by simp)), ih _ (fun c hc => ha c (by simp [hc]))]
    simp

theorem readDecLoop_delim (he hp : Bool) (w : Bytes) (d : Nat) (t : Bytes) (hd : Delim (d :: t)) :
    readDecLoop he hp w (d :: t) = (w, d :: t) := by
  rcases hd with rfl | h
  · simp [readDecLoop, upper, isDigit, digits, isBlank, blanks, COMMA]
  · rcases endStmt_cases h with rfl | rfl <;>
      simp [readDecLoop, upper, isDigit, digits, isBlank, blanks]

theorem digit_not_blank {c : Nat} (h : isDigit c = true) : isBlank c = false := by
  rcases digit_cases h with rfl | rfl | rfl | rfl | rfl | rfl | rfl | rfl | rfl | rfl <;> decide

theorem readItem_num (fixed : Bool) (code : Bytes) (pos : Nat) (l t r : Bytes) (D : Bytes)
    (hwf : (Item.unq l t r).wf = true) (hnum : (Item.unq l t r).isNum = true) (hD : Delim D) :
    readItem fixed code pos ((Item.unq l t r).render ++ D) false = .ok (.num t) (posOf code D) := by
  obtain ⟨d, D', rfl⟩ : ∃ d D', D = d :: D' := by
    cases D with
    | nil => exact hD.elim
    | cons d t => exact ⟨d, t, rfl⟩
  simp only [Item.wf, Bool.and_eq_true] at hwf
  obtain ⟨⟨⟨⟨hl, hr⟩, -⟩, hh⟩, hrev⟩ := hwf
  have hdig : ∀ c ∈ t, isDigit c = true := by simpa [Item.isNum] using hnum
  have hd38 : (d == 38) = false ∧ isDigit d = false ∧ (d == 46) = false ∧ (d == 43) = false ∧ (d == 45) = false := by
    rcases hD with rfl | h
    · decide
    · rcases endStmt_cases h with rfl | rfl <;> decide
  cases t with
  | nil =>
    have hs3 : dropBlanks (Item.render (.unq l [] r) ++ d :: D') = d :: D' := by
      simp only [Item.render, List.append_assoc, List.nil_append]
      rw [dropBlanks_append_blank _ _ (allBlank_mem hl), dropBlanks_append_blank _ _ (allBlank_mem hr)]
      exact delim_dropBlanks hD
    unfold readItem
    rw [hs3]
    have : readNumber (d :: D') = ([], d :: D') := by
      simp [readNumber, hd38]
    simp only [this, delim_dropBlanks hD, delim_endOrComma hD]
    rfl
  | cons c t' =>
    have hc := hdig c (by simp)
    have hs3 : dropBlanks (Item.render (.unq l (c :: t') r) ++ d :: D') = c :: (t' ++ (r ++ d :: D')) := by
      simp only [Item.render, List.append_assoc]
      rw [dropBlanks_append_blank _ _ (allBlank_mem hl)]
      simp only [List.cons_append]
      exact dropBlanks_head _ _ (digit_not_blank hc)
    have hc38 : (c == 38) = false := by
      rcases digit_cases hc with rfl | rfl | rfl | rfl | rfl | rfl | rfl | rfl | rfl | rfl <;> decide
    have hloop : readDecLoop false false [] (c :: (t' ++ (r ++ d :: D'))) = ((c :: t') ++ r, d :: D') := by
      have h1 : c :: (t' ++ (r ++ d :: D')) = ((c :: t') ++ r) ++ d :: D' := by simp
      rw [h1, readDecLoop_run _ _ _ _ _ (by
        intro x hx
        rcases List.mem_append.mp hx with hx | hx
        · exact Or.inl (hdig x hx)
        · exact Or.inr (allBlank_mem hr x hx)), readDecLoop_delim _ _ _ _ _ hD]
      simp
    have hnumr : readNumber (c :: (t' ++ (r ++ d :: D'))) = (c :: t', r ++ d :: D') := by
      simp only [readNumber, hc38, hc, Bool.true_or, if_true]
      simp only [Bool.false_eq_true, if_false]
      unfold readDec
      simp only [hloop]
      have htw : stripR isBlank ((c :: t') ++ r) = c :: t' := stripR_text_trail _ _ hr hrev
      have hsb : stripBoth isBlank (c :: t') = c :: t' := by
        unfold stripBoth
        rw [dropWhile_head_false isBlank (c :: t') (by simpa [headNonBlank] using hh)]
        have := stripR_text_trail (c :: t') [] rfl hrev
        simpa using this
      rw [htw, hsb]
      have hlen : (c :: (t' ++ (r ++ d :: D'))).length - (d :: D').length
          - (((c :: t') ++ r).length - (c :: t').length) = (c :: t').length := by
        simp only [List.length_cons, List.length_append]
        omega
      rw [hlen]
      have h2 : c :: (t' ++ (r ++ d :: D')) = (c :: t') ++ (r ++ d :: D') := by simp
      rw [h2, List.drop_left]
    unfold readItem
    rw [hs3]
    simp only [hnumr, dropBlanks_append_blank _ _ (allBlank_mem hr), delim_dropBlanks hD, delim_endOrComma hD]
    rfl

/-- numeric READ of an item that cannot start a number: Syntax error, attributed to the byte in
    front of the item (the DATA token or the comma), the value 0 (empty literal) having been assigned -/
theorem readItem_bad (code : Bytes) (pos : Nat) (it : Item) (D : Bytes)
    (hwf : it.wf = true) (hbad : it.nonNum = true) :
    readItem true code pos (it.render ++ D) false =
      .err Gen.E.stx (some (.num [])) (some ((posOf code (it.render ++ D) : Int) - 1)) := by
  have key : ∀ c rest, isBlank c = false → (c == 38) = false → isDigit c = false → (c == 46) = false →
      (c == 43) = false → (c == 45) = false → isEndStmt c = false → (c == COMMA) = false →
      dropBlanks (it.render ++ D) = c :: rest →
      readItem true code pos (it.render ++ D) false =
        .err Gen.E.stx (some (.num [])) (some ((posOf code (it.render ++ D) : Int) - 1)) := by
    intro c rest hb h38 hdg h46 h43 h45 he hcm hs3
    unfold readItem
    rw [hs3]
    have : readNumber (c :: rest) = ([], c :: rest) := by simp [readNumber, h38, hdg, h46, h43, h45]
    simp [this, dropBlanks_head _ _ hb, endOrComma, he, hcm]
  cases it with
  | quo l t r =>
    simp only [Item.wf, Bool.and_eq_true] at hwf
    obtain ⟨⟨hl, -⟩, -⟩ := hwf
    apply key QUOTE (t ++ QUOTE :: (r ++ D)) <;> try decide
    simp only [Item.render, List.append_assoc, List.cons_append]
    rw [dropBlanks_append_blank _ _ (allBlank_mem hl)]
    exact dropBlanks_head _ _ (by decide)
  | opn l t =>
    simp only [Item.wf, Bool.and_eq_true] at hwf
    apply key QUOTE (t ++ D) <;> try decide
    simp only [Item.render, List.append_assoc, List.cons_append]
    rw [dropBlanks_append_blank _ _ (allBlank_mem hwf.1)]
    exact dropBlanks_head _ _ (by decide)
  | unq l t r =>
    cases t with
    | nil => simp [Item.nonNum] at hbad
    | cons c t' =>
      simp only [Item.wf, Bool.and_eq_true] at hwf
      obtain ⟨⟨⟨⟨hl, -⟩, ht⟩, hh⟩, -⟩ := hwf
      have hu : uchar c = true := (List.all_eq_true.mp ht) c (by simp)
      simp only [uchar, Bool.not_eq_true', Bool.or_eq_false_iff] at hu
      simp only [Item.nonNum, Bool.not_eq_true', Bool.or_eq_false_iff] at hbad
      have hb : isBlank c = false := by simpa [headNonBlank] using hh
      apply key c (t' ++ (r ++ D)) hb hbad.1.1.1.1 hbad.1.1.1.2 hbad.1.1.2 hbad.1.2 hbad.2 hu.2 hu.1.1
      simp only [Item.render, List.append_assoc, List.cons_append]
      rw [dropBlanks_append_blank _ _ (allBlank_mem hl)]
      exact dropBlanks_head _ _ hb

/-! ### statements and programs -/

/-- building blocks of a statement that is not a DATA statement -/
inductive Atom
  | plain (c : Nat)                  -- ordinary byte
  | tok (c : Nat) (payload : Bytes)  -- token with trailing bytes (number constants, two-byte keywords)
  | str (content : Bytes)            -- closed string literal
  deriving DecidableEq, Repr

def Atom.render : Atom → Bytes
  | .plain c => [c]
  | .tok c p => c :: p
  | .str s => QUOTE :: (s ++ [QUOTE])

def Atom.wf : Atom → Bool
  | .plain c => !(c == QUOTE) && !(c == tRem) && !isEndStmt c && plusBytes c == 0
  | .tok c p => !(c == QUOTE) && !(c == tRem) && !isEndStmt c && plusBytes c == p.length
  | .str s => s.all (fun c => !(c == QUOTE) && !(c == 0))

def renderAtoms : List Atom → Bytes
  | [] => []
  | a :: as => a.render ++ renderAtoms as

inductive Stmt
  | data (pre : Bytes) (first : Item) (more : List Item)   -- blanks, DATA token, items separated by commas
  | other (atoms : List Atom)                               -- any other statement
  | rem (pre : Bytes) (text : Bytes)                        -- blanks, REM token, rest of the line
  deriving DecidableEq, Repr

def renderMore : List Item → Bytes
  | [] => []
  | it :: its => COMMA :: (it.render ++ renderMore its)

def firstNonBlankNot (tok : Nat) (b : Bytes) : Bool :=
  match dropBlanks b with
  | [] => true
  | c :: _ => !(c == tok)

def Stmt.render : Stmt → Bytes
  | .data pre f m => pre ++ (tData :: (f.render ++ renderMore m))
  | .other as => renderAtoms as
  | .rem pre t => pre ++ (tRem :: t)

def Stmt.wf : Stmt → Bool
  | .data pre f m => allBlank pre && f.wf && m.all Item.wf
  | .other as => as.all Atom.wf && firstNonBlankNot tData (renderAtoms as)
  | .rem pre t => allBlank pre && t.all (fun c => !(c == 0))

/-- what stands in front of a statement: a colon, or NUL + link pointer + line number -/
inductive Sep
  | colon
  | line (p1 p2 lo hi : Nat)
  deriving DecidableEq, Repr

def Sep.render : Sep → Bytes
  | .colon => [58]
  | .line a b c d => [0, a, b, c, d]

def Sep.wf : Sep → Bool
  | .colon => true
  | .line a b _ _ => !(a == 0 && b == 0)

abbrev Prog := List (Sep × Stmt)

def renderStmts : Prog → Bytes
  | [] => []
  | (sep, st) :: rest => sep.render ++ (st.render ++ renderStmts rest)

/-- the tokenised program: statements, then the end marker NUL NUL NUL -/
def renderProg (p : Prog) : Bytes := renderStmts p ++ [0, 0, 0]

def isColon : Sep → Bool
  | .colon => true
  | _ => false

/-- the statement behind starts a new line (or the program ends) -/
def nextIsLine : Prog → Bool
  | [] => true
  | (sep', _) :: _ => !isColon sep'

/-- an unclosed quoted item is the last item of its statement, and that statement the last of its line -/
def itemsOk : List Item → Prog → Bool
  | [], _ => true
  | it :: its, rest => (!it.isOpen || (its.isEmpty && nextIsLine rest)) && itemsOk its rest

def progWf : Prog → Bool
  | [] => true
  | (sep, st) :: rest =>
    sep.wf && st.wf && progWf rest &&
      (match st, rest with
       | .rem _ _, (sep', _) :: _ => !isColon sep'   -- a REM runs to the end of its line
       | _, _ => true) &&
      (match st with
       | .data _ f m => itemsOk (f :: m) rest
       | _ => true)

/-- DATA items of the program in line and statement order -/
def allItems : Prog → List Item
  | [] => []
  | (_, .data _ f m) :: rest => f :: (m ++ allItems rest)
  | (_, _) :: rest => allItems rest

/-! ### the scanner on well-formed statements -/

abbrev scan (s : Bytes) : Bytes := skipTo true isEndStmt false false 0 s

/-- the rest of a rendered program starts with a separator byte -/
def SepStart : Bytes → Prop
  | [] => False
  | d :: _ => isEndStmt d = true

theorem scan_sepStart {R : Bytes} (h : SepStart R) : scan R = R := by
  cases R with
  | nil => exact h.elim
  | cons d t =>
    rcases endStmt_cases h with rfl | rfl <;> simp [scan, skipTo, QUOTE, tRem, isEndStmt, endStatement]

theorem skipTo_payload (lit rem : Bool) (p s : Bytes) :
    skipTo true isEndStmt lit rem p.length (p ++ s) = skipTo true isEndStmt lit rem 0 s := by
  induction p with
  | nil => rfl
  | cons x p ih => simpa [skipTo] using ih

theorem skipTo_lit (s R : Bytes) (hs : s.all (fun c => !(c == QUOTE) && !(c == 0)) = true) :
    skipTo true isEndStmt true false 0 (s ++ QUOTE :: R) = skipTo true isEndStmt false false 0 R := by
  induction s with
  | nil => simp [skipTo, QUOTE, tRem, isEndStmt, endStatement, plusBytes, plusBytesTable, List.lookup]
  | cons x s ih =>
    simp only [List.all_cons, Bool.and_eq_true, Bool.not_eq_true', beq_eq_false_iff_ne] at hs
    obtain ⟨⟨hq, h0⟩, hs⟩ := hs
    have := ih (by simpa using hs)
    simp [skipTo, hq, h0, this]

theorem scan_atom (a : Atom) (R : Bytes) (h : a.wf = true) : scan (a.render ++ R) = scan R := by
  cases a with
  | plain c =>
    simp only [Atom.wf, Bool.and_eq_true, Bool.not_eq_true', beq_eq_false_iff_ne, beq_iff_eq] at h
    obtain ⟨⟨⟨hq, hr⟩, he⟩, hp⟩ := h
    have h0 : c ≠ 0 := by intro h0; subst h0; simp [isEndStmt, endStatement] at he
    simp [scan, Atom.render, skipTo, hq, hr, he, hp, h0]
  | tok c p =>
    simp only [Atom.wf, Bool.and_eq_true, Bool.not_eq_true', beq_eq_false_iff_ne, beq_iff_eq] at h
    obtain ⟨⟨⟨hq, hr⟩, he⟩, hp⟩ := h
    have h0 : c ≠ 0 := by intro h0; subst h0; simp [isEndStmt, endStatement] at he
    have := skipTo_payload false false p R
    simp [scan, Atom.render, skipTo, hq, hr, he, hp, h0, this]
  | str s =>
    have := skipTo_lit s R h
    simp only [scan, Atom.render, List.cons_append, List.append_assoc, List.singleton_append]
    simpa [skipTo, QUOTE, tRem] using this

theorem scan_atoms (as : List Atom) (R : Bytes) (h : as.all Atom.wf = true) :
    scan (renderAtoms as ++ R) = scan R := by
  induction as with
  | nil => rfl
  | cons a as ih =>
    simp only [List.all_cons, Bool.and_eq_true] at h
    simp only [renderAtoms, List.append_assoc]
    rw [scan_atom _ _ h.1, ih h.2]

theorem scan_blanks (b R : Bytes) (h : allBlank b = true) : scan (b ++ R) = scan R := by
  induction b with
  | nil => rfl
  | cons x b ih =>
    simp only [allBlank, List.all_cons, Bool.and_eq_true] at h
    have := ih (by simpa [allBlank] using h.2)
    rcases blank_cases h.1 with rfl | rfl | rfl <;>
      simpa [scan, skipTo, QUOTE, tRem, isEndStmt, endStatement, plusBytes, plusBytesTable, List.lookup] using this

theorem skipTo_rem (lit : Bool) (t R : Bytes) (ht : t.all (fun c => !(c == 0)) = true) :
    skipTo true isEndStmt lit true 0 (t ++ 0 :: R) = 0 :: R := by
  induction t generalizing lit with
  | nil => simp [skipTo, QUOTE, tRem, isEndStmt, endStatement]
  | cons x t ih =>
    simp only [List.all_cons, Bool.and_eq_true, Bool.not_eq_true', beq_eq_false_iff_ne] at ht
    obtain ⟨h0, ht⟩ := ht
    simp only [List.cons_append, skipTo, beq_iff_eq, h0, if_false]
    by_cases hq : x = QUOTE
    · subst hq
      simpa [QUOTE] using ih (!lit) (by simpa using ht)
    · simp only [hq, if_false]
      split <;> simpa using ih lit (by simpa using ht)

theorem scan_dropBlanks (s : Bytes) : scan (dropBlanks s) = scan s := by
  induction s with
  | nil => rfl
  | cons c t ih =>
    by_cases hb : isBlank c = true
    · have := scan_blanks [c] t (by simp [allBlank, hb])
      simp only [dropBlanks, hb, if_true, ih]
      exact this.symm
    · simp [dropBlanks, hb]

theorem dropBlanks_app (a b : Bytes) :
    dropBlanks (a ++ b) = match dropBlanks a with
      | [] => dropBlanks b
      | x :: xs => x :: (xs ++ b) := by
  induction a with
  | nil => simp [dropBlanks]
  | cons c a ih =>
    by_cases hb : isBlank c = true
    · simp [dropBlanks, hb, ih]
    · simp [dropBlanks, hb]

theorem renderProg_cons (sep : Sep) (st : Stmt) (rest : Prog) :
    renderProg ((sep, st) :: rest) = sep.render ++ (st.render ++ renderProg rest) := by
  simp [renderProg, renderStmts]

theorem renderProg_sepStart (p : Prog) : SepStart (renderProg p) := by
  cases p with
  | nil => exact (by decide : isEndStmt 0 = true)
  | cons x rest =>
    obtain ⟨sep, st⟩ := x
    cases sep <;> simp [renderProg_cons, Sep.render, SepStart, isEndStmt, endStatement]

/-- first DATA statement at or after the start of `p` -/
def firstData : Prog → Option (Item × List Item × Prog)
  | [] => none
  | (_, .data _ f m) :: rest => some (f, m, rest)
  | (_, .other _) :: rest => firstData rest
  | (_, .rem _ _) :: rest => firstData rest

/-- where `skip_to_token(DATA)` stops -/
def target (p : Prog) : Bytes :=
  match firstData p with
  | none => []
  | some (f, m, rest) => tData :: (f.render ++ (renderMore m ++ renderProg rest))

theorem stmt_nondata (st : Stmt) (rest : Prog) (hst : st.wf = true)
    (hnd : match st with | .data _ _ _ => False | _ => True)
    (hrem : match st, rest with | .rem _ _, (sep', _) :: _ => isColon sep' = false | _, _ => True) :
    ∃ c r, dropBlanks (st.render ++ renderProg rest) = c :: r ∧ (c == tData) = false ∧
      scan (st.render ++ renderProg rest) = renderProg rest := by
  have hss := renderProg_sepStart rest
  cases st with
  | data _ _ _ => exact hnd.elim
  | other as =>
    simp only [Stmt.wf, Bool.and_eq_true] at hst
    obtain ⟨has, hfirst⟩ := hst
    have hscan : scan (renderAtoms as ++ renderProg rest) = renderProg rest := by
      rw [scan_atoms _ _ has, scan_sepStart hss]
    simp only [Stmt.render]
    rw [dropBlanks_app]
    cases hdb : dropBlanks (renderAtoms as) with
    | nil =>
      cases hR : renderProg rest with
      | nil => rw [hR] at hss; exact hss.elim
      | cons d t =>
        rw [hR] at hss hscan
        refine ⟨d, t, ?_, ?_, ?_⟩
        · exact dropBlanks_head _ _ (endStmt_not_blank hss)
        · rcases endStmt_cases hss with rfl | rfl <;> decide
        · rw [hR] at *; exact hscan
    | cons x xs =>
      refine ⟨x, xs ++ renderProg rest, rfl, ?_, hscan⟩
      simpa [firstNonBlankNot, hdb] using hfirst
  | rem pre t =>
    simp only [Stmt.wf, Bool.and_eq_true] at hst
    obtain ⟨hpre, ht⟩ := hst
    have hR : ∃ R, renderProg rest = 0 :: R := by
      cases rest with
      | nil => exact ⟨[0, 0], rfl⟩
      | cons x rest' =>
        obtain ⟨sep', st'⟩ := x
        cases sep' with
        | colon => simp [isColon] at hrem
        | line a b c d => exact ⟨a :: b :: c :: d :: (st'.render ++ renderProg rest'), by simp [renderProg_cons, Sep.render]⟩
    obtain ⟨R, hR⟩ := hR
    refine ⟨tRem, t ++ renderProg rest, ?_, by decide, ?_⟩
    · simp only [Stmt.render, List.append_assoc, List.cons_append]
      rw [dropBlanks_append_blank _ _ (allBlank_mem hpre)]
      exact dropBlanks_head _ _ (by decide)
    · simp only [Stmt.render, List.append_assoc, List.cons_append]
      rw [scan_blanks _ _ hpre, hR]
      have := skipTo_rem false t R ht
      simpa [scan, skipTo, QUOTE, tRem] using this

theorem skipToToken_prog (p : Prog) (hwf : progWf p = true) :
    ∀ fuel X, p.length < fuel → scan X = renderProg p → skipToToken true tData fuel X = target p := by
  induction p with
  | nil =>
    intro fuel X hf hX
    cases fuel with
    | zero => omega
    | succ f =>
      simp only [scan] at hX
      simp [skipToToken, hX, renderProg, renderStmts, target, firstData]
  | cons x rest ih =>
    obtain ⟨sep, st⟩ := x
    intro fuel X hf hX
    cases fuel with
    | zero => omega
    | succ f =>
      simp only [progWf, Bool.and_eq_true] at hwf
      obtain ⟨⟨⟨⟨hsep, hst⟩, hrest⟩, hremc⟩, -⟩ := hwf
      have hf' : rest.length < f := by simp at hf; omega
      -- after the separator
      have hstep : skipToToken true tData (f + 1) X =
          match dropBlanks (st.render ++ renderProg rest) with
          | [] => []
          | c :: r => if c == tData then c :: r else skipToToken true tData f (c :: r) := by
        simp only [scan] at hX
        cases sep with
        | colon =>
          rw [skipToToken, hX]
          simp only [renderProg_cons, Sep.render, List.cons_append, List.nil_append]
          rfl
        | line a b c d =>
          have hab : (a == 0 && b == 0) = false := by
            simp only [Sep.wf, Bool.not_eq_true'] at hsep
            exact hsep
          rw [skipToToken, hX]
          simp only [renderProg_cons, Sep.render, List.cons_append, List.nil_append]
          simp only [beq_self_eq_true, if_true, hab]
          rfl
      rw [hstep]
      cases st with
      | data pre fi m =>
        simp only [Stmt.wf, Bool.and_eq_true] at hst
        have : dropBlanks ((Stmt.data pre fi m).render ++ renderProg rest) =
            tData :: (fi.render ++ (renderMore m ++ renderProg rest)) := by
          simp only [Stmt.render, List.append_assoc, List.cons_append]
          rw [dropBlanks_append_blank _ _ (allBlank_mem hst.1.1)]
          exact dropBlanks_head _ _ (by decide)
        rw [this]
        simp [target, firstData]
      | other as =>
        obtain ⟨c, r, hdb, hc, hscan⟩ := stmt_nondata (.other as) rest hst trivial (by cases rest <;> trivial)
        rw [hdb]
        simp only [hc, Bool.false_eq_true, if_false]
        rw [ih hrest f (c :: r) hf' (by rw [← hdb, scan_dropBlanks, hscan])]
        simp [target, firstData]
      | rem pre t =>
        obtain ⟨c, r, hdb, hc, hscan⟩ := stmt_nondata (.rem pre t) rest hst trivial (by
          cases rest with
          | nil => trivial
          | cons y ys => obtain ⟨s', t'⟩ := y; simpa using hremc)
        rw [hdb]
        simp only [hc, Bool.false_eq_true, if_false]
        rw [ih hrest f (c :: r) hf' (by rw [← hdb, scan_dropBlanks, hscan])]
        simp [target, firstData]

/-! ### the data pointer as a cursor into the structured program -/

/-- logical position of the DATA pointer: the items still to come in the current DATA statement,
    and the statements behind it -/
structure Cursor where
  its : List Item
  rest : Prog
  deriving DecidableEq, Repr

/-- the stream from the pointer on -/
def Cursor.render (c : Cursor) : Bytes := renderMore c.its ++ renderProg c.rest
/-- the items still to be read, in order -/
def Cursor.items (c : Cursor) : List Item := c.its ++ allItems c.rest
def Cursor.wf (c : Cursor) : Bool := c.its.all Item.wf && progWf c.rest && itemsOk c.its c.rest

def Cursor.next : Cursor → Option (Item × Cursor)
  | ⟨it :: its, rest⟩ => some (it, ⟨its, rest⟩)
  | ⟨[], rest⟩ =>
    match firstData rest with
    | none => none
    | some (f, m, r) => some (f, ⟨m, r⟩)

theorem firstData_items (p : Prog) :
    allItems p = match firstData p with
      | none => []
      | some (f, m, r) => f :: (m ++ allItems r) := by
  induction p with
  | nil => rfl
  | cons x rest ih =>
    obtain ⟨sep, st⟩ := x
    cases st <;> simp [allItems, firstData, ih]

theorem next_items (c : Cursor) :
    c.items = match c.next with
      | none => []
      | some (it, c') => it :: c'.items := by
  obtain ⟨its, rest⟩ := c
  cases its with
  | cons it its => simp [Cursor.items, Cursor.next]
  | nil =>
    simp only [Cursor.items, Cursor.next, List.nil_append]
    rw [firstData_items]
    cases firstData rest with
    | none => rfl
    | some v => obtain ⟨f, m, r⟩ := v; rfl

theorem firstData_wf (p : Prog) (h : progWf p = true) (f : Item) (m : List Item) (r : Prog)
    (hf : firstData p = some (f, m, r)) :
    f.wf = true ∧ m.all Item.wf = true ∧ progWf r = true ∧ itemsOk (f :: m) r = true := by
  induction p with
  | nil => simp [firstData] at hf
  | cons x rest ih =>
    obtain ⟨sep, st⟩ := x
    simp only [progWf, Bool.and_eq_true] at h
    obtain ⟨⟨⟨⟨-, hst⟩, hrest⟩, -⟩, hio⟩ := h
    cases st with
    | data pre f' m' =>
      simp only [firstData, Option.some.injEq, Prod.mk.injEq] at hf
      obtain ⟨rfl, rfl, rfl⟩ := hf
      simp only [Stmt.wf, Bool.and_eq_true] at hst
      exact ⟨hst.1.2, hst.2, hrest, hio⟩
    | other as => exact ih hrest (by simpa [firstData] using hf)
    | rem pre t => exact ih hrest (by simpa [firstData] using hf)

theorem nextIsLine_render (rest : Prog) (h : nextIsLine rest = true) : ∃ T : Bytes, renderProg rest = 0 :: T := by
  cases rest with
  | nil => exact ⟨[0, 0], rfl⟩
  | cons x rest' =>
    obtain ⟨sep', st'⟩ := x
    cases sep' with
    | colon => simp [nextIsLine, isColon] at h
    | line a b c d => exact ⟨a :: b :: c :: d :: (st'.render ++ renderProg rest'), by simp [renderProg_cons, Sep.render]⟩

theorem next_wf (c : Cursor) (h : c.wf = true) (it : Item) (c' : Cursor) (hn : c.next = some (it, c')) :
    it.wf = true ∧ c'.wf = true ∧ (it.isOpen = true → ∃ T : Bytes, c'.render = 0 :: T) := by
  obtain ⟨its, rest⟩ := c
  simp only [Cursor.wf, Bool.and_eq_true] at h
  have key : ∀ (i : Item) (l : List Item) (r : Prog), itemsOk (i :: l) r = true →
      itemsOk l r = true ∧ (i.isOpen = true → ∃ T : Bytes, (⟨l, r⟩ : Cursor).render = 0 :: T) := by
    intro i l r hio
    simp only [itemsOk, Bool.and_eq_true, Bool.or_eq_true, Bool.not_eq_true'] at hio
    refine ⟨hio.2, fun ho => ?_⟩
    rcases hio.1 with hno | ⟨hl, hr⟩
    · rw [ho] at hno; cases hno
    · have : l = [] := by simpa using hl
      subst this
      simpa [Cursor.render, renderMore] using nextIsLine_render r hr
  cases its with
  | cons i its =>
    simp only [Cursor.next, Option.some.injEq, Prod.mk.injEq] at hn
    obtain ⟨rfl, rfl⟩ := hn
    simp only [List.all_cons, Bool.and_eq_true] at h
    obtain ⟨hio', hfit⟩ := key _ _ _ h.2
    exact ⟨h.1.1.1, by simp [Cursor.wf, h.1.1.2, h.1.2, hio'], hfit⟩
  | nil =>
    simp only [Cursor.next] at hn
    cases hfd : firstData rest with
    | none => simp [hfd] at hn
    | some v =>
      obtain ⟨f, m, r⟩ := v
      simp only [hfd, Option.some.injEq, Prod.mk.injEq] at hn
      obtain ⟨rfl, rfl⟩ := hn
      obtain ⟨h1, h2, h3, h4⟩ := firstData_wf rest h.1.2 _ _ _ hfd
      obtain ⟨hio', hfit⟩ := key _ _ _ h4
      exact ⟨h1, by simp [Cursor.wf, h2, h3, hio'], hfit⟩

theorem firstData_split (p : Prog) (f : Item) (m : List Item) (r : Prog) (hf : firstData p = some (f, m, r)) :
    ∃ pre, renderProg p = pre ++ tData :: (f.render ++ (renderMore m ++ renderProg r)) := by
  induction p with
  | nil => simp [firstData] at hf
  | cons x rest ih =>
    obtain ⟨sep, st⟩ := x
    cases st with
    | data pre f' m' =>
      simp only [firstData, Option.some.injEq, Prod.mk.injEq] at hf
      obtain ⟨rfl, rfl, rfl⟩ := hf
      exact ⟨sep.render ++ pre, by simp [renderProg_cons, Stmt.render]⟩
    | other as =>
      obtain ⟨pre, hp⟩ := ih (by simpa [firstData] using hf)
      exact ⟨sep.render ++ (Stmt.other as).render ++ pre, by simp [renderProg_cons, hp]⟩
    | rem q t =>
      obtain ⟨pre, hp⟩ := ih (by simpa [firstData] using hf)
      exact ⟨sep.render ++ (Stmt.rem q t).render ++ pre, by simp [renderProg_cons, hp]⟩

/-- the byte in front of the next item (DATA token or comma) and the item are found at the pointer or behind it -/
theorem next_split (c : Cursor) (it : Item) (c' : Cursor) (hn : c.next = some (it, c')) :
    ∃ pre b, c.render = pre ++ b :: (it.render ++ c'.render) ∧ (b = tData ∨ b = COMMA) := by
  obtain ⟨its, rest⟩ := c
  cases its with
  | cons i its =>
    simp only [Cursor.next, Option.some.injEq, Prod.mk.injEq] at hn
    obtain ⟨rfl, rfl⟩ := hn
    exact ⟨[], COMMA, by simp [Cursor.render, renderMore], Or.inr rfl⟩
  | nil =>
    simp only [Cursor.next] at hn
    cases hfd : firstData rest with
    | none => simp [hfd] at hn
    | some v =>
      obtain ⟨f, m, r⟩ := v
      simp only [hfd, Option.some.injEq, Prod.mk.injEq] at hn
      obtain ⟨rfl, rfl⟩ := hn
      obtain ⟨pre, hp⟩ := firstData_split rest _ _ _ hfd
      exact ⟨pre, tData, by simp [Cursor.render, renderMore, hp], Or.inl rfl⟩

theorem cursor_delim (c : Cursor) : Delim c.render := by
  obtain ⟨its, rest⟩ := c
  cases its with
  | cons i its => exact Or.inl rfl
  | nil =>
    have := renderProg_sepStart rest
    simp only [Cursor.render, renderMore, List.nil_append]
    cases h : renderProg rest with
    | nil => rw [h] at this; exact this.elim
    | cons d t => rw [h] at this; exact Or.inr this

theorem renderStmts_length (p : Prog) : p.length ≤ (renderStmts p).length := by
  induction p with
  | nil => simp
  | cons x rest ih =>
    obtain ⟨sep, st⟩ := x
    cases sep <;> simp [renderStmts, Sep.render] <;> omega

/-- one pass of the loop of `read_`, started at a cursor -/
theorem readEntryS_cursor (code : Bytes) (pos : Nat) (c : Cursor) (hwf : c.wf = true) (isStr : Bool) :
    readEntryS true code pos c.render isStr =
      match c.next with
      | none => .err Gen.E.out_of_data none none
      | some (it, c') => readItem true code pos (it.render ++ c'.render) isStr := by
  obtain ⟨its, rest⟩ := c
  simp only [Cursor.wf, Bool.and_eq_true] at hwf
  cases its with
  | cons i its =>
    simp only [Cursor.render, renderMore, Cursor.next, List.cons_append, List.append_assoc]
    simp [readEntryS, atEnd, isEndStmt, endStatement, COMMA]
  | nil =>
    have hss := renderProg_sepStart rest
    have hscan := skipToToken_prog rest hwf.1.2 ((renderProg rest).length + 1) (renderProg rest)
      (by have := renderStmts_length rest; simp [renderProg]; omega) (scan_sepStart hss)
    have hat : atEnd (renderProg rest) = true := by
      cases h : renderProg rest with
      | nil => rfl
      | cons d t => rw [h] at hss; exact hss
    simp only [Cursor.render, renderMore, List.nil_append, Cursor.next]
    unfold readEntryS
    simp only [hat, if_true, hscan, target]
    cases firstData rest with
    | none => rfl
    | some v =>
      obtain ⟨f, m, r⟩ := v
      simp [Cursor.render]

/-! ### the line table -/

def Sep.lineNo : Sep → Option Nat
  | .colon => none
  | .line _ _ lo hi => some (lo + 256 * hi)

/-- `program.line_numbers` of a layout: each line number with the offset of the NUL that starts the line,
    then 65536 ↦ end of the program -/
def lineTable : Nat → Prog → List (Nat × Nat)
  | off, [] => [(65536, off)]
  | off, (sep, st) :: rest =>
    match sep.lineNo with
    | some n => (n, off) :: lineTable (off + (sep.render ++ st.render).length) rest
    | none => lineTable (off + (sep.render ++ st.render).length) rest

theorem renderStmts_append (p q : Prog) : renderStmts (p ++ q) = renderStmts p ++ renderStmts q := by
  induction p with
  | nil => rfl
  | cons x rest ih => obtain ⟨sep, st⟩ := x; simp [renderStmts, ih]

theorem renderProg_append (p q : Prog) : renderProg (p ++ q) = renderStmts p ++ renderProg q := by
  simp [renderProg, renderStmts_append]

theorem progWf_append_right (p q : Prog) (h : progWf (p ++ q) = true) : progWf q = true := by
  induction p with
  | nil => exact h
  | cons x rest ih =>
    obtain ⟨sep, st⟩ := x
    simp only [List.cons_append, progWf, Bool.and_eq_true] at h
    exact ih h.1.1.2

/-- a successful lookup points at the first line with that number -/
theorem lookup_lineTable (p : Prog) : ∀ (off n o : Nat), n < 65536 → (lineTable off p).lookup n = some o →
    ∃ p1 sep st p2, p = p1 ++ (sep, st) :: p2 ∧ sep.lineNo = some n ∧ o = off + (renderStmts p1).length ∧
      ∀ x ∈ p1, x.1.lineNo ≠ some n := by
  induction p with
  | nil =>
    intro off n o hn h
    simp only [lineTable, List.lookup] at h
    split at h
    · next heq => have : n = 65536 := by simpa using heq
                  omega
    · cases h
  | cons x rest ih =>
    obtain ⟨sep, st⟩ := x
    intro off n o hn h
    cases hl : sep.lineNo with
    | none =>
      simp only [lineTable, hl] at h
      obtain ⟨p1, s1, t1, p2, hp, hs1, ho, hfirst⟩ := ih _ n o hn h
      refine ⟨(sep, st) :: p1, s1, t1, p2, by simp [hp], hs1, ?_, ?_⟩
      · simp only [renderStmts, List.length_append] at ho ⊢; omega
      · intro y hy
        rcases List.mem_cons.mp hy with rfl | hy
        · simp [hl]
        · exact hfirst y hy
    | some m =>
      simp only [lineTable, hl, List.lookup] at h
      split at h
      · next heq =>
        have hnm : n = m := by simpa using heq
        subst hnm
        injection h with h
        exact ⟨[], sep, st, rest, rfl, hl, by simp [renderStmts, h], by simp⟩
      · next hne =>
        obtain ⟨p1, s1, t1, p2, hp, hs1, ho, hfirst⟩ := ih _ n o hn h
        refine ⟨(sep, st) :: p1, s1, t1, p2, by simp [hp], hs1, ?_, ?_⟩
        · simp only [renderStmts, List.length_append] at ho ⊢; omega
        · intro y hy
          rcases List.mem_cons.mp hy with rfl | hy
          · simp only [hl]; intro hc; injection hc with hc; subst hc; simp at hne
          · exact hfirst y hy

theorem lookup_lineTable_none (p : Prog) : ∀ (off n : Nat), n < 65536 → (∀ x ∈ p, x.1.lineNo ≠ some n) →
    (lineTable off p).lookup n = none := by
  induction p with
  | nil =>
    intro off n hn _
    simp only [lineTable, List.lookup]
    split
    · next heq => have : n = 65536 := by simpa using heq
                  omega
    · rfl
  | cons x rest ih =>
    obtain ⟨sep, st⟩ := x
    intro off n hn h
    have hrest := ih (off + (sep.render ++ st.render).length) n hn (fun y hy => h y (by simp [hy]))
    have hx := h (sep, st) (by simp)
    cases hl : sep.lineNo with
    | none => simp only [lineTable, hl]; exact hrest
    | some m =>
      simp only [lineTable, hl, List.lookup]
      split
      · next heq =>
        have hnm : n = m := by simpa using heq
        subst hnm
        exact absurd hl hx
      · exact hrest

theorem lookup_lineTable_isSome (p : Prog) : ∀ (off n : Nat), (∃ x ∈ p, x.1.lineNo = some n) →
    ((lineTable off p).lookup n).isSome = true := by
  induction p with
  | nil => intro off n h; obtain ⟨x, hx, -⟩ := h; cases hx
  | cons x rest ih =>
    obtain ⟨sep, st⟩ := x
    intro off n h
    cases hl : sep.lineNo with
    | none =>
      simp only [lineTable, hl]
      apply ih
      obtain ⟨y, hy, hyn⟩ := h
      rcases List.mem_cons.mp hy with rfl | hy
      · rw [hl] at hyn; cases hyn
      · exact ⟨y, hy, hyn⟩
    | some m =>
      simp only [lineTable, hl, List.lookup]
      split
      · rfl
      · next hne =>
        apply ih
        obtain ⟨y, hy, hyn⟩ := h
        rcases List.mem_cons.mp hy with rfl | hy
        · rw [hl] at hyn; injection hyn with hyn; subst hyn; simp at hne
        · exact ⟨y, hy, hyn⟩

/-! ### `get_line_number` -/

theorem lineOf_fold_lt (tbl : List (Nat × Nat)) (pos : Int) (L : Int) :
    ∀ pre : Int, pre < L → (∀ e ∈ tbl, (e.1 : Int) < L) →
    tbl.foldl (fun pre e => if (e.2 : Int) ≤ pos ∧ (e.1 : Int) > pre then (e.1 : Int) else pre) pre < L := by
  induction tbl with
  | nil => intro pre h _; exact h
  | cons e tbl ih =>
    intro pre h hall
    simp only [List.foldl]
    apply ih
    · split
      · exact hall e (by simp)
      · exact h
    · intro e' he'; exact hall e' (by simp [he'])

theorem lineOf_fold_after (tbl : List (Nat × Nat)) (pos : Int) :
    ∀ pre : Int, (∀ e ∈ tbl, pos < (e.2 : Int)) →
    tbl.foldl (fun pre e => if (e.2 : Int) ≤ pos ∧ (e.1 : Int) > pre then (e.1 : Int) else pre) pre = pre := by
  induction tbl with
  | nil => intro pre _; rfl
  | cons e tbl ih =>
    intro pre hall
    simp only [List.foldl]
    have := hall e (by simp)
    rw [if_neg (by omega)]
    exact ih pre (fun e' he' => hall e' (by simp [he']))

/-! ### runs of READs -/

/-- what a READ into a string (`true`) / numeric (`false`) variable receives from an item -/
def specVal (isStr : Bool) (it : Item) : Val :=
  if isStr then .str it.sval else .num it.sval

/-- the item can be read into a variable of this kind -/
def Compat (isStr : Bool) (it : Item) : Bool := isStr || it.isNum

/-- the first `ts.length` items exist and fit the variable kinds -/
def CompatAll : List Bool → List Item → Prop
  | [], _ => True
  | _ :: _, [] => False
  | t :: ts, it :: its => Compat t it = true ∧ CompatAll ts its

instance compatAllDec : (ts : List Bool) → (its : List Item) → Decidable (CompatAll ts its)
  | [], _ => isTrue trivial
  | _ :: _, [] => isFalse (fun h => h)
  | _ :: ts, _ :: its => @instDecidableAnd _ _ _ (compatAllDec ts its)

theorem readItem_ne_ood (code : Bytes) (pos : Nat) (s : Bytes) (isStr : Bool) :
    readItem true code pos s isStr ≠ .err Gen.E.out_of_data none none := by
  unfold readItem
  simp only
  repeat' split
  all_goals simp [Gen.E.stx, Gen.E.out_of_data]

theorem posOf_self (code : Bytes) : posOf code code = 0 := by simp [posOf]

/-- one variable, at a cursor that lies inside `code` -/
theorem readEntry_cursor (code : Bytes) (c : Cursor) (hwf : c.wf = true) (hs : c.render <:+ code)
    (isStr : Bool) :
    readEntry true code (posOf code c.render) isStr =
      match c.next with
      | none => .err Gen.E.out_of_data none none
      | some (it, c') => readItem true code (posOf code c.render) (it.render ++ c'.render) isStr := by
  unfold readEntry
  rw [suffix_drop code _ hs]
  exact readEntryS_cursor code _ c hwf isStr

theorem next_suffix (code : Bytes) (c : Cursor) (hs : c.render <:+ code) (it : Item) (c' : Cursor)
    (hn : c.next = some (it, c')) : c'.render <:+ code := by
  obtain ⟨pre, b, hr, -⟩ := next_split c it c' hn
  obtain ⟨q, hq⟩ := hs
  refine ⟨q ++ pre ++ b :: it.render, ?_⟩
  rw [← hq, hr]
  simp

theorem readItem_compat (code : Bytes) (pos : Nat) (isStr : Bool) (it : Item) (D : Bytes)
    (hwf : it.wf = true) (hc : Compat isStr it = true) (hD : Delim D)
    (hfit : it.isOpen = true → ∃ T : Bytes, D = 0 :: T) :
    readItem true code pos (it.render ++ D) isStr = .ok (specVal isStr it) (posOf code D) := by
  cases isStr with
  | true => simpa [specVal] using readItem_str true code pos it D hwf hD hfit
  | false =>
    cases it with
    | quo l t r => simp [Compat, Item.isNum] at hc
    | opn l t => simp [Compat, Item.isNum] at hc
    | unq l t r =>
      have hn : (Item.unq l t r).isNum = true := by simpa [Compat] using hc
      simpa [specVal, Item.sval] using readItem_num true code pos l t r D hwf hn hD

/-- a run of READs from a cursor: values are the items in order, no error, and the pointer ends at the
    cursor `ts.length` items further -/
theorem readVars_cursor (code : Bytes) (ts : List Bool) :
    ∀ (c : Cursor), c.wf = true → c.render <:+ code → CompatAll ts c.items →
    ∃ c' : Cursor, (readVars true code (posOf code c.render) ts) =
            ⟨List.zipWith specVal ts c.items, none, posOf code c'.render⟩ ∧
          c'.wf = true ∧ c'.render <:+ code ∧ c'.items = c.items.drop ts.length := by
  induction ts with
  | nil =>
    intro c hwf hs _
    exact ⟨c, by simp [readVars], hwf, hs, by simp⟩
  | cons t ts ih =>
    intro c hwf hs hc
    have hni := next_items c
    cases hn : c.next with
    | none => rw [hn] at hni; rw [hni] at hc; exact hc.elim
    | some v =>
      obtain ⟨it, c1⟩ := v
      rw [hn] at hni
      simp only at hni
      rw [hni] at hc
      obtain ⟨hct, hcs⟩ := hc
      obtain ⟨hitwf, hc1wf, hfit⟩ := next_wf c hwf it c1 hn
      have hs1 := next_suffix code c hs it c1 hn
      obtain ⟨c', hr, hw', hs', hi'⟩ := ih c1 hc1wf hs1 hcs
      refine ⟨c', ?_, hw', hs', ?_⟩
      · have he := readEntry_cursor code c hwf hs t
        rw [hn] at he
        simp only at he
        rw [readItem_compat code _ t it _ hitwf hct (cursor_delim c1) hfit] at he
        simp only [readVars, he, hr, hni, List.zipWith_cons_cons]
      · rw [hni, hi']; simp

/-- a run of READs from the initial pointer -/
theorem start_run (p : Prog) (hwf : progWf p = true) (ts : List Bool) (hc : CompatAll ts (allItems p)) :
    ∃ c' : Cursor, readVars true (renderProg p) 0 ts =
            ⟨List.zipWith specVal ts (allItems p), none, posOf (renderProg p) c'.render⟩ ∧
          c'.wf = true ∧ c'.render <:+ renderProg p ∧ c'.items = (allItems p).drop ts.length := by
  have h0 : (⟨[], p⟩ : Cursor).render = renderProg p := by simp [Cursor.render, renderMore]
  have h1 : (⟨[], p⟩ : Cursor).items = allItems p := by simp [Cursor.items]
  have := readVars_cursor (renderProg p) ts ⟨[], p⟩ (by simp [Cursor.wf, hwf, itemsOk])
    (by rw [h0]; exact List.suffix_refl _) (by rw [h1]; exact hc)
  rw [h0, h1, posOf_self] at this
  exact this

/-! ### READ targets -/

/-- the store-threading loop agrees with `readVars` on a run without error: its result is the left-to-right
    fold of `assign` over the values delivered -/
theorem readAssign_of_readVars (code : Bytes) (conv : Bytes → Nat) (tgs : List (Bool × Target)) :
    ∀ (pos : Nat) (st : Store) (vals : List Val) (pos' : Nat),
    readVars true code pos (tgs.map (·.1)) = ⟨vals, none, pos'⟩ →
    readAssign true code conv pos st tgs =
      ((List.zip (tgs.map (·.2)) vals).foldl (fun s x => assign conv s x.1 x.2) st, none, pos') := by
  induction tgs with
  | nil =>
    intro pos st vals pos' h
    simp only [List.map_nil, readVars, ReadOut.mk.injEq] at h
    obtain ⟨rfl, -, rfl⟩ := h
    simp [readAssign]
  | cons x rest ih =>
    obtain ⟨t, tg⟩ := x
    intro pos st vals pos' h
    simp only [List.map_cons, readVars] at h
    simp only [readAssign]
    cases he : readEntry true code pos t with
    | ok v p =>
      rw [he] at h
      simp only [ReadOut.mk.injEq] at h
      obtain ⟨hv, herr, hp⟩ := h
      have := ih p (assign conv st tg v) (readVars true code p (rest.map (·.1))).vals pos' (by
        cases hr : readVars true code p (rest.map (·.1)) with
        | mk a b c => rw [hr] at herr hp; simp only at herr hp; subst herr hp; rfl)
      simp only []
      rw [this, ← hv]
      simp
    | err e a ep =>
      rw [he] at h
      simp at h

end PcbV.DataRead
