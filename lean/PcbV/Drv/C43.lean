import PcbV.Model.SessionApi
/-
  Driver for C43.  Requests (words after `C43`):
    int <n>                       set_variable('N%', n); get_variable          → ok <n> | err 6
    bool <0|1>                    the same for a bool                            → ok <n>
    flt <s|d> <neg> <num> <k>     float ±num·2^k into N! / N#, read back        → ok <ovf> z | ok <ovf> <neg> <m> <e> (m odd) | err 5
    flt <s|d> inf <neg> / nan
    fltold <s|d> <neg> <num> <k>  the code before the repair                     → same | crash
    str b <hex>                   bytes into S$                                  → ok <hex> | err 15
    str u <cps>                   unicode (code points, `.`-separated hex) into S$; bytes and as_type=str
                                                                                 → ok <hex> <cps> | err 15
    lst <n|0|1> <dims|-> <rank> <data>
        OPTION BASE (n: none), DIM A(dims) (-: none), A() = data; reply `<ok|err e> <to_list>`
        data: values `,`  rows `/`  planes `|`, an empty (sub)list is `e`
    hist <op>;<op>;…              one history over several arrays (names are numbers), one reply token per op:
        ob0 | ob1                 OPTION BASE                     → ok | e<n>
        d:<n>:<dims>              DIM                             → ok | e<n>
        e:<n>,<n>…                ERASE                           → ok | e<n>
        c                         CLEAR / NEW                     → ok
        s<rank>:<n>:<data>        set_variable('<n>%()', data)    → ok | e<n>
        g:<n>                     get_variable('<n>%()')          → g<rank>=<data> | gmissing
        r:<n>:<idx>               evaluate('<n>%(idx)')           → v<int> | e<n>   (creates the array if need be)
        w:<n>:<idx>:<v>           <n>%(idx)=v                     → ok | e<n>
-/
namespace PcbV.Drv.C43
open PcbV PcbV.SessionApi PcbV.Mbf PcbV.Arrays

def cp437 : Codepage.Cp := Codepage.build PcbV.Gen.Codepages.cp437 true

def fmtOf (s : String) : Option Fmt :=
  if s == "s" then some single else if s == "d" then some double else none

/-- strip trailing zero bits -/
def oddPart : Nat → Nat → Int → Nat × Int
  | 0, m, e => (m, e)
  | fuel + 1, m, e => if m ≠ 0 ∧ m % 2 = 0 then oddPart fuel (m / 2) (e + 1) else (m, e)

def showPy : PyFloat → String
  | .nan => "nan"
  | .inf neg => "inf " ++ showBool neg
  | .fin neg num k =>
    if num = 0 then "z" else
    let (m, e) := oddPart 4096 num k
    showBool neg ++ " " ++ toString m ++ " " ++ toString e

def showSet (f : Fmt) (r : R (F × Bool)) : String :=
  match r with
  | .ok (v, ovf) => "ok " ++ showBool ovf ++ " " ++ showPy (toValue f v)
  | .error e => "err " ++ toString e

def hexNumAux : List Char → Nat → Option Nat
  | [], acc => some acc
  | c :: r, acc => match hexVal c with
    | some v => hexNumAux r (16 * acc + v)
    | none => none

def hexNum (s : String) : Option Nat := if s.isEmpty then none else hexNumAux s.toList 0

def parseCps (s : String) : Option (List Nat) :=
  if s == "-" then some [] else (s.splitOn ".").mapM hexNum

def showCps (u : List Nat) : String :=
  if u.isEmpty then "-" else ".".intercalate (u.map fun n => String.ofList (Nat.toDigits 16 n))

def parseRow (s : String) : Option (List Int) :=
  if s == "e" then some [] else (s.splitOn ",").mapM String.toInt?

def parseRows (s : String) : Option (List (List Int)) :=
  if s == "e" then some [] else (s.splitOn "/").mapM parseRow

def parsePlanes (s : String) : Option (List (List (List Int))) :=
  if s == "e" then some [] else (s.splitOn "|").mapM parseRows

def showRow (l : List Int) : String := if l.isEmpty then "e" else ",".intercalate (l.map toString)
def showRows (l : List (List Int)) : String := if l.isEmpty then "e" else "/".intercalate (l.map showRow)
def showPlanes (l : List (List (List Int))) : String :=
  if l.isEmpty then "e" else "|".intercalate (l.map showRows)

def showPyList : PyList → String
  | .missing => "missing"
  | .l1 l => "1 " ++ showRow l
  | .l2 l => "2 " ++ showRows l
  | .l3 l => "3 " ++ showPlanes l
  | .other => "other"

def setup (base dims : String) : Option State :=
  let st0 := State.init
  let st1 : Option State :=
    if base == "n" then some st0
    else if base == "0" then some (optionBase st0 0).1
    else if base == "1" then some (optionBase st0 1).1
    else none
  match st1 with
  | none => none
  | some st1 =>
    if dims == "-" then some st1 else
    match (dims.splitOn ",").mapM String.toInt? with
    | none => none
    | some d =>
      match dim st1 [(1, d)] with
      | (st2, none) => some st2
      | (_, some _) => none

def showLst (r : State × Option Nat) : String :=
  (match r.2 with | none => "ok" | some e => "err " ++ toString e) ++ " " ++ showPyList (toList r.1 1)

def showErr : Option Nat → String
  | none => "ok"
  | some e => "e" ++ toString e

def showG : PyList → String
  | .missing => "gmissing"
  | .l1 l => "g1=" ++ showRow l
  | .l2 l => "g2=" ++ showRows l
  | .l3 l => "g3=" ++ showPlanes l
  | .other => "gother"

def parseIdx (s : String) : Option (List Int) := (s.splitOn ",").mapM String.toInt?

/-- one step of a history: new state and the reply token (`bad` for an unparsable op) -/
def histStep (st : State) (op : String) : State × String :=
  match op.splitOn ":" with
  | ["ob0"] => let r := optionBase st 0; (r.1, showErr r.2)
  | ["ob1"] => let r := optionBase st 1; (r.1, showErr r.2)
  | ["c"] => (clearAll st, "ok")
  | ["d", n, dims] =>
    match n.toNat?, parseIdx dims with
    | some n, some d => let r := dim st [(n, d)]; (r.1, showErr r.2)
    | _, _ => (st, "bad")
  | ["e", names] =>
    match (names.splitOn ",").mapM String.toNat? with
    | some l => let r := erase st l; (r.1, showErr r.2)
    | none => (st, "bad")
  | ["s1", n, data] =>
    match n.toNat?, parseRow data with
    | some n, some l => let r := fromList1 st n l; (r.1, showErr r.2)
    | _, _ => (st, "bad")
  | ["s2", n, data] =>
    match n.toNat?, parseRows data with
    | some n, some l => let r := fromList2 st n l; (r.1, showErr r.2)
    | _, _ => (st, "bad")
  | ["s3", n, data] =>
    match n.toNat?, parsePlanes data with
    | some n, some l => let r := fromList3 st n l; (r.1, showErr r.2)
    | _, _ => (st, "bad")
  | ["g", n] =>
    match n.toNat? with
    | some n => (st, showG (toList st n))
    | none => (st, "bad")
  | ["r", n, idx] =>
    match n.toNat?, parseIdx idx with
    | some n, some i =>
      match Arrays.get st n i with
      | (st', .ok v) => (st', "v" ++ toString v)
      | (st', .error e) => (st', "e" ++ toString e)
    | _, _ => (st, "bad")
  | ["w", n, idx, v] =>
    match n.toNat?, parseIdx idx, v.toInt? with
    | some n, some i, some v => let r := Arrays.set st n i v; (r.1, showErr r.2)
    | _, _, _ => (st, "bad")
  | _ => (st, "bad")

def histRun (st : State) : List String → List String
  | [] => []
  | op :: ops => let r := histStep st op; r.2 :: histRun r.1 ops

def handle : List String → String
  | ["hist", ops] => "ok " ++ ";".intercalate (histRun State.init (ops.splitOn ";"))
  | ["int", n] =>
    match n.toInt? with
    | some n => showR toString ((setInt n).map getInt)
    | none => "bad-op"
  | ["bool", b] => showR toString ((setInt (ofBool (b == "1"))).map getInt)
  | ["flt", f, "nan"] =>
    match fmtOf f with
    | some f => showSet f (setFloat f .nan)
    | none => "bad-op"
  | ["flt", f, "inf", neg] =>
    match fmtOf f with
    | some f => showSet f (setFloat f (.inf (neg == "1")))
    | none => "bad-op"
  | ["flt", f, neg, num, k] =>
    match fmtOf f, num.toNat?, k.toInt? with
    | some f, some num, some k => showSet f (setFloat f (.fin (neg == "1") num k))
    | _, _, _ => "bad-op"
  | ["fltold", f, neg, num, k] =>
    match fmtOf f, num.toNat?, k.toInt? with
    | some f, some num, some k =>
      match fromValueOld f (neg == "1") num k with
      | .crash => "crash"
      | .res (.ok v) => showSet f (.ok (v, false))
      | .res (.error (e, v)) => if e = overflow then showSet f (.ok (v, true)) else "err " ++ toString e
    | _, _, _ => "bad-op"
  | ["str", "b", h] =>
    match ofHex h with
    | some b => showR toHex (setBytes b)
    | none => "bad-op"
  | ["str", "u", cps] =>
    match parseCps cps with
    | some u =>
      match setUnicode cp437 u with
      | .ok b => "ok " ++ toHex b ++ " " ++ showCps (getUnicode cp437 b)
      | .error e => "err " ++ toString e
    | none => "bad-op"
  | ["lst", base, dims, rank, data] =>
    match setup base dims with
    | none => "bad-op"
    | some st =>
      match rank with
      | "1" => match parseRow data with
        | some l => showLst (fromList1 st 1 l)
        | none => "bad-op"
      | "2" => match parseRows data with
        | some l => showLst (fromList2 st 1 l)
        | none => "bad-op"
      | "3" => match parsePlanes data with
        | some l => showLst (fromList3 st 1 l)
        | none => "bad-op"
      | _ => "bad-op"
  | _ => "bad-op"

end PcbV.Drv.C43
